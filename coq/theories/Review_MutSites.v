(* Review_MutSites.v — the hand-maintained review of every function that writes a go/ast node field, writes an
   element of a slice of nodes, calls an astutil.Cursor mutator or calls astcopy (C05). Each entry pins the EXACT
   multiset of sites found in that function; a new write site, a new mutator call or a vanished astcopy call makes
   the entry differ from the inventory regenerated from the source and breaks C05_mutation_sites_covered. *)
From GC Require Import Base Model_Inventory.

Definition reviewed_mut_fns : list reviewed_fn := [
  {| rf_file := "badCond_checker.go"; rf_fn := "badCondChecker.warnForStmt";
     rf_sites := [("astcopy:BinaryExpr", 1%N); ("field-write:BinaryExpr.Op", 1%N)];
     rf_why := "suggest := astcopy.BinaryExpr(cond); the Op write hits suggest (Model_Heap.run_badCond, C05_badCond_frame)" |};
  {| rf_file := "boolExprSimplify_checker.go"; rf_fn := "boolExprSimplifyChecker.VisitExpr";
     rf_sites := [("astcopy:Expr", 1%N)];
     rf_why := "the only entry point of the rewriting passes: y := c.simplifyBool(astcopy.Expr(x)) — every pass below receives the copy (Model_Heap.run_boolExprSimplify, C05_boolExprSimplify_frame)" |};
  {| rf_file := "boolExprSimplify_checker.go"; rf_fn := "boolExprSimplifyChecker.combineChecks";
     rf_sites := [("cursor:Replace", 1%N); ("field-write:BinaryExpr.Op", 1%N)];
     rf_why := "called only from simplifyBool on the copy made in VisitExpr: cursor.Replace and Op writes hit copy nodes" |};
  {| rf_file := "boolExprSimplify_checker.go"; rf_fn := "boolExprSimplifyChecker.doubleNegation";
     rf_sites := [("cursor:Replace", 1%N)];
     rf_why := "called only from simplifyBool on the copy made in VisitExpr" |};
  {| rf_file := "boolExprSimplify_checker.go"; rf_fn := "boolExprSimplifyChecker.foldRanges";
     rf_sites := [("cursor:Replace", 2%N); ("field-write:BasicLit.Value", 2%N); ("field-write:BinaryExpr.Op", 2%N)];
     rf_why := "called only from simplifyBool on the copy made in VisitExpr; BasicLit.Value/Op writes hit copy nodes" |};
  {| rf_file := "boolExprSimplify_checker.go"; rf_fn := "boolExprSimplifyChecker.invertComparison";
     rf_sites := [("cursor:Replace", 1%N); ("field-write:BinaryExpr.Op", 6%N)];
     rf_why := "called only from simplifyBool on the copy made in VisitExpr" |};
  {| rf_file := "boolExprSimplify_checker.go"; rf_fn := "boolExprSimplifyChecker.negatedEquals";
     rf_sites := [("field-write:BinaryExpr.X", 1%N); ("field-write:BinaryExpr.Y", 1%N)];
     rf_why := "called only from simplifyBool on the copy made in VisitExpr" |};
  {| rf_file := "boolExprSimplify_checker.go"; rf_fn := "boolExprSimplifyChecker.removeIncDec";
     rf_sites := [("cursor:Replace", 2%N); ("field-write:BinaryExpr.Op", 2%N); ("field-write:BinaryExpr.X", 1%N); ("field-write:BinaryExpr.Y", 1%N)];
     rf_why := "called only from simplifyBool on the copy made in VisitExpr" |};
  {| rf_file := "evalOrder_checker.go"; rf_fn := "evalOrderChecker.VisitStmt";
     rf_sites := [("field-write:UnaryExpr.X", 1%N)];
     rf_why := "writes the X field of a UnaryExpr allocated in this function (fresh node aliasing an original result expression; Model_Heap.run_freshAlias, C05_freshAlias_frame)" |};
  {| rf_file := "methodExprCall_checker.go"; rf_fn := "methodExprCallChecker.warn";
     rf_sites := [("astcopy:SelectorExpr", 1%N); ("field-write:SelectorExpr.X", 2%N)];
     rf_why := "selector := astcopy.SelectorExpr(s); selector.X is re-pointed at an original argument (aliasing, no write to it) (Model_Heap.run_methodExprCall, C05_methodExprCall_frame)" |};
  {| rf_file := "paramTypeCombine_checker.go"; rf_fn := "paramTypeCombineChecker.optimizeFuncType";
     rf_sites := [("astcopy:FuncType", 1%N); ("field-write:FuncType.Params", 1%N); ("field-write:FuncType.Results", 1%N)];
     rf_why := "optimizedParamFunc := astcopy.FuncType(f); Params/Results of the copy are replaced by freshly built field lists" |};
  {| rf_file := "paramTypeCombine_checker.go"; rf_fn := "paramTypeCombineChecker.optimizeParams";
     rf_sites := [("field-write:Field.Names", 1%N)];
     rf_why := "appends to the Names of Field values built in this function (fresh nodes that share the original Type pointers)" |};
  {| rf_file := "sloppyReassign_checker.go"; rf_fn := "sloppyReassignChecker.warnAssignToDefine";
     rf_sites := [("astcopy:AssignStmt", 1%N); ("field-write:AssignStmt.Tok", 1%N)];
     rf_why := "suggest := astcopy.AssignStmt(assign); the Tok write hits suggest (Model_Heap.run_sloppyReassign, C05_sloppyReassign_frame)" |};
  {| rf_file := "typeUnparen_checker.go"; rf_fn := "typeUnparenChecker.checkType";
     rf_sites := [("astcopy:Expr", 1%N)];
     rf_why := "noParens := c.removeRedundantParens(astcopy.Expr(e)): the only caller of removeRedundantParens (Model_Heap.run_typeUnparen, C05_typeUnparen_frame)" |};
  {| rf_file := "typeUnparen_checker.go"; rf_fn := "typeUnparenChecker.removeRedundantParens";
     rf_sites := [("field-write:ArrayType.Elt", 1%N); ("field-write:ChanType.Value", 1%N); ("field-write:Field.Type", 2%N); ("field-write:MapType.Key", 1%N); ("field-write:MapType.Value", 1%N); ("field-write:ParenExpr.X", 1%N); ("field-write:StarExpr.X", 1%N); ("field-write:TypeAssertExpr.Type", 1%N)];
     rf_why := "recursive field writes on the copy made in checkType" |}
].
