(* Model_Determ.v — determinism (C02). Ranging over a Go map visits the entries in an arbitrary order:
   every function below that models such a loop takes the visiting order as an ORACLE argument
   (a list that is some permutation of the map's entries); determinism = independence of that argument.
   No proofs here. *)
From GC Require Import Base Model_Walk.
From Coq Require Import DecimalString.

Definition dec (n : N) : string := NilEmpty.string_of_uint (N.to_uint n).

(* ---- generic: a loop body that emits while ranging ---- *)
Definition range_emit {E} (body : E -> list warning) (order : list E) : list warning := flat_map body order.

(* ---- linter.getCheckersInfo: collect by ranging over the prototypes map, then sort by name ---- *)
Section Sort.
  Context {A : Type}.
  Variable key : A -> N.                     (* the name, embedded in a total order *)
  Fixpoint insert (x : A) (l : list A) : list A :=
    match l with
    | [] => [x]
    | h :: t => if (key x <=? key h)%N then x :: l else h :: insert x t
    end.
  Fixpoint isort (l : list A) : list A := match l with [] => [] | x :: r => insert x (isort r) end.
  Definition get_checkers_info (order : list A) : list A := isort order.
End Sort.

(* ---- dupImport ---- *)
Definition import_spec := (string * N)%type.            (* quoted path, line; in source order *)
Definition group := (string * list N)%type.             (* path, lines of its import specs in source order *)

Fixpoint add_import (gs : list group) (i : import_spec) : list group :=
  match gs with
  | [] => [(fst i, [snd i])]
  | g :: r => if String.eqb (fst g) (fst i) then (fst g, (snd g ++ [snd i])%list) :: r else g :: add_import r i
  end.
(* imports[pkg] = append(imports[pkg], spec): the map's entries (keys listed by first occurrence) *)
Definition dup_groups (imps : list import_spec) : list group := fold_left add_import imps [].

Fixpoint lines_text (ls : list N) (idx : nat) (n : nat) : string :=
  match ls with
  | [] => ""
  | l :: r => (if Nat.eqb idx (n - 1) then " and" else if Nat.ltb 0 idx then "," else "")
              ++ " " ++ dec l ++ lines_text r (S idx) n
  end.
Definition dup_msg (ls : list N) : string :=
  "package is imported " ++ dec (N.of_nat (length ls)) ++ " times under different aliases on lines" ++ lines_text ls 0 (length ls).
Definition is_dup (g : group) : bool := negb (Nat.eqb (length (snd g)) 1).
Definition dup_block (g : group) : list warning := if is_dup g then map (fun l => (l, dup_msg (snd g))) (snd g) else [].

(* the unchanged checker: `for _, importList := range imports { ... c.warn(importList) }` *)
Definition dup_import_run (order : list group) : list warning := range_emit dup_block order.
(* the repaired checker: groups visited in order of first occurrence in f.Imports — no oracle *)
Definition dup_import_run_fixed (imps : list import_spec) : list warning := flat_map dup_block (dup_groups imps).

(* correspondence: an observed output is explained when it is the concatenation of the blocks of the duplicate
   groups, each used exactly once, in SOME order *)
Definition w_eqb (a b : warning) : bool := N.eqb (fst a) (fst b) && String.eqb (snd a) (snd b).
Fixpoint take_block (b obs : list warning) : option (list warning) :=
  match b with
  | [] => Some obs
  | x :: b' => match obs with y :: o' => if w_eqb x y then take_block b' o' else None | [] => None end
  end.
Fixpoint pick_block (gs seen : list group) (obs : list warning) : option (list group * list warning) :=
  match gs with
  | [] => None
  | g :: r => match take_block (dup_block g) obs with
              | Some rest => Some ((seen ++ r)%list, rest)
              | None => pick_block r (seen ++ [g])%list obs
              end
  end.
Fixpoint explains (fuel : nat) (gs : list group) (obs : list warning) : bool :=
  match gs, obs with
  | [], [] => true
  | _, _ => match fuel with
            | O => false
            | S f => match pick_block gs [] obs with Some (gs', rest) => explains f gs' rest | None => false end
            end
  end.
Definition dup_import_explains (imps : list import_spec) (obs : list warning) : bool :=
  let gs := filter is_dup (dup_groups imps) in explains (S (length gs)) gs obs.

(* ---- importShadow: `for pkgObj, name := range PkgObjects { if name == id { warn } }` ---- *)
Definition shadow_run (id : string) (order : list (N * string)) : list warning :=
  range_emit (fun e => if String.eqb (snd e) id && negb (String.eqb (snd e) "_") then [(fst e, "shadow of imported package")] else []) order.

(* ---- parseErrorHandler.failOnParseError: `for _, p := range conds { if p(err) { return true } }; return false` ---- *)
Definition fail_on {P} (holds : P -> bool) (order : list P) : bool := existsb holds order.

(* ---- generic: collect while ranging (append in the loop body), then sort by a key — every append-then-sort site ---- *)
Definition collect_sort {E A} (key : A -> N) (f : E -> list A) (order : list E) : list A := isort key (flat_map f order).

(* newErrorHandler (ruleguard_checker.go): `for key := range failOnErrorPredicates { supported = append(supported, key) }`,
   sort.Strings(supported), strings.Join — the map's keys, embedded in N by their string order *)
Definition supported_values (order : list N) : list N := collect_sort (fun k => k) (fun k => [k]) order.

(* flag registration (analyzer.go init, check.go bindCheckerParams): one flag per (checker, param) under a distinct key into the
   flag set (itself a map); what a user can observe of it is the sorted listing (flag.PrintDefaults / VisitAll sort by name) *)
Definition register_flags {V} (order : list (N * V)) : list (N * V) := collect_sort fst (fun kv => [kv]) order.

(* parameter binding (check.go assignCheckerParams, run.go newGocritic): `for pname, p := range info.Params { info.Params[pname].Value = v }`
   — one write per entry to the cell named by its own key *)
Definition bind_params {V} (order : list (N * V)) (m : N -> option V) : N -> option V :=
  fold_left (fun m kv => fun k => if N.eqb k (fst kv) then Some (snd kv) else m k) order m.

(* addChecker (linter/helpers.go): `for pname, param := range info.Params { switch param.Value.(type) { default: panic } }` — whether the
   registration panics is an OR over the entries (the early exit only short-cuts it) *)
Definition validate_params {P} (unsupported : P -> bool) (order : list P) : bool := fail_on unsupported order.

(* which site is modelled by which function: keyed like the regenerated inventory (file, function) *)
Definition modelled_map_sites : list (string * string * string) := [
  ("importShadow_checker.go", "importShadowChecker.VisitLocalDef", "shadow_run / C02_import_shadow_det");
  ("ruleguard_checker.go", "newErrorHandler", "supported_values / C02_supported_values_det");
  ("ruleguard_checker.go", "parseErrorHandler.failOnParseError", "fail_on / C02_fail_on_det");
  ("analyzer.go", "init", "register_flags / C02_register_flags_det");
  ("run.go", "newGocritic", "bind_params / C02_bind_params_det");
  ("check.go", "program.assignCheckerParams", "bind_params / C02_bind_params_det");
  ("check.go", "program.bindCheckerParams", "register_flags / C02_register_flags_det");
  ("helpers.go", "addChecker", "validate_params / C02_validate_params_det");
  ("helpers.go", "getCheckersInfo", "get_checkers_info / C02_get_checkers_info_det")].
(* the append-then-sort sites: the generic lemma C02_collect_sort_det is instantiated for each *)
Definition sorted_after_range : list (string * string) := [("ruleguard_checker.go", "newErrorHandler"); ("helpers.go", "getCheckersInfo")].
