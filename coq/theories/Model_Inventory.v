(* Model_Inventory.v — shapes of the tables regenerated from the source on every run by
   vh gen stateinv / maprange / mutsites (harness/internal/inventory), and the generic
   "observed sites = reviewed sites" comparison used by the coverage obligations of C02/C03/C05. *)
From GC Require Import Base.

(* ---- scratch-state inventory (C03) ---- *)
Inductive write_site := W (method kind : string) (count : N).
Inductive field_inv := F (name type : string) (writes : list write_site).
Inductive struct_inv := S (pkg name : string) (fields : list field_inv).

Definition s_pkg (s : struct_inv) := let 'S p _ _ := s in p.
Definition s_name (s : struct_inv) := let 'S _ n _ := s in n.
Definition s_fields (s : struct_inv) := let 'S _ _ f := s in f.
Definition f_name (f : field_inv) := let 'F n _ _ := f in n.
Definition f_type (f : field_inv) := let 'F _ t _ := f in t.
Definition f_writes (f : field_inv) := let 'F _ _ w := f in w.

Definition write_site_eqb (a b : write_site) : bool :=
  let 'W m1 k1 c1 := a in let 'W m2 k2 c2 := b in
  String.eqb m1 m2 && String.eqb k1 k2 && N.eqb c1 c2.

(* writes in constructor code (kind prefixed "ctor:") happen before the first Check and are not scratch state *)
Definition is_ctor (w : write_site) : bool := let 'W _ k _ := w in has_prefix "ctor:" k.
Definition live_writes (f : field_inv) : list write_site := filter (fun w => negb (is_ctor w)) (f_writes f).

(* a struct has no scratch writes when no field is written outside composite literals and constructors *)
Definition no_scratch_writes (s : struct_inv) : bool :=
  forallb (fun f => match live_writes f with [] => true | _ => false end) (s_fields s).

(* reviewed entry: struct, field, the exact write sites that were reviewed, and the justification text *)
Record reviewed_field := { r_struct : string; r_field : string; r_sites : list write_site; r_status : string; r_why : string }.

Definition find_reviewed (tbl : list reviewed_field) (sname fname : string) : option reviewed_field :=
  find (fun r => String.eqb (r_struct r) sname && String.eqb (r_field r) fname) tbl.

(* every written field of the struct is in the table with EXACTLY the observed sites *)
Definition struct_reviewed (tbl : list reviewed_field) (s : struct_inv) : bool :=
  forallb (fun f =>
    match live_writes f with
    | [] => true
    | ws => match find_reviewed tbl (s_name s) (f_name f) with
            | Some r => list_eqb write_site_eqb ws (r_sites r)
            | None => false
            end
    end) (s_fields s).

(* names of (struct, field) pairs that are written but not (or no longer exactly) reviewed: used for diagnostics *)
Definition unreviewed (tbl : list reviewed_field) (inv : list struct_inv) : list (string * string) :=
  flat_map (fun s =>
    flat_map (fun f =>
      match live_writes f with
      | [] => []
      | ws => match find_reviewed tbl (s_name s) (f_name f) with
              | Some r => if list_eqb write_site_eqb ws (r_sites r) then [] else [(s_name s, f_name f)]
              | None => [(s_name s, f_name f)]
              end
      end) (s_fields s)) inv.

(* ---- map range sites (C02) ---- *)
Inductive map_site := M (pkg file fn expr : string) (emits appends exits writes : bool) (count : N).
Definition m_key (m : map_site) : string * string * string :=
  let 'M _ f fn e _ _ _ _ _ := m in (f, fn, e).
Definition m_sensitive (m : map_site) : bool :=
  let 'M _ _ _ _ e a x w _ := m in e || a || x || w.

Record reviewed_site := { rs_file : string; rs_fn : string; rs_expr : string; rs_flags : bool * bool * bool * bool;
                          rs_verdict : string; rs_why : string }.

Definition flags_eqb (a b : bool * bool * bool * bool) : bool :=
  let '(a1, a2, a3, a4) := a in let '(b1, b2, b3, b4) := b in
  Bool.eqb a1 b1 && Bool.eqb a2 b2 && Bool.eqb a3 b3 && Bool.eqb a4 b4.

Definition site_reviewed (tbl : list reviewed_site) (m : map_site) : bool :=
  let 'M _ f fn e fe fa fx fw _ := m in
  existsb (fun r => String.eqb (rs_file r) f && String.eqb (rs_fn r) fn && String.eqb (rs_expr r) e
                    && flags_eqb (rs_flags r) (fe, fa, fx, fw)) tbl.

(* ---- AST mutation sites (C05) ---- *)
Inductive mut_fn := MF (pkg file fn : string) (sites : list (string * N)).
Definition mf_file (m : mut_fn) := let 'MF _ f _ _ := m in f.
Definition mf_fn (m : mut_fn) := let 'MF _ _ f _ := m in f.
Definition mf_sites (m : mut_fn) := let 'MF _ _ _ s := m in s.

Record reviewed_fn := { rf_file : string; rf_fn : string; rf_sites : list (string * N); rf_why : string }.

Definition site_eqb (a b : string * N) : bool := String.eqb (fst a) (fst b) && N.eqb (snd a) (snd b).

Definition fn_reviewed (tbl : list reviewed_fn) (m : mut_fn) : bool :=
  match find (fun r => String.eqb (rf_file r) (mf_file m) && String.eqb (rf_fn r) (mf_fn m)) tbl with
  | Some r => list_eqb site_eqb (mf_sites m) (rf_sites r)
  | None => false
  end.

(* the converse direction: a reviewed function that must still be present with its copy call
   (a vanished astcopy call breaks fn_reviewed above because the site list changes; a vanished
   FUNCTION is caught here) *)
Definition fn_present (inv : list mut_fn) (r : reviewed_fn) : bool :=
  existsb (fun m => String.eqb (rf_file r) (mf_file m) && String.eqb (rf_fn r) (mf_fn m)) inv.
