(* Model_Inventory.v — shapes of the tables regenerated from the source on every run by
   vh gen stateinv / maprange / mutsites (harness/internal/inventory), and the generic
   "observed sites = reviewed sites" comparison used by the coverage obligations of C02/C03/C05. *)
From GC Require Import Base.

(* ---- scratch-state inventory (C03) ---- *)
Inductive write_site := W (method kind : string) (count : N).
Inductive field_inv := F (name type : string) (writes : list write_site).
Inductive struct_inv := S (pkg name : string) (fields : list field_inv).

Definition s_pkg (s : struct_inv) := let 'S p _ _ := s in p.
Definition s_name (s : struct_inv) := let 'S _ n _ := s in n.
Definition s_fields (s : struct_inv) := let 'S _ _ f := s in f.
Definition f_name (f : field_inv) := let 'F n _ _ := f in n.
Definition f_type (f : field_inv) := let 'F _ t _ := f in t.
Definition f_writes (f : field_inv) := let 'F _ _ w := f in w.

Definition write_site_eqb (a b : write_site) : bool :=
  let 'W m1 k1 c1 := a in let 'W m2 k2 c2 := b in
  String.eqb m1 m2 && String.eqb k1 k2 && N.eqb c1 c2.

(* writes in constructor code (kind prefixed "ctor:") happen before the first Check and are not scratch state *)
Definition is_ctor (w : write_site) : bool := let 'W _ k _ := w in has_prefix "ctor:" k.
Definition live_writes (f : field_inv) : list write_site := filter (fun w => negb (is_ctor w)) (f_writes f).

(* a struct has no scratch writes when no field is written outside composite literals and constructors *)
Definition no_scratch_writes (s : struct_inv) : bool :=
  forallb (fun f => match live_writes f with [] => true | _ => false end) (s_fields s).

(* reviewed entry: struct, field, the exact write sites that were reviewed, and the justification text *)
Record reviewed_field := { r_struct : string; r_field : string; r_sites : list write_site; r_status : string; r_why : string }.

Definition find_reviewed (tbl : list reviewed_field) (sname fname : string) : option reviewed_field :=
  find (fun r => String.eqb (r_struct r) sname && String.eqb (r_field r) fname) tbl.

(* ONE-DIRECTIONAL comparison of the observed write sites of a field with the reviewed ones. Less state cannot leak more:
   - a field that is no longer written at all (or no longer exists) needs no review (handled by the callers: [] => true);
   - an observed site must be a reviewed site (same method and kind) with AT MOST the reviewed count: a NEW site or MORE
     writes need review;
   - sites that only ADD to the state (append / elem-write / Insert) may vanish or decrease;
   - every other reviewed site (assign, reset-make, reset-truncate, Clear, incdec, via-pointer, address-taken: these are the
     resets and overwrite-before-read points the justifications rely on) must still be there with EXACTLY its count as long
     as the field is written at all. *)
Definition ws_method (w : write_site) := let 'W m _ _ := w in m.
Definition ws_kind (w : write_site) := let 'W _ k _ := w in k.
Definition ws_count (w : write_site) := let 'W _ _ c := w in c.
Definition same_site (a b : write_site) : bool := String.eqb (ws_method a) (ws_method b) && String.eqb (ws_kind a) (ws_kind b).
(* kinds that can only ADD to / read through the state: append, elem-write, and method calls on the field whose name is not
   reset-like. They may vanish, decrease, or MOVE between methods of the struct (compared by per-kind totals). *)
Definition reset_like_method (k : string) : bool :=
  existsb (fun m => has_suffix (":" ++ m) k) ["Clear"; "Reset"; "Init"; "Truncate"; "Parse"; "Delete"].
Definition additive (w : write_site) : bool :=
  mem (ws_kind w) ["append"; "elem-write"]
  || ((has_prefix "ptr-method:" (ws_kind w) || has_prefix "via-pointer:" (ws_kind w)) && negb (reset_like_method (ws_kind w))).
Definition kind_total (k : string) (ws : list write_site) : N :=
  fold_left (fun acc w => if String.eqb (ws_kind w) k then (acc + ws_count w)%N else acc) ws 0%N.
(* the rule of round 5 (per method for every kind), kept for comparison *)
Definition sites_within_per_method (ws rs : list write_site) : bool :=
  forallb (fun w => existsb (fun r => same_site w r && (ws_count w <=? ws_count r)%N) rs) ws
  && forallb (fun r => mem (ws_kind r) ["append"; "elem-write"; "ptr-method:Insert"]
                       || existsb (fun w => same_site w r && N.eqb (ws_count w) (ws_count r)) ws) rs.
(* - an observed ADDITIVE site: the total of its kind over all methods of the struct is at most the reviewed total (the same amount
     of state-adding code, wherever it now sits; a new kind or a higher total needs review);
   - any other observed site (assign, reset-make, reset-truncate, incdec, sub-field write, address taken, Clear/Reset/...-like method
     calls: the resets and overwrite-before-read points the justifications rely on, whose POSITION matters) must be a reviewed site
     of the same method with at most its count;
   - every reviewed non-additive site must still be there with exactly its count as long as the field is written at all. *)
Definition sites_within (ws rs : list write_site) : bool :=
  forallb (fun w => if additive w then (kind_total (ws_kind w) ws <=? kind_total (ws_kind w) rs)%N
                    else existsb (fun r => same_site w r && (ws_count w <=? ws_count r)%N) rs) ws
  && forallb (fun r => additive r || existsb (fun w => same_site w r && N.eqb (ws_count w) (ws_count r)) ws) rs.

(* every written field of the struct is in the table and its observed sites are within the reviewed ones *)
Definition struct_reviewed (tbl : list reviewed_field) (s : struct_inv) : bool :=
  forallb (fun f =>
    match live_writes f with
    | [] => true
    | ws => match find_reviewed tbl (s_name s) (f_name f) with
            | Some r => sites_within ws (r_sites r)
            | None => false
            end
    end) (s_fields s).

(* names of (struct, field) pairs that are written but not (or no longer exactly) reviewed: used for diagnostics *)
Definition unreviewed (tbl : list reviewed_field) (inv : list struct_inv) : list (string * string) :=
  flat_map (fun s =>
    flat_map (fun f =>
      match live_writes f with
      | [] => []
      | ws => match find_reviewed tbl (s_name s) (f_name f) with
              | Some r => if sites_within ws (r_sites r) then [] else [(s_name s, f_name f)]
              | None => [(s_name s, f_name f)]
              end
      end) (s_fields s)) inv.

(* ---- map range sites (C02) ---- *)
Inductive map_site := M (pkg file fn expr : string) (emits appends exits writes : bool) (count : N).
Definition m_key (m : map_site) : string * string * string :=
  let 'M _ f fn e _ _ _ _ _ := m in (f, fn, e).
Definition m_sensitive (m : map_site) : bool :=
  let 'M _ _ _ _ e a x w _ := m in e || a || x || w.

Record reviewed_site := { rs_file : string; rs_fn : string; rs_expr : string; rs_flags : bool * bool * bool * bool;
                          rs_verdict : string; rs_why : string }.

Definition flags_eqb (a b : bool * bool * bool * bool) : bool :=
  let '(a1, a2, a3, a4) := a in let '(b1, b2, b3, b4) := b in
  Bool.eqb a1 b1 && Bool.eqb a2 b2 && Bool.eqb a3 b3 && Bool.eqb a4 b4.

Definition site_reviewed (tbl : list reviewed_site) (m : map_site) : bool :=
  let 'M _ f fn e fe fa fx fw _ := m in
  existsb (fun r => String.eqb (rs_file r) f && String.eqb (rs_fn r) fn && String.eqb (rs_expr r) e
                    && flags_eqb (rs_flags r) (fe, fa, fx, fw)) tbl.

(* ---- AST mutation sites (C05) ---- *)
Inductive mut_fn := MF (pkg file fn : string) (sites : list (string * N)).
Definition mf_file (m : mut_fn) := let 'MF _ f _ _ := m in f.
Definition mf_fn (m : mut_fn) := let 'MF _ _ f _ := m in f.
Definition mf_sites (m : mut_fn) := let 'MF _ _ _ s := m in s.

Record reviewed_fn := { rf_file : string; rf_fn : string; rf_sites : list (string * N); rf_why : string }.

Definition site_eqb (a b : string * N) : bool := String.eqb (fst a) (fst b) && N.eqb (snd a) (snd b).

(* ONE-DIRECTIONAL: every observed site of the function is a reviewed site with at most the reviewed count (a NEW write /
   Replace / copy site or MORE of them need review; fewer writes cannot damage more), and every reviewed astcopy site is still
   there with at least its count as long as the function has any site left (a vanished COPY in a function that still writes
   is exactly the seeded defect). *)
(* Benign kinds need no review and no copy: a top-level field assignment to a LOCAL struct value (`x := *node; x.Op = ..`:
   the function's own cell, Model_Heap.run_shallowCopy / C05_shallowCopy_frame) and the shallow copy itself. A write THROUGH a
   field of such a copy (x.List[0] = .., x.X.( *ast.Ident).Name = ..) is an ordinary field-write / slice-elem-write site. *)
Definition benign_site (s : string * N) : bool := has_prefix "local-value-write:" (fst s) || has_prefix "shallowcopy:" (fst s).
Definition fn_sites_within (obs rev : list (string * N)) : bool :=
  let obs := filter (fun o => negb (benign_site o)) obs in
  forallb (fun o => existsb (fun r => String.eqb (fst o) (fst r) && (snd o <=? snd r)%N) rev) obs
  && forallb (fun r => negb (has_prefix "astcopy:" (fst r))
                       || match filter (fun o => negb (has_prefix "astcopy:" (fst o))) obs with [] => true | _ => false end
                       || existsb (fun o => String.eqb (fst o) (fst r) && (snd r <=? snd o)%N) obs) rev.
Definition fn_reviewed (tbl : list reviewed_fn) (m : mut_fn) : bool :=
  match filter (fun o => negb (benign_site o)) (mf_sites m) with [] => true | _ =>
  match find (fun r => String.eqb (rf_file r) (mf_file m) && String.eqb (rf_fn r) (mf_fn m)) tbl with
  | Some r => fn_sites_within (mf_sites m) (rf_sites r)
  | None => false
  end end.

(* the converse direction: a reviewed function that must still be present with its copy call
   (a vanished astcopy call breaks fn_reviewed above because the site list changes; a vanished
   FUNCTION is caught here) *)
Definition fn_present (inv : list mut_fn) (r : reviewed_fn) : bool :=
  existsb (fun m => String.eqb (rf_file r) (mf_file m) && String.eqb (rf_fn r) (mf_fn m)) inv.
