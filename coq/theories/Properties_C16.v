(* Properties_C16.v — property C16: command-line contract (locations, filters, lines, exit status). *)
From GC Require Import Base Model_Cli Proofs_Cli.

(* Every printed location resolves back to the diagnostic's absolute location, for every
   working directory, GOPATH, GOROOT and file path — including one path occurring inside another. *)
Theorem C16_shorten_resolves : forall wd gp gr loc,
  has_prefix "/" loc = true -> expand wd gp gr (shorten wd gp gr loc) = loc.
Proof. exact shorten_resolves. Qed.
Print Assumptions C16_shorten_resolves.

(* The routine as it was before the repair (first-occurrence replacement) violates this. *)
Theorem C16_shorten_substring_refuted :
  exists wd gp gr loc, has_prefix "/" loc = true /\ expand wd gp gr (shorten_substring wd gp gr loc) <> loc.
Proof. exact shorten_substring_refuted. Qed.
Print Assumptions C16_shorten_substring_refuted.

(* Exit status and output: exit 0 iff nothing was printed, else the configured code; the printed
   lines are exactly the warnings of the files that pass the two filters, each once, file-major and
   checker-minor. *)
Theorem C16_run_spec : forall cfg fs,
  run cfg fs = ((if nonempty (all_lines cfg fs) then exit_code cfg else 0%Z), all_lines cfg fs).
Proof. exact run_spec. Qed.
Print Assumptions C16_run_spec.

Theorem C16_filter_spec : forall cfg f,
  file_checked cfg f =
  negb (negb (check_tests cfg) && has_suffix "_test.go" (fname f))
  && negb (negb (check_generated cfg) && is_generated_impl (fgroups f)).
Proof. exact file_checked_spec. Qed.
Print Assumptions C16_filter_spec.

(* Generated files: a standard marker line anywhere in the FIRST comment group is recognised ... *)
Theorem C16_generated_marker_detected_partial : forall g rest a x b,
  In (a ++ "Code generated " ++ x ++ " DO NOT EDIT." ++ b) (split_on nl g) ->
  is_generated_impl (g :: rest) = true.
Proof. exact is_generated_first_group_marker. Qed.
Print Assumptions C16_generated_marker_detected_partial.

(* ... but the full statement "skipped iff generated (Go convention)" is false of the code in both
   directions (recorded as known findings, see DESIGN.md). *)
Theorem C16_generated_licence_header_refuted :
  exists groups header, is_generated_std header = true /\ is_generated_impl groups = false.
Proof. exact is_generated_licence_header_refuted. Qed.
Print Assumptions C16_generated_licence_header_refuted.

Theorem C16_generated_phrase_refuted :
  exists groups header, is_generated_std header = false /\ is_generated_impl groups = true.
Proof. exact is_generated_phrase_refuted. Qed.
Print Assumptions C16_generated_phrase_refuted.

Example C16_example_nested_paths :
  shorten "/go/" "/home/u/go/" "/usr/lib/go/" "/home/u/go/src/x.go:1:1" = "$GOPATH/src/x.go:1:1"
  /\ shorten "/home/u/go/src/" "/home/u/go/" "/usr/lib/go/" "/home/u/go/src/x.go:1:1" = "./x.go:1:1"
  /\ expand "/go/" "/home/u/go/" "/usr/lib/go/" "$GOPATH/src/x.go:1:1" = "/home/u/go/src/x.go:1:1".
Proof. vm_compute. auto. Qed.
