(* Properties_C16.v — property C16: command-line contract (locations, filters, lines, exit status). *)
From GC Require Import Base Model_Cli Proofs_Cli.

(* Every printed location resolves back to the diagnostic's absolute location, for every
   working directory, GOPATH, GOROOT and file path — including one path occurring inside another. *)
Theorem C16_shorten_resolves : forall wd gp gr loc,
  has_prefix "/" loc = true -> expand wd gp gr (shorten wd gp gr loc) = loc.
Proof. exact shorten_resolves. Qed.
Print Assumptions C16_shorten_resolves.

(* The routine as it was before the repair (first-occurrence replacement) violates this. *)
Theorem C16_shorten_substring_refuted :
  exists wd gp gr loc, has_prefix "/" loc = true /\ expand wd gp gr (shorten_substring wd gp gr loc) <> loc.
Proof. exact shorten_substring_refuted. Qed.
Print Assumptions C16_shorten_substring_refuted.

(* Exit status and output: exit 0 iff nothing was printed, else the configured code; the printed
   lines are exactly the warnings of the files that pass the two filters, each once, file-major and
   checker-minor. *)
Theorem C16_run_spec : forall cfg fs,
  run cfg fs = ((if nonempty (all_lines cfg fs) then exit_code cfg else 0%Z), all_lines cfg fs).
Proof. exact run_spec. Qed.
Print Assumptions C16_run_spec.

Theorem C16_filter_spec : forall cfg f,
  file_checked cfg f =
  negb (negb (check_tests cfg) && has_suffix "_test.go" (fname f))
  && negb (negb (check_generated cfg) && is_generated_impl (fgroups f)).
Proof. exact file_checked_spec. Qed.
Print Assumptions C16_filter_spec.

(* Generated files: a standard marker line anywhere in the FIRST comment group is recognised ... *)
Theorem C16_generated_marker_detected_partial : forall g rest a x b,
  In (a ++ "Code generated " ++ x ++ " DO NOT EDIT." ++ b) (split_on nl g) ->
  is_generated_impl (g :: rest) = true.
Proof. exact is_generated_first_group_marker. Qed.
Print Assumptions C16_generated_marker_detected_partial.

(* ... but the full statement "skipped iff generated (Go convention)" is false of the code in both
   directions (recorded as known findings, see DESIGN.md). *)
Theorem C16_generated_licence_header_refuted :
  exists groups header, is_generated_std header = true /\ is_generated_impl groups = false.
Proof. exact is_generated_licence_header_refuted. Qed.
Print Assumptions C16_generated_licence_header_refuted.

Theorem C16_generated_phrase_refuted :
  exists groups header, is_generated_std header = false /\ is_generated_impl groups = true.
Proof. exact is_generated_phrase_refuted. Qed.
Print Assumptions C16_generated_phrase_refuted.

Example C16_example_nested_paths :
  shorten "/go/" "/home/u/go/" "/usr/lib/go/" "/home/u/go/src/x.go:1:1" = "$GOPATH/src/x.go:1:1"
  /\ shorten "/home/u/go/src/" "/home/u/go/" "/usr/lib/go/" "/home/u/go/src/x.go:1:1" = "./x.go:1:1"
  /\ expand "/go/" "/home/u/go/" "/usr/lib/go/" "$GOPATH/src/x.go:1:1" = "/home/u/go/src/x.go:1:1".
Proof. vm_compute. auto. Qed.

(* ---- round 5: the file on disk versus the file the CLI is shown ----
   Full statement (the property's last sentence, read on the user's files):
     forall cfg f, disk_file_checked cfg f = disk_file_wanted cfg f.
   It holds when no //line directive precedes the package clause and the file does not import "C". *)
Theorem C16_disk_filter_partial : forall cfg f,
  df_line_name f = None -> df_cgo f = false -> disk_file_checked cfg f = disk_file_wanted cfg f.
Proof. exact disk_filter_spec. Qed.
Print Assumptions C16_disk_filter_partial.

(* With such a directive the directive's name decides, whatever the file is called ... *)
Theorem C16_disk_filter_line_name_decides : forall cfg f n,
  df_line_name f = Some n -> df_cgo f = false ->
  disk_file_checked cfg f =
  negb (negb (check_tests cfg) && has_suffix "_test.go" (base_name n))
  && negb (negb (check_generated cfg) && is_generated_impl (df_groups f)).
Proof. exact disk_filter_line_name_decides. Qed.
Print Assumptions C16_disk_filter_line_name_decides.

(* ... so an ordinary file is skipped and a test file is reported (recorded findings). *)
Theorem C16_disk_filter_line_ordinary_refuted :
  exists cfg f, df_cgo f = false /\ disk_file_wanted cfg f = true /\ disk_file_checked cfg f = false.
Proof. exact disk_filter_line_ordinary_refuted. Qed.
Print Assumptions C16_disk_filter_line_ordinary_refuted.
Theorem C16_disk_filter_line_test_refuted :
  exists cfg f, df_cgo f = false /\ disk_file_wanted cfg f = false /\ disk_file_checked cfg f = true.
Proof. exact disk_filter_line_test_refuted. Qed.
Print Assumptions C16_disk_filter_line_test_refuted.

(* Every file importing "C" is skipped unless -checkGenerated is given (recorded finding). *)
Theorem C16_disk_filter_cgo_always_skipped : forall cfg f,
  df_cgo f = true -> check_generated cfg = false -> disk_file_checked cfg f = false.
Proof. exact disk_filter_cgo_always_skipped. Qed.
Print Assumptions C16_disk_filter_cgo_always_skipped.
Theorem C16_disk_filter_cgo_refuted :
  exists cfg f, df_line_name f = None /\ disk_file_wanted cfg f = true /\ disk_file_checked cfg f = false.
Proof. exact disk_filter_cgo_refuted. Qed.
Print Assumptions C16_disk_filter_cgo_refuted.

(* ---- round 5: the status the operating system delivers ----
   parseArgs accepts an -exitCode value only if a process can deliver it (0..255); for every accepted value the
   delivered status is that value iff something was printed, and 0 otherwise. *)
Theorem C16_exit_status_delivered : forall z cfg fs,
  parse_exit_code z = Some (exit_code cfg) ->
  os_status (fst (run cfg fs)) = if nonempty (all_lines cfg fs) then z else 0%Z.
Proof. exact exit_status_accepted. Qed.
Print Assumptions C16_exit_status_delivered.
Theorem C16_exit_zero_iff_no_diag_partial : forall cfg fs,
  (1 <= exit_code cfg < 256)%Z -> (os_status (fst (run cfg fs)) = 0%Z <-> all_lines cfg fs = []).
Proof. exact exit_zero_iff_no_diag. Qed.
Print Assumptions C16_exit_zero_iff_no_diag_partial.
(* what os.Exit makes of a multiple of 256, whoever passes it *)
Theorem C16_exit_multiple_of_256_is_zero : forall cfg fs k,
  exit_code cfg = (256 * k)%Z -> os_status (fst (run cfg fs)) = 0%Z.
Proof. exact exit_multiple_of_256. Qed.
Print Assumptions C16_exit_multiple_of_256_is_zero.
(* before the repair parseArgs took every value: -exitCode=256 made a run with diagnostics exit 0 *)
Theorem C16_exit_code_wraps_prefix_refuted :
  exists z cfg fs, parse_exit_code_prefix z = Some (exit_code cfg) /\ all_lines cfg fs <> [] /\ z <> 0%Z
                   /\ os_status (fst (run cfg fs)) = 0%Z.
Proof. exact exit_code_wraps_prefix_refuted. Qed.
Print Assumptions C16_exit_code_wraps_prefix_refuted.

Example C16_example_disk_filter :
  disk_file_checked {| check_tests := false; check_generated := false; exit_code := 1 |}
    {| df_name := "a.go"; df_line_name := None; df_cgo := false; df_groups := [] |} = true
  /\ base_name "tmpl/zz_test.go" = "zz_test.go"
  /\ parse_exit_code 256 = None /\ parse_exit_code 7 = Some 7%Z.
Proof. vm_compute. auto. Qed.

(* ---- round 6: -v ----
   The debug lines of -v carry the prefix "<tab>debug: "; dropping them leaves exactly the output (and the
   found-issues flag, hence the exit status) of the run without -v — provided no diagnostic line starts with that
   prefix, which holds for every location that starts with '/', "./" or '$' (C16_diag_line_not_debug). *)
Theorem C16_verbose_invariant : forall cfg pkgs,
  no_debug (flat_map (fun p => all_lines cfg (snd p)) pkgs) ->
  strip_debug (snd (run_packages_verbose true cfg pkgs (false, [])))
  = snd (run_packages_verbose false cfg pkgs (false, []))
  /\ fst (run_packages_verbose true cfg pkgs (false, [])) = fst (run_packages_verbose false cfg pkgs (false, [])).
Proof. exact verbose_invariant. Qed.
Print Assumptions C16_verbose_invariant.
Theorem C16_diag_line_not_debug : forall loc c t a r,
  loc = String a r -> a <> ascii_of_N 9 -> is_debug_line (fmt_line loc c t) = false.
Proof. exact diag_line_not_debug. Qed.
Print Assumptions C16_diag_line_not_debug.
Example C16_example_verbose :
  strip_debug (snd (run_packages_verbose true {| check_tests := true; check_generated := false; exit_code := 1 |}
     [("p", [{| fname := "a.go"; fgroups := []; fwarn := [("c", [("./a.go:1:1", "t")])] |}])] (false, [])))
  = ["./a.go:1:1: c: t"].
Proof. vm_compute. reflexivity. Qed.
