(* Model_Params.v — checker parameters: cells shared between the registry and the info views handed
   out by GetCheckersInfo (linter/helpers.go:22-32), flag binding and write-back in the CLI
   (cmd/go-critic/check.go:304-330, 449-471) and the analyzer (analyzer.go:51-65, run.go:119-133),
   threshold decisions of the parameterised checkers, and gc/amd64 type sizes. No proofs here. *)
From GC Require Export Base.
Open Scope Z_scope.

(* ---------- parameter cells with explicit aliasing ---------- *)
Definition key := string.             (* "@checker.param" *)
Definition heap := list (N * string). (* address -> current value (first binding wins) *)
Definition env := list (key * N).     (* parameter -> address of its cell *)

Fixpoint h_get (h : heap) (a : N) : option string :=
  match h with [] => None | (b, v) :: r => if N.eqb a b then Some v else h_get r a end.
Definition h_set (h : heap) (a : N) (v : string) : heap := (a, v) :: h.
Fixpoint e_get (e : env) (k : key) : option N :=
  match e with [] => None | (k', a) :: r => if String.eqb k k' then Some a else e_get r k end.
Definition read (h : heap) (e : env) (k : key) : option string :=
  match e_get e k with Some a => h_get h a | None => None end.

(* getCheckersInfo copies the info struct; the Params map inside the copy is the same map *)
Definition get_infos_shared (registry : env) : env := registry.
(* a hypothetical deep copy: fresh cells initialised with the current values *)
Fixpoint get_infos_deep (h : heap) (registry : env) (next : N) : heap * env :=
  match registry with
  | [] => (h, [])
  | (k, a) :: r =>
      let v := match h_get h a with Some v => v | None => "" end in
      let '(h', e') := get_infos_deep (h_set h next v) r (N.succ next) in
      (h', (k, next) :: e')
  end.

(* integrator override: write through a view *)
Definition override (h : heap) (view : env) (k : key) (v : string) : heap :=
  match e_get view k with Some a => h_set h a v | None => h end.
(* the constructor closure reads the registered info *)
Definition construct_reads (h : heap) (registry : env) (k : key) : option string := read h registry k.

(* front-ends: flags are bound with the current values as defaults, command-line occurrences are
   applied in order (the last one wins), then every flag value is written back *)
Fixpoint last_assoc (k : key) (args : list (key * string)) (acc : option string) : option string :=
  match args with
  | [] => acc
  | (k', v) :: r => last_assoc k r (if String.eqb k k' then Some v else acc)
  end.
Definition flag_value (h : heap) (view : env) (args : list (key * string)) (k : key) : option string :=
  match last_assoc k args None with
  | Some v => Some v
  | None => read h view k
  end.
Fixpoint assign_params (h : heap) (view : env) (args : list (key * string)) (ks : list key) : heap :=
  match ks with
  | [] => h
  | k :: r =>
      let h' := match flag_value h view args k, e_get view k with
                | Some v, Some a => h_set h a v
                | _, _ => h
                end in
      assign_params h' view args r
  end.
Definition run_frontend (h : heap) (registry : env) (args : list (key * string)) : heap :=
  let view := get_infos_shared registry in
  assign_params h view args (map fst view).

(* ---------- threshold decisions ---------- *)
Definition size_reports (size threshold : Z) : bool := threshold <=? size.      (* hugeParam, rangeValCopy, rangeExprCopy *)
Definition too_many_results (count max : Z) : bool := max <? count.             (* tooManyResults *)
Definition nesting_reports (body_len width : Z) : bool := width <=? body_len.   (* nestingReduce *)
Definition comment_too_short (runes min_len : Z) : bool := runes <? min_len.    (* commentedOutCode: skipped when short *)

(* ifElseChain.countIfelseLen: the chain is the head `if` followed by its else-if's; each element
   says whether that statement has an Init clause; the chain ends in an else block or in nothing *)
Inductive chain_end := EndElseBlock | EndNoElse.
Fixpoint count_ifelse_len (inits : list bool) (e : chain_end) (count : Z) : Z :=
  match inits with
  | [] => count  (* unreachable for a real chain: there is always a head *)
  | has_init :: rest =>
      if has_init then 0
      else match rest with
           | [] => match e with EndElseBlock => count + 1 | EndNoElse => count end
           | _ => count_ifelse_len rest e (count + 1)
           end
  end.
Definition if_else_reports (inits : list bool) (e : chain_end) (min_threshold : Z) : bool :=
  min_threshold <=? count_ifelse_len inits e 0.

(* ---------- gc sizes (amd64) ---------- *)
Inductive gtype :=
| TBool | TInt8 | TInt16 | TInt32 | TInt64 | TInt | TUintptr
| TFloat32 | TFloat64 | TComplex64 | TComplex128 | TString | TUnsafePointer
| TPointer | TSlice | TInterface | TMap | TChan | TFunc
| TArray (n : Z) (elem : gtype)
| TStruct (fields : list gtype).

Definition align_up (x a : Z) : Z := ((x + a - 1) / a) * a.

Fixpoint gc_alignof (t : gtype) : Z :=
  match t with
  | TBool | TInt8 => 1
  | TInt16 => 2
  | TInt32 | TFloat32 | TComplex64 => 4
  | TArray _ e => gc_alignof e
  | TStruct fs => fold_left (fun m f => Z.max m (gc_alignof f)) fs 1
  | _ => 8
  end.

Fixpoint gc_sizeof (t : gtype) : Z :=
  match t with
  | TBool | TInt8 => 1
  | TInt16 => 2
  | TInt32 | TFloat32 => 4
  | TInt64 | TInt | TUintptr | TFloat64 | TComplex64 | TUnsafePointer => 8
  | TComplex128 | TString | TInterface => 16
  | TPointer | TMap | TChan | TFunc => 8
  | TSlice => 24
  | TArray n e => if n <=? 0 then 0 else n * gc_sizeof e
  | TStruct fs =>
      (* offsets: each field aligned; a trailing zero-size field of a non-empty struct takes one byte *)
      let '(offs, last) := fold_left (fun st f => let o := align_up (fst st) (gc_alignof f) in
                                                  (o + gc_sizeof f, gc_sizeof f)) fs (0, 1) in
      let offs' := if (0 <? offs) && (last =? 0) then offs + 1 else offs in
      align_up offs' (fold_left (fun m f => Z.max m (gc_alignof f)) fs 1)
  end.

(* ---------- gc sizes for a target platform (word size and maximal alignment) ---------- *)
Record arch := { word : Z; max_align : Z }.
Definition amd64 : arch := {| word := 8; max_align := 8 |}.
Definition i386 : arch := {| word := 4; max_align := 4 |}.

Fixpoint galign (a : arch) (t : gtype) : Z :=
  match t with
  | TBool | TInt8 => 1
  | TInt16 => 2
  | TInt32 | TFloat32 | TComplex64 => 4
  | TInt64 | TFloat64 | TComplex128 => Z.min 8 (max_align a)
  | TArray _ e => galign a e
  | TStruct fs => fold_left (fun m f => Z.max m (galign a f)) fs 1
  | _ => word a
  end.

Fixpoint gsize (a : arch) (t : gtype) : Z :=
  match t with
  | TBool | TInt8 => 1
  | TInt16 => 2
  | TInt32 | TFloat32 => 4
  | TInt64 | TFloat64 | TComplex64 => 8
  | TComplex128 => 16
  | TInt | TUintptr | TUnsafePointer | TPointer | TMap | TChan | TFunc => word a
  | TString | TInterface => 2 * word a
  | TSlice => 3 * word a
  | TArray n e => if n <=? 0 then 0 else n * gsize a e
  | TStruct fs =>
      let '(offs, last) := fold_left (fun st f => let o := align_up (fst st) (galign a f) in
                                                  (o + gsize a f, gsize a f)) fs (0, 1) in
      let offs' := if (0 <? offs) && (last =? 0) then offs + 1 else offs in
      align_up offs' (fold_left (fun m f => Z.max m (galign a f)) fs 1)
  end.
