(* Model_Sched.v — cmd/go-critic/check.go:136-185 checkFile as a small-step system: the main
   goroutine acquires a semaphore slot and spawns one worker per checker; a worker runs its checker
   (reading the shared file/type info/context, writing only its own checker context), stores the
   result in its own slot, signals the wait group and releases the semaphore; after the barrier the
   main goroutine prints the slots in checker order.  Also the analyzer's mutex-protected cache
   (checkers/analyzer/run.go:82-106).  No proofs here. *)
From GC Require Export Base.
From Coq Require Export Arith.

Section Sched.
  Variable R : Type.            (* a checker's result: its list of warnings *)
  Variable n : nat.             (* number of selected checkers *)
  Variable cap : nat.           (* -concurrency: capacity of the semaphore channel *)
  Variable run : nat -> R.      (* what checker k reports on the current file; a function of the
                                   shared read-only inputs only (C05) *)

  Inductive wstatus := NotStarted | Running | Wrote | Finished.
  Record st := { next : nat;                 (* main loop index i *)
                 status : nat -> wstatus;
                 slots : nat -> option R }.
  Definition init : st := {| next := 0; status := fun _ => NotStarted; slots := fun _ => None |}.

  Definition upd {A} (f : nat -> A) (k : nat) (v : A) : nat -> A := fun j => if Nat.eqb j k then v else f j.

  Definition is_busy (w : wstatus) : bool := match w with Running | Wrote => true | _ => false end.
  (* tokens currently held in the semaphore channel = workers between spawn and release *)
  Fixpoint busy_below (f : nat -> wstatus) (m : nat) : nat :=
    match m with O => O | S m' => (if is_busy (f m') then 1 else 0) + busy_below f m' end.
  Definition tokens (s : st) : nat := busy_below (status s) n.

  Inductive label := LSpawn | LWork (k : nat) | LFinish (k : nat).

  Definition enabled (s : st) (l : label) : bool :=
    match l with
    | LSpawn => Nat.ltb (next s) n && Nat.ltb (tokens s) cap       (* sema <- struct{}{} does not block *)
    | LWork k => Nat.ltb k n && match status s k with Running => true | _ => false end
    | LFinish k => Nat.ltb k n && match status s k with Wrote => true | _ => false end
    end.

  Definition step (s : st) (l : label) : st :=
    match l with
    | LSpawn => {| next := S (next s); status := upd (status s) (next s) Running; slots := slots s |}
    | LWork k => {| next := next s; status := upd (status s) k Wrote; slots := upd (slots s) k (Some (run k)) |}
    | LFinish k => {| next := next s; status := upd (status s) k Finished; slots := slots s |}
    end.

  (* a schedule is any sequence of labels each enabled when taken *)
  Fixpoint exec (s : st) (sch : list label) : option st :=
    match sch with
    | [] => Some s
    | l :: r => if enabled s l then exec (step s l) r else None
    end.

  (* wg.Wait() returned: every worker was spawned and has finished *)
  Definition all_finished_below (f : nat -> wstatus) (m : nat) : Prop := forall k, k < m -> f k = Finished.
  Definition terminal (s : st) : Prop := next s = n /\ all_finished_below (status s) n.

  (* footprints of the steps over abstract memory cells *)
  Inductive cell := CShared | CCtx (k : nat) | CSlot (k : nat) | CLoop.
  Definition writes (l : label) : list cell :=
    match l with LSpawn => [CLoop] | LWork k => [CCtx k; CSlot k] | LFinish _ => [] end.
  Definition reads (l : label) : list cell :=
    match l with LSpawn => [CLoop] | LWork k => [CShared; CCtx k] | LFinish _ => [] end.
  Definition cell_eqb (a b : cell) : bool :=
    match a, b with
    | CShared, CShared | CLoop, CLoop => true
    | CCtx i, CCtx j | CSlot i, CSlot j => Nat.eqb i j
    | _, _ => false
    end.
  Definition conflict (l1 l2 : label) : bool :=
    existsb (fun w => existsb (cell_eqb w) (writes l2 ++ reads l2)%list) (writes l1).
End Sched.


(* printing after the barrier: slot order = checker order *)
Fixpoint printed {R} (slots : nat -> option (list R)) (m : nat) : list R :=
  match m with
  | O => []
  | S m' => (printed slots m' ++ match slots m' with Some ws => ws | None => [] end)%list
  end.
Fixpoint sequential {R} (run : nat -> list R) (m : nat) : list R :=
  match m with O => [] | S m' => (sequential run m' ++ run m')%list end.
