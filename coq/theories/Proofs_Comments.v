(* Proofs_Comments.v — lemmas about the comment-based checker models (Model_Comments.v). *)
From GC Require Import Base GoAst Model_Checkers Model_Checkers2 Model_Walkers Model_Comments Proofs_Checkers Proofs_Checkers2.
From Coq Require Import PArith FSets.FSetPositive.

Lemma str_take_le s : forall n, n <= String.length s -> exists t, str_take s n = Some t.
Proof.
  induction s as [|c r IH]; intros [|j] H; simpl in *; eauto; [lia|].
  destruct (IH j) as [t ->]; [lia|]. eauto.
Qed.

Lemma str_map_length g s : String.length (str_map g s) = String.length s.
Proof. induction s; simpl; auto. Qed.

Lemma has_prefix_length p : forall s, has_prefix p s = true -> String.length p <= String.length s.
Proof.
  induction p as [|a p IH]; intros s H; simpl in *; [lia|]. destruct s as [|b s]; [discriminate|].
  apply andb_true_iff in H as [_ H]. apply IH in H. simpl. lia.
Qed.

Lemma dc_match_patterns_total l pats s : dc_match_patterns l pats <> P s.
Proof.
  induction pats as [|pat r IH]; simpl; [discriminate|].
  destruct (Nat.ltb (String.length l) (String.length pat)) eqn:L; [exact IH|]. apply Nat.ltb_ge in L.
  destruct (str_take_le l (String.length pat) L) as [t ->]. destruct (equal_fold t pat); [discriminate|exact IH].
Qed.

Lemma dc_lines_cons pos text r prev :
  dc_lines ((pos, text) :: r) prev =
  if has_prefix "/*" text then dc_lines r prev else
  let raw := trim_prefix "//" text in
  let l := trim_space raw in
  if Nat.ltb (String.length raw) (String.length deprecated_prefix) then dc_lines r l else
  let up := upper l in
  if has_prefix "DEPRECATED: " up && negb (has_prefix deprecated_prefix l) then
    match str_take l 12 with
    | Some _ => Ok [wc pos]
    | None => Panic "deprecatedComment: line[:len(DEPRECATED: )]"
    end
  else if has_prefix "Deprecated, " l then Ok [wc pos]
  else
    match dc_match_patterns l dc_patterns with
    | P s => Panic s
    | R true => Ok [wc pos]
    | R false =>
        if existsb (fun t => has_prefix t up) dc_typos then
          match split_on ":" l with
          | _ :: _ => Ok [wc pos]
          | [] => Panic "deprecatedComment: strings.Split(line, :)[0]"
          end
        else if has_prefix deprecated_prefix l && negb (String.eqb prev "") then Ok [wc pos]
        else dc_lines r l
    end.
Proof. reflexivity. Qed.

Lemma dc_lines_total cmts : forall prev s, dc_lines cmts prev <> Panic s.
Proof.
  induction cmts as [|[pos text] r IH]; intros prev s; [discriminate|].
  rewrite dc_lines_cons. destruct (has_prefix "/*" text); [apply IH|]. cbv zeta.
  destruct (Nat.ltb _ _); [apply IH|].
  set (l := trim_space (trim_prefix "//" text)).
  destruct (has_prefix "DEPRECATED: " (upper l) && negb (has_prefix deprecated_prefix l)) eqn:C.
  - apply andb_true_iff in C as [C _]. apply has_prefix_length in C. unfold upper in C. rewrite str_map_length in C.
    destruct (str_take_le l 12 C) as [t ->]. discriminate.
  - destruct (has_prefix "Deprecated, " l); [discriminate|].
    destruct (dc_match_patterns l dc_patterns) as [[|]|s0] eqn:M; [discriminate| |exfalso; eapply dc_match_patterns_total; eauto].
    destruct (existsb _ dc_typos).
    + pose proof (split_on_nonempty ":" l) as Ne. destruct (split_on ":" l); [contradiction|discriminate].
    + destruct (has_prefix deprecated_prefix l && negb (String.eqb prev "")); [discriminate|apply IH].
Qed.

Lemma deprecatedComment_total f cs ct : forall s, run_deprecatedComment f cs ct <> Panic s.
Proof.
  unfold run_deprecatedComment. apply seq_o_no_panic. intros o Ho. apply in_map_iff in Ho as [d [<- _]]. apply dc_lines_total.
Qed.

(* every warning sits at the position of a comment of the visited doc group *)
Lemma dc_lines_cause cmts : forall prev w, In w (warnings (dc_lines cmts prev)) -> exists pos t, In (pos, t) cmts /\ w_cause w = comment_node pos.
Proof.
  induction cmts as [|[pos text] r IH]; intros prev w H; [contradiction|]. rewrite dc_lines_cons in H.
  assert (Rec : forall p, In w (warnings (dc_lines r p)) -> exists pos0 t, ((pos, text) = (pos0, t) \/ In (pos0, t) r) /\ w_cause w = comment_node pos0).
  { intros p Hp. destruct (IH _ _ Hp) as [p0 [t [H1 H2]]]. exists p0, t. auto. }
  assert (Here : In w [wc pos] -> exists pos0 t, ((pos, text) = (pos0, t) \/ In (pos0, t) r) /\ w_cause w = comment_node pos0).
  { intros [<-|[]]. exists pos, text. auto. }
  destruct (has_prefix "/*" text); [eapply Rec; eauto|]. cbv zeta in H.
  destruct (Nat.ltb _ _); [eapply Rec; eauto|].
  destruct (_ && negb _).
  - destruct (str_take _ 12); [apply Here; exact H|contradiction].
  - destruct (has_prefix "Deprecated, " _); [apply Here; exact H|].
    destruct (dc_match_patterns _ dc_patterns) as [[|]|s0]; [apply Here; exact H| |contradiction].
    destruct (existsb _ dc_typos).
    + destruct (split_on ":" _); [contradiction|apply Here; exact H].
    + destruct (has_prefix deprecated_prefix _ && negb (String.eqb prev "")); [apply Here; exact H|eapply Rec; eauto].
Qed.

Lemma group_at_in cs pos c : In c (group_at cs pos) -> In c (concat (c_groups cs)).
Proof.
  unfold group_at. destruct (filter _ (c_groups cs)) as [|g r] eqn:F; [contradiction|]. intros H.
  assert (Hg : In g (filter (fun g0 => N.eqb (group_pos g0) pos) (c_groups cs))) by (rewrite F; left; reflexivity).
  apply filter_In in Hg as [Hg _]. apply in_concat. eauto.
Qed.

Lemma group_texts_in ct g pos t : In (pos, t) (group_texts ct g) -> exists b, In (pos, b) g.
Proof.
  unfold group_texts. intros H. apply in_flat_map in H as [[p b] [Hc H]]. simpl in H.
  destruct (text_at (c_text ct) p); [|contradiction]. destruct H as [[= <- _]|[]]. eauto.
Qed.

Lemma deprecatedComment_pos_valid f cs ct w :
  wf_comments f cs = true -> In w (warnings (run_deprecatedComment f cs ct)) -> In (w_pos w) (token_starts f).
Proof.
  intros W H. unfold run_deprecatedComment in H. apply seq_o_warnings in H as [o [Ho Hw]].
  apply in_map_iff in Ho as [d [<- _]]. apply dc_lines_cause in Hw as [pos [t [Hin Hc]]].
  apply group_texts_in in Hin as [b Hb]. apply group_at_in in Hb.
  unfold wf_comments in W. rewrite forallb_forall in W. apply W in Hb. simpl in Hb.
  unfold w_pos. rewrite Hc. simpl. apply starts_set_In. exact Hb.
Qed.
