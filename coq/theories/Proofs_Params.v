From GC Require Import Base Model_Params.
From Coq Require Import ZifyBool.
Open Scope Z_scope.

(* ---------- cells ---------- *)
Lemma h_get_set_same h a v : h_get (h_set h a v) a = Some v.
Proof. unfold h_set. simpl. rewrite N.eqb_refl. reflexivity. Qed.

Lemma h_get_set_other h a b v : a <> b -> h_get (h_set h b v) a = h_get h a.
Proof. intros H. unfold h_set. simpl. destruct (N.eqb a b) eqn:E; [apply N.eqb_eq in E; contradiction|reflexivity]. Qed.

Lemma override_is_used h reg k v a : e_get reg k = Some a ->
  construct_reads (override h (get_infos_shared reg) k v) reg k = Some v.
Proof.
  intros H. unfold construct_reads, read, override, get_infos_shared. rewrite H. apply h_get_set_same.
Qed.

Lemma deep_copy_breaks_refuted :
  exists h reg k v, let '(h', view) := get_infos_deep h reg 100%N in
    construct_reads (override h' view k v) reg k <> Some v.
Proof.
  exists [(0%N, "80")], [("@hugeParam.sizeThreshold", 0%N)], "@hugeParam.sizeThreshold", "33".
  vm_compute. discriminate.
Qed.

Definition env_inj (e : env) : Prop :=
  forall k1 k2 a, e_get e k1 = Some a -> e_get e k2 = Some a -> k1 = k2.

Lemma flag_value_frame h view args k k0 a0 v :
  env_inj view -> e_get view k0 = Some a0 -> k <> k0 ->
  flag_value (h_set h a0 v) view args k = flag_value h view args k.
Proof.
  intros Hinj H0 Hne. unfold flag_value, read. destruct (last_assoc k args None); [reflexivity|].
  destruct (e_get view k) as [a|] eqn:Ek; [|reflexivity].
  apply h_get_set_other. intros ->. apply Hne. eapply Hinj; eauto.
Qed.

(* after the write-back loop over ks, a cell holds its flag value if its key was in ks and is
   untouched otherwise *)
Lemma assign_params_spec view args : env_inj view -> forall ks h k a,
  e_get view k = Some a ->
  h_get (assign_params h view args ks) a =
  if mem k ks then flag_value h view args k else h_get h a.
Proof.
  intros Hinj. induction ks as [|k0 r IH]; intros h k a Hk; [reflexivity|].
  cbn [assign_params mem].
  destruct (String.eqb k k0) eqn:Ek; cbn [orb].
  - (* the cell being written now *)
    apply String.eqb_eq in Ek. subst k0. rewrite Hk.
    destruct (flag_value h view args k) as [v0|] eqn:Ef0.
    + rewrite (IH (h_set h a v0) k a Hk). destruct (mem k r).
      * unfold flag_value in *. destruct (last_assoc k args None); [assumption|].
        unfold read in Ef0 |- *. rewrite Hk in Ef0 |- *. rewrite h_get_set_same. reflexivity.
      * apply h_get_set_same.
    + rewrite (IH h k a Hk). destruct (mem k r); [assumption|].
      unfold flag_value, read in Ef0. destruct (last_assoc k args None); [discriminate|].
      rewrite Hk in Ef0. exact Ef0.
  - (* another cell *)
    assert (Hne : k <> k0) by (intros ->; rewrite String.eqb_refl in Ek; discriminate).
    destruct (flag_value h view args k0) as [v0|] eqn:Ef0; [|apply IH; exact Hk].
    destruct (e_get view k0) as [a0|] eqn:Ee0; [|apply IH; exact Hk].
    rewrite (IH (h_set h a0 v0) k a Hk). destruct (mem k r).
    + apply flag_value_frame with (k0 := k0) (a0 := a0); auto.
    + apply h_get_set_other. intros ->. apply Hne. eapply Hinj; eauto.
Qed.

Lemma mem_map_fst (e : env) k a : e_get e k = Some a -> mem k (map fst e) = true.
Proof.
  induction e as [|[k' a'] r IH]; simpl; [discriminate|].
  destruct (String.eqb k k'); simpl; auto.
Qed.

(* the value a constructor sees is the command-line value if one was given (the last occurrence),
   else the registered default *)
Lemma flag_value_is_used h reg args k a : env_inj reg -> e_get reg k = Some a ->
  construct_reads (run_frontend h reg args) reg k = flag_value h reg args k.
Proof.
  intros Hinj Hk. unfold construct_reads, read, run_frontend, get_infos_shared. rewrite Hk.
  rewrite (assign_params_spec reg args Hinj _ h k a Hk). rewrite (mem_map_fst reg k a Hk). reflexivity.
Qed.

(* ---------- thresholds ---------- *)
Lemma size_reports_monotone s t1 t2 : t1 <= t2 -> size_reports s t2 = true -> size_reports s t1 = true.
Proof. unfold size_reports. lia. Qed.
Lemma size_reports_boundary n : size_reports n n = true /\ size_reports n (n + 1) = false.
Proof. unfold size_reports. lia. Qed.
Lemma too_many_results_monotone c m1 m2 : m1 <= m2 -> too_many_results c m2 = true -> too_many_results c m1 = true.
Proof. unfold too_many_results. lia. Qed.
Lemma too_many_results_boundary n : too_many_results n n = false /\ too_many_results (n + 1) n = true.
Proof. unfold too_many_results. lia. Qed.
Lemma nesting_reports_monotone b w1 w2 : w1 <= w2 -> nesting_reports b w2 = true -> nesting_reports b w1 = true.
Proof. unfold nesting_reports. lia. Qed.
Lemma nesting_reports_boundary n : nesting_reports n n = true /\ nesting_reports n (n + 1) = false.
Proof. unfold nesting_reports. lia. Qed.
Lemma comment_too_short_monotone r m1 m2 : m1 <= m2 -> comment_too_short r m1 = true -> comment_too_short r m2 = true.
Proof. unfold comment_too_short. lia. Qed.
Lemma comment_too_short_boundary n : comment_too_short n n = false /\ comment_too_short n (n + 1) = true.
Proof. unfold comment_too_short. lia. Qed.

Definition end_bonus (e : chain_end) : Z := match e with EndElseBlock => 1 | EndNoElse => 0 end.

Lemma count_ifelse_len_spec inits e c : inits <> [] ->
  count_ifelse_len inits e c =
  if existsb (fun b => b) inits then 0 else c + Z.of_nat (List.length inits) - 1 + end_bonus e.
Proof.
  revert c; induction inits as [|b r IH]; intros c Hne; [congruence|].
  cbn [count_ifelse_len existsb]. destruct b; [reflexivity|]. cbn [orb].
  destruct r as [|b' r'].
  - cbn. destruct e; cbn; lia.
  - rewrite IH by discriminate. destruct (existsb (fun b => b) (b' :: r')); [reflexivity|].
    cbn [List.length]. lia.
Qed.

Lemma if_else_reports_monotone inits e t1 t2 : t1 <= t2 ->
  if_else_reports inits e t2 = true -> if_else_reports inits e t1 = true.
Proof. unfold if_else_reports. lia. Qed.

(* a chain of exactly n branches (n-1 else-ifs and a final else, no Init clauses) is reported at
   minThreshold = n and not at n + 1 *)
Lemma if_else_reports_boundary inits : inits <> [] -> existsb (fun b => b) inits = false ->
  let n := Z.of_nat (List.length inits) in
  if_else_reports inits EndElseBlock n = true /\ if_else_reports inits EndElseBlock (n + 1) = false.
Proof.
  intros Hne Hi n. unfold if_else_reports. rewrite count_ifelse_len_spec by exact Hne. rewrite Hi.
  cbn [end_bonus]. unfold n. lia.
Qed.

(* ---------- sizes ---------- *)
Lemma gc_sizeof_array n e : 0 < n -> gc_sizeof (TArray n e) = n * gc_sizeof e.
Proof. intros H. cbn [gc_sizeof]. destruct (n <=? 0) eqn:E; lia. Qed.
Lemma gc_sizeof_array_nonpos n e : n <= 0 -> gc_sizeof (TArray n e) = 0.
Proof. intros H. cbn [gc_sizeof]. destruct (n <=? 0) eqn:E; lia. Qed.
Lemma gc_sizeof_empty_struct : gc_sizeof (TStruct []) = 0.
Proof. reflexivity. Qed.
Lemma align_up_multiple x a : 0 < a -> (align_up x a) mod a = 0.
Proof. intros H. unfold align_up. apply Z.mod_mul. lia. Qed.
Lemma align_up_ge x a : 0 < a -> x <= align_up x a.
Proof.
  intros H. unfold align_up.
  pose proof (Z.div_mod (x + a - 1) a ltac:(lia)) as Hd.
  pose proof (Z.mod_pos_bound (x + a - 1) a H) as Hm. nia.
Qed.

(* ---------- the platform-parametric size model, instantiated at amd64, is the amd64 model ---------- *)
Lemma fold_left_ext_forall {A B} (f g : A -> B -> A) (P : B -> Prop) l :
  Forall P l -> (forall a b, P b -> f a b = g a b) -> forall a0, fold_left f l a0 = fold_left g l a0.
Proof.
  intros HF H. induction HF as [|b r Hb _ IH]; intros a0; [reflexivity|].
  cbn [fold_left]. rewrite (H a0 b Hb). apply IH.
Qed.

Lemma gsize_amd64 : forall t, gsize amd64 t = gc_sizeof t /\ galign amd64 t = gc_alignof t.
Proof.
  fix IH 1. intros t. destruct t as [ | | | | | | | | | | | | | | | | | | | n e | fs]; try (split; reflexivity).
  - destruct (IH e) as [Hs Ha]. split; cbn [gsize gc_sizeof galign gc_alignof]; rewrite ?Hs, ?Ha; reflexivity.
  - assert (Hall : Forall (fun f => gsize amd64 f = gc_sizeof f /\ galign amd64 f = gc_alignof f) fs).
    { clear -IH. revert fs. fix F 1. intros [|f r]; [constructor|]. constructor; [apply IH|apply F]. }
    assert (Hal : fold_left (fun m f => Z.max m (galign amd64 f)) fs 1 = fold_left (fun m f => Z.max m (gc_alignof f)) fs 1).
    { apply (fold_left_ext_forall _ _ _ fs Hall). intros a b [_ Hb]. rewrite Hb. reflexivity. }
    split; cbn [gsize gc_sizeof galign gc_alignof]; [|exact Hal].
    rewrite Hal.
    rewrite (fold_left_ext_forall
               (fun st f => let o := align_up (fst st) (galign amd64 f) in (o + gsize amd64 f, gsize amd64 f))
               (fun st f => let o := align_up (fst st) (gc_alignof f) in (o + gc_sizeof f, gc_sizeof f)) _ fs Hall).
    + reflexivity.
    + intros a b [Hs Ha]. cbn zeta. rewrite Hs, Ha. reflexivity.
Qed.

(* word-sized things shrink with the word *)
Lemma gsize_word_scaled a : gsize a TString = 2 * word a /\ gsize a TSlice = 3 * word a /\ gsize a TInt = word a.
Proof. repeat split. Qed.
