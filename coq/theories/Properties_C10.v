(* Properties_C10.v — property C10: simplification suggestions preserve program behaviour.
   Statements only; each is closed by [exact]. *)
From GC Require Import Base Model_Expr Model_BoolSimp Proofs_Expr Proofs_BoolSimp Proofs_Rewrites.
Open Scope string_scope.

(* The full statement  well_typed e -> eval env (simplify_bool e) = eval env e  is FALSE for the
   unchanged code: two independent counterexamples (both replayed on compiled Go by the oracle). *)
Theorem C10_bool_simplify_incdec_float_refuted :
  exists en e, env_ok en /\ typeof e = Some TBool /\
    print_expr e = "x+1 > y" /\ print_expr (simplify_bool e) = "x >= y" /\
    eval en e = Some (RVal (VBool true), []) /\ eval en (simplify_bool e) = Some (RVal (VBool false), []).
Proof. exact remove_incdec_float_refuted. Qed.
Print Assumptions C10_bool_simplify_incdec_float_refuted.

Theorem C10_bool_simplify_octal_bound_refuted :
  exists en e, env_ok en /\ typeof e = Some TBool /\
    print_expr e = "x > 8 && x < 010" /\ print_expr (simplify_bool e) = "x == 9" /\
    eval en e = Some (RVal (VBool false), []) /\ eval en (simplify_bool e) = Some (RVal (VBool true), []).
Proof. exact fold_ranges_octal_refuted. Qed.
Print Assumptions C10_bool_simplify_octal_bound_refuted.
