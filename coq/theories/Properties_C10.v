(* Properties_C10.v — property C10: simplification suggestions preserve program behaviour.
   Statements only; each is closed by [exact]. *)
From GC Require Import Base Model_Expr Model_BoolSimp Proofs_Expr Proofs_BoolSimp Proofs_Rewrites.
Open Scope string_scope.

(* The full statement, for the checker as it stands in /repo (after the fixes 546af6d and 7e0e8ca):
   for every environment (all values of all variables, NaN and infinities included, all behaviours of the
   opaque functions) the suggestion computes the same result and performs the same calls in the same order. *)
Theorem C10_bool_simplify_preserves : forall en e,
  env_ok en -> well_typed e -> eval en (simplify_bool e) = eval en e.
Proof. exact bool_simplify_preserves. Qed.
Print Assumptions C10_bool_simplify_preserves.

(* the same from any earlier history (the expression may be evaluated in the middle of a program) *)
Theorem C10_bool_simplify_preserves_any_history : forall en e,
  env_ok en -> well_typed e -> forall h, evalS en (simplify_bool e) h = evalS en e h.
Proof. exact bool_simplify_preserves_S. Qed.
Print Assumptions C10_bool_simplify_preserves_any_history.

Theorem C10_bool_simplify_keeps_type : forall e t, typeof e = Some t -> typeof (simplify_bool e) = Some t.
Proof. exact bool_simplify_keeps_type. Qed.
Print Assumptions C10_bool_simplify_keeps_type.

(* ---- the checker before the fixes ([simplify_bool_prefix]): the statement was false, twice ---- *)
Theorem C10_bool_simplify_prefix_incdec_float_refuted :
  exists en e, env_ok en /\ typeof e = Some TBool /\
    print_expr e = "x+1 > y" /\ print_expr (simplify_bool_prefix e) = "x >= y" /\
    eval en e = Some (RVal (VBool true), []) /\ eval en (simplify_bool_prefix e) = Some (RVal (VBool false), []).
Proof. exact prefix_remove_incdec_float_refuted. Qed.
Print Assumptions C10_bool_simplify_prefix_incdec_float_refuted.

Theorem C10_bool_simplify_prefix_octal_bound_refuted :
  exists en e, env_ok en /\ typeof e = Some TBool /\
    print_expr e = "x > 8 && x < 010" /\ print_expr (simplify_bool_prefix e) = "x == 9" /\
    eval en e = Some (RVal (VBool false), []) /\ eval en (simplify_bool_prefix e) = Some (RVal (VBool true), []).
Proof. exact prefix_fold_ranges_octal_refuted. Qed.
Print Assumptions C10_bool_simplify_prefix_octal_bound_refuted.

Theorem C10_bool_simplify_prefix_preserves_refuted :
  ~ (forall en e, env_ok en -> well_typed e -> eval en (simplify_bool_prefix e) = eval en e).
Proof. exact bool_simplify_prefix_preserves_refuted. Qed.
Print Assumptions C10_bool_simplify_prefix_preserves_refuted.

(* ... and held exactly under the two guards that the fixes added *)
Theorem C10_bool_simplify_prefix_preserves_partial : forall en e,
  env_ok en -> well_typed e -> no_float_incdec e = true -> decimal_bounds e = true ->
  eval en (simplify_bool_prefix e) = eval en e.
Proof. exact bool_simplify_prefix_preserves_partial. Qed.
Print Assumptions C10_bool_simplify_prefix_preserves_partial.

(* the current checker leaves both refuting expressions alone, and folds hexadecimal bounds correctly *)
Example C10_fixed_witnesses_unchanged :
  simplify_bool w_incdec = w_incdec /\ check_expr w_incdec = None /\
  simplify_bool w_octal = w_octal /\ check_expr w_octal = None /\
  print_expr (simplify_bool (EBinary OLAnd (EBinary OGt (EIdent "x" TInt) (ELit LInt "010" TInt)) (EBinary OLt (EIdent "x" TInt) (ELit LInt "0xA" TInt)))) = "x == 9".
Proof. exact fixed_witnesses_unchanged. Qed.

(* per-rule facts *)
Theorem C10_invert_comparison_needs_float_guard :
  cmp_val OGe (VFloat FNaN) (VFloat FNaN) <> option_map negb (cmp_val OLt (VFloat FNaN) (VFloat FNaN)).
Proof. exact cmp_val_nan_refutes_negate. Qed.
Print Assumptions C10_invert_comparison_needs_float_guard.

Theorem C10_invert_comparison_non_float : forall o o' v1 v2,
  negate_cmp o = Some o' -> vty v1 <> TFloat -> cmp_val o' v1 v2 = option_map negb (cmp_val o v1 v2).
Proof. exact cmp_val_negate. Qed.
Print Assumptions C10_invert_comparison_non_float.

Theorem C10_combine_checks_any_order_incl_nan : forall o1 o2 o v1 v2,
  comb_table o1 o2 = Some o -> vty v1 <> TBool ->
  cmp_val o v1 v2 =
  match cmp_val o1 v1 v2, cmp_val o2 v1 v2 with Some x, Some y => Some (x || y) | _, _ => None end.
Proof. exact cmp_val_comb. Qed.
Print Assumptions C10_combine_checks_any_order_incl_nan.

Theorem C10_fold_ranges_int : forall lo ro d delta z c1 c2,
  table_find and_table lo ro d = Some delta -> (c2 - c1 = d)%Z ->
  cmp_Z lo z c1 && cmp_Z ro z c2 = cmp_Z OEq z (c1 + delta).
Proof. exact and_table_sound. Qed.
Print Assumptions C10_fold_ranges_int.

Theorem C10_fold_ranges_int_or : forall lo ro d delta z c1 c2,
  table_find or_table lo ro d = Some delta -> (c2 - c1 = d)%Z ->
  cmp_Z lo z c1 || cmp_Z ro z c2 = cmp_Z ONe z (c1 + delta).
Proof. exact or_table_sound. Qed.
Print Assumptions C10_fold_ranges_int_or.

Example C10_guards_satisfiable :
  typeof w_all_rules = Some TBool /\ no_float_incdec w_all_rules = true /\ decimal_bounds w_all_rules = true /\
  print_expr w_all_rules = "!(x < 3) && x+1 > y || (x > 1 && x < 3 || ((x > y || x == y) || !!(!k) == !l))" /\
  print_expr (simplify_bool_prefix w_all_rules) = "x >= 3 && x >= y || (x == 2 || ((x >= y) || k == l))" /\
  print_expr (simplify_bool w_all_rules) = "x >= 3 && x >= y || (x == 2 || ((x >= y) || k == l))".
Proof. exact guards_satisfiable. Qed.

(* ---------------- the embedded rules, as (pattern, filter, template) over Model_Expr ---------------- *)
From GC Require Import Model_Claims Model_Rewrites.

Theorem C10_sloppy_len_preserves : forall en x, preserves en (rw_sloppy_len x).
Proof. exact sloppy_len_preserves. Qed.
Print Assumptions C10_sloppy_len_preserves.

Theorem C10_empty_string_test_preserves : forall en, env_ok en -> forall s, typeof s = Some TString ->
  preserves en (rw_empty_ne s) /\ preserves en (rw_empty_gt s) /\ preserves en (rw_empty_eq s) /\ preserves en (rw_empty_le s).
Proof. exact empty_string_test_preserves. Qed.
Print Assumptions C10_empty_string_test_preserves.

Theorem C10_string_x_bytes_preserves : forall en, env_ok en -> forall b, typeof b = Some TBytes ->
  preserves en (rw_xbytes_len b) /\ preserves en (rw_xbytes_eq_empty b) /\ preserves en (rw_xbytes_ne_empty b).
Proof. intros en Hen b T. exact (conj (xbytes_len_preserves en Hen b T) (conj (xbytes_eq_empty_preserves en Hen b T) (xbytes_ne_empty_preserves en Hen b T))). Qed.
Print Assumptions C10_string_x_bytes_preserves.

Theorem C10_wrapper_func_index_preserves : forall en s1 s2,
  preserves en (rw_index_ge s1 s2) /\ preserves en (rw_index_ne s1 s2).
Proof. intros en s1 s2. exact (conj (index_ge_preserves en s1 s2) (index_ne_preserves en s1 s2)). Qed.
Print Assumptions C10_wrapper_func_index_preserves.

Theorem C10_unslice_preserves : forall en, env_ok en -> forall s t, typeof s = Some t ->
  (t = TString \/ t = TInts \/ t = TBytes) -> preserves en (rw_unslice s).
Proof. exact unslice_preserves. Qed.
Print Assumptions C10_unslice_preserves.

(* asserted by the repository's own test expectations, nevertheless false *)
Theorem C10_time_expr_simplify_refuted :
  exists en t, env_ok en /\ typeof t = Some TTime /\
    eval en (rw_lhs (rw_unix_milli t)) = Some (RVal (VInt 5), []) /\ eval en (rw_rhs (rw_unix_milli t)) = Some (RVal (VInt 5000000), []) /\
    eval en (rw_lhs (rw_unix_micro t)) = Some (RVal (VInt 5000000000000000), []) /\ eval en (rw_rhs (rw_unix_micro t)) = Some (RVal (VInt 5000000000), []).
Proof. exact time_expr_simplify_refuted. Qed.
Print Assumptions C10_time_expr_simplify_refuted.

Theorem C10_string_concat_simplify_prefix_refuted :
  exists en x y g, env_ok en /\ typeof (rw_lhs (rw_join_glue x y g)) = Some TString /\
    eval en (rw_lhs (rw_join_glue x y g)) = Some (RVal (VStr "a-b"), [Ev "f" [] (VStr "a"); Ev "g" [] (VStr "b"); Ev "h" [] (VStr "-")]) /\
    eval en (rw_rhs (rw_join_glue x y g)) = Some (RVal (VStr "a-b"), [Ev "f" [] (VStr "a"); Ev "h" [] (VStr "-"); Ev "g" [] (VStr "b")]).
Proof. exact string_concat_simplify_prefix_refuted. Qed.
Print Assumptions C10_string_concat_simplify_prefix_refuted.

(* what a purity filter on $glue buys: with a glue that yields a value without events, independently of the
   history (literal, variable), the rewrite is an equivalence for all operands $x, $y *)
Theorem C10_string_concat_simplify_preserves_partial : forall en x y g,
  env_ok en -> typeof (rw_lhs (rw_join_glue x y g)) = Some TString -> pure_total en g ->
  preserves en (rw_join_glue x y g).
Proof. exact string_concat_simplify_preserves_partial. Qed.
Print Assumptions C10_string_concat_simplify_preserves_partial.

Theorem C10_off_by1_suggestion_differs :
  exists en x, env_ok en /\ off_by1 (rw_lhs (rw_off_by1 x)) = true /\
    eval en (rw_lhs (rw_off_by1 x)) = Some (RPanic, []) /\ eval en (rw_rhs (rw_off_by1 x)) = Some (RVal (VInt 7), []).
Proof. exact off_by1_suggestion_differs. Qed.
Print Assumptions C10_off_by1_suggestion_differs.

(* ---------------- more rule triples ---------------- *)
Theorem C10_strings_compare_preserves : forall en, env_ok en -> forall s1 s2,
  typeof s1 = Some TString -> typeof s2 = Some TString ->
  preserves en (rw_compare OEq lit0 OEq s1 s2) /\ preserves en (rw_compare OEq litm1 OLt s1 s2) /\
  preserves en (rw_compare OLt lit0 OLt s1 s2) /\ preserves en (rw_compare OEq lit1 OGt s1 s2) /\
  preserves en (rw_compare OGt lit0 OGt s1 s2).
Proof. exact strings_compare_preserves. Qed.
Print Assumptions C10_strings_compare_preserves.

(* yodaStyleExpr: `lit == x` => `x == lit`, `lit != x` => `x != lit`, for every operand type, NaN included *)
Theorem C10_yoda_style_preserves : forall en o k s t x,
  (o = OEq \/ o = ONe) -> typeof (ELit k s t) <> None -> preserves en (rw_yoda o (ELit k s t) x).
Proof. exact yoda_preserves. Qed.
Print Assumptions C10_yoda_style_preserves.

(* ---------------- statement-level rules (Model_Stmt) ---------------- *)
From GC Require Import Model_Stmt Proofs_Stmt.

(* assignOp: `x = x op y` => `x op= y` under the rule's filter (x without opaque calls), y arbitrary *)
Theorem C10_assign_op_preserves : forall en l o e h,
  env_ok en -> is_arith o = true -> lval_pure l = true ->
  exec en (assign_op_lhs l o e) h = exec en (assign_op_rhs l o e) h.
Proof. exact assign_op_preserves. Qed.
Print Assumptions C10_assign_op_preserves.

Theorem C10_assign_incdec_preserves : forall en l (inc : bool) s h,
  env_ok en -> lval_pure l = true -> go_int_lit s = Some 1%Z -> (lval_ty l = TInt \/ lval_ty l = TFloat) ->
  exec en (assign_op_lhs l (if inc then OAdd else OSub) (ELit LInt s (lval_ty l))) h = exec en (SIncDec l inc) h.
Proof. exact assign_incdec_preserves. Qed.
Print Assumptions C10_assign_incdec_preserves.

(* The rule group as the checker decides it ([assign_op_rewrite]: eleven operators, the ++/-- forms, literal 1
   matched by value, $x twice, filter m["x"].Pure; tied to the real checker on generated statements): every
   reported well-typed statement behaves like the replacement shown in the message.  Left operands: variables
   (plain, defined type), elements of slices / defined slices / arrays, fields through a pointer (nil => panic). *)
Theorem C10_assign_op_rule_preserves : forall en l e s' h,
  env_ok en -> typeof e <> None -> assign_op_rewrite (SAssign l e) = Some s' ->
  exec en (SAssign l e) h = exec en s' h.
Proof. exact assign_op_rule_preserves. Qed.
Print Assumptions C10_assign_op_rule_preserves.

Example C10_assign_op_rule_fires :
  assign_op_msgs (SAssign (LSel "w" "avail" KPlain TInt) (EBinary OAndNot (ESel "w" "avail" KPlain TInt) (EIdent "b" TInt)))
    = ["replace `w.avail = w.avail &^ b` with `w.avail &^= b`"] /\
  assign_op_msgs (SAssign (LVarK "mf" (KDef "myF") TFloat) (EBinary OAdd (EVarK "mf" (KDef "myF") TFloat) (ELit LInt "0x1" TFloat)))
    = ["replace `mf = mf + 0x1` with `mf++`"] /\
  assign_op_msgs (SAssign (LIdx "xs" (ECall (FOpaque "fi" TInt) [])) (EBinary OAdd (EIndex (EIdent "xs" TInts) (ECall (FOpaque "fi" TInt) [])) (EIdent "b" TInt))) = [].
Proof. vm_compute. repeat split. Qed.

(* switchTrue: a tag that always evaluates to true without events can be dropped *)
Theorem C10_switch_true_preserves : forall en t cases dflt h,
  (forall h', evalS en t h' = Some (RVal (VBool true), h')) ->
  exec en (switch_true_lhs t cases dflt) h = exec en (switch_true_rhs cases dflt) h.
Proof. exact switch_true_preserves. Qed.
Print Assumptions C10_switch_true_preserves.

(* valSwap is not an equivalence: with side effects in the operands, and — even for pure operands — when
   the index of one operand mentions the other (`tmp := b; b = xs[b]; xs[b] = tmp`) *)
Theorem C10_val_swap_impure_refuted :
  exists en x y, env_ok en /\
    observe (exec en (val_swap_lhs "tmp" TInt x y) []) <> observe (exec en (val_swap_rhs x y) []).
Proof. exact val_swap_impure_refuted. Qed.
Print Assumptions C10_val_swap_impure_refuted.

Theorem C10_val_swap_index_dependence_refuted :
  exists en x y, env_ok en /\ lval_pure x = true /\ lval_pure y = true /\
    observe (exec en (val_swap_lhs "tmp" TInt x y) []) <> observe (exec en (val_swap_rhs x y) []).
Proof. exact val_swap_index_dependence_refuted. Qed.
Print Assumptions C10_val_swap_index_dependence_refuted.

(* the rules as decided by the checker (tied on generated statements) *)
Theorem C10_switch_true_rule_preserves : forall en n cases dflt s' h,
  switch_true_rewrite (SSwitch (Some (EConst n (VBool true))) cases dflt) = Some s' ->
  exec en (SSwitch (Some (EConst n (VBool true))) cases dflt) h = exec en s' h.
Proof. exact switch_true_rule_preserves. Qed.
Print Assumptions C10_switch_true_rule_preserves.

(* the rule matches the spelling `true`: with a variable of that name the rewrite changes the arm taken *)
Theorem C10_switch_true_shadowed_refuted :
  exists en s s', env_ok en /\ switch_true_rewrite s = Some s' /\
    observe (exec en s []) <> observe (exec en s' []).
Proof. exact switch_true_shadowed_refuted. Qed.
Print Assumptions C10_switch_true_shadowed_refuted.

Theorem C10_val_swap_rule_refuted :
  exists en s1 s2 s3 s', env_ok en /\ val_swap_rewrite s1 s2 s3 = Some s' /\
    observe (exec en (SSeq s1 (SSeq s2 s3)) []) <> observe (exec en s' []).
Proof. exact val_swap_rule_refuted. Qed.
Print Assumptions C10_val_swap_rule_refuted.

(* newDeref *)
Theorem C10_new_deref_zero_literal : forall en t e h,
  zero_lit t = Some e ->
  (exists k s, e = ELit k s t /\ zero_value_text "T" (match t with TInt => ZInt | TFloat => ZFloat | _ => ZString end) true = Some s) /\
  exists v, evalS en e h = Some (RVal v, h) /\ cmp_val OEq v (default_value t) = Some true.
Proof. exact new_deref_zero_literal. Qed.
Print Assumptions C10_new_deref_zero_literal.

(* unlambda: the function literal evaluates its callee when called, the replacement when defined *)
Theorem C10_unlambda_pkg_func_stable : forall n, callee_stable (CPkgFunc n).
Proof. exact unlambda_pkg_func_stable. Qed.
Print Assumptions C10_unlambda_pkg_func_stable.

Theorem C10_unlambda_flags_shape : forall c,
  unlambda_flags c = true -> (exists n, c = CPkgFunc n) \/ (exists r m, c = CMethod r false m).
Proof. exact unlambda_flags_shape. Qed.
Print Assumptions C10_unlambda_flags_shape.

Theorem C10_unlambda_stable_only_pkg_func : forall c, callee_stable c -> exists n, c = CPkgFunc n.
Proof. exact unlambda_stable_only_pkg_func. Qed.
Print Assumptions C10_unlambda_stable_only_pkg_func.

(* recorded finding C10/unlambda/method-value-capture *)
Theorem C10_unlambda_method_value_refuted :
  exists c st1 st2, unlambda_flags c = true /\ callee_eval st1 c <> callee_eval st2 c.
Proof. exact unlambda_method_value_refuted. Qed.
Print Assumptions C10_unlambda_method_value_refuted.

(* redundantSprint (Stringer rule): sound only when the operand is neither a Formatter nor an error *)
Theorem C10_redundant_sprint_preserves_partial : forall o s,
  fo_format o = None -> fo_error o = None -> fo_string o = Some s -> fmt_sprint o = s.
Proof. exact redundant_sprint_preserves_partial. Qed.
Print Assumptions C10_redundant_sprint_preserves_partial.

Theorem C10_redundant_sprint_error_refuted :
  exists o s, fo_format o = None /\ fo_string o = Some s /\ fmt_sprint o <> s.
Proof. exact redundant_sprint_error_refuted. Qed.
Print Assumptions C10_redundant_sprint_error_refuted.

Theorem C10_redundant_sprint_formatter_refuted :
  exists o s, fo_error o = None /\ fo_string o = Some s /\ fmt_sprint o <> s.
Proof. exact redundant_sprint_formatter_refuted. Qed.
Print Assumptions C10_redundant_sprint_formatter_refuted.

(* recorded findings of round 4 *)
Theorem C10_bool_simplify_float_flag_missed_refuted :
  exists en e, env_ok en /\ typeof e = Some TBool /\ has_floats e = true /\
    print_expr (simp false e) = "x >= y" /\
    eval en e = Some (RVal (VBool true), []) /\ eval en (simp false e) = Some (RVal (VBool false), []).
Proof. exact float_flag_missed_refuted. Qed.
Print Assumptions C10_bool_simplify_float_flag_missed_refuted.

Theorem C10_defer_unlambda_func_var_refuted :
  exists c st1 st2, defer_unlambda_flags c = true /\ callee_eval st1 c <> callee_eval st2 c.
Proof. exact defer_unlambda_func_var_refuted. Qed.
Print Assumptions C10_defer_unlambda_func_var_refuted.

(* ---------------- round 5: more rule triples ---------------- *)
(* wrapperFunc, bytes family (was oracle-only): bytes.Index(b1, b2) >= 0 | != -1 => bytes.Contains(b1, b2) *)
Theorem C10_wrapper_func_bytes_index_preserves : forall en b1 b2,
  preserves en (rw_bytes_index_ge b1 b2) /\ preserves en (rw_bytes_index_ne b1 b2).
Proof. intros en b1 b2. exact (conj (bytes_index_ge_preserves en b1 b2) (bytes_index_ne_preserves en b1 b2)). Qed.
Print Assumptions C10_wrapper_func_bytes_index_preserves.

(* strings.IndexAny(s, chars) >= 0 | != -1 => strings.ContainsAny(s, chars), on ASCII operands (outside: None on both sides) *)
Theorem C10_wrapper_func_index_any_preserves : forall en s1 s2,
  preserves en (rw_index_any_ge s1 s2) /\ preserves en (rw_index_any_ne s1 s2).
Proof. intros en s1 s2. exact (conj (index_any_ge_preserves en s1 s2) (index_any_ne_preserves en s1 s2)). Qed.
Print Assumptions C10_wrapper_func_index_any_preserves.

(* strings.Replace(s, old, new, -1) => strings.ReplaceAll(s, old, new), bytes.Replace likewise *)
Theorem C10_wrapper_func_replace_all_preserves : forall en s o n,
  preserves en (rw_replace_all s o n) /\ preserves en (rw_bytes_replace_all s o n).
Proof. intros en s o n. exact (conj (replace_all_preserves en s o n) (bytes_replace_all_preserves en s o n)). Qed.
Print Assumptions C10_wrapper_func_replace_all_preserves.

(* stringXbytes: string(x) == string(y) => bytes.Equal(x, y); != => !bytes.Equal(x, y) *)
Theorem C10_string_x_bytes_equal_preserves : forall en, env_ok en -> forall x y,
  typeof x = Some TBytes -> typeof y = Some TBytes ->
  preserves en (rw_xbytes_equal x y) /\ preserves en (rw_xbytes_nequal x y).
Proof. intros en Hen x y Tx Ty. exact (conj (xbytes_equal_preserves en Hen x y Tx Ty) (xbytes_nequal_preserves en Hen x y Tx Ty)). Qed.
Print Assumptions C10_string_x_bytes_equal_preserves.

(* stringConcatSimplify with the empty glue: strings.Join([]string{x, y}, "") => x + y, three elements likewise *)
Theorem C10_string_concat_empty_glue_preserves : forall en, env_ok en -> forall x y z,
  typeof x = Some TString -> typeof y = Some TString -> typeof z = Some TString ->
  preserves en (rw_join2_empty x y) /\ preserves en (rw_join3_empty x y z).
Proof. intros en Hen x y z Tx Ty Tz. exact (conj (join2_empty_preserves en Hen x y Tx Ty) (join3_empty_preserves en Hen x y z Tx Ty Tz)). Qed.
Print Assumptions C10_string_concat_empty_glue_preserves.

(* equalFold (not among the checkers C10 enumerates; modelled as an observation): with both sides lower-cased the
   suggestion agrees with the original wherever the original is inside the ASCII fragment ...
   full statement:  forall h, evalS en rhs h = evalS en lhs h  — not provable here: strings.ToLower on non-ASCII
   operands is outside the model *)
Theorem C10_equal_fold_both_lower_preserves_partial : forall en x y h o,
  evalS en (rw_lhs (rw_equal_fold_both x y)) h = Some o -> evalS en (rw_rhs (rw_equal_fold_both x y)) h = Some o.
Proof. exact equal_fold_both_lower_preserves_partial. Qed.
Print Assumptions C10_equal_fold_both_lower_preserves_partial.

(* ... and the one-sided patterns (`strings.ToLower($x) == $y`) change the result *)
Theorem C10_equal_fold_one_sided_refuted :
  exists en x y, env_ok en /\ equal_fold_filter x y = true /\
    eval en (rw_lhs (rw_equal_fold_left x y)) = Some (RVal (VBool false), []) /\
    eval en (rw_rhs (rw_equal_fold_left x y)) = Some (RVal (VBool true), []).
Proof. exact equal_fold_one_sided_refuted. Qed.
Print Assumptions C10_equal_fold_one_sided_refuted.

Example C10_equal_fold_guard_satisfiable :
  evalS (env_of [("x", VStr "Go"); ("y", VStr "gO")] []) (rw_lhs (rw_equal_fold_both (EIdent "x" TString) (EIdent "y" TString))) []
    = Some (RVal (VBool true), []).
Proof. vm_compute. reflexivity. Qed.

(* ---------------- round 6: pointers to arrays and maps are values of the model ---------------- *)
(* unslice's filter (string or slice type) is necessary: on a pointer to an array `p[:]` => `p` changes the value
   (slice vs pointer), and for a nil pointer a panic becomes a value.  C10_unslice_preserves above is the positive side. *)
Theorem C10_unslice_pointer_to_array_refuted :
  exists en s, env_ok en /\ typeof s = Some TPArr /\ typeof (rw_lhs (rw_unslice s)) = Some TInts /\
    eval en (rw_lhs (rw_unslice s)) = Some (RVal (VInts [1; 2; 3]%Z), []) /\
    eval en (rw_rhs (rw_unslice s)) = Some (RVal (VPArr 3 (Some [1; 2; 3]%Z)), []).
Proof. exact unslice_pointer_to_array_refuted. Qed.
Print Assumptions C10_unslice_pointer_to_array_refuted.

Theorem C10_unslice_nil_pointer_to_array_refuted :
  exists en s, env_ok en /\ typeof s = Some TPArr /\
    eval en (rw_lhs (rw_unslice s)) = Some (RPanic, []) /\ eval en (rw_rhs (rw_unslice s)) = Some (RVal (VPArr 3 None), []).
Proof. exact unslice_nil_pointer_to_array_refuted. Qed.
Print Assumptions C10_unslice_nil_pointer_to_array_refuted.

(* valSwap, positive side.  Full statement (false, see C10_val_swap_rule_refuted / _index_dependence_refuted):
     forall x y, val_swap_rewrite .. = Some s' -> exec (tmp := y; y = x; x = tmp) = exec (y, x = x, y).
   Guard: x and y are two distinct plain variables of one type and the temporary is neither.  Then both forms succeed
   without events and agree on every variable except the temporary, with x and y exchanged. *)
Theorem C10_val_swap_vars_preserves_partial : forall en x y t tmp h,
  env_ok en -> x <> y -> tmp <> x -> tmp <> y ->
  exists en1 en2,
    exec en (val_swap_lhs tmp t (LVar x t) (LVar y t)) h = Some (RVal en1, h) /\
    exec en (val_swap_rhs (LVar x t) (LVar y t)) h = Some (RVal en2, h) /\
    (forall z u, (z <> tmp \/ u <> t) -> vars en1 z u = vars en2 z u) /\
    vars en2 x t = vars en y t /\ vars en2 y t = vars en x t.
Proof. exact val_swap_vars_preserves_partial. Qed.
Print Assumptions C10_val_swap_vars_preserves_partial.

Example C10_val_swap_guard_satisfiable :
  "a" <> "b" /\ "tmp" <> "a" /\ "tmp" <> "b" /\
  val_swap_rewrite (SDefine "tmp" TInt (EIdent "b" TInt)) (SAssign (LVar "b" TInt) (EIdent "a" TInt)) (SAssign (LVar "a" TInt) (EIdent "tmp" TInt))
    = Some (SAssign2 (LVar "b" TInt) (LVar "a" TInt) (EIdent "a" TInt) (EIdent "b" TInt)).
Proof. repeat split; try discriminate. Qed.

(* ---------------- round 7: underef as a modelled rule (EDeref: dereference of a pointer to an array) ---------------- *)
(* deref-then-index => `p[i]`: with a non-nil pointer both forms agree for EVERY index expression (effects included) *)
Theorem C10_underef_index_preserves_nonnil : forall en p i h n l h1,
  evalS en p h = Some (RVal (VPArr n (Some l)), h1) ->
  evalS en (rw_rhs (rw_underef_index p i)) h = evalS en (rw_lhs (rw_underef_index p i)) h.
Proof. exact underef_index_preserves_nonnil. Qed.
Print Assumptions C10_underef_index_preserves_nonnil.

(* Full statement:  forall p i h, evalS en (rw_rhs ..) h = evalS en (rw_lhs ..) h.  False in the model's strict left-to-right
   order for a nil pointer and an index with calls (C10_underef_nil_impure_index_order: both panic, the call happens
   only in the replacement; Go leaves this order to the compiler and the differential oracle counts two panicking runs
   as equal).  Guard: the index has no calls.  Then, nil included, the replacement has the outcome of the original. *)
Theorem C10_underef_index_preserves_partial : forall en p i,
  env_ok en -> typeof p = Some TPArr -> no_opaque i = true -> forall h o,
  evalS en (rw_rhs (rw_underef_index p i)) h = Some o -> evalS en (rw_lhs (rw_underef_index p i)) h = Some o.
Proof. exact underef_index_preserves_partial. Qed.
Print Assumptions C10_underef_index_preserves_partial.

Theorem C10_underef_nil_impure_index_order :
  exists en p i, env_ok en /\ typeof p = Some TPArr /\
    eval en (rw_lhs (rw_underef_index p i)) = Some (RPanic, []) /\
    eval en (rw_rhs (rw_underef_index p i)) = Some (RPanic, [Ev "fi" [] (VInt 0)]).
Proof. exact underef_nil_impure_index_order. Qed.
Print Assumptions C10_underef_nil_impure_index_order.

Example C10_underef_guard_satisfiable :
  typeof (EIdent "pa" TPArr) = Some TPArr /\ no_opaque (EIdent "a" TInt) = true /\
  evalS (env_of [("pa", VPArr 3 (Some [5; 6; 7]%Z)); ("a", VInt 1)] []) (rw_lhs (rw_underef_index (EIdent "pa" TPArr) (EIdent "a" TInt))) []
    = Some (RVal (VInt 6), []) /\
  print_expr (rw_lhs (rw_underef_index (EIdent "pa" TPArr) (EIdent "a" TInt))) = "(*pa)[a]".
Proof. vm_compute. repeat split. Qed.
