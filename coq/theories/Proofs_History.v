(* Proofs_History.v — init-irrelevance of the modelled scratch-state disciplines and the
   induction over histories (C03). *)
From GC Require Import Base Model_Walk Proofs_Walk Model_History.
From Coq Require Import Permutation.

(* ---- histories ---- *)
Section Hist.
  Context {C F S : Type}.
  Variable scratch0 : S.
  Variable run : C -> S -> F -> S * list warning.
  Variable I : S -> Prop.
  Hypothesis I0 : I scratch0.
  Hypothesis Ipres : forall c s f, I s -> I (fst (run c s f)).
  Hypothesis irr : forall c s s' f, I s -> I s' -> snd (run c s f) = snd (run c s' f).

  Lemma fold_inv : forall h s, I s -> I (fold_left (fun s cf => fst (run (fst cf) s (snd cf))) h s).
  Proof. induction h as [|cf r IH]; simpl; intros s Hs; auto. Qed.

  Lemma history_irrelevant : forall h c f, result_after scratch0 run h c f = result_fresh scratch0 run c f.
  Proof. intros h c f. unfold result_after, result_fresh, after_history. apply irr; [apply fold_inv|]; exact I0. Qed.

  Lemma cli_from_spec : forall h s, I s ->
    cli_from run s h = flat_map (fun cf => result_fresh scratch0 run (fst cf) (snd cf)) h.
  Proof.
    induction h as [|cf r IH]; simpl; intros s Hs; auto.
    destruct (run (fst cf) s (snd cf)) as [s1 w] eqn:E.
    pose proof (Ipres (fst cf) s (snd cf) Hs) as H1. rewrite E in H1. simpl in H1.
    pose proof (irr (fst cf) s scratch0 (snd cf) Hs I0) as H2. rewrite E in H2. simpl in H2.
    rewrite (IH s1 H1). f_equal. unfold result_fresh. exact H2.
  Qed.

  Lemma cli_run_spec : forall h, cli_run scratch0 run h = flat_map (fun cf => result_fresh scratch0 run (fst cf) (snd cf)) h.
  Proof. intros. apply cli_from_spec. exact I0. Qed.

  (* order of the package arguments: the set of diagnostics is the same *)
  Lemma cli_order_irrelevant : forall h h', Permutation h h' -> Permutation (cli_run scratch0 run h) (cli_run scratch0 run h').
  Proof.
    intros h h' HP. rewrite !cli_run_spec. induction HP; simpl; auto.
    - apply Permutation_app_head. exact IHHP.
    - rewrite !app_assoc. apply Permutation_app_tail. apply Permutation_app_comm.
    - eapply Permutation_trans; eauto.
  Qed.

  (* grouping: one run over h1 ++ h2 prints what two separate runs (fresh instances) print *)
  Lemma cli_grouping_irrelevant : forall h1 h2,
    cli_run scratch0 run (h1 ++ h2)%list = (cli_run scratch0 run h1 ++ cli_run scratch0 run h2)%list.
  Proof. intros. rewrite !cli_run_spec. apply flat_map_app. Qed.
End Hist.

(* ---- 1. linter.Checker ---- *)
Lemma check_init_irrelevant {C F S} (wf : C -> S -> F -> S * list warning) :
  (forall c s s' f, snd (wf c s f) = snd (wf c s' f)) ->
  forall c bs bs' f, snd (check wf c bs f) = snd (check wf c bs' f).
Proof.
  intros H c [b s] [b' s'] f. unfold check. simpl. specialize (H c s s' f).
  destruct (wf c s f), (wf c s' f). simpl in *. congruence.
Qed.

(* without the truncation the result depends on the buffer left by the previous file *)
Lemma check_no_truncate_depends {C F S} (wf : C -> S -> F -> S * list warning) c s f w :
  snd (check_no_truncate wf c ([w], s) f) <> snd (check_no_truncate wf c ([], s) f).
Proof.
  unfold check_no_truncate. simpl. destruct (wf c s f) as [s' ws]. simpl.
  intro H. apply (f_equal (@length _)) in H. simpl in H. lia.
Qed.

(* ---- generic: visitors whose per-statement output ignores the incoming state ---- *)
Lemma visit_all_stateless {S} (visit : S -> stmt -> S * list warning) :
  (forall s s' x, snd (visit s x) = snd (visit s' x)) ->
  forall b s s', snd (visit_all visit s b) = snd (visit_all visit s' b).
Proof.
  intros H. induction b as [|x r IH]; simpl; intros s s'; auto.
  specialize (H s s' x). destruct (visit s x) as [s1 w1], (visit s' x) as [s1' w1']. simpl in H. subst.
  specialize (IH s1 s1'). destruct (visit_all visit s1 r), (visit_all visit s1' r). simpl in *. congruence.
Qed.

Lemma stateless_decl_local {S} (visit : S -> stmt -> S * list warning) :
  (forall s s' x, snd (visit s x) = snd (visit s' x)) ->
  decl_local (stmt_on_decl (fun s : S => s) visit) (fun _ => True).
Proof. intros H. apply stmt_on_decl_local. intros. apply visit_all_stateless. exact H. Qed.

(* the exprWalker variant: functions with a body and every other GenDecl *)
Lemma expr_on_decl_local {S} (visit : S -> stmt -> S * list warning) :
  (forall s s' x, snd (visit s x) = snd (visit s' x)) ->
  decl_local (expr_on_decl (fun s : S => s) visit) (fun _ => True).
Proof.
  intros H. split; [auto|]. intros s s' d _ _.
  destruct d as [p ex r [b|] cs|p ns|p b]; simpl; auto; apply visit_all_stateless; exact H.
Qed.

(* ---- 5/6. dupCase, mapKey, typeSwitchVar ---- *)
Lemma dc_local : decl_local dc_on_decl (fun _ => True).
Proof. apply stateless_decl_local. intros s s' [ls e|p cs|p g hs|p ws ks|t]; reflexivity. Qed.
Lemma mk_local : decl_local mk_on_decl (fun _ => True).
Proof. apply expr_on_decl_local. intros s s' [ls e|p cs|p g hs|p ws ks|t]; reflexivity. Qed.
Lemma tsv_local : decl_local tsv_on_decl (fun _ => True).
Proof. apply stateless_decl_local. intros s s' [ls e|p cs|p g hs|p ws ks|t]; reflexivity. Qed.

(* ---- 3. ifElseChain: outputs depend on [visited] only, and EnterFunc resets it ---- *)
Lemma iec_head_visited thr : forall ls eb a b, iec_visited a = iec_visited b ->
  snd (iec_head thr a ls eb) = snd (iec_head thr b ls eb)
  /\ iec_visited (fst (iec_head thr a ls eb)) = iec_visited (fst (iec_head thr b ls eb)).
Proof.
  intros [|cur rest] eb a b E; simpl; auto.
  rewrite E. destruct (memN (l_id cur) (iec_visited b)); simpl; auto.
  all: try (destruct (count_ifelse cur rest eb (iec_visited b) 0) as [n vis]; simpl; auto).
Qed.

Lemma iec_visit_all_visited thr : forall b a c, iec_visited a = iec_visited c ->
  snd (visit_all (iec_visit thr) a b) = snd (visit_all (iec_visit thr) c b).
Proof.
  induction b as [|x r IH]; simpl; intros a c E; auto.
  assert (H : snd (iec_visit thr a x) = snd (iec_visit thr c x)
              /\ iec_visited (fst (iec_visit thr a x)) = iec_visited (fst (iec_visit thr c x))).
  { destruct x; simpl; auto. apply iec_head_visited. exact E. }
  destruct (iec_visit thr a x) as [a1 w1], (iec_visit thr c x) as [c1 w1']. simpl in H. destruct H as [-> H].
  specialize (IH a1 c1 H). destruct (visit_all (iec_visit thr) a1 r), (visit_all (iec_visit thr) c1 r). simpl in *. congruence.
Qed.

Lemma iec_local thr : decl_local (iec_on_decl thr) (fun _ => True).
Proof. apply stmt_on_decl_local. intros. apply iec_visit_all_visited. reflexivity. Qed.

(* ---- 4. typeAssertChain ---- *)
Lemma tac_head_visited : forall ls a b, tac_visited a = tac_visited b ->
  snd (tac_head a ls) = snd (tac_head b ls)
  /\ tac_visited (fst (tac_head a ls)) = tac_visited (fst (tac_head b ls)).
Proof.
  intros [|cur rest] a b E; simpl; auto.
  rewrite E. destruct (memN (l_id cur) (tac_visited b) || negb (l_init cur)); simpl; auto.
  destruct (l_assert cur) as [[x ty]|]; simpl; auto.
  all: try (destruct (count_asserts x rest (tac_visited b) [ty] 1) as [[n vis] tys]; simpl; auto).
Qed.

Lemma tac_visit_all_visited : forall b a c, tac_visited a = tac_visited c ->
  snd (visit_all tac_visit a b) = snd (visit_all tac_visit c b).
Proof.
  induction b as [|x r IH]; simpl; intros a c E; auto.
  assert (H : snd (tac_visit a x) = snd (tac_visit c x)
              /\ tac_visited (fst (tac_visit a x)) = tac_visited (fst (tac_visit c x))).
  { destruct x; simpl; auto. apply tac_head_visited. exact E. }
  destruct (tac_visit a x) as [a1 w1], (tac_visit c x) as [c1 w1']. simpl in H. destruct H as [-> H].
  specialize (IH a1 c1 H). destruct (visit_all tac_visit a1 r), (visit_all tac_visit c1 r). simpl in *. congruence.
Qed.

Lemma tac_local : decl_local tac_on_decl (fun _ => True).
Proof. apply stmt_on_decl_local. intros. apply tac_visit_all_visited. reflexivity. Qed.

(* ---- 8. commentedOutCode ---- *)
Lemma coc_local : decl_local coc_on_decl (fun _ => True).
Proof. split; [auto|]. intros s s' [p ex r [b|] cs|p ns|p b] _ _; reflexivity. Qed.

(* ---- 7. typeDefFirst (file level) ---- *)
Lemma tdf_init_irrelevant : forall s s' c f, snd (tdf_run c s f) = snd (tdf_run c s' f).
Proof. intros s s' c [|d r]; reflexivity. Qed.

(* it is NOT declaration-local: the same type declaration warns or not depending on what precedes it *)
Lemma tdf_not_local :
  snd (tdf_decl ["T"] (DType 7 ["T"])) <> snd (tdf_decl [] (DType 7 ["T"])).
Proof. vm_compute. discriminate. Qed.

(* ---- 2. SkipChilds ---- *)
Section TreeInd.
  Variable P : tree -> Prop.
  Hypothesis H : forall p h ks, Forall P ks -> P (T p h ks).
  Fixpoint tree_ind' (t : tree) : P t :=
    match t with
    | T p h ks => H p h ks ((fix f (l : list tree) : Forall P l :=
                               match l with [] => Forall_nil _ | k :: r => Forall_cons _ (tree_ind' k) (f r) end) ks)
    end.
End TreeInd.

Lemma walk_kids_flag (wt : bool -> tree -> bool * list warning) : forall l,
  Forall (fun k => forall fl, fst (wt fl k) = false) l -> fst (walk_kids wt false l) = false.
Proof.
  assert (G : forall l fl, fl = false -> Forall (fun k => forall fl, fst (wt fl k) = false) l -> fst (walk_kids wt fl l) = false).
  { induction l as [|k r IH]; simpl; intros fl Hfl HF; auto.
    inversion HF as [|? ? Hk Hr]; subst. specialize (Hk false).
    destruct (wt false k) as [f1 w1]. simpl in Hk. subst.
    specialize (IH false eq_refl Hr). destruct (walk_kids wt false r). simpl in *. exact IH. }
  intros. apply G; auto.
Qed.

(* the flag is consumed: after any subtree it is false again *)
Lemma walk_tree_flag : forall t fl, fst (walk_tree fl t) = false.
Proof.
  induction t as [p h ks IH] using tree_ind'. intros fl. simpl.
  destruct (fl || h); [reflexivity|].
  pose proof (walk_kids_flag walk_tree ks IH) as HK.
  destruct (walk_kids walk_tree false ks). simpl in *. exact HK.
Qed.

Lemma sk_visit_all_flag : forall b fl, fl = false -> fst (visit_all (sk_visit walk_tree) fl b) = false.
Proof.
  induction b as [|x r IH]; simpl; intros fl Hfl; auto.
  assert (H1 : fst (sk_visit walk_tree fl x) = false) by (destruct x; simpl; auto; apply walk_tree_flag).
  destruct (sk_visit walk_tree fl x) as [f1 w1]. simpl in H1.
  specialize (IH f1 H1). destruct (visit_all (sk_visit walk_tree) f1 r). simpl in *. exact IH.
Qed.

Lemma sk_local : decl_local sk_on_decl (fun fl => fl = false).
Proof.
  split.
  - intros s [p ex r [b|] cs|p ns|p b'] Hs; simpl; auto. apply sk_visit_all_flag. exact Hs.
  - intros s s' d -> ->. reflexivity.
Qed.

(* if skipChilds() stopped clearing the flag, a finding in one file would hide nested findings of the next *)
Definition sk_file_a : file := [DFunc 1 false None (Some [SExpr (T 2 true [])]) []].
Definition sk_file_b : file := [DFunc 1 false None (Some [SExpr (T 2 false [T 3 true []])]) []].
Lemma sk_noreset_history_dependent :
  let run := fun (_ : unit) fl f => walk sk_on_decl_noreset fl f in
  result_after false run [(tt, sk_file_a)] tt sk_file_b <> result_fresh false run tt sk_file_b.
Proof. vm_compute. discriminate. Qed.

Lemma dc_noclear_history_dependent :
  let run := fun (_ : unit) s f => walk dc_on_decl_noclear s f in
  let f := [DFunc 1 false None (Some [SSwitch 2 [(3%N, 5%N)]]) []] in
  result_after [] run [(tt, f)] tt f <> result_fresh [] run tt f.
Proof. vm_compute. discriminate. Qed.

(* ---- position equivariance (C13) ---- *)
Lemma dup_scan_shift text k : forall cs set,
  dup_scan text set (map (shift_pk k) cs) = (fst (dup_scan text set cs), map (shift_w k) (snd (dup_scan text set cs))).
Proof.
  induction cs as [|[p e] r IH]; simpl; intros set; auto.
  destruct (memN e set).
  - rewrite IH. destruct (dup_scan text set r). reflexivity.
  - apply IH.
Qed.

(* generic: a visitor that is equivariant per item up to a relation R between scratch states (R = what the outputs depend on) *)
Section ShiftRel.
  Context {S : Type}.
  Variable visit : S -> stmt -> S * list warning.
  Variable R : S -> S -> Prop.
  Variable k : N.
  Hypothesis step : forall a c x, R a c ->
    snd (visit a (shift_stmt k x)) = map (shift_w k) (snd (visit c x)) /\ R (fst (visit a (shift_stmt k x))) (fst (visit c x)).

  Lemma visit_all_shift_rel : forall b a c, R a c ->
    snd (visit_all visit a (map (shift_stmt k) b)) = map (shift_w k) (snd (visit_all visit c b))
    /\ R (fst (visit_all visit a (map (shift_stmt k) b))) (fst (visit_all visit c b)).
  Proof.
    induction b as [|x r IH]; simpl; intros a c HR; [split; [reflexivity|exact HR]|].
    destruct (step a c x HR) as [H1 H2].
    destruct (visit a (shift_stmt k x)) as [a1 w1], (visit c x) as [c1 w1']. simpl in H1, H2. subst w1.
    destruct (IH a1 c1 H2) as [H3 H4].
    destruct (visit_all visit a1 (map (shift_stmt k) r)), (visit_all visit c1 r). simpl in *. subst.
    rewrite map_app. split; [reflexivity|exact H4].
  Qed.
End ShiftRel.

Lemma stmt_on_decl_equivariant_rel {S} (enter : S -> S) (visit : S -> stmt -> S * list warning) (R : S -> S -> Prop) :
  (forall s, R (enter s) (enter s)) ->
  (forall k a c x, R a c ->
    snd (visit a (shift_stmt k x)) = map (shift_w k) (snd (visit c x)) /\ R (fst (visit a (shift_stmt k x))) (fst (visit c x))) ->
  equivariant (stmt_on_decl enter visit) shift_decl.
Proof.
  intros HR H k s [p ex r [b|] cs|p ns|p b']; simpl; auto.
  exact (proj1 (visit_all_shift_rel visit R k (H k) b (enter s) (enter s) (HR s))).
Qed.

Lemma expr_on_decl_equivariant_rel {S} (visit : S -> stmt -> S * list warning) (R : S -> S -> Prop) :
  (forall s, R s s) ->
  (forall k a c x, R a c ->
    snd (visit a (shift_stmt k x)) = map (shift_w k) (snd (visit c x)) /\ R (fst (visit a (shift_stmt k x))) (fst (visit c x))) ->
  equivariant (expr_on_decl (fun s : S => s) visit) shift_decl.
Proof.
  intros HR H k s [p ex r [b|] cs|p ns|p b']; simpl; auto.
  - exact (proj1 (visit_all_shift_rel visit R k (H k) b s s (HR s))).
  - exact (proj1 (visit_all_shift_rel visit R k (H k) b' s s (HR s))).
Qed.

Lemma dc_equivariant : equivariant dc_on_decl shift_decl.
Proof.
  apply (stmt_on_decl_equivariant_rel _ _ (fun _ _ => True)); auto.
  intros k a c [ls e|p cs|p g hs|p ws ks|t] _; simpl; auto.
  rewrite dup_scan_shift. auto.
Qed.
Lemma mk_equivariant : equivariant mk_on_decl shift_decl.
Proof.
  apply (expr_on_decl_equivariant_rel _ (fun _ _ => True)); auto.
  intros k a c [ls e|p cs|p g hs|p ws ks|t] _; simpl; auto.
  rewrite dup_scan_shift. destruct (dup_scan "suspicious duplicate key" [] ks) as [s1 w1]. simpl.
  rewrite map_app. destruct ws; simpl; auto.
Qed.
Lemma tsv_equivariant : equivariant tsv_on_decl shift_decl.
Proof.
  apply (stmt_on_decl_equivariant_rel _ _ (fun _ _ => True)); auto.
  intros k a c [ls e|p cs|p g hs|p ws ks|t] _; simpl; auto.
  destruct g; simpl; auto. destruct (0 <? count_true hs)%N; simpl; auto.
Qed.
Lemma coc_equivariant : equivariant coc_on_decl shift_decl.
Proof.
  intros k s [p ex r [b|] cs|p ns|p b']; simpl; auto.
  induction cs as [|c cr IH]; simpl; auto.
  destruct (c_code c && negb (ex && c_output c)); simpl; rewrite IH; reflexivity.
Qed.

(* ifElseChain / typeAssertChain: the chain walk reads only l_id, l_init, l_assert, which a shift leaves alone *)
Lemma count_ifelse_shift k eb : forall rest cur vis n,
  count_ifelse (shift_link k cur) (map (shift_link k) rest) eb vis n = count_ifelse cur rest eb vis n.
Proof.
  induction rest as [|e r IH]; intros cur vis n; simpl; destruct (l_init cur); auto.
  all: try apply IH.
Qed.

Lemma iec_equivariant thr : equivariant (iec_on_decl thr) shift_decl.
Proof.
  apply (stmt_on_decl_equivariant_rel _ _ (fun a c => iec_visited a = iec_visited c)); auto.
  intros k a c [ls e|p cs|p g hs|p ws ks|t] E; simpl; auto.
  destruct ls as [|cur rest]; simpl; auto.
  rewrite E. destruct (memN (l_id cur) (iec_visited c)); simpl; auto.
  change (count_ifelse {| l_id := l_id cur; l_pos := (l_pos cur + k)%N; l_init := l_init cur; l_assert := l_assert cur |})
    with (count_ifelse (shift_link k cur)).
  rewrite count_ifelse_shift. destruct (count_ifelse cur rest e (iec_visited c) 0) as [n vis]. simpl.
  destruct (thr <=? n)%N; auto.
Qed.

Lemma count_asserts_shift k x : forall rest vis tys n,
  count_asserts x (map (shift_link k) rest) vis tys n = count_asserts x rest vis tys n.
Proof.
  induction rest as [|e r IH]; intros vis tys n; simpl; auto.
  destruct (l_assert e) as [[x' ty]|]; auto.
  destruct (memN ty tys); auto. destruct (negb (x =? x')%N); auto.
Qed.

Lemma tac_equivariant : equivariant tac_on_decl shift_decl.
Proof.
  apply (stmt_on_decl_equivariant_rel _ _ (fun a c => tac_visited a = tac_visited c)); auto.
  intros k a c [ls e|p cs|p g hs|p ws ks|t] E; simpl; auto.
  destruct ls as [|cur rest]; simpl; auto.
  rewrite E. destruct (memN (l_id cur) (tac_visited c) || negb (l_init cur)); simpl; auto.
  destruct (l_assert cur) as [[x ty]|]; simpl; auto.
  rewrite count_asserts_shift. destruct (count_asserts x rest (tac_visited c) [ty] 1) as [[n vis] tys]. simpl.
  destruct (2 <=? n)%N; auto.
Qed.

(* SkipChilds protocol: a shifted tree is walked the same way *)
Lemma walk_kids_shift k : forall l,
  Forall (fun t => forall fl, walk_tree fl (shift_tree k t) = (fst (walk_tree fl t), map (shift_w k) (snd (walk_tree fl t)))) l ->
  forall fl, walk_kids walk_tree fl (map (shift_tree k) l) = (fst (walk_kids walk_tree fl l), map (shift_w k) (snd (walk_kids walk_tree fl l))).
Proof.
  induction l as [|t r IH]; simpl; intros HF fl; auto.
  inversion HF as [|? ? Ht Hr]; subst. rewrite Ht. destruct (walk_tree fl t) as [f1 w1]. simpl.
  rewrite (IH Hr). destruct (walk_kids walk_tree f1 r) as [f2 w2]. simpl. rewrite map_app. reflexivity.
Qed.

Lemma walk_tree_shift k : forall t fl,
  walk_tree fl (shift_tree k t) = (fst (walk_tree fl t), map (shift_w k) (snd (walk_tree fl t))).
Proof.
  induction t as [p h ks IH] using tree_ind'. intros fl. simpl.
  destruct (fl || h).
  - destruct h; reflexivity.
  - rewrite (walk_kids_shift k ks IH). destruct (walk_kids walk_tree false ks) as [f w]. simpl.
    rewrite map_app. destruct h; reflexivity.
Qed.

Lemma sk_equivariant : equivariant sk_on_decl shift_decl.
Proof.
  apply (stmt_on_decl_equivariant_rel _ _ eq); auto.
  intros k a c [ls e|p cs|p g hs|p ws ks|t] ->; simpl; auto.
  rewrite walk_tree_shift. auto.
Qed.

(* typeDefFirst is file-level (exempt from the per-declaration laws), but a UNIFORM shift of the whole file still only shifts *)
Lemma tdf_decl_shift k : forall tr d,
  tdf_decl tr (shift_decl k d) = (fst (tdf_decl tr d), map (shift_w k) (snd (tdf_decl tr d))).
Proof.
  intros tr [p ex [r|] b cs|p ns|p b']; simpl; auto.
  f_equal. induction ns as [|n r IH]; simpl; auto. rewrite map_app, IH. destruct (mem n tr); reflexivity.
Qed.

Lemma tdf_walk_shift k : forall f tr,
  walk tdf_decl tr (map (shift_decl k) f) = (fst (walk tdf_decl tr f), map (shift_w k) (snd (walk tdf_decl tr f))).
Proof.
  induction f as [|d r IH]; simpl; intros tr; auto.
  rewrite tdf_decl_shift. destruct (tdf_decl tr d) as [t1 w1]. simpl.
  rewrite IH. destruct (walk tdf_decl t1 r). simpl. rewrite map_app. reflexivity.
Qed.

Lemma tdf_shift : forall k c s f, snd (tdf_run c s (map (shift_decl k) f)) = map (shift_w k) (snd (tdf_run c s f)).
Proof. intros k c s [|d r]; [reflexivity|]. unfold tdf_run. change (map (shift_decl k) (d :: r)) with (shift_decl k d :: map (shift_decl k) r).
  change (shift_decl k d :: map (shift_decl k) r) with (map (shift_decl k) (d :: r)). rewrite tdf_walk_shift. reflexivity. Qed.

(* ---- per-visit form of history irrelevance: every Check of a long-lived instance returns what a new instance returns ---- *)
Section Visits.
  Context {C F S : Type}.
  Variable scratch0 : S.
  Variable run : C -> S -> F -> S * list warning.
  Variable I : S -> Prop.
  Hypothesis I0 : I scratch0.
  Hypothesis Ipres : forall c s f, I s -> I (fst (run c s f)).
  Hypothesis irr : forall c s s' f, I s -> I s' -> snd (run c s f) = snd (run c s' f).

  Lemma visits_from_fresh : forall h s, I s ->
    visits_from run s h = map (fun cf => result_fresh scratch0 run (fst cf) (snd cf)) h.
  Proof.
    induction h as [|cf r IH]; simpl; intros s Hs; auto.
    pose proof (Ipres (fst cf) s (snd cf) Hs) as H1.
    pose proof (irr (fst cf) s scratch0 (snd cf) Hs I0) as H2.
    destruct (run (fst cf) s (snd cf)) as [s1 w]. simpl in *. rewrite (IH s1 H1). unfold result_fresh. rewrite H2. reflexivity.
  Qed.

  Lemma visits_fresh : forall h, visits scratch0 run h = map (fun cf => result_fresh scratch0 run (fst cf) (snd cf)) h.
  Proof. intros. apply visits_from_fresh. exact I0. Qed.
End Visits.

(* a walk-file function that is init-irrelevant everywhere, behind the linter.Checker wrapper *)
Lemma checker_visits_fresh {C F S} (wf : C -> S -> F -> S * list warning) :
  (forall c s s' f, snd (wf c s f) = snd (wf c s' f)) ->
  forall bs0 h, visits bs0 (check wf) h = map (fun cf => result_fresh bs0 (check wf) (fst cf) (snd cf)) h.
Proof.
  intros H bs0 h.
  exact (visits_fresh bs0 (check wf) (fun _ => True) I (fun _ _ _ _ => I)
           (fun c bs bs' f _ _ => check_init_irrelevant wf H c bs bs' f) h).
Qed.

(* ---- the evaluated laws are sound: a prediction assembled from the ORIGINAL declarations is what the walker
   computes on the transformed file (decl_local + equivariant), for every tagging that passes the decl_eqb checks ---- *)
Lemma opt_eqb_eq {A} (e : A -> A -> bool) : (forall x y, e x y = true -> x = y) -> forall a b, opt_eqb e a b = true -> a = b.
Proof. intros H [x|] [y|]; simpl; intros E; try discriminate; auto. f_equal. auto. Qed.
Lemma list_eqb_sound {A} (e : A -> A -> bool) : (forall x y, e x y = true -> x = y) -> forall a b, list_eqb e a b = true -> a = b.
Proof.
  intros H. induction a as [|x a IH]; intros [|y b]; simpl; intros E; try discriminate; auto.
  apply andb_true_iff in E. destruct E as [E1 E2]. f_equal; auto.
Qed.
Lemma pk_eqb_sound : forall a b, pk_eqb a b = true -> a = b.
Proof. intros [a1 a2] [b1 b2]. unfold pk_eqb. simpl. rewrite andb_true_iff, !N.eqb_eq. intros [-> ->]. reflexivity. Qed.
Lemma beqb_sound : forall a b, Bool.eqb a b = true -> a = b.
Proof. intros a b. apply Bool.eqb_prop. Qed.
Lemma neqb_sound : forall a b, N.eqb a b = true -> a = b.
Proof. intros a b. apply N.eqb_eq. Qed.
Lemma seqb_sound : forall a b, String.eqb a b = true -> a = b.
Proof. intros a b. apply String.eqb_eq. Qed.
Lemma link_eqb_sound : forall a b, link_eqb a b = true -> a = b.
Proof.
  intros [i p n a] [i' p' n' a']. unfold link_eqb. simpl. rewrite !andb_true_iff, !N.eqb_eq.
  intros [[[-> ->] H1] H2]. apply beqb_sound in H1. apply (opt_eqb_eq _ pk_eqb_sound) in H2. subst. reflexivity.
Qed.
Lemma stmt_eqb_sound : forall a b, stmt_eqb a b = true -> a = b.
Proof.
  intros [l e|p c|p g h|p w ks|t] [l' e'|p' c'|p' g' h'|p' w' ks'|t']; simpl; try discriminate; rewrite ?andb_true_iff.
  - intros [H1 H2]. apply (list_eqb_sound _ link_eqb_sound) in H1. apply beqb_sound in H2. subst. reflexivity.
  - intros [H1 H2]. apply neqb_sound in H1. apply (list_eqb_sound _ pk_eqb_sound) in H2. subst. reflexivity.
  - intros [[H1 H2] H3]. apply neqb_sound in H1. apply beqb_sound in H2. apply (list_eqb_sound _ beqb_sound) in H3. subst. reflexivity.
  - intros [[H1 H2] H3]. apply neqb_sound in H1. apply (opt_eqb_eq _ neqb_sound) in H2. apply (list_eqb_sound _ pk_eqb_sound) in H3. subst. reflexivity.
Qed.
Lemma comment_eqb_sound : forall a b, comment_eqb a b = true -> a = b.
Proof.
  intros [p c o] [p' c' o']. unfold comment_eqb. simpl. rewrite !andb_true_iff.
  intros [[H1 H2] H3]. apply neqb_sound in H1. apply beqb_sound in H2. apply beqb_sound in H3. subst. reflexivity.
Qed.
Lemma decl_eqb_sound : forall a b, decl_eqb a b = true -> a = b.
Proof.
  intros [p ex r bd cs|p ns|p b] [p' ex' r' bd' cs'|p' ns'|p' b']; simpl; try discriminate; rewrite ?andb_true_iff.
  - intros [[[[H1 H2] H3] H4] H5]. apply neqb_sound in H1. apply beqb_sound in H2. apply (opt_eqb_eq _ seqb_sound) in H3.
    apply (opt_eqb_eq _ (list_eqb_sound _ stmt_eqb_sound)) in H4. apply (list_eqb_sound _ comment_eqb_sound) in H5. subst. reflexivity.
  - intros [H1 H2]. apply neqb_sound in H1. apply (list_eqb_sound _ seqb_sound) in H2. subst. reflexivity.
  - intros [H1 H2]. apply neqb_sound in H1. apply (list_eqb_sound _ stmt_eqb_sound) in H2. subst. reflexivity.
Qed.

Lemma unshift_shift k : forall ws, map (unshift_w k) (map (shift_w k) ws) = ws.
Proof.
  induction ws as [|[p t] r IH]; simpl; auto. rewrite IH. unfold unshift_w, shift_w. simpl.
  replace (p + k - k)%N with p by lia. reflexivity.
Qed.

Section PredictSound.
  Context {S : Type}.
  Variable on_decl : S -> decl -> S * list warning.
  Variable I : S -> Prop.
  Hypothesis L : decl_local on_decl I.
  Hypothesis E : equivariant on_decl shift_decl.
  Variable s0 : S.
  Hypothesis I0 : I s0.

  Lemma predict_one_sound ds d' t ws : predict_one on_decl s0 ds d' t = Some ws -> snd (on_decl s0 d') = ws.
  Proof.
    unfold predict_one. destruct t as [i|]; [|intros H; injection H; auto].
    destruct (nth_error ds (N.to_nat i)) as [d|]; [|discriminate].
    destruct (decl_pos d <=? decl_pos d')%N.
    - remember (decl_pos d' - decl_pos d)%N as k eqn:Hk. clear Hk.
      destruct (decl_eqb (shift_decl k d) d') eqn:Q; [|discriminate].
      apply decl_eqb_sound in Q. intros H. injection H as <-. rewrite <- Q. apply E.
    - remember (decl_pos d - decl_pos d')%N as k eqn:Hk. clear Hk.
      destruct (decl_eqb (shift_decl k d') d) eqn:Q; [|discriminate].
      apply decl_eqb_sound in Q. intros H. injection H as <-. rewrite <- Q. rewrite E. symmetry. apply unshift_shift.
  Qed.

  Lemma predict_flat : forall ds ds' tags ws, predict on_decl s0 ds ds' tags = Some ws ->
    flat_map (fun d => snd (on_decl s0 d)) ds' = ws.
  Proof.
    intros ds. induction ds' as [|d' r' IH]; intros [|t rt] ws; simpl; try discriminate.
    - intros H. injection H; auto.
    - destruct (predict_one on_decl s0 ds d' t) as [a|] eqn:P1; [|discriminate].
      destruct (predict on_decl s0 ds r' rt) as [b|] eqn:P2; [|discriminate].
      intros H. injection H as <-.
      apply predict_one_sound in P1. rewrite (IH rt b P2), P1. reflexivity.
  Qed.

  Lemma predict_sound : forall ds ds' tags ws, predict on_decl s0 ds ds' tags = Some ws -> snd (walk on_decl s0 ds') = ws.
  Proof. intros ds ds' tags ws H. rewrite (walk_flat on_decl I L s0 I0 ds' s0 I0). exact (predict_flat ds ds' tags ws H). Qed.
End PredictSound.
