(* Model_RuleFiles.v — checkers/ruleguard_checker.go newRuleguardChecker: failOn table and legacy
   flag (83-129), group filter (136-212), per-pattern glob and per-file read+load with skip-or-fail
   (215-247), engine left unset when nothing was loaded. No proofs here. *)
From GC Require Export Base.

Record group := { g_name : string; g_tags : list string }.

Inductive file_kind :=
| Valid (gs : list group)
| Unreadable | SyntaxErr | EmptyFile   (* whole-file errors; not ruleguard.ImportError *)
| DslErr (g : group)                   (* a DSL violation inside group g: only seen when g is loaded *)
| BadImport (g : group).               (* ruleguard.ImportError raised while loading group g *)

Inductive err_class := ClsImport | ClsOther.

Record fail_on := { fo_dsl : bool; fo_import : bool; fo_all : bool }.
Definition fo_none := {| fo_dsl := false; fo_import := false; fo_all := false |}.

(* newErrorHandler on the comma-separated flag; None = unknown value *)
Fixpoint parse_fail_on_keys (ks : list string) (acc : fail_on) : option fail_on :=
  match ks with
  | [] => Some acc
  | k :: r =>
      if String.eqb k "" then parse_fail_on_keys r acc
      else if String.eqb k "dsl" then parse_fail_on_keys r {| fo_dsl := true; fo_import := fo_import acc; fo_all := fo_all acc |}
      else if String.eqb k "import" then parse_fail_on_keys r {| fo_dsl := fo_dsl acc; fo_import := true; fo_all := fo_all acc |}
      else if String.eqb k "all" then parse_fail_on_keys r {| fo_dsl := fo_dsl acc; fo_import := fo_import acc; fo_all := true |}
      else None
  end.
Definition effective_fail_on (fail_on_flag : string) (legacy_fail_on_error : bool) : string :=
  if String.eqb fail_on_flag "" then (if legacy_fail_on_error then "all" else "") else fail_on_flag.
Definition parse_fail_on (fail_on_flag : string) (legacy : bool) : option fail_on :=
  parse_fail_on_keys (split_on ","%char (effective_fail_on fail_on_flag legacy)) fo_none.

(* failOnParseError: does some listed predicate accept this error? *)
Definition fails (fo : fail_on) (c : err_class) : bool :=
  fo_all fo || match c with ClsImport => fo_import fo | ClsOther => fo_dsl fo end.

(* ---- group filter ---- *)
Record rg_config := { c_rules : string; c_fail_on : string; c_legacy : bool; c_enable : string; c_disable : string }.

Definition trimmed_keys (s : string) : list string := map trim_space (split_on ","%char s).
Definition tag_keys (ks : list string) : list string := map (drop 1) (filter (has_prefix "#") ks).
Definition name_keys (ks : list string) : list string := filter (fun k => negb (has_prefix "#" k)) ks.

Definition enabled_tags (c : rg_config) : list string :=
  if String.eqb (c_enable c) "<all>" then [] else tag_keys (trimmed_keys (c_enable c)).
Definition enabled_names (c : rg_config) : list string :=
  if String.eqb (c_enable c) "<all>" then [] else name_keys (trimmed_keys (c_enable c)).
Definition disabled_tags (c : rg_config) : list string :=
  let d := tag_keys (trimmed_keys (c_disable c)) in
  if mem "experimental" (enabled_tags c) then d else (d ++ ["experimental"])%list.
Definition disabled_names (c : rg_config) : list string := name_keys (trimmed_keys (c_disable c)).

Definition group_enabled (c : rg_config) (g : group) : bool :=
  let enabled := String.eqb (c_enable c) "<all>" || mem (g_name g) (enabled_names c)
                 || existsb (fun t => mem t (enabled_tags c)) (g_tags g) in
  if negb enabled then false
  else if mem (g_name g) (disabled_names c) then false
  else negb (existsb (fun t => mem t (disabled_tags c)) (g_tags g)).

(* the error a file produces under a configuration: groups rejected by the filter are not parsed,
   so an error inside such a group does not occur and the file loads (with no group) *)
Definition class_of (c : rg_config) (f : file_kind) : option err_class :=
  match f with
  | Valid _ => None
  | BadImport g => if group_enabled c g then Some ClsImport else None
  | DslErr g => if group_enabled c g then Some ClsOther else None
  | _ => Some ClsOther
  end.

(* ---- initialisation ---- *)
Inductive pattern := BadPattern | Matches (files : list (string * file_kind)).

Inductive init_error := ErrUnknownFailOn | ErrNoMatch (pattern_index : N) | ErrBadPattern (pattern_index : N) | ErrParse (file : string).
Record engine_state := { active : list group; skipped : list string }.
Inductive init_result :=
| InitErr (e : init_error)
| InitNoop                      (* engine left unset: the checker does nothing *)
| InitOk (st : engine_state).

(* inner loop over the files of one pattern; state = (loaded count, active groups, skipped files) *)
Fixpoint load_files (c : rg_config) (fo : fail_on) (fs : list (string * file_kind))
         (st : N * list group * list string) : init_error + (N * list group * list string) :=
  match fs with
  | [] => inr st
  | (name, k) :: r =>
      let '(loaded, act, sk) := st in
      match class_of c k with
      | Some cls => if fails fo cls then inl (ErrParse name)
                    else load_files c fo r (loaded, act, (sk ++ [name])%list)
      | None =>
          let gs := match k with Valid gs => gs | _ => [] end in
          load_files c fo r (N.succ loaded, (act ++ filter (group_enabled c) gs)%list, sk)
      end
  end.

(* a malformed glob matches no file: an initialisation error since repository commit "fix: a malformed
   rules pattern is an initialisation error" (before it, the pattern was logged and skipped: _prefix) *)
Fixpoint load_patterns (c : rg_config) (fo : fail_on) (ps : list pattern) (i : N)
         (st : N * list group * list string) : init_error + (N * list group * list string) :=
  match ps with
  | [] => inr st
  | BadPattern :: _ => inl (ErrBadPattern i)
  | Matches [] :: _ => inl (ErrNoMatch i)
  | Matches fs :: r =>
      match load_files c fo fs st with
      | inl e => inl e
      | inr st' => load_patterns c fo r (N.succ i) st'
      end
  end.

Fixpoint load_patterns_prefix (c : rg_config) (fo : fail_on) (ps : list pattern) (i : N)
         (st : N * list group * list string) : init_error + (N * list group * list string) :=
  match ps with
  | [] => inr st
  | BadPattern :: r => load_patterns_prefix c fo r (N.succ i) st
  | Matches [] :: _ => inl (ErrNoMatch i)
  | Matches fs :: r =>
      match load_files c fo fs st with
      | inl e => inl e
      | inr st' => load_patterns_prefix c fo r (N.succ i) st'
      end
  end.

(* newRuleguardChecker as it is today: failOn is validated first, a skipped file is not counted as
   loaded *)
Definition init (c : rg_config) (ps : list pattern) : init_result :=
  match parse_fail_on (c_fail_on c) (c_legacy c) with
  | None => InitErr ErrUnknownFailOn
  | Some fo =>
      if String.eqb (c_rules c) "" then InitNoop
      else match load_patterns c fo ps 0%N (0%N, [], []) with
           | inl e => InitErr e
           | inr (loaded, act, sk) =>
               if N.eqb loaded 0 then InitNoop else InitOk {| active := act; skipped := sk |}
           end
  end.

(* the routine before the repairs: an empty rules value returned before failOn was looked at, and
   every file — skipped or not — was counted as loaded, so an engine without any rule set was
   installed when all files were skipped (Run then reports "execution error" on every file) *)
Inductive init_result_prefix := PInitErr (e : init_error) | PInitNoop | PInitOk (st : engine_state) | PInitEmptyEngine.
Definition init_prefix (c : rg_config) (ps : list pattern) : init_result_prefix :=
  if String.eqb (c_rules c) "" then PInitNoop
  else match parse_fail_on (c_fail_on c) (c_legacy c) with
       | None => PInitErr ErrUnknownFailOn
       | Some fo =>
           match load_patterns_prefix c fo ps 0%N (0%N, [], []) with
           | inl e => PInitErr e
           | inr (loaded, act, sk) =>
               let total := fold_right (fun p n => match p with Matches fs => (N.of_nat (List.length fs) + n)%N | BadPattern => n end) 0%N ps in
               if N.eqb total 0 then PInitNoop
               else if N.eqb loaded 0 then PInitEmptyEngine
               else PInitOk {| active := act; skipped := sk |}
           end
       end.

(* closed forms for the theorems *)
Definition all_files (ps : list pattern) : list (string * file_kind) :=
  flat_map (fun p => match p with Matches fs => fs | BadPattern => [] end) ps.
Definition valid_groups (ps : list pattern) : list group :=
  flat_map (fun f => match snd f with Valid gs => gs | _ => [] end) (all_files ps).
Definition has_no_match (ps : list pattern) : bool :=
  existsb (fun p => match p with Matches [] | BadPattern => true | _ => false end) ps.
Definition listed_failure (c : rg_config) (fo : fail_on) (ps : list pattern) : bool :=
  existsb (fun f => match class_of c (snd f) with Some cls => fails fo cls | None => false end) (all_files ps).
