(* Properties_Flags.v — obligations over the regenerated flag tables (gen/FlagTable.v): re-proved on every run, so a
   new flag, a renamed flag, a changed default or a numeric flag without a domain check breaks one of them. *)
From GC Require Import Base Model_Flags.
From GCgen Require Import FlagTable.

(* the two CLI mains register the same flags, with the same defaults and usage texts, and check the same ones *)
Theorem FLAGS_twins_same_table :
  list_eqb flag_eqb cli_flag_table_go_critic cli_flag_table_gocritic = true
  /\ list_eqb String.eqb cli_validated_go_critic cli_validated_gocritic = true.
Proof. vm_compute. auto. Qed.
Print Assumptions FLAGS_twins_same_table.

(* every CLI flag has an analyzer counterpart or is listed as CLI-only with a reason; no name twice *)
Theorem FLAGS_every_cli_flag_accounted :
  forallb accounted cli_flag_table_go_critic = true
  /\ nodup_names (map fl_name cli_flag_table_go_critic) = true
  /\ nodup_names (map fl_name analyzer_flag_table) = true.
Proof. vm_compute. auto. Qed.
Print Assumptions FLAGS_every_cli_flag_accounted.

(* the counterparts exist on both sides, have the same kind and, where the dialects share it, the same default *)
Theorem FLAGS_counterparts_agree :
  forallb (counterpart_ok cli_flag_table_go_critic analyzer_flag_table) counterpart = true.
Proof. vm_compute. auto. Qed.
Print Assumptions FLAGS_counterparts_agree.

(* the analyzer has no selection/version flag the CLIs lack *)
Theorem FLAGS_every_analyzer_flag_accounted :
  forallb analyzer_flag_accounted analyzer_flag_table = true.
Proof. vm_compute. auto. Qed.
Print Assumptions FLAGS_every_analyzer_flag_accounted.

(* every numeric flag is checked by parseArgs before use *)
Theorem FLAGS_int_flags_checked :
  forallb (int_flag_ok cli_validated_go_critic) cli_flag_table_go_critic = true
  /\ mem "concurrency" cli_validated_go_critic = true /\ mem "exitCode" cli_validated_go_critic = true.
Proof. vm_compute. auto. Qed.
Print Assumptions FLAGS_int_flags_checked.

Example FLAGS_example_nonvacuous :
  (10 <=? List.length cli_flag_table_go_critic)%nat = true /\ (5 <=? List.length analyzer_flag_table)%nat = true
  /\ existsb (fun f => kind_eqb (fl_kind f) FInt) cli_flag_table_go_critic = true.
Proof. vm_compute. auto. Qed.
