(* Properties_C17.v — property C17: shipped rules equal their compiled source; each group is a
   documented checker. All statements are about terms regenerated from /repo on every run. *)
From GC Require Import Base Model_IR Proofs_IR Model_Select Proofs_Select.
From GCgen Require Import IrTables.

(* The precompiled rule data built into the binaries is what compiling the rule source produces today. *)
Theorem C17_shipped_eq_fresh : ir_shipped = ir_fresh.
Proof. apply sx_eqb_sound. vm_compute. reflexivity. Qed.
Print Assumptions C17_shipped_eq_fresh.

(* Every rule group is exactly one registered (embedded) checker with the group's name, tags,
   summary and before/after text, and every embedded checker comes from a group. *)
Theorem C17_groups_are_checkers :
  NoDup (map d_name ir_groups)
  /\ (forall g, In g ir_groups -> In (trim_docs g) registry_docs /\ In (d_name g) registry_embedded_names)
  /\ (forall n, In n registry_embedded_names -> exists g, In g ir_groups /\ d_name g = n).
Proof. apply groups_are_checkers_sound. vm_compute. reflexivity. Qed.
Print Assumptions C17_groups_are_checkers.

(* The generated overview page lists exactly the registered checkers (the registry is sorted by
   name; the page groups rows by category) and states their number. *)
Theorem C17_overview_lists_registry :
  sort_strs overview_rows = map d_name registry_docs
  /\ sort_strs overview_sections = map d_name registry_docs
  /\ overview_total = Z.of_nat (List.length registry_docs)
  /\ sorted_strict (map d_name registry_docs) = true.
Proof. vm_compute. auto. Qed.
Print Assumptions C17_overview_lists_registry.

(* The doc sub-command lists exactly the registered checkers with their tags. *)
Theorem C17_doc_cmd_lists_registry :
  doc_cmd_rows = map (fun d => (d_name d, d_tags d)) registry_docs.
Proof. vm_compute. reflexivity. Qed.
Print Assumptions C17_doc_cmd_lists_registry.

(* The default-enabled marks of the overview page agree with the selection rule: a row carries the
   heavy mark iff the checker is selected when no flag is given, by the CLI front-ends and by the
   analyzer front-ends alike (Model_Select, tied to the implementation by C06's correspondence). *)
Definition reg_checkers : list checker :=
  map (fun d => {| cname := d_name d; ctags := d_tags d |}) registry_docs.
Definition cli_no_flags : cli_flags := {| cf_all := false; cf_enable := None; cf_disable := None |}.
Definition mark_agrees (nm : string * bool) : bool :=
  existsb (fun c => String.eqb (cname c) (fst nm)
                    && Bool.eqb (snd nm) (cli_selected reg_checkers cli_no_flags c)
                    && Bool.eqb (snd nm) (an_selected an_default_flags c)) reg_checkers.
Theorem C17_overview_marks_agree :
  map fst overview_marks = overview_rows /\ forall nm, In nm overview_marks -> mark_agrees nm = true.
Proof. split; [vm_compute; reflexivity|]. apply forallb_forall. vm_compute. reflexivity. Qed.
Print Assumptions C17_overview_marks_agree.

Example C17_tables_nonempty :
  (100 <? sx_size ir_shipped)%N = true /\ (30 <? N.of_nat (List.length ir_groups))%N = true.
Proof. vm_compute. auto. Qed.
