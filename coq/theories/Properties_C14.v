(* Properties_C14.v — property C14: parameters take effect exactly; thresholds act monotonically. *)
From GC Require Import Base Model_Params Proofs_Params.
Open Scope Z_scope.

(* The value a checker's constructor reads is the command-line value when one was given (the last
   occurrence), else the registered default — for every parameter, any argument list, both front-ends
   (they share this binding scheme) — because the info views alias the registered cells. *)
Theorem C14_flag_value_is_used : forall h reg args k a, env_inj reg -> e_get reg k = Some a ->
  construct_reads (run_frontend h reg args) reg k = flag_value h reg args k.
Proof. exact flag_value_is_used. Qed.
Print Assumptions C14_flag_value_is_used.

(* An integrator writing through the info it got from GetCheckersInfo is seen by the constructor. *)
Theorem C14_override_by_integrator : forall h reg k v a, e_get reg k = Some a ->
  construct_reads (override h (get_infos_shared reg) k v) reg k = Some v.
Proof. exact override_is_used. Qed.
Print Assumptions C14_override_by_integrator.
(* (the shared map is load-bearing: with a deep copy the override would be lost) *)
Theorem C14_deep_copy_breaks_refuted :
  exists h reg k v, let '(h', view) := get_infos_deep h reg 100%N in
    construct_reads (override h' view k v) reg k <> Some v.
Proof. exact deep_copy_breaks_refuted. Qed.
Print Assumptions C14_deep_copy_breaks_refuted.

(* Thresholds: stricter never removes, relaxed never adds; exact boundaries as documented. *)
Theorem C14_size_threshold_monotone : forall s t1 t2, t1 <= t2 -> size_reports s t2 = true -> size_reports s t1 = true.
Proof. exact size_reports_monotone. Qed.
Print Assumptions C14_size_threshold_monotone.
Theorem C14_size_threshold_boundary : forall n, size_reports n n = true /\ size_reports n (n + 1) = false.
Proof. exact size_reports_boundary. Qed.
Print Assumptions C14_size_threshold_boundary.
Theorem C14_max_results_monotone : forall c m1 m2, m1 <= m2 -> too_many_results c m2 = true -> too_many_results c m1 = true.
Proof. exact too_many_results_monotone. Qed.
Print Assumptions C14_max_results_monotone.
Theorem C14_max_results_boundary : forall n, too_many_results n n = false /\ too_many_results (n + 1) n = true.
Proof. exact too_many_results_boundary. Qed.
Print Assumptions C14_max_results_boundary.
Theorem C14_body_width_monotone : forall b w1 w2, w1 <= w2 -> nesting_reports b w2 = true -> nesting_reports b w1 = true.
Proof. exact nesting_reports_monotone. Qed.
Print Assumptions C14_body_width_monotone.
Theorem C14_body_width_boundary : forall n, nesting_reports n n = true /\ nesting_reports n (n + 1) = false.
Proof. exact nesting_reports_boundary. Qed.
Print Assumptions C14_body_width_boundary.
Theorem C14_min_length_monotone : forall r m1 m2, m1 <= m2 -> comment_too_short r m1 = true -> comment_too_short r m2 = true.
Proof. exact comment_too_short_monotone. Qed.
Print Assumptions C14_min_length_monotone.
Theorem C14_min_length_boundary : forall n, comment_too_short n n = false /\ comment_too_short n (n + 1) = true.
Proof. exact comment_too_short_boundary. Qed.
Print Assumptions C14_min_length_boundary.

(* if-else chains: the measured length is (#branches - 1) + 1 for a final else, 0 with any Init. *)
Theorem C14_if_else_len_spec : forall inits e c, inits <> [] ->
  count_ifelse_len inits e c =
  if existsb (fun b => b) inits then 0 else c + Z.of_nat (List.length inits) - 1 + end_bonus e.
Proof. exact count_ifelse_len_spec. Qed.
Print Assumptions C14_if_else_len_spec.
Theorem C14_if_else_monotone : forall inits e t1 t2, t1 <= t2 ->
  if_else_reports inits e t2 = true -> if_else_reports inits e t1 = true.
Proof. exact if_else_reports_monotone. Qed.
Print Assumptions C14_if_else_monotone.
Theorem C14_if_else_boundary : forall inits, inits <> [] -> existsb (fun b => b) inits = false ->
  let n := Z.of_nat (List.length inits) in
  if_else_reports inits EndElseBlock n = true /\ if_else_reports inits EndElseBlock (n + 1) = false.
Proof. exact if_else_reports_boundary. Qed.
Print Assumptions C14_if_else_boundary.

(* gc size laws (the equality with the platform is a measured correspondence, not a theorem) *)
Theorem C14_gc_sizeof_array : forall n e, 0 < n -> gc_sizeof (TArray n e) = n * gc_sizeof e.
Proof. exact gc_sizeof_array. Qed.
Print Assumptions C14_gc_sizeof_array.

Example C14_example_sizes :
  gc_sizeof (TStruct [TBool; TInt64; TInt8]) = 24 /\ gc_sizeof (TStruct [TInt64; TStruct []]) = 16
  /\ gc_sizeof (TArray 3 (TStruct [TInt8; TInt16])) = 12 /\ gc_sizeof (TStruct [TComplex64; TBool]) = 12.
Proof. vm_compute. auto. Qed.
Example C14_example_plumbing :
  let reg := [("@a.x", 0%N); ("@b.y", 1%N)] in let h := [(0%N, "80"); (1%N, "true")] in
  construct_reads (run_frontend h reg [("@a.x", "5"); ("@a.x", "7")]) reg "@a.x" = Some "7"
  /\ construct_reads (run_frontend h reg [("@a.x", "5")]) reg "@b.y" = Some "true".
Proof. vm_compute. auto. Qed.

(* Sizes for a target platform: the platform-parametric model instantiated at amd64 is the amd64 model used
   above; the correspondence evaluates it at the foreign platform against what every front-end quotes when
   GOARCH is set (harness: crossArch). *)
Theorem C14_gsize_amd64 : forall t, gsize amd64 t = gc_sizeof t /\ galign amd64 t = gc_alignof t.
Proof. exact gsize_amd64. Qed.
Print Assumptions C14_gsize_amd64.
Example C14_gsize_386_examples :
  gsize i386 (TArray 12 TInt) = 48 /\ gsize amd64 (TArray 12 TInt) = 96
  /\ gsize i386 (TStruct [TInt64; TInt32]) = 12 /\ gsize amd64 (TStruct [TInt64; TInt32]) = 16
  /\ gsize i386 (TStruct [TBool; TFloat64; TInt]) = 16 /\ gsize amd64 (TStruct [TBool; TFloat64; TInt]) = 24.
Proof. vm_compute. repeat split. Qed.
