From GC Require Import Base Model_IR Proofs_IR Model_Frontends.

Lemma analyzer_offers_all hw emb : offered_analysis hw emb analysis_main = offered_cli hw emb.
Proof. reflexivity. Qed.

Lemma analyzer_prefix_lacks_embedded_refuted :
  exists hw emb, offered_analysis hw emb analysis_main_prefix <> offered_cli hw emb.
Proof. exists ["captLocal"], ["sloppyLen"]. vm_compute. discriminate. Qed.

Lemma analyzer_prefix_offers_only_handwritten hw emb : offered_analysis hw emb analysis_main_prefix = hw.
Proof. reflexivity. Qed.

Lemma as_diag_roundtrip loc c t : analysis_line loc (as_diag_msg c t) = cli_line loc c t.
Proof. reflexivity. Qed.

Lemma fix_forwarded_unchanged q :
  te_pos (as_edit q) = qf_from q /\ te_end (as_edit q) = qf_to q /\ te_new (as_edit q) = qf_text q.
Proof. auto. Qed.

(* ---- each file exactly once, same set for both kinds of driver ---- *)
Lemma mem_dedup x l : mem x (dedup l) = mem x l.
Proof.
  induction l as [|y r IH]; [reflexivity|]. cbn [dedup mem].
  destruct (mem y r) eqn:E.
  - rewrite IH. destruct (String.eqb x y) eqn:Exy; [|reflexivity].
    apply String.eqb_eq in Exy. subst. rewrite E. reflexivity.
  - cbn [mem]. rewrite IH. reflexivity.
Qed.

Lemma dedup_NoDup l : NoDup (dedup l).
Proof.
  induction l as [|y r IH]; [constructor|]. cbn [dedup].
  destruct (mem y r) eqn:E; [exact IH|]. constructor; [|exact IH].
  intros H. apply mem_In in H. rewrite mem_dedup in H. congruence.
Qed.

Lemma forallb_mem_incl (a b : list string) : forallb (fun f => mem f b) a = true -> incl a b.
Proof. rewrite forallb_forall. intros H x Hx. apply mem_In. auto. Qed.

Lemma NoDup_app_intro (a b : list string) :
  NoDup a -> NoDup b -> (forall x, In x a -> ~ In x b) -> NoDup (a ++ b).
Proof.
  induction a as [|x a IH]; simpl; intros Ha Hb Hd; [exact Hb|].
  inversion Ha as [|? ? Hnx Ha']; subst. constructor.
  - intros H. apply in_app_or in H as [H|H]; [contradiction|]. exact (Hd x (or_introl eq_refl) H).
  - apply IH; auto.
Qed.

(* the CLI analyses every file of the unit exactly once ... *)
Lemma cli_files_nodup u : wf_unit u = true -> NoDup (cli_selected_files u).
Proof.
  unfold wf_unit, cli_selected_files. rewrite !andb_true_iff. intros [[Hb Ht] Hx].
  destruct (u_xtest u) as [x|].
  - apply andb_true_iff in Hx as [Hxn Hxd]. rewrite forallb_forall in Hxd.
    apply NoDup_app_intro; [apply nodupb_NoDup; exact Hxn| |].
    + destruct (u_test u) as [t|]; [apply andb_true_iff in Ht as [Ht _]|]; apply nodupb_NoDup; assumption.
    + intros f Hf Hin. specialize (Hxd f Hf). apply andb_true_iff in Hxd as [H1 H2].
      apply negb_true_iff in H1, H2. destruct (u_test u) as [t|].
      * apply mem_In in Hin. congruence.
      * apply mem_In in Hin. congruence.
  - simpl. destruct (u_test u) as [t|]; [apply andb_true_iff in Ht as [Ht _]|]; apply nodupb_NoDup; assumption.
Qed.

(* ... and the analysis driver, after its de-duplication, covers exactly the same files *)
Lemma driver_same_files u f : wf_unit u = true ->
  (In f (dedup (driver_files u)) <-> In f (cli_selected_files u)).
Proof.
  unfold wf_unit. rewrite !andb_true_iff. intros [[Hb Ht] Hx].
  rewrite <- !mem_In, mem_dedup, !mem_In. unfold driver_files, cli_selected_files.
  rewrite !in_app_iff. destruct (u_test u) as [t|].
  - apply andb_true_iff in Ht as [_ Hsub]. apply forallb_mem_incl in Hsub.
    destruct (u_xtest u) as [x|]; simpl; split; intros H; intuition.
  - destruct (u_xtest u) as [x|]; simpl; split; intros H; intuition.
Qed.

Lemma driver_each_once u : NoDup (dedup (driver_files u)).
Proof. apply dedup_NoDup. Qed.
