(* Model_Regex.v — C11.
   (1) [sx]   : a mirror of github.com/quasilyte/regex/syntax.Expr (Op, Value, Args) — the tree the
                simplifier walks.  It is an INPUT of the model (dumped by the harness from the real parser).
   (2) [rx]   : semantic regular expressions and [m], a total backtracking matcher in continuation-passing
                style with priorities (leftmost-first alternation, greedy / non-greedy loops, captures,
                empty-iteration cut for loops; fuel = remaining subject length).
   (3) [den]  : elaboration sx -> rx for the constructs Go's regexp accepts (flags i m s U threaded,
                captures numbered left to right, repeats unfolded the way regexp/syntax.Simplify does).
   (4) [find] : leftmost search; [go_vec] = the vector regexp.FindStringSubmatchIndex returns.
   No proofs here. *)
From GC Require Import Base.
Local Open Scope N_scope.

(* ------------------------------------------------------------------ *)
(* 1. syntax tree                                                      *)

Inductive op :=
| OpNone | OpConcat | OpDot | OpAlt | OpStar | OpPlus | OpQuestion | OpNonGreedy | OpPossessive
| OpCaret | OpDollar | OpLiteral | OpChar | OpString | OpQuote | OpEscapeChar | OpEscapeMeta
| OpEscapeOctal | OpEscapeHex | OpEscapeUni | OpCharClass | OpNegCharClass | OpCharRange
| OpPosixClass | OpRepeat | OpCapture | OpNamedCapture | OpGroup | OpGroupWithFlags | OpAtomicGroup
| OpPositiveLookahead | OpNegativeLookahead | OpPositiveLookbehind | OpNegativeLookbehind
| OpFlagOnlyGroup | OpComment.

Definition op_id (o : op) : N :=
  match o with
  | OpNone => 0 | OpConcat => 1 | OpDot => 2 | OpAlt => 3 | OpStar => 4 | OpPlus => 5 | OpQuestion => 6
  | OpNonGreedy => 7 | OpPossessive => 8 | OpCaret => 9 | OpDollar => 10 | OpLiteral => 11 | OpChar => 12
  | OpString => 13 | OpQuote => 14 | OpEscapeChar => 15 | OpEscapeMeta => 16 | OpEscapeOctal => 17
  | OpEscapeHex => 18 | OpEscapeUni => 19 | OpCharClass => 20 | OpNegCharClass => 21 | OpCharRange => 22
  | OpPosixClass => 23 | OpRepeat => 24 | OpCapture => 25 | OpNamedCapture => 26 | OpGroup => 27
  | OpGroupWithFlags => 28 | OpAtomicGroup => 29 | OpPositiveLookahead => 30 | OpNegativeLookahead => 31
  | OpPositiveLookbehind => 32 | OpNegativeLookbehind => 33 | OpFlagOnlyGroup => 34 | OpComment => 35
  end.
Definition op_eqb (a b : op) : bool := N.eqb (op_id a) (op_id b).

Inductive sx := X (o : op) (v : string) (args : list sx).

Definition sx_op (e : sx) : op := match e with X o _ _ => o end.
Definition sx_val (e : sx) : string := match e with X _ v _ => v end.
Definition sx_args (e : sx) : list sx := match e with X _ _ a => a end.

Fixpoint sx_eqb (a b : sx) {struct a} : bool :=
  match a, b with
  | X o1 v1 l1, X o2 v2 l2 =>
      op_eqb o1 o2 && String.eqb v1 v2 &&
      (fix go (l1 l2 : list sx) {struct l1} : bool :=
         match l1, l2 with
         | [], [] => true
         | x :: r1, y :: r2 => sx_eqb x y && go r1 r2
         | _, _ => false
         end) l1 l2
  end.

(* ------------------------------------------------------------------ *)
(* 2. runes, UTF-8                                                     *)

Definition rune := N.

Definition rune_len (r : rune) : nat :=
  if r <? 128 then 1%nat else if r <? 2048 then 2%nat else if r <? 65536 then 3%nat else 4%nat.

Definition byte_of (a : ascii) : N := N_of_ascii a.

(* decode one UTF-8 sequence (well-formed input assumed; malformed lead bytes decode as themselves) *)
Definition decode_rune (s : string) : option (rune * string) :=
  match s with
  | EmptyString => None
  | String a r =>
      let b := byte_of a in
      if b <? 128 then Some (b, r)
      else if b <? 224 then
        match r with
        | String a1 r1 => Some ((b - 192) * 64 + (byte_of a1 - 128), r1)
        | _ => Some (b, r)
        end
      else if b <? 240 then
        match r with
        | String a1 (String a2 r2) => Some ((b - 224) * 4096 + (byte_of a1 - 128) * 64 + (byte_of a2 - 128), r2)
        | _ => Some (b, r)
        end
      else
        match r with
        | String a1 (String a2 (String a3 r3)) =>
            Some ((b - 240) * 262144 + (byte_of a1 - 128) * 4096 + (byte_of a2 - 128) * 64 + (byte_of a3 - 128), r3)
        | _ => Some (b, r)
        end
  end.

Fixpoint decode_runes_fuel (fuel : nat) (s : string) : list rune :=
  match fuel with
  | O => []
  | S f => match decode_rune s with
           | None => []
           | Some (r, rest) => r :: decode_runes_fuel f rest
           end
  end.
Definition decode_runes (s : string) : list rune := decode_runes_fuel (String.length s) s.

(* the single rune a Value denotes (OpChar) *)
Definition rune_of (v : string) : option rune :=
  match decode_rune v with Some (r, EmptyString) => Some r | _ => None end.

(* ------------------------------------------------------------------ *)
(* 3. rune classes                                                     *)

(* an item: possibly negated union of inclusive ranges *)
Inductive citem := CI (neg : bool) (ranges : list (N * N)).
Record cls := { c_neg : bool; c_fold : bool; c_items : list citem }.

Definition in_ranges (rs : list (N * N)) (r : rune) : bool :=
  existsb (fun p => (fst p <=? r) && (r <=? snd p)) rs.

(* simple-fold orbit, exact for ASCII plus the two non-ASCII runes whose orbit meets ASCII
   (U+212A KELVIN SIGN ~ k, U+017F LONG S ~ s). Other non-ASCII letters are outside the modelled domain. *)
Definition orbit (fold : bool) (r : rune) : list rune :=
  if fold then
    r :: (if (97 <=? r) && (r <=? 122) then [r - 32] else [])
      ++ (if (65 <=? r) && (r <=? 90) then [r + 32] else [])
      ++ (if (r =? 107) || (r =? 75) then [8490] else [])
      ++ (if r =? 8490 then [75; 107] else [])
      ++ (if (r =? 115) || (r =? 83) then [383] else [])
      ++ (if r =? 383 then [83; 115] else [])
  else [r].

Definition in_item (fold : bool) (r : rune) (it : citem) : bool :=
  match it with CI neg rs => xorb neg (existsb (in_ranges rs) (orbit fold r)) end.

Definition in_cls (c : cls) (r : rune) : bool :=
  xorb (c_neg c) (existsb (in_item (c_fold c) r) (c_items c)).

Definition rs_digit : list (N * N) := [(48, 57)].
Definition rs_word : list (N * N) := [(48, 57); (65, 90); (95, 95); (97, 122)].
Definition rs_perl_space : list (N * N) := [(9, 10); (12, 13); (32, 32)].     (* \s : no \v *)
Definition rs_posix_space : list (N * N) := [(9, 13); (32, 32)].             (* [:space:] : with \v *)

Definition posix_ranges (name : string) : option (list (N * N)) :=
  if String.eqb name "alnum" then Some [(48, 57); (65, 90); (97, 122)]
  else if String.eqb name "alpha" then Some [(65, 90); (97, 122)]
  else if String.eqb name "ascii" then Some [(0, 127)]
  else if String.eqb name "blank" then Some [(9, 9); (32, 32)]
  else if String.eqb name "cntrl" then Some [(0, 31); (127, 127)]
  else if String.eqb name "digit" then Some rs_digit
  else if String.eqb name "graph" then Some [(33, 126)]
  else if String.eqb name "lower" then Some [(97, 122)]
  else if String.eqb name "print" then Some [(32, 126)]
  else if String.eqb name "punct" then Some [(33, 47); (58, 64); (91, 96); (123, 126)]
  else if String.eqb name "space" then Some rs_posix_space
  else if String.eqb name "upper" then Some [(65, 90)]
  else if String.eqb name "word" then Some rs_word
  else if String.eqb name "xdigit" then Some [(48, 57); (65, 70); (97, 102)]
  else None.

(* ------------------------------------------------------------------ *)
(* 4. semantic regular expressions and the matcher                      *)

Inductive assertion := ABeginText | AEndText | ABeginLine | AEndLine | AWordB | ANoWordB.

Inductive rx :=
| REmpty
| RSet (c : cls)
| RAssert (a : assertion)
| RCat (a b : rx)
| RAlt (a b : rx)
| RStar (greedy : bool) (a : rx)
| RPlus (greedy : bool) (a : rx)
| RQuest (greedy : bool) (a : rx)
| RGroup (n : nat) (a : rx).

Definition is_word (r : rune) : bool := in_ranges rs_word r.
Definition word_opt (o : option rune) : bool := match o with Some r => is_word r | None => false end.

Definition assert_ok (a : assertion) (p : option rune) (s : list rune) : bool :=
  match a with
  | ABeginText => match p with None => true | _ => false end
  | AEndText => match s with [] => true | _ => false end
  | ABeginLine => match p with None => true | Some r => r =? 10 end
  | AEndLine => match s with [] => true | r :: _ => r =? 10 end
  | AWordB => xorb (word_opt p) (word_opt (hd_error s))
  | ANoWordB => negb (xorb (word_opt p) (word_opt (hd_error s)))
  end.

(* capture registers: index n holds group n (index 0 unused) *)
Definition caps := list (option (nat * nat)).

Fixpoint cset (n : nat) (v : nat * nat) (c : caps) : caps :=
  match n, c with
  | O, [] => [Some v]
  | O, _ :: r => Some v :: r
  | S n', [] => None :: cset n' v []
  | S n', x :: r => x :: cset n' v r
  end.

Definition orelse {A} (a b : option A) : option A := match a with Some _ => a | None => b end.

Section Matcher.
  Context {R : Type}.
  (* continuation: previous rune, remaining subject, byte offset, captures *)
  Definition kont := option rune -> list rune -> nat -> caps -> option R.

  (* Loops. Go compiles x* as (x+)? and x+ as  L1: x; L2: split(L1, out).  A thread that reaches an
     instruction it has already visited at the same subject position dies.  Hence: the FIRST iteration may
     be empty (then the loop is left: L1 is already visited), every later iteration must consume, otherwise
     that path fails (L2 is already visited) — it does not leave the loop.
     [loop] below is the state "at L2 after a consuming iteration"; fuel = remaining length + 1. *)
  Fixpoint m (e : rx) (p : option rune) (s : list rune) (i : nat) (c : caps) (k : kont) {struct e} : option R :=
    match e with
    | REmpty => k p s i c
    | RSet cl =>
        match s with
        | r :: s' => if in_cls cl r then k (Some r) s' (i + rune_len r)%nat c else None
        | [] => None
        end
    | RAssert a => if assert_ok a p s then k p s i c else None
    | RCat a b => m a p s i c (fun p' s' i' c' => m b p' s' i' c' k)
    | RAlt a b => orelse (m a p s i c k) (m b p s i c k)
    | RQuest g a =>
        if g then orelse (m a p s i c k) (k p s i c) else orelse (k p s i c) (m a p s i c k)
    | RGroup n a => m a p s i c (fun p' s' i' c' => k p' s' i' (cset n (i, i') c'))
    | RStar g a =>
        let first :=
          m a p s i c (fun p1 s1 i1 c1 =>
            if Nat.ltb (List.length s1) (List.length s) then
              (fix loop (fuel : nat) (p : option rune) (s : list rune) (i : nat) (c : caps) {struct fuel} : option R :=
                 match fuel with
                 | O => k p s i c
                 | S f =>
                     let iter := m a p s i c (fun p' s' i' c' =>
                                    if Nat.ltb (List.length s') (List.length s) then loop f p' s' i' c' else None) in
                     if g then orelse iter (k p s i c) else orelse (k p s i c) iter
                 end) (S (List.length s1)) p1 s1 i1 c1
            else k p1 s1 i1 c1) in
        if g then orelse first (k p s i c) else orelse (k p s i c) first
    | RPlus g a =>
        m a p s i c (fun p1 s1 i1 c1 =>
          if Nat.ltb (List.length s1) (List.length s) then
            (fix loop (fuel : nat) (p : option rune) (s : list rune) (i : nat) (c : caps) {struct fuel} : option R :=
               match fuel with
               | O => k p s i c
               | S f =>
                   let iter := m a p s i c (fun p' s' i' c' =>
                                  if Nat.ltb (List.length s') (List.length s) then loop f p' s' i' c' else None) in
                   if g then orelse iter (k p s i c) else orelse (k p s i c) iter
               end) (S (List.length s1)) p1 s1 i1 c1
          else k p1 s1 i1 c1)
    end.
End Matcher.

(* Domain in which [m] is Go's semantics.  Go's engines never visit the same (instruction, position) twice;
   without an empty-width cycle this cannot change the outcome of a priority search, with one it can
   (`(a??b??)*c` on "abc": Go reports group 1 = (0,2), a backtracking search (1,2)).  The only cycles are
   loops whose body can match the empty string, so the model is claimed exact where every loop body consumes. *)
Fixpoint consumes (e : rx) : bool :=
  match e with
  | RSet _ => true
  | RCat a b => consumes a || consumes b
  | RAlt a b => consumes a && consumes b
  | RPlus _ a => consumes a
  | RGroup _ a => consumes a
  | _ => false
  end.

Fixpoint loops_ok (e : rx) : bool :=
  match e with
  | RCat a b | RAlt a b => loops_ok a && loops_ok b
  | RStar _ a | RPlus _ a => consumes a && loops_ok a
  | RQuest _ a | RGroup _ a => loops_ok a
  | _ => true
  end.

(* leftmost search *)
Fixpoint find_from (e : rx) (p : option rune) (s : list rune) (i : nat) {struct s} : option (nat * nat * caps) :=
  match m e p s i [] (fun _ _ i' c => Some (i, i', c)) with
  | Some r => Some r
  | None => match s with
            | [] => None
            | r :: s' => find_from e (Some r) s' (i + rune_len r)%nat
            end
  end.
Definition find (e : rx) (s : list rune) := find_from e None s 0%nat.

(* regexp.FindStringSubmatchIndex: 2*(ngroups+1) integers, -1 for unset *)
Definition go_vec (ngroups : nat) (r : option (nat * nat * caps)) : option (list Z) :=
  match r with
  | None => None
  | Some (i, j, c) =>
      Some (Z.of_nat i :: Z.of_nat j ::
            flat_map (fun g => match nth g c None with
                               | Some (a, b) => [Z.of_nat a; Z.of_nat b]
                               | None => [(-1)%Z; (-1)%Z]
                               end) (seq 1 ngroups))
  end.

(* ------------------------------------------------------------------ *)
(* 5. elaboration sx -> rx                                              *)

Record flags := { f_i : bool; f_m : bool; f_s : bool; f_U : bool }.
Definition flags0 := {| f_i := false; f_m := false; f_s := false; f_U := false |}.

Record dst := { d_fl : flags; d_next : nat; d_names : list string }.   (* d_names: reversed, "" for unnamed *)
Definition dst0 := {| d_fl := flags0; d_next := 1; d_names := [] |}.
Definition with_flags (st : dst) (f : flags) := {| d_fl := f; d_next := d_next st; d_names := d_names st |}.

(* flag text: letters switch on until '-', off after it *)
Fixpoint apply_flags (s : string) (on : bool) (f : flags) : option flags :=
  match s with
  | EmptyString => Some f
  | String a r =>
      let b := byte_of a in
      if b =? 45 then apply_flags r false f
      else if b =? 105 then apply_flags r on {| f_i := on; f_m := f_m f; f_s := f_s f; f_U := f_U f |}
      else if b =? 109 then apply_flags r on {| f_i := f_i f; f_m := on; f_s := f_s f; f_U := f_U f |}
      else if b =? 115 then apply_flags r on {| f_i := f_i f; f_m := f_m f; f_s := on; f_U := f_U f |}
      else if b =? 85 then apply_flags r on {| f_i := f_i f; f_m := f_m f; f_s := f_s f; f_U := on |}
      else None
  end.

Definition set1 (fold : bool) (r : rune) : rx :=
  RSet {| c_neg := false; c_fold := fold; c_items := [CI false [(r, r)]] |}.
Definition set_item (fold : bool) (it : citem) : rx :=
  RSet {| c_neg := false; c_fold := fold; c_items := [it] |}.

Fixpoint cat_list (l : list rx) : rx :=
  match l with [] => REmpty | [x] => x | x :: r => RCat x (cat_list r) end.
Fixpoint alt_list (l : list rx) : rx :=
  match l with [] => REmpty | [x] => x | x :: r => RAlt x (alt_list r) end.

Fixpoint ncopies (n : nat) (x : rx) : list rx := match n with O => [] | S k => x :: ncopies k x end.

(* (x(x(x)?)?)? with k levels, k >= 1 *)
Fixpoint nest_quest (g : bool) (x : rx) (k : nat) : rx :=
  match k with
  | O => REmpty
  | S O => RQuest g x
  | S k' => RQuest g (RCat x (nest_quest g x k'))
  end.

(* regexp/syntax.Simplify for OpRepeat *)
Definition build_repeat (g : bool) (x : rx) (mn : nat) (mx : option nat) : rx :=
  match mx with
  | None =>
      match mn with
      | O => RStar g x
      | S k => cat_list (ncopies k x ++ [RPlus g x])
      end
  | Some mxv =>
      if Nat.eqb mxv 0 then REmpty
      else if Nat.eqb mn 1 && Nat.eqb mxv 1 then x
      else if Nat.eqb mn mxv then cat_list (ncopies mn x)
      else cat_list (ncopies mn x ++ [nest_quest g x (mxv - mn)])
  end.

(* decimal digits *)
Fixpoint parse_nat_acc (s : string) (acc : nat) : nat * string :=
  match s with
  | String a r =>
      let b := byte_of a in
      if (48 <=? b) && (b <=? 57) then parse_nat_acc r (acc * 10 + N.to_nat (b - 48))%nat else (acc, s)
  | EmptyString => (acc, s)
  end.

(* "{n}" "{n,}" "{n,m}" *)
Definition parse_repeat (v : string) : option (nat * option nat) :=
  match v with
  | String a r =>
      if byte_of a =? 123 then
        let '(n, r1) := parse_nat_acc r 0%nat in
        match r1 with
        | String b r2 =>
            if byte_of b =? 125 then Some (n, Some n)
            else if byte_of b =? 44 then
              match r2 with
              | String c2 _ =>
                  if byte_of c2 =? 125 then Some (n, None)
                  else let '(mv, _) := parse_nat_acc r2 0%nat in Some (n, Some mv)
              | _ => None
              end
            else None
        | _ => None
        end
      else None
  | _ => None
  end.

Definition hex_val (b : N) : option N :=
  if (48 <=? b) && (b <=? 57) then Some (b - 48)
  else if (97 <=? b) && (b <=? 102) then Some (b - 87)
  else if (65 <=? b) && (b <=? 70) then Some (b - 55)
  else None.

Fixpoint parse_hex (s : string) (acc : N) : option N :=
  match s with
  | EmptyString => Some acc
  | String a r => match hex_val (byte_of a) with Some d => parse_hex r (acc * 16 + d) | None => None end
  end.
Fixpoint parse_oct (s : string) (acc : N) : option N :=
  match s with
  | EmptyString => Some acc
  | String a r => let b := byte_of a in
                  if (48 <=? b) && (b <=? 55) then parse_oct r (acc * 8 + (b - 48)) else None
  end.

Fixpoint drop_last (s : string) : string :=
  match s with
  | EmptyString => EmptyString
  | String _ EmptyString => EmptyString
  | String a r => String a (drop_last r)
  end.

(* value of a single-rune escape; None when it is not one *)
Definition escape_rune (o : op) (v : string) : option rune :=
  match o with
  | OpEscapeMeta => match v with String _ r => rune_of r | _ => None end
  | OpEscapeOctal => match v with String _ r => parse_oct r 0 | _ => None end
  | OpEscapeHex =>
      match v with
      | String _ (String _ r) =>           (* \x.. *)
          match r with
          | String a r' => if byte_of a =? 123 then parse_hex (drop_last r') 0
                           else if Nat.eqb (String.length r) 2 then parse_hex r 0 else None
          | _ => None
          end
      | _ => None
      end
  | OpEscapeChar =>
      match v with
      | String _ r =>
          match rune_of r with
          | Some b =>
              if b =? 97 then Some 7 else if b =? 102 then Some 12 else if b =? 116 then Some 9
              else if b =? 110 then Some 10 else if b =? 114 then Some 13 else if b =? 118 then Some 11
              else if (b <? 128) && negb (is_word b) then Some b     (* escaped punctuation *)
              else None
          | None => None
          end
      | _ => None
      end
  | OpChar => rune_of v
  | _ => None
  end.

(* \d \D \w \W \s \S *)
Definition perl_item (v : string) : option citem :=
  if String.eqb v "\d" then Some (CI false rs_digit)
  else if String.eqb v "\D" then Some (CI true rs_digit)
  else if String.eqb v "\w" then Some (CI false rs_word)
  else if String.eqb v "\W" then Some (CI true rs_word)
  else if String.eqb v "\s" then Some (CI false rs_perl_space)
  else if String.eqb v "\S" then Some (CI true rs_perl_space)
  else None.

Definition assertion_of (v : string) : option assertion :=
  if String.eqb v "\A" then Some ABeginText
  else if String.eqb v "\z" then Some AEndText
  else if String.eqb v "\b" then Some AWordB
  else if String.eqb v "\B" then Some ANoWordB
  else None.

(* "[:name:]" / "[:^name:]" *)
Definition posix_item (v : string) : option citem :=
  match v with
  | String _ (String _ r) =>
      let body := drop_last (drop_last r) in
      match body with
      | String a r' =>
          if byte_of a =? 94 then option_map (CI true) (posix_ranges r')
          else option_map (CI false) (posix_ranges body)
      | _ => None
      end
  | _ => None
  end.

(* one element of a character class *)
Definition class_item (e : sx) : option citem :=
  match e with
  | X OpCharRange _ [lo; hi] =>
      match escape_rune (sx_op lo) (sx_val lo), escape_rune (sx_op hi) (sx_val hi) with
      | Some a, Some b => if a <=? b then Some (CI false [(a, b)]) else None
      | _, _ => None
      end
  | X OpPosixClass v _ => posix_item v
  | X OpEscapeChar v _ =>
      match perl_item v with
      | Some it => Some it
      | None => option_map (fun r => CI false [(r, r)]) (escape_rune OpEscapeChar v)
      end
  | X o v _ => option_map (fun r => CI false [(r, r)]) (escape_rune o v)
  end.

Fixpoint class_items (l : list sx) : option (list citem) :=
  match l with
  | [] => Some []
  | e :: r => match class_item e, class_items r with
              | Some it, Some its => Some (it :: its)
              | _, _ => None
              end
  end.

Definition greedy_of (st : dst) (g : bool) : bool := if f_U (d_fl st) then negb g else g.

(* "{007}" "{1,02}": a count with a leading zero.  Go's regexp/syntax (parseInt: "disallow leading zeros") reads such a
   brace expression as LITERAL TEXT, the checker's parser reads a repeat: the tree does not say what Go matches, so it
   does not elaborate (outside the model, like \p{..}) *)
Fixpoint zero_padded_from (s : string) (at_start : bool) : bool :=
  match s with
  | String a r =>
      let b := byte_of a in
      if at_start && (b =? 48) then
        match r with
        | String c _ => if (48 <=? byte_of c) && (byte_of c <=? 57) then true else zero_padded_from r false
        | EmptyString => false
        end
      else zero_padded_from r (negb ((48 <=? b) && (b <=? 57)))
  | EmptyString => false
  end.
Definition zero_padded (rep : string) : bool := zero_padded_from rep false.

Definition quant_build (st : dst) (g : bool) (qo : op) (rep : string) (x : rx) : option rx :=
  let g' := greedy_of st g in
  match qo with
  | OpStar => Some (RStar g' x)
  | OpPlus => Some (RPlus g' x)
  | OpQuestion => Some (RQuest g' x)
  | OpRepeat =>
      match parse_repeat rep with
      | Some (mn, mx) =>
          let bad := match mx with Some v => Nat.ltb v mn || Nat.ltb 1000 v | None => false end in
          if bad || Nat.ltb 1000 mn || zero_padded rep then None else Some (build_repeat g' x mn mx)
      | None => None
      end
  | _ => None
  end.

Definition is_quant (o : op) : bool :=
  match o with OpStar | OpPlus | OpQuestion | OpRepeat => true | _ => false end.

Definition rep_text (args : list sx) : string :=
  match args with [_; r] => sx_val r | _ => EmptyString end.

Fixpoint den (e : sx) (st : dst) {struct e} : option (rx * dst) :=
  let fold := f_i (d_fl st) in
  match e with
  | X OpConcat _ args =>
      match (fix go (l : list sx) (st : dst) {struct l} : option (list rx * dst) :=
         match l with
         | [] => Some ([], st)
         | x :: r => match den x st with
                     | Some (x', st1) => match go r st1 with
                                         | Some (r', st2) => Some (x' :: r', st2)
                                         | None => None
                                         end
                     | None => None
                     end
         end) args st with
      | Some (l, st') => Some (cat_list l, st')
      | None => None
      end
  | X OpAlt _ args =>
      match (fix go (l : list sx) (st : dst) {struct l} : option (list rx * dst) :=
         match l with
         | [] => Some ([], st)
         | x :: r => match den x st with
                     | Some (x', st1) => match go r st1 with
                                         | Some (r', st2) => Some (x' :: r', st2)
                                         | None => None
                                         end
                     | None => None
                     end
         end) args st with
      | Some (l, st') => Some (alt_list l, st')
      | None => None
      end
  | X OpChar v _ => option_map (fun r => (set1 fold r, st)) (rune_of v)
  | X OpDot _ _ =>
      Some (set_item false (CI true (if f_s (d_fl st) then [] else [(10, 10)])), st)
  | X OpCaret _ _ => Some (RAssert (if f_m (d_fl st) then ABeginLine else ABeginText), st)
  | X OpDollar _ _ => Some (RAssert (if f_m (d_fl st) then AEndLine else AEndText), st)
  | X OpEscapeChar v _ =>
      match perl_item v with
      | Some it => Some (set_item fold it, st)
      | None =>
          match assertion_of v with
          | Some a => Some (RAssert a, st)
          | None => option_map (fun r => (set1 fold r, st)) (escape_rune OpEscapeChar v)
          end
      end
  | X OpEscapeMeta v _ => option_map (fun r => (set1 fold r, st)) (escape_rune OpEscapeMeta v)
  | X OpEscapeOctal v _ => option_map (fun r => (set1 fold r, st)) (escape_rune OpEscapeOctal v)
  | X OpEscapeHex v _ => option_map (fun r => (set1 fold r, st)) (escape_rune OpEscapeHex v)
  | X OpQuote _ [X OpString lit _] =>
      Some (cat_list (map (set1 fold) (decode_runes lit)), st)
  | X OpCharClass _ items =>
      option_map (fun its => (RSet {| c_neg := false; c_fold := fold; c_items := its |}, st)) (class_items items)
  | X OpNegCharClass _ items =>
      option_map (fun its => (RSet {| c_neg := true; c_fold := fold; c_items := its |}, st)) (class_items items)
  | X OpNonGreedy _ [X qo _ (x :: qr)] =>
      if is_quant qo && negb (op_eqb (sx_op x) OpFlagOnlyGroup) then
        match den x st with
        | Some (x', st1) => option_map (fun q => (q, st1)) (quant_build st false qo (rep_text (x :: qr)) x')
        | None => None
        end
      else None
  | X OpStar _ [x] | X OpPlus _ [x] | X OpQuestion _ [x] =>
      (* an operator after (?flags): Go applies it to the atom before the flag group; outside the model *)
      if op_eqb (sx_op x) OpFlagOnlyGroup then None else
      match den x st with
      | Some (x', st1) => option_map (fun q => (q, st1)) (quant_build st true (sx_op e) EmptyString x')
      | None => None
      end
  | X OpRepeat _ [x; r] =>
      if op_eqb (sx_op x) OpFlagOnlyGroup then None else
      match den x st with
      | Some (x', st1) => option_map (fun q => (q, st1)) (quant_build st true OpRepeat (sx_val r) x')
      | None => None
      end
  | X OpCapture _ [x] =>
      let n := d_next st in
      match den x {| d_fl := d_fl st; d_next := S n; d_names := EmptyString :: d_names st |} with
      | Some (x', st1) => Some (RGroup n x', with_flags st1 (d_fl st))
      | None => None
      end
  | X OpNamedCapture _ [x; nm] =>
      let n := d_next st in
      match den x {| d_fl := d_fl st; d_next := S n; d_names := sx_val nm :: d_names st |} with
      | Some (x', st1) => Some (RGroup n x', with_flags st1 (d_fl st))
      | None => None
      end
  | X OpGroup _ [x] =>
      match den x st with
      | Some (x', st1) => Some (x', with_flags st1 (d_fl st))
      | None => None
      end
  | X OpGroupWithFlags _ [x; fl] =>
      match apply_flags (sx_val fl) true (d_fl st) with
      | Some f' =>
          match den x (with_flags st f') with
          | Some (x', st1) => Some (x', with_flags st1 (d_fl st))
          | None => None
          end
      | None => None
      end
  | X OpFlagOnlyGroup _ [fl] =>
      match apply_flags (sx_val fl) true (d_fl st) with
      | Some f' => Some (REmpty, with_flags st f')
      | None => None
      end
  | _ => None
  end.

(* whole pattern: (rx, number of groups, names in order) *)
Definition den_top (e : sx) : option (rx * nat * list string) :=
  match den e dst0 with
  | Some (r, st) => Some (r, (d_next st - 1)%nat, rev (d_names st))
  | None => None
  end.

(* the tree elaborates, and to an expression inside the exact domain *)
Definition model_exact (e : sx) : bool :=
  match den_top e with Some (r, _, _) => loops_ok r | None => false end.

Definition find_go (e : sx) (subject : string) : option (option (list Z)) :=
  match den_top e with
  | Some (r, n, _) => Some (go_vec n (find r (decode_runes subject)))
  | None => None
  end.
