(* Proofs_Checkers.v — lemmas about the transliterated checkers (Model_Checkers.v). *)
From GC Require Import Base GoAst Model_Checkers.
From Coq Require Import PArith FSets.FSetPositive.

(* ---------- outcome sequencing ---------- *)
Lemma seq_o_no_panic l :
  (forall o, In o l -> forall s, o <> Panic s) -> forall s, seq_o l <> Panic s.
Proof.
  induction l as [|o r IH]; simpl; intros H s; [discriminate|].
  destruct o as [ws|s0].
  - assert (Hr : forall s, seq_o r <> Panic s) by (apply IH; intros; apply H; auto).
    destruct (seq_o r) as [ws'|s1]; [discriminate|]. exfalso. exact (Hr s1 eq_refl).
  - exfalso. exact (H (Panic s0) (or_introl eq_refl) s0 eq_refl).
Qed.

Lemma seq_o_warnings l w :
  In w (warnings (seq_o l)) -> exists o, In o l /\ In w (warnings o).
Proof.
  induction l as [|o r IH]; simpl; [tauto|].
  destruct o as [ws|s0]; simpl; [|tauto].
  destruct (seq_o r) as [ws'|s1] eqn:E; simpl; [|tauto].
  intros H. apply in_app_or in H as [H|H].
  - exists (Ok ws). simpl. auto.
  - destruct (IH H) as [o [Ho Hw]]. exists o. auto.
Qed.

(* ---------- the pre-order list is closed under children ---------- *)
Lemma pre_self n : In n (pre n).
Proof. destruct n; simpl; auto. Qed.

Lemma pres_in l k : In k (to_list l) -> forall m, In m (pre k) -> In m (pres l).
Proof.
  induction l as [|n r IH]; simpl; [tauto|].
  intros [->|H] m Hm; apply in_or_app; [left; exact Hm|right; eapply IH; eauto].
Qed.

Lemma pre_kid n k : In k (kids n) -> forall m, In m (pre k) -> In m (pre n).
Proof.
  destruct n as [t p s a b f ks]. unfold kids; simpl. intros H m Hm. right. eapply pres_in; eauto.
Qed.

Combined Scheme node_mutind from node_ind2, nodes_ind2.

Lemma pre_trans_aux :
  (forall n m, In m (pre n) -> forall k, In k (pre m) -> In k (pre n)) /\
  (forall l m, In m (pres l) -> forall k, In k (pre m) -> In k (pres l)).
Proof.
  apply node_mutind; simpl; intros.
  - destruct H0 as [<-|H0]; [exact H1|]. right. eapply H; eauto.
  - contradiction.
  - apply in_app_or in H1 as [H1|H1]; apply in_or_app; [left; eapply H; eauto|right; eapply H0; eauto].
Qed.

Lemma pre_trans n m k : In m (pre n) -> In k (pre m) -> In k (pre n).
Proof. intros; eapply (proj1 pre_trans_aux); eauto. Qed.

Lemma kid_in_pre n k : In k (kids n) -> In k (pre n).
Proof. intros H. eapply pre_kid; eauto. apply pre_self. Qed.

Lemma post_in_pre_aux :
  (forall n m, In m (post n) -> In m (pre n)) /\ (forall l m, In m (posts l) -> In m (pres l)).
Proof.
  apply node_mutind; simpl; intros.
  - apply in_app_or in H0 as [H0|[<-|[]]]; auto.
  - contradiction.
  - apply in_app_or in H1 as [H1|H1]; apply in_or_app; auto.
Qed.

Lemma post_in_pre n m : In m (post n) -> In m (pre n).
Proof. apply (proj1 post_in_pre_aux). Qed.

(* ---------- where the walkers' nodes come from ---------- *)
Lemma all_nodes_pre f d n : In d (decls f) -> In n (pre d) -> In n (all_nodes f).
Proof. intros Hd Hn. unfold all_nodes. apply in_flat_map. eauto. Qed.

Lemma all_nodes_closed f n k : In n (all_nodes f) -> In k (pre n) -> In k (all_nodes f).
Proof.
  unfold all_nodes. intros H Hk. apply in_flat_map in H as [d [Hd Hn]]. apply in_flat_map. exists d. split; auto.
  eapply pre_trans; eauto.
Qed.

Lemma all_nodes_kid f n k : In n (all_nodes f) -> In k (kids n) -> In k (all_nodes f).
Proof. intros. eapply all_nodes_closed; eauto. apply kid_in_pre; auto. Qed.

Lemma expr_nodes_in f e : In e (expr_nodes f) -> In e (all_nodes f).
Proof.
  unfold expr_nodes. intros H. apply in_flat_map in H as [d [Hd He]].
  destruct (decl_entered d); [|contradiction]. apply filter_In in He as [He _]. eapply all_nodes_pre; eauto.
Qed.

Lemma func_body_in d b : func_body d = Some b -> In b (kids d).
Proof.
  unfold func_body. destruct (is_tag TFuncDecl d && N.eqb (nb d) 1); [|discriminate].
  intros H. eapply nth_error_In; eauto.
Qed.

Lemma stmt_nodes_in f s : In s (stmt_nodes f) -> In s (all_nodes f).
Proof.
  unfold stmt_nodes. intros H. apply in_flat_map in H as [d [Hd Hs]].
  destruct (func_body d) as [b|] eqn:E; [|contradiction]. apply filter_In in Hs as [Hs _].
  eapply all_nodes_pre; eauto. eapply pre_kid; eauto. eapply func_body_in; eauto.
Qed.

Lemma skipn_In' {A} (n : nat) (l : list A) x : In x (skipn n l) -> In x l.
Proof. revert l; induction n; intros [|y r]; simpl; auto. Qed.

Lemma firstn_In' {A} (n : nat) (l : list A) x : In x (firstn n l) -> In x l.
Proof. revert l; induction n; intros [|y r]; simpl; try tauto. intros [H|H]; auto. Qed.

Lemma stmt_lists_in f l s : In l (stmt_lists f) -> In s l -> In s (all_nodes f).
Proof.
  unfold stmt_lists. intros H Hs. apply in_flat_map in H as [d [Hd Hl]].
  destruct (func_body d) as [b|] eqn:E; [|contradiction].
  apply in_flat_map in Hl as [n [Hn Hl]].
  assert (Hn' : In n (all_nodes f)).
  { eapply all_nodes_pre; eauto. eapply pre_kid; eauto. eapply func_body_in; eauto. }
  eapply all_nodes_kid; eauto.
  unfold stmt_list_of in Hl. destruct (ntag n); simpl in Hl; try contradiction;
    destruct Hl as [<-|[]]; auto; eapply skipn_In'; eauto.
Qed.

(* ---------- token starts ---------- *)
Lemma succ_pos_inj' a b : N.succ_pos a = N.succ_pos b -> a = b.
Proof. intros H. apply (f_equal Npos) in H. rewrite !N.succ_pos_spec in H. apply N.succ_inj. exact H. Qed.

Lemma starts_set_In l p : PositiveSet.mem (N.succ_pos p) (starts_set l) = true -> In p l.
Proof.
  induction l as [|q r IH]; simpl; intros H.
  - discriminate.
  - apply PositiveSet.mem_2 in H. apply PositiveSet.add_spec in H. destruct H as [H|H].
    + left. apply succ_pos_inj' in H. auto.
    + right. apply IH. apply PositiveSet.mem_1. exact H.
Qed.

Lemma wf_node_of f n : wf f = true -> In n (all_nodes f) -> wf_node n = true.
Proof.
  unfold wf. intros H Hn. rewrite forallb_forall in H. apply H in Hn. apply andb_true_iff in Hn. tauto.
Qed.

Lemma wf_pos_of f n : wf f = true -> In n (all_nodes f) -> In (npos n) (token_starts f).
Proof.
  unfold wf. intros H Hn. rewrite forallb_forall in H. apply H in Hn. apply andb_true_iff in Hn as [_ Hp].
  apply starts_set_In. exact Hp.
Qed.

(* ---------- run-level lifting ---------- *)
Lemma run_expr_total visit f :
  (forall e, In e (all_nodes f) -> forall s, visit e <> Panic s) -> forall s, run_expr visit f <> Panic s.
Proof.
  intros H. unfold run_expr. apply seq_o_no_panic. intros o Ho. apply in_map_iff in Ho as [e [<- He]].
  apply H. apply expr_nodes_in; auto.
Qed.

Lemma run_stmt_total visit f :
  (forall e, In e (all_nodes f) -> forall s, visit e <> Panic s) -> forall s, run_stmt visit f <> Panic s.
Proof.
  intros H. unfold run_stmt. apply seq_o_no_panic. intros o Ho. apply in_map_iff in Ho as [e [<- He]].
  apply H. apply stmt_nodes_in; auto.
Qed.

Lemma run_stmt_list_total visit f :
  (forall l, (forall s, In s l -> In s (all_nodes f)) -> forall s, visit l <> Panic s) ->
  forall s, run_stmt_list visit f <> Panic s.
Proof.
  intros H. unfold run_stmt_list. apply seq_o_no_panic. intros o Ho. apply in_map_iff in Ho as [l [<- Hl]].
  apply H. intros s Hs. eapply stmt_lists_in; eauto.
Qed.

Lemma run_expr_warn visit f w :
  In w (warnings (run_expr visit f)) -> exists e, In e (all_nodes f) /\ In w (warnings (visit e)).
Proof.
  unfold run_expr. intros H. apply seq_o_warnings in H as [o [Ho Hw]]. apply in_map_iff in Ho as [e [<- He]].
  exists e. split; auto. apply expr_nodes_in; auto.
Qed.

Lemma run_stmt_warn visit f w :
  In w (warnings (run_stmt visit f)) -> exists e, In e (all_nodes f) /\ In w (warnings (visit e)).
Proof.
  unfold run_stmt. intros H. apply seq_o_warnings in H as [o [Ho Hw]]. apply in_map_iff in Ho as [e [<- He]].
  exists e. split; auto. apply stmt_nodes_in; auto.
Qed.

Lemma run_stmt_list_warn visit f w :
  In w (warnings (run_stmt_list visit f)) ->
  exists l, (forall s, In s l -> In s (all_nodes f)) /\ In w (warnings (visit l)).
Proof.
  unfold run_stmt_list. intros H. apply seq_o_warnings in H as [o [Ho Hw]]. apply in_map_iff in Ho as [l [<- Hl]].
  exists l. split; auto. intros s Hs. eapply stmt_lists_in; eauto.
Qed.

(* a guard given as a boolean on nodes holds for every node of the file *)
Definition all_nodes_sat (g : node -> bool) (f : file) : Prop := forallb g (all_nodes f) = true.

Lemma sat_of g f n : all_nodes_sat g f -> In n (all_nodes f) -> g n = true.
Proof. unfold all_nodes_sat. rewrite forallb_forall. auto. Qed.

(* ================= totality ================= *)
Lemma tag_eqb_eq x y : tag_eqb x y = true -> x = y.
Proof.
  destruct x as [| | | | | | | | | | | | | | | | | | | | | | | | | | | | | c];
    destruct y as [| | | | | | | | | | | | | | | | | | | | | | | | | | | | | c'];
    simpl; try discriminate; try reflexivity; try (destruct c; discriminate).
  destruct c, c'; simpl; try discriminate; reflexivity.
Qed.

Lemma is_tag_eq t n : is_tag t n = true -> ntag n = t.
Proof. unfold is_tag. apply tag_eqb_eq. Qed.

Ltac dmatch :=
  repeat (match goal with
          | |- context [match ?x with _ => _ end] => destruct x eqn:?
          | |- context [if ?x then _ else _] => destruct x eqn:?
          end; try discriminate).

Lemma filepathJoin_visit_total e s : filepathJoin_visit e <> Panic s.
Proof. unfold filepathJoin_visit. dmatch. Qed.

Lemma filepathJoin_total f : forall s, run_filepathJoin f <> Panic s.
Proof. apply run_expr_total. intros. apply filepathJoin_visit_total. Qed.

Lemma rangeAppendAll_visit_total e s : rangeAppendAll_visit e <> Panic s.
Proof. unfold rangeAppendAll_visit. dmatch. Qed.

Lemma rangeAppendAll_total f : forall s, run_rangeAppendAll f <> Panic s.
Proof. apply run_stmt_total. intros. apply rangeAppendAll_visit_total. Qed.

(* --- regexp entry guards --- *)
Lemma regexp_entry_partial names who f :
  all_nodes_sat (g_spelled_call_has_args names) f -> forall s, run_expr (regexp_entry names who) f <> Panic s.
Proof.
  intros G. apply run_expr_total. intros e He s. pose proof (sat_of _ _ _ G He) as Ge.
  unfold regexp_entry. unfold g_spelled_call_has_args in Ge.
  destruct (is_tag TCall e); simpl; [|discriminate].
  destruct (kids e) as [|fn args]; [discriminate|].
  destruct (mem (qualified_name fn) names); simpl; [|discriminate].
  destruct args; [discriminate Ge|discriminate].
Qed.

(* --- newDeref --- *)
Lemma newDeref_partial f :
  all_nodes_sat g_new_args f -> forall s, run_newDeref f <> Panic s.
Proof.
  intros G. apply run_expr_total. intros e He s. unfold newDeref_visit.
  destruct e as [t p str a b ff ks]. destruct t; try discriminate.
  destruct ks as [|x r]; [discriminate|]. destruct r; [|discriminate].
  assert (Hx : In x (all_nodes f)) by (eapply all_nodes_kid; eauto; unfold kids; simpl; auto).
  pose proof (sat_of _ _ _ G Hx) as Gx. unfold g_new_args in Gx.
  destruct (is_tag TCall x); simpl; [|discriminate].
  destruct (kids x) as [|fn args]; [discriminate|].
  destruct (is_tag TIdent fn && String.eqb (nstr fn) "new"); simpl; [|discriminate].
  destruct args as [|a0 ?]; [discriminate Gx|].
  destruct (f_ty (nfacts a0)); simpl; try discriminate;
    destruct (f_deflit (nfacts a0)); simpl; discriminate.
Qed.

(* --- dupOption --- *)
Lemma dupOption_partial f :
  all_nodes_sat g_variadic_fixed_args f -> forall s, run_dupOption f <> Panic s.
Proof.
  intros G. apply run_expr_total. intros e He s. pose proof (sat_of _ _ _ G He) as Ge.
  unfold dupOption_visit. unfold g_variadic_fixed_args in Ge.
  destruct (is_tag TCall e); simpl; [|discriminate].
  destruct (kids e) as [|fn args]; [discriminate|].
  destruct args as [|a0 args]; [discriminate|].
  destruct (N.eqb (na e) 1); [discriminate|].
  destruct (f_sig (nfacts fn)) as [|np v rc opt]; [discriminate|]. destruct v; [|discriminate].
  apply Nat.leb_le in Ge.
  destruct (Nat.ltb (length (a0 :: args)) (N.to_nat np - 1)) eqn:E.
  - apply Nat.ltb_lt in E. lia.
  - destruct (skipn (N.to_nat np - 1) (a0 :: args)); [discriminate|]. destruct (negb opt); discriminate.
Qed.

(* --- flagName --- *)
Lemma arity_ok_pos nargs ell fm np rc o :
  arity_ok nargs ell fm (Sig np false rc o) = true -> (0 < np)%N -> 0 < nargs.
Proof.
  unfold arity_ok. intros H Hp.
  destruct (Nat.eqb nargs 1 && negb (N.eqb fm 0) && negb ell) eqn:E.
  - apply andb_true_iff in E as [E _]. apply andb_true_iff in E as [E _]. apply Nat.eqb_eq in E. lia.
  - apply Nat.eqb_eq in H. lia.
Qed.

Local Arguments mem : simpl never.

Lemma flagName_partial f :
  wf f = true -> all_nodes_sat g_flagvar_two_args f -> forall s, run_flagName f <> Panic s.
Proof.
  intros W G. apply run_expr_total. intros e He s. pose proof (sat_of _ _ _ G He) as Ge.
  pose proof (wf_node_of _ _ W He) as We.
  unfold flagName_visit. unfold g_flagvar_two_args in Ge.
  destruct (is_tag TCall e) eqn:Tc; simpl; [|discriminate].
  unfold wf_node in We. rewrite (is_tag_eq _ _ Tc) in We.
  apply andb_true_iff in We as [_ We]. unfold wf_call in We.
  destruct (kids e) as [|fn args] eqn:Ke; [discriminate|].
  assert (Hfn0 : In fn (all_nodes f)) by (eapply all_nodes_kid; eauto; rewrite Ke; left; reflexivity).
  destruct fn as [t p str a b ff ks]; destruct t; try discriminate.
  destruct ks as [|x [|sel [|? ?]]]; try discriminate.
  destruct (is_tag TIdent x) eqn:Tx; simpl; [|discriminate].
  destruct (obj_of x) eqn:Ox; try discriminate.
  destruct (String.eqb path "flag") eqn:Ep; simpl; [|discriminate].
  apply String.eqb_eq in Ep. subst path.
  destruct x as [tx px sx ax bx fx kx]. unfold is_tag in Tx. simpl in Tx. apply tag_eqb_eq in Tx; subst tx.
  unfold obj_of in Ox. simpl in Ox.
  (* the selector's Sel is an identifier by wf of the selector node itself *)
  pose proof (wf_node_of _ _ W Hfn0) as Wfn. unfold wf_node in Wfn. simpl in Wfn.
  rename Wfn into Ts. destruct sel as [ts ps ss as_ bs fs ksl].
  unfold is_tag in Ts. simpl in Ts. apply tag_eqb_eq in Ts; subst ts.
  simpl in We. rewrite Ox in We. simpl in We. simpl.
  simpl in Ge.
  destruct (mem ss flag_names1) eqn:M1.
  - (* Args[0]: the API has three parameters *)
    unfold api_arity in We. simpl in We. rewrite M1 in We.
    apply andb_true_iff in We as [We Wapi]. apply andb_true_iff in We as [Wa _].
    destruct (f_sig ff) as [|np v rc o]; [discriminate Wapi|]. destruct v; [discriminate Wapi|].
    apply N.eqb_eq in Wapi. subst np.
    destruct (f_istype ff).
    + apply Nat.eqb_eq in Wa. destruct args; [discriminate Wa|discriminate].
    + apply arity_ok_pos in Wa; [|reflexivity]. destruct args; [simpl in Wa; lia|discriminate].
  - destruct (mem ss flag_names2) eqn:M2; [|discriminate].
    destruct args as [|a0 [|a1 ?]]; simpl in Ge; try discriminate Ge. discriminate.
Qed.

(* --- appendCombine --- *)
Lemma ac_match_partial f stmt slice s :
  all_nodes_sat g_append_args f -> In stmt (all_nodes f) -> ac_match stmt slice <> P s.
Proof.
  intros G Hs. unfold ac_match.
  destruct (negb (is_tag TAssign stmt)); [discriminate|].
  destruct (negb _); [discriminate|].
  destruct (kids stmt) as [|lhs [|rhs [|? ?]]] eqn:Ks; try discriminate.
  assert (Hr : In rhs (all_nodes f)) by (eapply all_nodes_kid; eauto; rewrite Ks; simpl; auto).
  pose proof (sat_of _ _ _ G Hr) as Gr. unfold g_append_args, g_spelled_call_has_args in Gr.
  destruct (is_tag TCall rhs); simpl; [|discriminate].
  destruct (kids rhs) as [|fn args]; [discriminate|].
  change (mem (qualified_name fn) ["append"]) with (String.eqb (qualified_name fn) "append" || false) in Gr.
  rewrite orb_false_r in Gr.
  destruct (String.eqb (qualified_name fn) "append"); simpl; [|discriminate].
  destruct (N.eqb (na rhs) 1); [discriminate|].
  destruct args as [|a0 ?]; [discriminate Gr|].
  destruct (negb (node_eqb lhs a0)); [discriminate|]. destruct slice; [destruct (node_eqb n a0)|]; discriminate.
Qed.

Lemma ac_loop_partial f :
  all_nodes_sat g_append_args f ->
  forall l, (forall x, In x l -> In x (all_nodes f)) -> forall cause slice chain s, ac_loop l cause slice chain <> Panic s.
Proof.
  intros G l. induction l as [|stmt r IH]; simpl; intros Hl cause slice chain s; [discriminate|].
  assert (Hr : forall x, In x r -> In x (all_nodes f)) by (intros; apply Hl; auto).
  destruct (ac_match stmt slice) as [[[fn a0]|]|s0] eqn:E.
  - destruct (Nat.eqb chain 0); apply IH; auto.
  - specialize (IH Hr cause None 0). destruct (ac_loop r cause None 0); [discriminate|]. exfalso. eapply IH; eauto.
  - exfalso. eapply ac_match_partial; eauto.
Qed.

Lemma appendCombine_partial f :
  all_nodes_sat g_append_args f -> forall s, run_appendCombine f <> Panic s.
Proof.
  intros G. apply run_stmt_list_total. intros l Hl s. unfold appendCombine_visit. eapply ac_loop_partial; eauto.
Qed.

(* --- appendAssign --- *)
Lemma aa_check_partial f x call s :
  wf f = true -> all_nodes_sat g_append_args f -> In call (all_nodes f) -> is_tag TCall call = true ->
  (match kids call with fn :: _ => String.eqb (qualified_name fn) "append" | [] => false end) = true ->
  aa_check x call <> Panic s.
Proof.
  intros W G Hc Tc Hq. pose proof (sat_of _ _ _ G Hc) as Gc. unfold g_append_args, g_spelled_call_has_args in Gc.
  rewrite Tc in Gc. unfold aa_check.
  destruct (kids call) as [|fn args]; [discriminate|].
  change (mem (qualified_name fn) ["append"]) with (String.eqb (qualified_name fn) "append" || false) in Gc.
  rewrite orb_false_r, Hq in Gc.
  destruct args as [|a0 rest]; [discriminate Gc|].
  destruct (N.eqb (na call) 1).
  - destruct (existsb _ rest); [discriminate|].
    destruct (is_tag TIdent x && String.eqb (nstr x) "_"); [discriminate|].
    destruct (is_tag TIndex x && negb (is_tag TIndex a0)); [discriminate|].
    destruct a0 as [t ? ? ? ? ? ks]; destruct t; try discriminate.
    destruct ks; [discriminate|]. destruct (f_arr (nfacts n)); discriminate.
  - destruct (is_tag TIdent x && String.eqb (nstr x) "_"); [discriminate|].
    destruct (is_tag TIndex x && negb (is_tag TIndex a0)); [discriminate|].
    destruct a0 as [t ? ? ? ? ? ks]; destruct t; try discriminate.
    destruct ks; [discriminate|]. destruct (f_arr (nfacts n)); discriminate.
Qed.

Lemma aa_pairs_partial f :
  wf f = true -> all_nodes_sat g_append_args f ->
  forall lhs rhs, (forall r, In r rhs -> In r (all_nodes f)) -> forall o, In o (aa_pairs lhs rhs) -> forall s, o <> Panic s.
Proof.
  intros W G lhs. induction lhs as [|x l IH]; intros [|r0 r] Hr o Ho s; simpl in Ho; try contradiction.
  destruct Ho as [<-|Ho].
  - destruct (is_tag TCall r0) eqn:Tc; simpl; [|discriminate].
    destruct (match kids r0 with fn :: _ => String.eqb (qualified_name fn) "append" | [] => false end) eqn:Hq; [|discriminate].
    eapply aa_check_partial; eauto. apply Hr; simpl; auto.
  - apply (IH r); [intros; apply Hr; simpl; auto|exact Ho].
Qed.

Lemma appendAssign_partial f :
  wf f = true -> all_nodes_sat g_append_args f -> forall s, run_appendAssign f <> Panic s.
Proof.
  intros W G. apply run_stmt_total. intros e He s. unfold appendAssign_visit.
  destruct (negb (is_tag TAssign e)); [discriminate|].
  destruct (negb _); [discriminate|].
  destruct (negb _); [discriminate|].
  apply seq_o_no_panic. apply (aa_pairs_partial f W G).
  intros r Hr. eapply all_nodes_kid; eauto. eapply skipn_In'; eauto.
Qed.

(* --- typeDefFirst --- *)
Lemma receiver_type_plain e : no_paren_recv e = true -> exists name, receiver_type e = R name.
Proof.
  revert e. fix IH 1. intros [t p s a b ff ks]. destruct t; simpl; try discriminate.
  - eauto.
  - destruct ks as [|x [|? ?]]; try discriminate. apply IH.
  - destruct ks as [|x ?]; try discriminate. apply IH.
  - destruct ks as [|x ?]; try discriminate. apply IH.
Qed.

Lemma tdf_loop_partial f :
  wf f = true ->
  forall ds, (forall d, In d ds -> In d (all_nodes f) /\ g_recv_plain d = true) ->
  forall tracked s, tdf_loop ds tracked <> Panic s.
Proof.
  intros W ds. induction ds as [|d r IH]; simpl; intros Hd tracked s; [discriminate|].
  assert (Hr : forall d, In d r -> In d (all_nodes f) /\ g_recv_plain d = true) by (intros; apply Hd; auto).
  destruct (Hd d (or_introl eq_refl)) as [Hin Gd].
  pose proof (wf_node_of _ _ W Hin) as Wd. unfold wf_node in Wd. unfold g_recv_plain in Gd.
  destruct (ntag d) eqn:Td; try (apply IH; auto).
  - (* FuncDecl *)
    assert (Tt : is_tag TFuncDecl d = true) by (unfold is_tag; rewrite Td; reflexivity).
    rewrite Tt in Gd. simpl in Gd.
    destruct (N.eqb (na d) 0) eqn:E0; [apply IH; auto|].
    assert (E1 : N.eqb (na d) 1 = true).
    { repeat (apply andb_true_iff in Wd as [Wd ?]). apply N.leb_le in Wd. apply N.eqb_neq in E0. apply N.eqb_eq. lia. }
    rewrite E1 in Gd, Wd.
    destruct (kids d) as [|recv ?]; [repeat (apply andb_true_iff in Wd as [Wd ?]); discriminate|].
    destruct (kids recv) as [|fld [|? ?]];
      try (repeat (apply andb_true_iff in Wd as [Wd ?]);
           match goal with H : is_tag TFieldList recv && _ = true |- _ => apply andb_true_iff in H as [_ H]; discriminate H end).
    destruct (nth_error (kids fld) (N.to_nat (na fld))) as [ty|];
      [|repeat (apply andb_true_iff in Wd as [Wd ?]);
        match goal with H : is_tag TFieldList recv && _ = true |- _ => apply andb_true_iff in H as [_ H]; discriminate H end].
    destruct (receiver_type_plain _ Gd) as [name ->]. apply IH; auto.
  - (* GenDecl *)
    destruct (negb (N.eqb (na d) tok_TYPE)); [apply IH; auto|].
    specialize (IH Hr tracked). destruct (tdf_loop r tracked); [discriminate|]. exfalso. eapply IH; eauto.
Qed.

Lemma typeDefFirst_partial f :
  wf f = true -> (forall d, In d (decls f) -> g_recv_plain d = true) -> forall s, run_typeDefFirst f <> Panic s.
Proof.
  intros W G. unfold run_typeDefFirst. apply (tdf_loop_partial f W).
  intros d Hd. split; auto. eapply all_nodes_pre; eauto. apply pre_self.
Qed.

(* --- sortSlice --- *)
Lemma sortSlice_partial f :
  all_nodes_sat g_lit_returns_value f -> forall s, run_sortSlice f <> Panic s.
Proof.
  intros G. apply run_expr_total. intros e He s. unfold sortSlice_visit.
  destruct (negb (is_tag TCall e)); [discriminate|].
  destruct (kids e) as [|fn [|a0 [|a1 [|? ?]]]] eqn:Ke; try discriminate.
  destruct (negb _); [discriminate|].
  assert (H1 : In a1 (all_nodes f)) by (eapply all_nodes_kid; eauto; rewrite Ke; simpl; auto).
  pose proof (sat_of _ _ _ G H1) as G1.
  destruct a1 as [t p1 s1 x1 y1 f1 k1]. destruct t; try discriminate.
  destruct k1 as [|ft [|body [|? ?]]]; try discriminate.
  simpl in G1.
  destruct (negb (f_pure _)); [discriminate|].
  destruct (param_idents ft) as [[ivar jvar]|]; [|discriminate].
  destruct (kids body) as [|ret [|? ?]]; try discriminate.
  destruct (is_tag TReturn ret); simpl; [|discriminate].
  destruct (kids ret) as [|r0 ?]; [discriminate G1|].
  destruct (unparen r0) as [t ? ? ? ? ? kc]; destruct t; try discriminate.
  destruct kc as [|x [|y [|? ?]]]; try discriminate.
  destruct (negb (f_pure _)); [discriminate|]. destruct (negb (is_cmp_op a)); discriminate.
Qed.

(* --- evalOrder --- *)
Lemma evalOrder_partial f :
  all_nodes_sat g_return_calls_methods f -> forall s, run_evalOrder f <> Panic s.
Proof.
  intros G. apply run_stmt_total. intros e He s. pose proof (sat_of _ _ _ G He) as Ge.
  unfold evalOrder_visit. unfold g_return_calls_methods in Ge.
  destruct (is_tag TReturn e); simpl; [|discriminate].
  destruct (Nat.ltb _ 2); [discriminate|].
  rewrite forallb_forall in Ge.
  apply seq_o_no_panic. intros o Ho. apply in_map_iff in Ho as [id [<- Hid]].
  destruct (is_tag TIdent id) eqn:Ti; [|discriminate].
  apply seq_o_no_panic. intros o Ho. apply in_map_iff in Ho as [call [<- Hc]].
  specialize (Ge call Hc). unfold eo_call.
  destruct (negb (is_tag TCall call)); [discriminate|].
  destruct (kids call) as [|fn ?]; [destruct (contains_node _ _); discriminate|].
  destruct fn as [t ? ? ? ? ? kf]; destruct t; try (destruct (contains_node _ _); discriminate).
  destruct kf as [|x [|sel [|? ?]]]; try (destruct (contains_node _ _); discriminate).
  destruct (node_eqb x id) eqn:Ex; [|destruct (contains_node _ _); discriminate].
  assert (Hex : existsb (fun id0 => is_tag TIdent id0 && node_eqb x id0) (kids e) = true).
  { apply existsb_exists. exists id. rewrite Ti, Ex. auto. }
  rewrite Hex in Ge. unfold recv_known in Ge. unfold has_ptr_recv.
  destruct (f_sig (nfacts sel)) as [|np v rc o]; [destruct (contains_node _ _); discriminate|].
  destruct rc; try discriminate Ge; destruct (contains_node _ _); discriminate.
Qed.

(* ================= C07: the cause of every warning is a node of the file ================= *)
Definition cause_in_file (f : file) (w : warning) : Prop := In (w_cause w) (all_nodes f).

Lemma cause_pos_valid f w : wf f = true -> cause_in_file f w -> In (w_pos w) (token_starts f).
Proof. intros W H. unfold w_pos. apply wf_pos_of; auto. Qed.

Ltac inw H := simpl in H; repeat (destruct H as [<-|H]; [simpl; auto|]); try contradiction.

Lemma newDeref_cause f w : In w (warnings (run_newDeref f)) -> cause_in_file f w.
Proof.
  intros H. apply run_expr_warn in H as [e [He Hw]]. unfold cause_in_file. unfold newDeref_visit in Hw.
  destruct e as [t p str a b ff ks]. destruct t; try contradiction.
  destruct ks as [|x [|? ?]]; try contradiction.
  destruct (negb (is_tag TCall x)); [contradiction|].
  destruct (kids x) as [|fn args]; [contradiction|].
  destruct (negb _); [contradiction|]. destruct args as [|a0 ?]; [contradiction|].
  destruct (f_ty (nfacts a0)); simpl in Hw; try contradiction;
    destruct (f_deflit (nfacts a0)); simpl in Hw; try contradiction; destruct Hw as [<-|[]]; exact He.
Qed.

Lemma flagName_cause_callee f w :
  In w (warnings (run_flagName f)) -> cause_in_file f w /\ w_callee w = OPkgName "flag" /\ w_recog w = RObject "flag".
Proof.
  intros H. apply run_expr_warn in H as [e [He Hw]]. unfold cause_in_file. unfold flagName_visit in Hw.
  destruct (negb (is_tag TCall e)); [contradiction|].
  destruct (kids e) as [|fn args]; [contradiction|].
  destruct fn as [t p str a b ff ks]; destruct t; try contradiction.
  destruct ks as [|x [|sel [|? ?]]]; try contradiction.
  destruct (negb (is_tag TIdent x)); [contradiction|].
  destruct (obj_of x) eqn:Ox; try contradiction.
  destruct (negb (String.eqb path "flag")) eqn:Ep; [contradiction|].
  apply negb_false_iff, String.eqb_eq in Ep. subst path.
  assert (K : forall a0, In w (check_flag_name e (Nd TSelector p str a b ff (NC x (NC sel NN))) a0) ->
              In (w_cause w) (all_nodes f) /\ w_callee w = OPkgName "flag" /\ w_recog w = RObject "flag").
  { intros a0. unfold check_flag_name. destruct (f_cst (nfacts a0)); [|contradiction].
    destruct (_ || _); [|contradiction]. intros [<-|[]]. simpl. auto. }
  destruct (mem (nstr sel) flag_names1).
  - destruct (nth_error args 0); [eapply K; exact Hw|contradiction].
  - destruct (mem (nstr sel) flag_names2); [|contradiction].
    destruct (nth_error args 1); [eapply K; exact Hw|contradiction].
Qed.

Lemma filepathJoin_cause f w : In w (warnings (run_filepathJoin f)) -> cause_in_file f w.
Proof.
  intros H. apply run_expr_warn in H as [e [He Hw]]. unfold cause_in_file. unfold filepathJoin_visit in Hw.
  destruct (negb (is_tag TCall e)); [contradiction|].
  destruct (kids e) as [|fn args] eqn:Ke; [contradiction|].
  destruct (negb _); [contradiction|]. simpl in Hw. apply in_flat_map in Hw as [arg [Ha Hw]].
  destruct (_ && _); [|contradiction]. destruct Hw as [<-|[]]. simpl.
  eapply all_nodes_kid; eauto. rewrite Ke. right. exact Ha.
Qed.

Lemma dupOption_cause f w : In w (warnings (run_dupOption f)) -> cause_in_file f w.
Proof.
  intros H. apply run_expr_warn in H as [e [He Hw]]. unfold cause_in_file. unfold dupOption_visit in Hw.
  destruct (negb (is_tag TCall e)); [contradiction|].
  destruct (kids e) as [|fn args] eqn:Ke; [contradiction|].
  destruct args as [|a0 args]; [contradiction|].
  destruct (N.eqb (na e) 1); [contradiction|].
  destruct (f_sig (nfacts fn)) as [|np v rc opt]; [contradiction|]. destruct v; [|contradiction].
  destruct (Nat.ltb _ _); [contradiction|].
  remember (skipn (N.to_nat np - 1) (a0 :: args)) as vargs eqn:Sk.
  assert (Hw' : In w (map (fun a => mkw "dupOption" a RNoSubject a true) (find_dups [] vargs))).
  { destruct vargs; [contradiction|]. destruct (negb opt); [contradiction|]. exact Hw. }
  clear Hw. apply in_map_iff in Hw' as [a [<- Ha]]. simpl.
  assert (Hsub : forall seen l x, In x (find_dups seen l) -> In x l).
  { intros seen l. revert seen. induction l as [|y r IH]; simpl; intros seen x Hx; [contradiction|].
    destruct (existsb (node_eqb y) seen); [destruct Hx as [->|Hx]; eauto|eauto]. }
  apply Hsub in Ha. rewrite Sk in Ha. apply skipn_In' in Ha.
  eapply all_nodes_kid; eauto. rewrite Ke. right. exact Ha.
Qed.

(* C07: ZeroValueOf never puts a nil argument into the suggested expression *)
Lemma newDeref_render_partial f w :
  all_nodes_sat g_new_has_literal f -> In w (warnings (run_newDeref f)) -> w_render_ok w = true.
Proof.
  intros G H. apply run_expr_warn in H as [e [He Hw]]. unfold newDeref_visit in Hw.
  destruct e as [t p str a b ff ks]. destruct t; try contradiction.
  destruct ks as [|x [|? ?]]; try contradiction.
  assert (Hx : In x (all_nodes f)) by (eapply all_nodes_kid; eauto; unfold kids; simpl; auto).
  pose proof (sat_of _ _ _ G Hx) as Gx. unfold g_new_has_literal in Gx.
  destruct (is_tag TCall x); simpl in Hw; [|contradiction].
  destruct (kids x) as [|fn args]; [contradiction|].
  destruct (is_tag TIdent fn && String.eqb (nstr fn) "new"); simpl in Hw; [|contradiction].
  destruct args as [|a0 ?]; [contradiction|].
  destruct (f_ty (nfacts a0)); simpl in Hw; try contradiction; try discriminate Gx;
    destruct (f_deflit (nfacts a0)); simpl in Hw; try contradiction; destruct Hw as [<-|[]]; reflexivity.
Qed.

(* ================= C20: recognition by spelling is right when nothing shadows the name ================= *)
Lemma newDeref_real_partial f w :
  all_nodes_sat (g_no_namesake_bare "new") f -> In w (warnings (run_newDeref f)) -> is_real w = true.
Proof.
  intros G H. apply run_expr_warn in H as [e [He Hw]]. unfold newDeref_visit in Hw.
  destruct e as [t p str a b ff ks]. destruct t; try contradiction.
  destruct ks as [|x [|? ?]]; try contradiction.
  assert (Hx : In x (all_nodes f)) by (eapply all_nodes_kid; eauto; unfold kids; simpl; auto).
  destruct (is_tag TCall x); simpl in Hw; [|contradiction].
  destruct (kids x) as [|fn args] eqn:Kx; [contradiction|].
  assert (Hf : In fn (all_nodes f)) by (eapply all_nodes_kid; eauto; rewrite Kx; simpl; auto).
  pose proof (sat_of _ _ _ G Hf) as Gf. unfold g_no_namesake_bare in Gf.
  destruct (is_tag TIdent fn && String.eqb (nstr fn) "new"); simpl in Hw; [|contradiction].
  destruct args as [|a0 ?]; [contradiction|].
  destruct (f_ty (nfacts a0)); simpl in Hw; try contradiction;
    destruct (f_deflit (nfacts a0)); simpl in Hw; try contradiction; destruct Hw as [<-|[]];
    unfold is_real; simpl; rewrite Gf; reflexivity.
Qed.


Lemma flagName_real f w :
  In w (warnings (run_flagName f)) -> w_callee w = OPkgName "flag" /\ is_real w = true.
Proof.
  intros H. destruct (flagName_cause_callee f w H) as [_ [Hc Hr]]. split; [exact Hc|].
  unfold is_real. rewrite Hr, Hc. reflexivity.
Qed.
