(* Proofs_Checkers.v — lemmas about the transliterated checkers (Model_Checkers.v). *)
From GC Require Import Base GoAst Model_Checkers.
From Coq Require Import PArith FSets.FSetPositive.

(* ---------- outcome sequencing ---------- *)
Lemma seq_o_no_panic l :
  (forall o, In o l -> forall s, o <> Panic s) -> forall s, seq_o l <> Panic s.
Proof.
  induction l as [|o r IH]; simpl; intros H s; [discriminate|].
  destruct o as [ws|s0].
  - assert (Hr : forall s, seq_o r <> Panic s) by (apply IH; intros; apply H; auto).
    destruct (seq_o r) as [ws'|s1]; [discriminate|]. exfalso. exact (Hr s1 eq_refl).
  - exfalso. exact (H (Panic s0) (or_introl eq_refl) s0 eq_refl).
Qed.

Lemma seq_o_warnings l w :
  In w (warnings (seq_o l)) -> exists o, In o l /\ In w (warnings o).
Proof.
  induction l as [|o r IH]; simpl; [tauto|].
  destruct o as [ws|s0]; simpl; [|tauto].
  destruct (seq_o r) as [ws'|s1] eqn:E; simpl; [|tauto].
  intros H. apply in_app_or in H as [H|H].
  - exists (Ok ws). simpl. auto.
  - destruct (IH H) as [o [Ho Hw]]. exists o. auto.
Qed.

(* ---------- the pre-order list is closed under children ---------- *)
Lemma pre_self n : In n (pre n).
Proof. destruct n; simpl; auto. Qed.

Lemma pres_in l k : In k (to_list l) -> forall m, In m (pre k) -> In m (pres l).
Proof.
  induction l as [|n r IH]; simpl; [tauto|].
  intros [->|H] m Hm; apply in_or_app; [left; exact Hm|right; eapply IH; eauto].
Qed.

Lemma pre_kid n k : In k (kids n) -> forall m, In m (pre k) -> In m (pre n).
Proof.
  destruct n as [t p s a b f ks]. unfold kids; simpl. intros H m Hm. right. eapply pres_in; eauto.
Qed.

Combined Scheme node_mutind from node_ind2, nodes_ind2.

Lemma pre_trans_aux :
  (forall n m, In m (pre n) -> forall k, In k (pre m) -> In k (pre n)) /\
  (forall l m, In m (pres l) -> forall k, In k (pre m) -> In k (pres l)).
Proof.
  apply node_mutind; simpl; intros.
  - destruct H0 as [<-|H0]; [exact H1|]. right. eapply H; eauto.
  - contradiction.
  - apply in_app_or in H1 as [H1|H1]; apply in_or_app; [left; eapply H; eauto|right; eapply H0; eauto].
Qed.

Lemma pre_trans n m k : In m (pre n) -> In k (pre m) -> In k (pre n).
Proof. intros; eapply (proj1 pre_trans_aux); eauto. Qed.

Lemma kid_in_pre n k : In k (kids n) -> In k (pre n).
Proof. intros H. eapply pre_kid; eauto. apply pre_self. Qed.

Lemma post_in_pre_aux :
  (forall n m, In m (post n) -> In m (pre n)) /\ (forall l m, In m (posts l) -> In m (pres l)).
Proof.
  apply node_mutind; simpl; intros.
  - apply in_app_or in H0 as [H0|[<-|[]]]; auto.
  - contradiction.
  - apply in_app_or in H1 as [H1|H1]; apply in_or_app; auto.
Qed.

Lemma post_in_pre n m : In m (post n) -> In m (pre n).
Proof. apply (proj1 post_in_pre_aux). Qed.

(* ---------- where the walkers' nodes come from ---------- *)
Lemma all_nodes_pre f d n : In d (decls f) -> In n (pre d) -> In n (all_nodes f).
Proof. intros Hd Hn. unfold all_nodes. apply in_flat_map. eauto. Qed.

Lemma all_nodes_closed f n k : In n (all_nodes f) -> In k (pre n) -> In k (all_nodes f).
Proof.
  unfold all_nodes. intros H Hk. apply in_flat_map in H as [d [Hd Hn]]. apply in_flat_map. exists d. split; auto.
  eapply pre_trans; eauto.
Qed.

Lemma all_nodes_kid f n k : In n (all_nodes f) -> In k (kids n) -> In k (all_nodes f).
Proof. intros. eapply all_nodes_closed; eauto. apply kid_in_pre; auto. Qed.

Lemma expr_nodes_in f e : In e (expr_nodes f) -> In e (all_nodes f).
Proof.
  unfold expr_nodes. intros H. apply in_flat_map in H as [d [Hd He]].
  destruct (decl_entered d); [|contradiction]. apply filter_In in He as [He _]. eapply all_nodes_pre; eauto.
Qed.

Lemma func_body_in d b : func_body d = Some b -> In b (kids d).
Proof.
  unfold func_body. destruct (is_tag TFuncDecl d && N.eqb (nb d) 1); [|discriminate].
  intros H. eapply nth_error_In; eauto.
Qed.

Lemma stmt_nodes_in f s : In s (stmt_nodes f) -> In s (all_nodes f).
Proof.
  unfold stmt_nodes. intros H. apply in_flat_map in H as [d [Hd Hs]].
  destruct (func_body d) as [b|] eqn:E; [|contradiction]. apply filter_In in Hs as [Hs _].
  eapply all_nodes_pre; eauto. eapply pre_kid; eauto. eapply func_body_in; eauto.
Qed.

Lemma skipn_In' {A} (n : nat) (l : list A) x : In x (skipn n l) -> In x l.
Proof. revert l; induction n; intros [|y r]; simpl; auto. Qed.

Lemma firstn_In' {A} (n : nat) (l : list A) x : In x (firstn n l) -> In x l.
Proof. revert l; induction n; intros [|y r]; simpl; try tauto. intros [H|H]; auto. Qed.

Lemma stmt_lists_in f l s : In l (stmt_lists f) -> In s l -> In s (all_nodes f).
Proof.
  unfold stmt_lists. intros H Hs. apply in_flat_map in H as [d [Hd Hl]].
  destruct (func_body d) as [b|] eqn:E; [|contradiction].
  apply in_flat_map in Hl as [n [Hn Hl]].
  assert (Hn' : In n (all_nodes f)).
  { eapply all_nodes_pre; eauto. eapply pre_kid; eauto. eapply func_body_in; eauto. }
  eapply all_nodes_kid; eauto.
  unfold stmt_list_of in Hl. destruct (ntag n); simpl in Hl; try contradiction;
    destruct Hl as [<-|[]]; auto; eapply skipn_In'; eauto.
Qed.

(* ---------- token starts ---------- *)
Lemma succ_pos_inj' a b : N.succ_pos a = N.succ_pos b -> a = b.
Proof. intros H. apply (f_equal Npos) in H. rewrite !N.succ_pos_spec in H. apply N.succ_inj. exact H. Qed.

Lemma starts_set_In l p : PositiveSet.mem (N.succ_pos p) (starts_set l) = true -> In p l.
Proof.
  induction l as [|q r IH]; simpl; intros H.
  - discriminate.
  - apply PositiveSet.mem_2 in H. apply PositiveSet.add_spec in H. destruct H as [H|H].
    + left. apply succ_pos_inj' in H. auto.
    + right. apply IH. apply PositiveSet.mem_1. exact H.
Qed.

Lemma wf_node_of f n : wf f = true -> In n (all_nodes f) -> wf_node n = true.
Proof.
  unfold wf. intros H Hn. rewrite forallb_forall in H. apply H in Hn. apply andb_true_iff in Hn. tauto.
Qed.

Lemma wf_pos_of f n : wf f = true -> In n (all_nodes f) -> In (npos n) (token_starts f).
Proof.
  unfold wf. intros H Hn. rewrite forallb_forall in H. apply H in Hn. apply andb_true_iff in Hn as [_ Hp].
  apply starts_set_In. exact Hp.
Qed.

(* ---------- run-level lifting ---------- *)
Lemma run_expr_total visit f :
  (forall e, In e (all_nodes f) -> forall s, visit e <> Panic s) -> forall s, run_expr visit f <> Panic s.
Proof.
  intros H. unfold run_expr. apply seq_o_no_panic. intros o Ho. apply in_map_iff in Ho as [e [<- He]].
  apply H. apply expr_nodes_in; auto.
Qed.

Lemma run_stmt_total visit f :
  (forall e, In e (all_nodes f) -> forall s, visit e <> Panic s) -> forall s, run_stmt visit f <> Panic s.
Proof.
  intros H. unfold run_stmt. apply seq_o_no_panic. intros o Ho. apply in_map_iff in Ho as [e [<- He]].
  apply H. apply stmt_nodes_in; auto.
Qed.

Lemma run_stmt_list_total visit f :
  (forall l, (forall s, In s l -> In s (all_nodes f)) -> forall s, visit l <> Panic s) ->
  forall s, run_stmt_list visit f <> Panic s.
Proof.
  intros H. unfold run_stmt_list. apply seq_o_no_panic. intros o Ho. apply in_map_iff in Ho as [l [<- Hl]].
  apply H. intros s Hs. eapply stmt_lists_in; eauto.
Qed.

Lemma run_expr_warn visit f w :
  In w (warnings (run_expr visit f)) -> exists e, In e (all_nodes f) /\ In w (warnings (visit e)).
Proof.
  unfold run_expr. intros H. apply seq_o_warnings in H as [o [Ho Hw]]. apply in_map_iff in Ho as [e [<- He]].
  exists e. split; auto. apply expr_nodes_in; auto.
Qed.

Lemma run_stmt_warn visit f w :
  In w (warnings (run_stmt visit f)) -> exists e, In e (all_nodes f) /\ In w (warnings (visit e)).
Proof.
  unfold run_stmt. intros H. apply seq_o_warnings in H as [o [Ho Hw]]. apply in_map_iff in Ho as [e [<- He]].
  exists e. split; auto. apply stmt_nodes_in; auto.
Qed.

Lemma run_stmt_list_warn visit f w :
  In w (warnings (run_stmt_list visit f)) ->
  exists l, (forall s, In s l -> In s (all_nodes f)) /\ In w (warnings (visit l)).
Proof.
  unfold run_stmt_list. intros H. apply seq_o_warnings in H as [o [Ho Hw]]. apply in_map_iff in Ho as [l [<- Hl]].
  exists l. split; auto. intros s Hs. eapply stmt_lists_in; eauto.
Qed.

(* a guard given as a boolean on nodes holds for every node of the file *)
Definition all_nodes_sat (g : node -> bool) (f : file) : Prop := forallb g (all_nodes f) = true.

Lemma sat_of g f n : all_nodes_sat g f -> In n (all_nodes f) -> g n = true.
Proof. unfold all_nodes_sat. rewrite forallb_forall. auto. Qed.

(* ================= totality ================= *)
Lemma tag_eqb_eq x y : tag_eqb x y = true -> x = y.
Proof.
  destruct x, y; simpl; intros H; try reflexivity; try discriminate H;
    repeat match goal with c : nclass |- _ => destruct c end; simpl in H; try discriminate H; reflexivity.
Qed.

Lemma is_tag_eq t n : is_tag t n = true -> ntag n = t.
Proof. unfold is_tag. apply tag_eqb_eq. Qed.

Ltac dmatch :=
  repeat (match goal with
          | |- context [match ?x with _ => _ end] => destruct x eqn:?
          | |- context [if ?x then _ else _] => destruct x eqn:?
          end; try discriminate).

Lemma filepathJoin_visit_total e s : filepathJoin_visit e <> Panic s.
Proof. unfold filepathJoin_visit. dmatch. Qed.

Lemma filepathJoin_total f : forall s, run_filepathJoin f <> Panic s.
Proof. apply run_expr_total. intros. apply filepathJoin_visit_total. Qed.

Lemma rangeAppendAll_visit_total e s : rangeAppendAll_visit e <> Panic s.
Proof. unfold rangeAppendAll_visit. dmatch. Qed.

Lemma rangeAppendAll_total f : forall s, run_rangeAppendAll f <> Panic s.
Proof. apply run_stmt_total. intros. apply rangeAppendAll_visit_total. Qed.

(* --- checkers whose fixed code has no reachable partial operation left --- *)
Lemma regexp_entry_total names who f : forall s, run_expr (regexp_entry names who) f <> Panic s.
Proof. apply run_expr_total. intros e He s. unfold regexp_entry. dmatch. Qed.

Lemma newDeref_total f : forall s, run_newDeref f <> Panic s.
Proof.
  apply run_expr_total. intros e He s. unfold newDeref_visit.
  destruct e as [t p str a b ff ks]. destruct t; try discriminate. dmatch.
Qed.

Lemma dupOption_total f : forall s, run_dupOption f <> Panic s.
Proof. apply run_expr_total. intros e He s. unfold dupOption_visit. dmatch. Qed.

Lemma sortSlice_total f : forall s, run_sortSlice f <> Panic s.
Proof. apply run_expr_total. intros e He s. unfold sortSlice_visit. dmatch. Qed.

Lemma has_ptr_recv_total sel s : has_ptr_recv sel <> P s.
Proof. unfold has_ptr_recv. dmatch. Qed.

Lemma eo_call_total id call s : eo_call id call <> Panic s.
Proof.
  unfold eo_call. cbv zeta. dmatch; try discriminate.
  exfalso. eapply has_ptr_recv_total; eassumption.
Qed.

Lemma evalOrder_total f : forall s, run_evalOrder f <> Panic s.
Proof.
  apply run_stmt_total. intros e He s. unfold evalOrder_visit.
  destruct (negb (is_tag TReturn e)); [discriminate|]. destruct (Nat.ltb _ 2); [discriminate|].
  apply seq_o_no_panic. intros o Ho. apply in_map_iff in Ho as [id [<- Hid]].
  destruct (is_tag TIdent id); [|discriminate].
  apply seq_o_no_panic. intros o Ho. apply in_map_iff in Ho as [call [<- Hc]]. apply eo_call_total.
Qed.

Lemma ac_match_total stmt slice s : ac_match stmt slice <> P s.
Proof. unfold ac_match. dmatch. Qed.

Lemma ac_loop_total l : forall cause slice chain s, ac_loop l cause slice chain <> Panic s.
Proof.
  induction l as [|stmt r IH]; simpl; intros cause slice chain s; [discriminate|].
  destruct (ac_match stmt slice) as [[[fn a0]|]|s0] eqn:E.
  - destruct (Nat.eqb chain 0); apply IH.
  - specialize (IH cause None 0). destruct (ac_loop r cause None 0); [discriminate|]. exfalso. eapply IH; eauto.
  - exfalso. eapply ac_match_total; eauto.
Qed.

Lemma appendCombine_total f : forall s, run_appendCombine f <> Panic s.
Proof. apply run_stmt_list_total. intros l Hl s. apply ac_loop_total. Qed.

(* --- flagName --- *)
Lemma arity_ok_pos nargs ell fm np rc o :
  arity_ok nargs ell fm (Sig np false rc o) = true -> (0 < np)%N -> 0 < nargs.
Proof.
  unfold arity_ok. intros H Hp.
  destruct (Nat.eqb nargs 1 && negb (N.eqb fm 0) && negb ell) eqn:E.
  - apply andb_true_iff in E as [E _]. apply andb_true_iff in E as [E _]. apply Nat.eqb_eq in E. lia.
  - apply Nat.eqb_eq in H. lia.
Qed.

Local Arguments mem : simpl never.

Lemma flagName_total f :
  wf f = true -> forall s, run_flagName f <> Panic s.
Proof.
  intros W. apply run_expr_total. intros e He s.
  pose proof (wf_node_of _ _ W He) as We.
  unfold flagName_visit.
  destruct (is_tag TCall e) eqn:Tc; simpl; [|discriminate].
  unfold wf_node in We. rewrite (is_tag_eq _ _ Tc) in We.
  apply andb_true_iff in We as [_ We]. unfold wf_call in We.
  destruct (kids e) as [|fn args] eqn:Ke; [discriminate|].
  assert (Hfn0 : In fn (all_nodes f)) by (eapply all_nodes_kid; eauto; rewrite Ke; left; reflexivity).
  destruct fn as [t p str a b ff ks]; destruct t; try discriminate.
  destruct ks as [|x [|sel [|? ?]]]; try discriminate.
  destruct (is_tag TIdent x) eqn:Tx; simpl; [|discriminate].
  destruct (obj_of x) eqn:Ox; try discriminate.
  destruct (String.eqb path "flag") eqn:Ep; simpl; [|discriminate].
  apply String.eqb_eq in Ep. subst path.
  destruct x as [tx px sx ax bx fx kx]. unfold is_tag in Tx. simpl in Tx. apply tag_eqb_eq in Tx; subst tx.
  unfold obj_of in Ox. simpl in Ox.
  (* the selector's Sel is an identifier by wf of the selector node itself *)
  pose proof (wf_node_of _ _ W Hfn0) as Wfn. unfold wf_node in Wfn. simpl in Wfn.
  rename Wfn into Ts. destruct sel as [ts ps ss as_ bs fs ksl].
  unfold is_tag in Ts. simpl in Ts. apply tag_eqb_eq in Ts; subst ts.
  simpl in We. rewrite Ox in We. simpl in We. simpl.
  destruct (mem ss flag_names1) eqn:M1.
  - (* Args[0]: the API has three parameters *)
    unfold api_arity in We. simpl in We. rewrite M1 in We.
    apply andb_true_iff in We as [We Wapi]. apply andb_true_iff in We as [Wa _].
    destruct (f_sig ff) as [|np v rc o]; [discriminate Wapi|]. destruct v; [discriminate Wapi|].
    apply N.eqb_eq in Wapi. subst np.
    destruct (f_istype ff).
    + apply Nat.eqb_eq in Wa. destruct args; [discriminate Wa|discriminate].
    + apply arity_ok_pos in Wa; [|reflexivity]. destruct args; [simpl in Wa; lia|discriminate].
  - destruct (mem ss flag_names2) eqn:M2; [|discriminate].
    destruct args as [|a0 [|a1 ?]]; discriminate.
Qed.


(* --- appendAssign: the fixed entry test guarantees an argument --- *)
Lemma aa_check_total x call s :
  (match kids call with fn :: args => nonempty args | [] => false end) = true -> aa_check x call <> Panic s.
Proof.
  intros H. unfold aa_check. destruct (kids call) as [|fn args]; [discriminate|].
  destruct args as [|a0 rest]; [discriminate H|].
  destruct (N.eqb (na call) 1).
  - destruct (existsb _ rest); [discriminate|].
    destruct (is_tag TIdent x && String.eqb (nstr x) "_"); [discriminate|].
    destruct (is_tag TIndex x && negb (is_tag TIndex a0)); [discriminate|].
    destruct a0 as [t ? ? ? ? ? ks]; destruct t; try discriminate.
    destruct ks; [discriminate|]. destruct (f_arr (nfacts n)); discriminate.
  - destruct (is_tag TIdent x && String.eqb (nstr x) "_"); [discriminate|].
    destruct (is_tag TIndex x && negb (is_tag TIndex a0)); [discriminate|].
    destruct a0 as [t ? ? ? ? ? ks]; destruct t; try discriminate.
    destruct ks; [discriminate|]. destruct (f_arr (nfacts n)); discriminate.
Qed.

Lemma aa_pairs_total lhs : forall rhs o, In o (aa_pairs lhs rhs) -> forall s, o <> Panic s.
Proof.
  induction lhs as [|x l IH]; intros [|r0 r] o Ho s; simpl in Ho; try contradiction.
  destruct Ho as [<-|Ho]; [|eapply IH; eauto].
  destruct (is_tag TCall r0); simpl; [|discriminate].
  destruct (match kids r0 with fn :: args => String.eqb (qualified_name fn) "append" && nonempty args | [] => false end) eqn:Hq;
    [|discriminate].
  apply aa_check_total. destruct (kids r0) as [|fn args]; [discriminate|]. apply andb_true_iff in Hq. tauto.
Qed.

Lemma appendAssign_total f : forall s, run_appendAssign f <> Panic s.
Proof.
  apply run_stmt_total. intros e He s. unfold appendAssign_visit.
  destruct (negb (is_tag TAssign e)); [discriminate|].
  destruct (negb _); [discriminate|].
  destruct (negb _); [discriminate|].
  apply seq_o_no_panic. apply aa_pairs_total.
Qed.

(* --- typeDefFirst: wf gives the receiver shape the type checker accepts --- *)
Lemma receiver_type_shape e : recv_shape e = true -> exists name, receiver_type e = R name.
Proof.
  revert e. fix IH 1. intros [t p s a b ff ks]. destruct t; simpl; try discriminate.
  - eauto.
  - destruct ks as [|x [|? ?]]; try discriminate. apply IH.
  - destruct ks as [|x [|? ?]]; try discriminate. apply IH.
  - destruct ks as [|x ?]; try discriminate. apply IH.
  - destruct ks as [|x ?]; try discriminate. apply IH.
Qed.

Lemma wf_method_recv d :
  wf_node d = true -> ntag d = TFuncDecl -> N.eqb (na d) 0 = false ->
  exists recv rest fld ty,
    kids d = recv :: rest /\ kids recv = [fld] /\ nth_error (kids fld) (N.to_nat (na fld)) = Some ty /\ recv_shape ty = true.
Proof.
  intros W T E0. unfold wf_node in W. rewrite T in W.
  apply andb_true_iff in W as [W _]. apply andb_true_iff in W as [W _]. apply andb_true_iff in W as [W Wr].
  apply andb_true_iff in W as [W _]. apply andb_true_iff in W as [W _]. apply N.leb_le in W.
  assert (E1 : N.eqb (na d) 1 = true) by (apply N.eqb_neq in E0; apply N.eqb_eq; lia).
  rewrite E1 in Wr. destruct (kids d) as [|recv rest] eqn:Kd; [discriminate|].
  apply andb_true_iff in Wr as [_ Wr].
  destruct (kids recv) as [|fld [|? ?]] eqn:Kr; try discriminate.
  destruct (nth_error (kids fld) (N.to_nat (na fld))) as [ty|] eqn:En; [|discriminate].
  exists recv, rest, fld, ty. auto.
Qed.

Lemma tdf_loop_total f :
  wf f = true -> forall ds, (forall d, In d ds -> In d (all_nodes f)) -> forall tracked s, tdf_loop ds tracked <> Panic s.
Proof.
  intros W ds. induction ds as [|d r IH]; simpl; intros Hd tracked s; [discriminate|].
  assert (Hr : forall d, In d r -> In d (all_nodes f)) by (intros; apply Hd; auto).
  pose proof (wf_node_of _ _ W (Hd d (or_introl eq_refl))) as Wd.
  destruct (ntag d) eqn:Td; try (apply IH; auto).
  - destruct (N.eqb (na d) 0) eqn:E0; [apply IH; auto|].
    destruct (wf_method_recv d Wd Td E0) as [recv [rest [fld [ty [K1 [K2 [K3 K4]]]]]]].
    rewrite K1, K2, K3. destruct (receiver_type_shape _ K4) as [name ->]. apply IH; auto.
  - destruct (negb (N.eqb (na d) tok_TYPE)); [apply IH; auto|].
    specialize (IH Hr tracked). destruct (tdf_loop r tracked); [discriminate|]. exfalso. eapply IH; eauto.
Qed.

Lemma typeDefFirst_total f : wf f = true -> forall s, run_typeDefFirst f <> Panic s.
Proof.
  intros W. unfold run_typeDefFirst. apply (tdf_loop_total f W).
  intros d Hd. eapply all_nodes_pre; eauto. apply pre_self.
Qed.

(* ================= C07: the cause of every warning is a node of the file ================= *)
Definition cause_in_file (f : file) (w : warning) : Prop := In (w_cause w) (all_nodes f).

Lemma cause_pos_valid f w : wf f = true -> cause_in_file f w -> In (w_pos w) (token_starts f).
Proof. intros W H. unfold w_pos. apply wf_pos_of; auto. Qed.

Ltac dmatch_in H :=
  repeat (match type of H with
          | context [match ?x with _ => _ end] => destruct x eqn:?
          | context [if ?x then _ else _] => destruct x eqn:?
          end; simpl in H; try contradiction).

Lemma newDeref_cause f w : In w (warnings (run_newDeref f)) -> cause_in_file f w.
Proof.
  intros H. apply run_expr_warn in H as [e [He Hw]]. unfold cause_in_file. unfold newDeref_visit in Hw.
  destruct e as [t p str a b ff ks]. destruct t; try contradiction.
  destruct ks as [|x [|? ?]]; try contradiction.
  destruct (negb (is_tag TCall x)); [contradiction|].
  destruct (kids x) as [|fn args]; [contradiction|].
  destruct (negb _); [contradiction|]. destruct args as [|a0 [|? ?]]; try contradiction.
  destruct (f_ty (nfacts a0)); simpl in Hw; try contradiction; destruct Hw as [<-|[]]; exact He.
Qed.

Lemma flagName_cause_callee f w :
  In w (warnings (run_flagName f)) -> cause_in_file f w /\ w_callee w = OPkgName "flag" /\ w_recog w = RObject "flag".
Proof.
  intros H. apply run_expr_warn in H as [e [He Hw]]. unfold cause_in_file. unfold flagName_visit in Hw.
  destruct (negb (is_tag TCall e)); [contradiction|].
  destruct (kids e) as [|fn args]; [contradiction|].
  destruct fn as [t p str a b ff ks]; destruct t; try contradiction.
  destruct ks as [|x [|sel [|? ?]]]; try contradiction.
  destruct (negb (is_tag TIdent x)); [contradiction|].
  destruct (obj_of x) eqn:Ox; try contradiction.
  destruct (negb (String.eqb path "flag")) eqn:Ep; [contradiction|].
  apply negb_false_iff, String.eqb_eq in Ep. subst path.
  assert (K : forall a0, In w (check_flag_name e (Nd TSelector p str a b ff (NC x (NC sel NN))) a0) ->
              In (w_cause w) (all_nodes f) /\ w_callee w = OPkgName "flag" /\ w_recog w = RObject "flag").
  { intros a0. unfold check_flag_name. destruct (f_cst (nfacts a0)); [|contradiction].
    destruct (_ || _); [|contradiction]. intros [<-|[]]. simpl. auto. }
  destruct (mem (nstr sel) flag_names1).
  - destruct (nth_error args 0); [eapply K; exact Hw|contradiction].
  - destruct (mem (nstr sel) flag_names2); [|contradiction].
    destruct (nth_error args 1); [eapply K; exact Hw|contradiction].
Qed.

Lemma flagName_real f w :
  In w (warnings (run_flagName f)) -> w_callee w = OPkgName "flag" /\ is_real w = true.
Proof.
  intros H. destruct (flagName_cause_callee f w H) as [_ [Hc Hr]]. split; [exact Hc|].
  unfold is_real. rewrite Hr, Hc. reflexivity.
Qed.

Lemma filepathJoin_cause f w : In w (warnings (run_filepathJoin f)) -> cause_in_file f w.
Proof.
  intros H. apply run_expr_warn in H as [e [He Hw]]. unfold cause_in_file. unfold filepathJoin_visit in Hw.
  destruct (negb (is_tag TCall e)); [contradiction|].
  destruct (kids e) as [|fn args] eqn:Ke; [contradiction|].
  destruct (negb _); [contradiction|]. simpl in Hw. apply in_flat_map in Hw as [arg [Ha Hw]].
  destruct (_ && _); [|contradiction]. destruct Hw as [<-|[]]. simpl.
  eapply all_nodes_kid; eauto. rewrite Ke. right. exact Ha.
Qed.

Lemma find_dups_sub seen l x : In x (find_dups seen l) -> In x l.
Proof.
  revert seen. induction l as [|y r IH]; simpl; intros seen Hx; [contradiction|].
  destruct (existsb (node_eqb y) seen); [destruct Hx as [->|Hx]; eauto|eauto].
Qed.

Lemma dupOption_cause f w : In w (warnings (run_dupOption f)) -> cause_in_file f w.
Proof.
  intros H. apply run_expr_warn in H as [e [He Hw]]. unfold cause_in_file. unfold dupOption_visit in Hw.
  destruct (negb (is_tag TCall e)); [contradiction|].
  destruct (kids e) as [|fn args] eqn:Ke; [contradiction|].
  destruct args as [|a0 args]; [contradiction|].
  destruct (N.eqb (na e) 1); [contradiction|].
  destruct (f_sig (nfacts fn)) as [|np v rc opt]; [contradiction|]. destruct v; [|contradiction].
  destruct (Nat.ltb _ _); [contradiction|].
  remember (skipn (N.to_nat np - 1) (a0 :: args)) as vargs eqn:Sk.
  assert (Hw' : In w (map (fun a => mkw "dupOption" a RNoSubject a true) (find_dups [] vargs))).
  { destruct vargs; [contradiction|]. destruct (negb opt); [contradiction|]. exact Hw. }
  clear Hw. apply in_map_iff in Hw' as [a [<- Ha]]. simpl.
  apply find_dups_sub in Ha. rewrite Sk in Ha. apply skipn_In' in Ha.
  eapply all_nodes_kid; eauto. rewrite Ke. right. exact Ha.
Qed.

(* regexp entry models emit no warnings *)
Lemma regexp_entry_no_warnings names who f w : ~ In w (warnings (run_expr (regexp_entry names who) f)).
Proof.
  intros H. apply run_expr_warn in H as [e [_ Hw]]. unfold regexp_entry in Hw. dmatch_in Hw.
Qed.

(* appendCombine: the cause is the first statement of a chain, a member of the visited list *)
Lemma ac_loop_cause f l :
  (forall x, In x l -> In x (all_nodes f)) ->
  forall cause slice chain w,
    (match cause with Some (st, _) => In st (all_nodes f) | None => True end) ->
    In w (warnings (ac_loop l cause slice chain)) -> cause_in_file f w.
Proof.
  unfold cause_in_file.
  assert (Fl : forall cause chain w, (match cause with Some (st, _) => In st (all_nodes f) | None => True end) ->
                 In w (ac_flush cause chain) -> In (w_cause w) (all_nodes f)).
  { intros [[st fn]|] chain w Hc Hw; simpl in Hw; [|contradiction].
    destruct (Nat.ltb 1 chain); [|contradiction]. destruct Hw as [<-|[]]. exact Hc. }
  induction l as [|stmt r IH]; simpl; intros Hl cause slice chain w Hc Hw.
  - eapply Fl; eauto.
  - assert (Hr : forall x, In x r -> In x (all_nodes f)) by (intros; apply Hl; auto).
    destruct (ac_match stmt slice) as [[[fn a0]|]|s0].
    + destruct (Nat.eqb chain 0).
      * eapply (IH Hr (Some (stmt, fn))); eauto; simpl; apply Hl; auto.
      * eapply (IH Hr cause); eauto.
    + destruct (ac_loop r cause None 0) as [ws|s1] eqn:E; simpl in Hw; [|contradiction].
      apply in_app_or in Hw as [Hw|Hw]; [eapply Fl; eauto|].
      eapply (IH Hr cause None 0); eauto. rewrite E. exact Hw.
    + contradiction.
Qed.

Lemma appendCombine_cause f w : In w (warnings (run_appendCombine f)) -> cause_in_file f w.
Proof.
  intros H. apply run_stmt_list_warn in H as [l [Hl Hw]]. unfold appendCombine_visit in Hw.
  eapply ac_loop_cause; eauto. exact I.
Qed.

(* appendAssign: the cause is the append call on the right-hand side *)
Lemma aa_check_cause x call w : In w (warnings (aa_check x call)) -> w_cause w = call.
Proof.
  unfold aa_check, aa_match_slices. intros H. dmatch_in H; destruct H as [<-|[]]; reflexivity.
Qed.

Lemma aa_pairs_cause lhs : forall rhs o w, In o (aa_pairs lhs rhs) -> In w (warnings o) -> In (w_cause w) rhs.
Proof.
  induction lhs as [|x l IH]; intros [|r0 r] o w Ho Hw; simpl in Ho; try contradiction.
  destruct Ho as [<-|Ho]; [|right; eapply IH; eauto].
  destruct (is_tag TCall r0 && _); [|contradiction]. left. symmetry. eapply aa_check_cause; eauto.
Qed.

Lemma appendAssign_cause f w : In w (warnings (run_appendAssign f)) -> cause_in_file f w.
Proof.
  intros H. apply run_stmt_warn in H as [e [He Hw]]. unfold cause_in_file. unfold appendAssign_visit in Hw.
  destruct (negb (is_tag TAssign e)); [contradiction|].
  destruct (negb _); [contradiction|].
  destruct (negb _); [contradiction|].
  apply seq_o_warnings in Hw as [o [Ho Hw]]. eapply aa_pairs_cause in Ho; eauto.
  eapply all_nodes_kid; eauto. eapply skipn_In'; eauto.
Qed.

(* typeDefFirst: the cause is the type declaration itself *)
Lemma tdf_loop_cause f ds :
  (forall d, In d ds -> In d (all_nodes f)) -> forall tracked w, In w (warnings (tdf_loop ds tracked)) -> cause_in_file f w.
Proof.
  unfold cause_in_file. induction ds as [|d r IH]; simpl; intros Hd tracked w Hw; [contradiction|].
  assert (Hr : forall d, In d r -> In d (all_nodes f)) by (intros; apply Hd; auto).
  destruct (ntag d); try (eapply IH; eauto; fail).
  - destruct (N.eqb (na d) 0); [eapply IH; eauto|].
    destruct (kids d) as [|recv ?]; [contradiction|]. destruct (kids recv) as [|fld ?]; [contradiction|].
    destruct (nth_error _ _); [|contradiction]. destruct (receiver_type n); [eapply IH; eauto|contradiction].
  - destruct (negb _); [eapply IH; eauto|].
    destruct (tdf_loop r tracked) as [ws|] eqn:E; simpl in Hw; [|contradiction].
    apply in_app_or in Hw as [Hw|Hw].
    + unfold tdf_specs in Hw. apply in_flat_map in Hw as [spec [_ Hw]].
      destruct (kids spec); [contradiction|]. destruct (mem _ _); [|contradiction].
      destruct Hw as [<-|[]]. simpl. apply Hd; auto.
    + eapply (IH Hr tracked). rewrite E. exact Hw.
Qed.

Lemma typeDefFirst_cause f w : In w (warnings (run_typeDefFirst f)) -> cause_in_file f w.
Proof.
  intros H. unfold run_typeDefFirst in H. apply (tdf_loop_cause f (decls f)) with (tracked := []); [|exact H].
  intros d Hd. eapply all_nodes_pre; eauto. apply pre_self.
Qed.

(* sortSlice: the cause is the comparison inside the less function *)
Lemma unparen_in_pre : forall n, In (unparen n) (pre n).
Proof.
  fix IH 1. intros [t p s a b ff ks]. destruct t; try (apply pre_self).
  destruct ks as [|x [|? ?]]; try (apply pre_self).
  simpl. right. apply in_or_app. left. apply IH.
Qed.

Lemma sortSlice_cause f w : In w (warnings (run_sortSlice f)) -> cause_in_file f w.
Proof.
  intros H. apply run_expr_warn in H as [e [He Hw]]. unfold cause_in_file. unfold sortSlice_visit in Hw.
  destruct (negb (is_tag TCall e)); [contradiction|].
  destruct (kids e) as [|fn [|a0 [|a1 [|? ?]]]] eqn:Ke; try contradiction.
  destruct (negb _); [contradiction|].
  assert (H1 : In a1 (all_nodes f)) by (eapply all_nodes_kid; eauto; rewrite Ke; simpl; auto).
  destruct a1 as [t p1 s1 x1 y1 f1 k1]. destruct t; try contradiction.
  destruct k1 as [|ft [|body [|? ?]]]; try contradiction.
  assert (Hb : In body (all_nodes f)) by (eapply all_nodes_kid; eauto; unfold kids; simpl; auto).
  destruct (negb (f_pure _)); [contradiction|].
  destruct (param_idents ft) as [[ivar jvar]|]; [|contradiction].
  destruct (kids body) as [|ret [|? ?]] eqn:Kb; try contradiction.
  assert (Hret : In ret (all_nodes f)) by (eapply all_nodes_kid; eauto; rewrite Kb; simpl; auto).
  destruct (is_tag TReturn ret); simpl in Hw; [|contradiction].
  destruct (kids ret) as [|r0 ?] eqn:Kr; [contradiction|].
  assert (Hr0 : In r0 (all_nodes f)) by (eapply all_nodes_kid; eauto; rewrite Kr; simpl; auto).
  assert (Hc : In (unparen r0) (all_nodes f)) by (eapply all_nodes_closed; eauto; apply unparen_in_pre).
  destruct (unparen r0) as [t ? ? ? ? ? kc] eqn:Eu; destruct t; try contradiction.
  destruct kc as [|x [|y [|? ?]]]; try contradiction.
  destruct (negb (f_pure _)); [contradiction|]. destruct (negb (is_cmp_op a)); [contradiction|].
  simpl in Hw. apply in_app_or in Hw as [Hw|Hw];
    (destruct (_ && _); [|contradiction]); destruct Hw as [<-|[]]; exact Hc.
Qed.

(* evalOrder: the cause is the call among the results *)
Lemma eo_call_cause id call w : In w (warnings (eo_call id call)) -> w_cause w = call.
Proof.
  unfold eo_call. cbv zeta. intros H.
  dmatch_in H; repeat (destruct H as [<-|H]; [reflexivity|]); try contradiction.
Qed.

Lemma evalOrder_cause f w : In w (warnings (run_evalOrder f)) -> cause_in_file f w.
Proof.
  intros H. apply run_stmt_warn in H as [e [He Hw]]. unfold cause_in_file. unfold evalOrder_visit in Hw.
  destruct (negb (is_tag TReturn e)); [contradiction|]. destruct (Nat.ltb _ 2); [contradiction|].
  apply seq_o_warnings in Hw as [o [Ho Hw]]. apply in_map_iff in Ho as [id [<- Hid]].
  destruct (is_tag TIdent id); [|contradiction].
  apply seq_o_warnings in Hw as [o [Ho Hw]]. apply in_map_iff in Ho as [call [<- Hc]].
  apply eo_call_cause in Hw. rewrite Hw. eapply all_nodes_kid; eauto.
Qed.

(* rangeAppendAll: the cause is the appended identifier inside the loop body *)
Lemma rangeAppendAll_cause f w : In w (warnings (run_rangeAppendAll f)) -> cause_in_file f w.
Proof.
  intros H. apply run_stmt_warn in H as [e [He Hw]]. unfold cause_in_file. unfold rangeAppendAll_visit in Hw.
  destruct (negb (is_tag TRange e)); [contradiction|].
  destruct (nth_error (kids e) (N.to_nat (na e))) as [x|]; [|contradiction].
  destruct (nth_error (kids e) (N.to_nat (na e) + 1)) as [body|] eqn:Eb; [|contradiction].
  assert (Hb : In body (all_nodes f)) by (eapply all_nodes_kid; eauto; eapply nth_error_In; eauto).
  destruct (kids body); [contradiction|].
  destruct (negb (is_tag TIdent x)); [contradiction|]. simpl in Hw.
  apply in_flat_map in Hw as [m [Hn Hw]].
  assert (Hn' : In m (all_nodes f)) by (eapply all_nodes_closed; eauto; apply post_in_pre; auto).
  unfold valid_append_from in Hw.
  destruct m as [t ? ? ell ? ? kn]; destruct t; try contradiction.
  destruct kn as [|fn [|a0 [|a1 [|? ?]]]]; try contradiction.
  destruct (negb (N.eqb ell 1)); [contradiction|].
  destruct (negb (String.eqb (qualified_name fn) "append")); [contradiction|].
  destruct (is_slice_literal a0); [contradiction|].
  destruct (is_tag TIdent a1); [|contradiction].
  destruct (N.eqb _ _); [|contradiction]. destruct Hw as [<-|[]]. simpl.
  eapply all_nodes_kid; eauto. unfold kids; simpl; auto.
Qed.

(* C07: ZeroValueOf (fixed) never yields an expression with a nil argument *)
Lemma newDeref_render_ok f w : In w (warnings (run_newDeref f)) -> w_render_ok w = true.
Proof.
  intros H. apply run_expr_warn in H as [e [He Hw]]. unfold newDeref_visit in Hw.
  destruct e as [t p str a b ff ks]. destruct t; try contradiction.
  destruct ks as [|x [|? ?]]; try contradiction.
  destruct (negb (is_tag TCall x)); [contradiction|].
  destruct (kids x) as [|fn args]; [contradiction|].
  destruct (negb _); [contradiction|]. destruct args as [|a0 [|? ?]]; try contradiction.
  destruct (f_ty (nfacts a0)); simpl in Hw; try contradiction; destruct Hw as [<-|[]]; reflexivity.
Qed.

(* ================= C20: recognition by spelling is right when nothing shadows the name ================= *)
Lemma newDeref_real_partial f w :
  all_nodes_sat (g_no_namesake_bare "new") f -> In w (warnings (run_newDeref f)) -> is_real w = true.
Proof.
  intros G H. apply run_expr_warn in H as [e [He Hw]]. unfold newDeref_visit in Hw.
  destruct e as [t p str a b ff ks]. destruct t; try contradiction.
  destruct ks as [|x [|? ?]]; try contradiction.
  assert (Hx : In x (all_nodes f)) by (eapply all_nodes_kid; eauto; unfold kids; simpl; auto).
  destruct (is_tag TCall x); simpl in Hw; [|contradiction].
  destruct (kids x) as [|fn args] eqn:Kx; [contradiction|].
  assert (Hf : In fn (all_nodes f)) by (eapply all_nodes_kid; eauto; rewrite Kx; simpl; auto).
  pose proof (sat_of _ _ _ G Hf) as Gf. unfold g_no_namesake_bare in Gf.
  destruct (is_tag TIdent fn && String.eqb (nstr fn) "new"); simpl in Hw; [|contradiction].
  destruct args as [|a0 [|? ?]]; try contradiction.
  destruct (f_ty (nfacts a0)); simpl in Hw; try contradiction; destruct Hw as [<-|[]];
    unfold is_real; simpl; rewrite Gf; reflexivity.
Qed.

(* ================= truncateCmp, nilValReturn ================= *)
Lemma truncateCmp_total skip f : forall s, run_truncateCmp skip f <> Panic s.
Proof.
  apply run_expr_total. intros e He s. unfold truncateCmp_visit.
  destruct e as [t p str a b ff ks]. destruct t; try discriminate. dmatch.
Qed.

Lemma nilValReturn_total f : forall s, run_nilValReturn f <> Panic s.
Proof. apply run_stmt_total. intros e He s. unfold nilValReturn_visit. cbv zeta. dmatch. Qed.

Lemma tc_check_cause skip xcast y w : In w (tc_check skip xcast y) -> w_cause w = xcast.
Proof. unfold tc_check. intros H. dmatch_in H. destruct H as [<-|[]]. reflexivity. Qed.

Lemma truncateCmp_cause skip f w : In w (warnings (run_truncateCmp skip f)) -> cause_in_file f w.
Proof.
  intros H. apply run_expr_warn in H as [e [He Hw]]. unfold cause_in_file. unfold truncateCmp_visit in Hw.
  destruct e as [t p str a b ff ks]. destruct t; try contradiction.
  destruct ks as [|x [|y [|? ?]]]; try contradiction.
  assert (Hx : In x (all_nodes f)) by (eapply all_nodes_kid; eauto; unfold kids; simpl; auto).
  assert (Hy : In y (all_nodes f)) by (apply (all_nodes_kid f _ y He); unfold kids; simpl; auto).
  destruct (negb _); [contradiction|]. destruct (_ || _); [contradiction|].
  destruct (is_trunc_cast x), (is_trunc_cast y); simpl in Hw; try contradiction;
    apply tc_check_cause in Hw; rewrite Hw; assumption.
Qed.

Lemma nilValReturn_cause f w : In w (warnings (run_nilValReturn f)) -> cause_in_file f w.
Proof.
  intros H. apply run_stmt_warn in H as [e [He Hw]]. unfold cause_in_file. unfold nilValReturn_visit in Hw. cbv zeta in Hw.
  destruct (negb (is_tag TIf e)); [contradiction|].
  destruct (nth_error (kids e) (N.to_nat (na e))) as [cond|]; [|contradiction].
  destruct (nth_error (kids e) (N.to_nat (na e) + 1)) as [body|] eqn:Eb; [|contradiction].
  assert (Hb : In body (all_nodes f)) by (eapply all_nodes_kid; eauto; eapply nth_error_In; eauto).
  destruct (kids body) as [|ret [|? ?]] eqn:Kb; try contradiction.
  assert (Hr : In ret (all_nodes f)) by (eapply all_nodes_kid; eauto; rewrite Kb; simpl; auto).
  destruct (negb (is_tag TReturn ret)); [contradiction|].
  dmatch_in Hw. destruct Hw as [<-|[]]. exact Hr.
Qed.
