From GC Require Import Base Model_Select.

Lemma bool_eq_iff (a b : bool) : (a = true <-> b = true) -> a = b.
Proof. destruct a, b; intuition congruence. Qed.

Lemma is_tag_key_spec k : is_tag_key k = true <-> exists r, k = "#" ++ r.
Proof. unfold is_tag_key. apply has_prefix_spec. Qed.

Lemma mem_keys_names n keys : has_prefix "#" n = false ->
  mem n (keys_names keys) = mem n keys.
Proof.
  intros Hn. apply bool_eq_iff. rewrite !mem_In. unfold keys_names. rewrite filter_In.
  split; [tauto|]. intros H; split; auto. unfold is_tag_key. rewrite Hn. reflexivity.
Qed.

Lemma mem_keys_tags t keys : mem t (keys_tags keys) = mem ("#" ++ t) keys.
Proof.
  apply bool_eq_iff. rewrite !mem_In. unfold keys_tags. rewrite in_map_iff. split.
  - intros [k [Hd Hk]]. apply filter_In in Hk as [Hin Htag].
    apply is_tag_key_spec in Htag as [r ->]. simpl in Hd. subst r. exact Hin.
  - intros Hin. exists ("#" ++ t). split; [reflexivity|]. apply filter_In. split; auto.
Qed.

Lemma existsb_ext_mem (f g : string -> bool) l : (forall x, f x = g x) -> existsb f l = existsb g l.
Proof. intros H. induction l; simpl; congruence. Qed.

Lemma disabled_by_tag_aux_spec tagset tags :
  forallb (fun t => negb (String.eqb t "")) tags = true ->
  negb (String.eqb (disabled_by_tag_aux tagset tags) "") = existsb (fun t => mem t tagset) tags.
Proof.
  induction tags as [|t r IH]; simpl; intros H; [reflexivity|].
  apply andb_true_iff in H as [Ht Hr].
  destruct (mem t tagset) eqn:E; simpl; auto.
Qed.

Lemma valid_ident_nohash s : valid_ident s = true -> has_prefix "#" s = false.
Proof. unfold valid_ident. rewrite !andb_true_iff, !negb_true_iff. tauto. Qed.
Lemma valid_ident_nonempty s : valid_ident s = true -> negb (String.eqb s "") = true.
Proof. unfold valid_ident. rewrite !andb_true_iff. tauto. Qed.
Lemma valid_ident_nocomma s : valid_ident s = true -> contains_char comma s = false.
Proof. unfold valid_ident. rewrite !andb_true_iff, !negb_true_iff. tauto. Qed.

Lemma valid_ident_trim s : valid_ident s = true -> trim_space s = s.
Proof. unfold valid_ident. rewrite !andb_true_iff. intros [_ H]. apply String.eqb_eq. exact H. Qed.

Lemma valid_tags_nonempty c : valid_checker c = true ->
  forallb (fun t => negb (String.eqb t "")) (ctags c) = true.
Proof.
  unfold valid_checker. rewrite andb_true_iff. intros [_ H].
  rewrite forallb_forall in *. intros t Ht. apply valid_ident_nonempty. auto.
Qed.

Lemma filter_selected_spec all en dis c :
  valid_checker c = true -> filter_selected all en dis c = spec_selected all en dis c.
Proof.
  intros Hv. pose proof (valid_tags_nonempty c Hv) as Hne.
  assert (Hn : has_prefix "#" (cname c) = false).
  { apply valid_ident_nohash. unfold valid_checker in Hv. apply andb_true_iff in Hv. tauto. }
  unfold filter_selected, spec_selected, enabled_by_tag, disabled_by_tag.
  rewrite (disabled_by_tag_aux_spec _ _ Hne).
  rewrite !(mem_keys_names _ _ Hn).
  rewrite (existsb_ext_mem (fun t => mem t (keys_tags en)) (fun t => mem ("#" ++ t) en)) by (intros; apply mem_keys_tags).
  rewrite (existsb_ext_mem (fun t => mem t (keys_tags dis)) (fun t => mem ("#" ++ t) dis)) by (intros; apply mem_keys_tags).
  destruct (all || mem (cname c) en || existsb (fun t => mem ("#" ++ t) en) (ctags c)),
           (mem (cname c) dis),
           (existsb (fun t => mem ("#" ++ t) dis) (ctags c)); reflexivity.
Qed.

Lemma disable_wins all en dis c : valid_checker c = true ->
  (mem (cname c) dis = true \/ exists t, In t (ctags c) /\ mem ("#" ++ t) dis = true) ->
  filter_selected all en dis c = false.
Proof.
  intros Hv H. rewrite filter_selected_spec by exact Hv. unfold spec_selected.
  destruct H as [H|[t [Ht Hm]]].
  - rewrite H. simpl. rewrite andb_false_r. reflexivity.
  - assert (E : existsb (fun t => mem ("#" ++ t) dis) (ctags c) = true).
    { apply existsb_exists. eauto. }
    rewrite E. simpl. rewrite andb_false_r. reflexivity.
Qed.

(* ---- defaults ---- *)

Lemma mem_map_cname_filter reg p c :
  NoDup (map cname reg) -> In c reg ->
  mem (cname c) (map cname (filter p reg)) = p c.
Proof.
  intros Hnd Hin. apply bool_eq_iff. rewrite mem_In, in_map_iff. split.
  - intros [c' [Hn Hf]]. apply filter_In in Hf as [Hin' Hp].
    assert (c' = c); [|subst; auto].
    clear Hp. induction reg as [|x r IH]; [contradiction|].
    simpl in Hnd. inversion Hnd as [|? ? Hnotin Hnd']; subst.
    destruct Hin as [->|Hin], Hin' as [->|Hin']; auto.
    + exfalso. apply Hnotin. rewrite <- Hn. apply in_map. exact Hin'.
    + exfalso. apply Hnotin. rewrite Hn. apply in_map. exact Hin.
  - intros Hp. exists c. split; auto. apply filter_In. auto.
Qed.

Lemma default_keys_roundtrip reg :
  forallb valid_checker reg = true ->
  let l := cli_default_enable reg in
  split_on comma (join_with comma l) = match l with [] => [""] | _ => l end.
Proof.
  intros Hv l. destruct l as [|x r] eqn:E; [reflexivity|].
  rewrite <- E. apply split_join; [rewrite E; discriminate|].
  unfold l, cli_default_enable. rewrite forallb_forall. intros n Hn.
  apply in_map_iff in Hn as [c [<- Hc]]. apply filter_In in Hc as [Hc _].
  rewrite forallb_forall in Hv. specialize (Hv c Hc). unfold valid_checker in Hv.
  apply andb_true_iff in Hv as [Hv _]. rewrite (valid_ident_nocomma _ Hv). reflexivity.
Qed.

Lemma default_keys_trim reg : forallb valid_checker reg = true ->
  map trim_space (cli_default_enable reg) = cli_default_enable reg.
Proof.
  intros Hv. unfold cli_default_enable. rewrite map_map.
  apply map_ext_in. intros c Hc. apply filter_In in Hc as [Hc _].
  rewrite forallb_forall in Hv. specialize (Hv c Hc). unfold valid_checker in Hv.
  apply andb_true_iff in Hv as [Hv _]. apply valid_ident_trim. exact Hv.
Qed.

Lemma no_tag_keys_in_names reg : forallb valid_checker reg = true ->
  forall t, mem ("#" ++ t) (cli_default_enable reg) = false.
Proof.
  intros Hv t. apply mem_false_In. unfold cli_default_enable. rewrite in_map_iff.
  intros [c [Hn Hc]]. apply filter_In in Hc as [Hc _].
  rewrite forallb_forall in Hv. specialize (Hv c Hc). unfold valid_checker in Hv.
  apply andb_true_iff in Hv as [Hv _]. apply valid_ident_nohash in Hv. rewrite Hn in Hv. discriminate.
Qed.


Lemma existsb_false {A} (f : A -> bool) l : (forall x, f x = false) -> existsb f l = false.
Proof. intros H. induction l; simpl; auto. rewrite H. auto. Qed.

Lemma spec_selected_default_disable en c : String.eqb (cname c) "" = false ->
  spec_selected false en [""] c = mem (cname c) en || existsb (fun t => mem ("#" ++ t) en) (ctags c).
Proof.
  intros Hne. unfold spec_selected.
  assert (H1 : mem (cname c) [""] = false) by (cbn [mem]; rewrite Hne; reflexivity).
  assert (H2 : existsb (fun t => mem ("#" ++ t) [""]) (ctags c) = false)
    by (apply existsb_false; intros x; reflexivity).
  rewrite H1, H2. cbn [negb orb]. rewrite !andb_true_r. reflexivity.
Qed.

Lemma cli_default_is_no_optin reg c :
  forallb valid_checker reg = true -> NoDup (map cname reg) -> In c reg ->
  cli_selected reg {| cf_all := false; cf_enable := None; cf_disable := None |} c = no_optin c.
Proof.
  intros Hv Hnd Hin. unfold cli_selected, cli_enable_keys, cli_disable_keys.
  cbn [cf_all cf_enable cf_disable].
  assert (Hvc : valid_checker c = true) by (rewrite forallb_forall in Hv; auto).
  rewrite filter_selected_spec by exact Hvc.
  assert (Hne : String.eqb (cname c) "" = false).
  { unfold valid_checker in Hvc. apply andb_true_iff in Hvc as [Hvc _].
    apply valid_ident_nonempty in Hvc. apply negb_true_iff in Hvc. exact Hvc. }
  unfold split_values. change (map trim_space (split_on comma "")) with [""].
  rewrite spec_selected_default_disable by exact Hne.
  pose proof (default_keys_roundtrip reg Hv) as Hrt. cbv zeta in Hrt. rewrite Hrt.
  pose proof (mem_map_cname_filter reg no_optin c Hnd Hin) as Hm.
  fold (cli_default_enable reg) in Hm.
  pose proof (default_keys_trim reg Hv) as Htr.
  destruct (cli_default_enable reg) as [|x r] eqn:E.
  - change (map trim_space [""]) with [""]. cbn [mem]. rewrite Hne. cbn [orb].
    rewrite (existsb_false (fun t => mem ("#" ++ t) [""])) by (intros y; reflexivity).
    cbn [mem] in Hm. exact Hm.
  - rewrite Htr. rewrite <- E in *.
    rewrite (existsb_false (fun t => mem ("#" ++ t) (cli_default_enable reg))) by (apply no_tag_keys_in_names; exact Hv).
    rewrite orb_false_r. exact Hm.
Qed.

(* analyzer default flags on a checker *)
Definition an_default_flags := {| af_all := false; af_enable := None; af_disable := None |}.

Lemma an_default_compute c :
  an_selected an_default_flags c =
  filter_selected false ["#diagnostic"; "#style"; "#security"]
                  ["#experimental"; "#opinionated"; "#performance"] c.
Proof. reflexivity. Qed.

Lemma existsb_mem_or (tags : list string) (ks : list string) :
  existsb (fun t => mem t ks) tags = existsb (fun k => mem k tags) ks.
Proof.
  apply bool_eq_iff. rewrite !existsb_exists. split.
  - intros [t [Ht Hm]]. exists t. rewrite mem_In in *. tauto.
  - intros [k [Hk Hm]]. exists k. rewrite mem_In in *. tauto.
Qed.

Definition hash (k : string) : string := "#" ++ k.

Lemma mem_hash t ks : mem ("#" ++ t) (map hash ks) = mem t ks.
Proof.
  induction ks as [|k r IH]; [reflexivity|].
  cbn [map mem]. rewrite IH. unfold hash. cbn [append String.eqb]. rewrite Ascii.eqb_refl. reflexivity.
Qed.

Lemma mem_name_hash n ks : has_prefix "#" n = false -> mem n (map hash ks) = false.
Proof.
  intros Hn. apply mem_false_In. rewrite in_map_iff. intros [k [Hk _]]. subst n.
  unfold hash in Hn. simpl in Hn. discriminate.
Qed.

Lemma spec_selected_tag_lists c en dis :
  has_prefix "#" (cname c) = false ->
  spec_selected false (map hash en) (map hash dis) c =
  existsb (fun k => mem k (ctags c)) en && negb (existsb (fun k => mem k (ctags c)) dis).
Proof.
  intros Hn. unfold spec_selected. rewrite !mem_name_hash by exact Hn.
  rewrite (existsb_ext_mem (fun t => mem ("#" ++ t) (map hash en)) (fun t => mem t en)) by (intros; apply mem_hash).
  rewrite (existsb_ext_mem (fun t => mem ("#" ++ t) (map hash dis)) (fun t => mem t dis)) by (intros; apply mem_hash).
  rewrite (existsb_mem_or (ctags c) en), (existsb_mem_or (ctags c) dis). cbn [orb negb]. rewrite andb_true_r. reflexivity.
Qed.

Lemma an_default_is_no_optin c :
  valid_checker c = true -> suite_tags_ok c = true ->
  an_selected an_default_flags c = no_optin c.
Proof.
  intros Hv Hs. rewrite an_default_compute, filter_selected_spec by exact Hv.
  assert (Hn : has_prefix "#" (cname c) = false).
  { apply valid_ident_nohash. unfold valid_checker in Hv. apply andb_true_iff in Hv. tauto. }
  change ["#diagnostic"; "#style"; "#security"] with (map hash ["diagnostic"; "style"; "security"]).
  change ["#experimental"; "#opinionated"; "#performance"] with (map hash ["experimental"; "opinionated"; "performance"]).
  rewrite spec_selected_tag_lists by exact Hn.
  unfold no_optin, suite_tags_ok, has_category in *.
  apply andb_true_iff in Hs as [Hc Hsec]. apply negb_true_iff in Hsec.
  rewrite (existsb_mem_or (ctags c) optin_tags). unfold optin_tags. cbn [existsb]. rewrite Hsec, !orb_false_r.
  destruct (mem "diagnostic" (ctags c)), (mem "style" (ctags c)), (mem "performance" (ctags c)),
           (mem "experimental" (ctags c)), (mem "opinionated" (ctags c)); simpl in *; congruence.
Qed.

Lemma docs_mark_is_no_optin c : mem "security" (ctags c) = false -> docs_mark c = no_optin c.
Proof.
  intros Hs. unfold docs_mark, no_optin. rewrite (existsb_mem_or (ctags c) optin_tags). unfold optin_tags. cbn [existsb].
  rewrite Hs, !orb_false_r. rewrite orb_assoc. reflexivity.
Qed.

(* a security-tagged checker separates the three notions of "default": latent divergence *)
Definition sec_checker := {| cname := "x"; ctags := ["diagnostic"; "security"] |}.
Lemma an_default_security_diverges :
  an_selected an_default_flags sec_checker = true /\ no_optin sec_checker = false /\ docs_mark sec_checker = true.
Proof. vm_compute. auto. Qed.

(* ---- construction ---- *)
Lemma cli_init_loop_spec ctor_ok sel reg acc :
  (forall c, In c reg -> sel c = true -> ctor_ok c = true) ->
  cli_init_loop ctor_ok sel reg acc =
    match (rev acc ++ filter sel reg)%list with [] => InitErrEmpty | l => InitOk l end.
Proof.
  revert acc; induction reg as [|c r IH]; intros acc Hok; simpl.
  - rewrite app_nil_r. destruct acc as [|a acc']; [reflexivity|].
    destruct (rev (a :: acc')) eqn:E; [|reflexivity].
    apply (f_equal (@List.length _)) in E. rewrite rev_length in E. discriminate.
  - destruct (sel c) eqn:Es.
    + rewrite (Hok c (or_introl eq_refl) Es). rewrite IH by (intros; apply Hok; simpl; auto).
      simpl. rewrite <- app_assoc. reflexivity.
    + apply IH. intros; apply Hok; simpl; auto.
Qed.

Lemma constructed_exactly_selected ctor_ok reg f :
  (forall c, In c reg -> cli_selected reg f c = true -> ctor_ok c = true) ->
  cli_init ctor_ok reg f =
    match filter (cli_selected reg f) reg with [] => InitErrEmpty | l => InitOk l end.
Proof. intros H. unfold cli_init. rewrite cli_init_loop_spec by exact H. reflexivity. Qed.

Lemma never_constructs_unselected_loop ctor_ok sel reg acc :
  (forall c, In c acc -> sel c = true) ->
  match cli_init_loop ctor_ok sel reg acc with
  | InitOk l => forall c, In c l -> sel c = true
  | InitErrCtor l c0 => (forall c, In c l -> sel c = true) /\ sel c0 = true
  | InitErrEmpty => True
  end.
Proof.
  revert acc; induction reg as [|c r IH]; intros acc Hacc; simpl.
  - destruct acc; [exact I|]. intros c0 Hc. apply Hacc. apply in_rev. exact Hc.
  - destruct (sel c) eqn:Es.
    + destruct (ctor_ok c).
      * apply IH. intros c0 [<-|H]; auto.
      * split; auto. intros c0 Hc. apply Hacc. apply in_rev. exact Hc.
    + apply IH. exact Hacc.
Qed.


(* ---- round 5: the same flag texts in both dialects ---- *)
Definition unpaddedb (keys : list string) : bool := forallb (fun k => String.eqb (trim_space k) k) keys.

Lemma map_trim_unpadded keys : unpaddedb keys = true -> map trim_space keys = keys.
Proof.
  induction keys as [|k r IH]; simpl; intros H; [reflexivity|].
  apply andb_true_iff in H as [Hk Hr]. apply String.eqb_eq in Hk. rewrite Hk, IH by exact Hr. reflexivity.
Qed.

(* both dialects split and trim alike: the same texts select the same checkers *)
Lemma frontends_same_keys reg all en dis c :
  String.eqb dis "<default>" = false ->
  cli_selected reg {| cf_all := all; cf_enable := Some en; cf_disable := Some dis |} c
  = an_selected {| af_all := all; af_enable := Some en; af_disable := Some dis |} c.
Proof.
  intros Hdef. unfold cli_selected, an_selected, cli_enable_keys, cli_disable_keys, an_disable_arg.
  simpl. rewrite Hdef. reflexivity.
Qed.

(* before the repair this needed lists free of surrounding blanks ... *)
Lemma frontends_same_keys_prefix reg all en dis c :
  unpaddedb (split_on comma en) = true -> unpaddedb (split_on comma dis) = true ->
  String.eqb dis "<default>" = false ->
  cli_selected_prefix reg {| cf_all := all; cf_enable := Some en; cf_disable := Some dis |} c
  = an_selected {| af_all := all; af_enable := Some en; af_disable := Some dis |} c.
Proof.
  intros He Hd Hdef. unfold cli_selected_prefix, an_selected, cli_enable_keys_prefix, cli_disable_keys_prefix, an_disable_arg, split_values.
  simpl. rewrite Hdef. rewrite (map_trim_unpadded _ He), (map_trim_unpadded _ Hd). reflexivity.
Qed.

(* ... and failed without *)
Lemma frontends_padded_prefix_refuted :
  exists reg all en dis c, In c reg /\ valid_checker c = true /\ String.eqb dis "<default>" = false /\
    cli_selected_prefix reg {| cf_all := all; cf_enable := Some en; cf_disable := Some dis |} c
    <> an_selected {| af_all := all; af_enable := Some en; af_disable := Some dis |} c.
Proof.
  exists [{| cname := "dupArg"; ctags := ["diagnostic"] |}], false, " dupArg", "", {| cname := "dupArg"; ctags := ["diagnostic"] |}.
  repeat split; try reflexivity; [left; reflexivity|vm_compute; discriminate].
Qed.
