From GC Require Import Base Model_Cli Proofs_Cli Model_Edit.

Lemma take_app_exact (a b : string) : take (String.length a) (a ++ b) = a.
Proof. induction a as [|c a IH]; simpl; [reflexivity|]. rewrite IH. reflexivity. Qed.

Lemma take_drop (n : nat) (s : string) : take n s ++ drop n s = s.
Proof.
  revert s; induction n as [|n IH]; intros s; [reflexivity|].
  destruct s as [|a r]; simpl; [reflexivity|]. rewrite IH. reflexivity.
Qed.

Lemma length_take n s : n <= String.length s -> String.length (take n s) = n.
Proof.
  revert s; induction n as [|n IH]; intros s H; [reflexivity|].
  destruct s as [|a r]; simpl in *; [lia|]. rewrite IH by lia. reflexivity.
Qed.

Lemma length_drop n s : String.length (drop n s) = String.length s - n.
Proof.
  revert s; induction n as [|n IH]; intros s; simpl; [lia|].
  destruct s as [|a r]; simpl; [reflexivity|]. apply IH.
Qed.

(* nothing before the range changes *)
Lemma apply_edit_prefix src from to repl : from <= String.length src ->
  take from (apply_edit src from to repl) = take from src.
Proof.
  intros H. unfold apply_edit.
  rewrite <- (length_take from src H) at 1. apply take_app_exact.
Qed.

(* nothing after the range changes *)
Lemma apply_edit_suffix src from to repl : from <= String.length src ->
  drop (from + String.length repl) (apply_edit src from to repl) = drop to src.
Proof.
  intros H. unfold apply_edit.
  rewrite <- (length_take from src H) at 1. rewrite <- length_app, <- app_assoc_s. apply drop_app.
Qed.

Lemma apply_edit_length src from to repl : from <= to -> to <= String.length src ->
  String.length (apply_edit src from to repl) = String.length src - (to - from) + String.length repl.
Proof.
  intros H1 H2. unfold apply_edit. rewrite !length_app, length_take, length_drop by lia. lia.
Qed.

(* replacing a range by what it already contains changes nothing *)
Lemma apply_edit_identity src from n :
  apply_edit src from (from + n) (take n (drop from src)) = src.
Proof.
  unfold apply_edit.
  assert (H : forall a b s, drop (a + b) s = drop b (drop a s)).
  { induction a as [|a IH]; intros b s; [reflexivity|]. destruct s as [|c r]; simpl.
    - destruct b; reflexivity.
    - apply IH. }
  rewrite H, take_drop, take_drop. reflexivity.
Qed.

(* the byte at an offset outside the range is found at its mapped offset in the edited file *)
Lemma get_take n s p : p < n -> String.get p (take n s) = String.get p s.
Proof.
  revert s p; induction n as [|n IH]; intros s p H; [lia|].
  destruct s as [|a r]; [reflexivity|]. destruct p as [|p]; [reflexivity|]. simpl. apply IH. lia.
Qed.
Lemma get_drop n s k : String.get k (drop n s) = String.get (n + k) s.
Proof.
  revert s; induction n as [|n IH]; intros s; [reflexivity|].
  destruct s as [|a r]; simpl; [destruct k; reflexivity|]. apply IH.
Qed.
Lemma map_pos_same_byte src from to repl p q : from <= to -> to <= String.length src ->
  map_pos from to (String.length repl) p = Some q ->
  String.get q (apply_edit src from to repl) = String.get p src.
Proof.
  intros Hft Hto. unfold map_pos, apply_edit.
  destruct (Nat.ltb_spec p from) as [Hlt|Hge].
  - intros [= <-]. rewrite <- append_correct1 by (rewrite length_take; lia). apply get_take. exact Hlt.
  - destruct (Nat.leb_spec to p) as [Hle|Hgt]; [|discriminate]. intros [= <-].
    replace (from + String.length repl + (p - to)) with ((p - to) + String.length repl + String.length (take from src))
      by (rewrite length_take; lia).
    rewrite <- append_correct2. rewrite <- append_correct2. rewrite get_drop. f_equal. lia.
Qed.
Lemma map_pos_inside from to n p : from <= p -> p < to -> map_pos from to n p = None.
Proof.
  intros H1 H2. unfold map_pos. destruct (Nat.ltb_spec p from); [lia|]. destruct (Nat.leb_spec to p); [lia|reflexivity].
Qed.

(* ---- commentFormatting ---- *)
Lemma cf_fix_shape t : has_prefix "//" t = true -> cf_fix t = "// " ++ drop 2 t.
Proof. intros H. unfold cf_fix. rewrite replace_first_prefix by exact H. reflexivity. Qed.

(* the fix only inserts one space after the marker *)
Lemma cf_fix_local t : has_prefix "//" t = true ->
  take 2 (cf_fix t) = "//" /\ drop 3 (cf_fix t) = drop 2 t /\ String.length (cf_fix t) = S (String.length t).
Proof.
  intros H. rewrite cf_fix_shape by exact H. apply has_prefix_spec in H as [r ->]. simpl. auto.
Qed.

(* after the fix the comment is no longer reported *)
Lemma cf_fix_clears t : has_prefix "//" t = true -> cf_reports (cf_fix t) = false.
Proof.
  intros H. rewrite cf_fix_shape by exact H. unfold cf_reports. simpl.
  rewrite andb_false_r. reflexivity.
Qed.

Lemma cf_reports_line_comment t : cf_reports t = true -> has_prefix "//" t = true \/ True.
Proof. auto. Qed.
