(* Properties_C08.v — property C08: all front-ends report the same diagnostics. *)
From GC Require Import Base Model_IR Model_Frontends Proofs_Frontends.

(* The analyzer offers every checker the CLI offers, whatever the two registries contain. *)
Theorem C08_analyzer_offers_all : forall hw emb, offered_analysis hw emb analysis_main = offered_cli hw emb.
Proof. exact analyzer_offers_all. Qed.
Print Assumptions C08_analyzer_offers_all.
(* Before the repair the registry snapshot preceded the registration of the rule-based checkers. *)
Theorem C08_analyzer_prefix_lacks_embedded_refuted :
  exists hw emb, offered_analysis hw emb analysis_main_prefix <> offered_cli hw emb.
Proof. exact analyzer_prefix_lacks_embedded_refuted. Qed.
Print Assumptions C08_analyzer_prefix_lacks_embedded_refuted.

(* A diagnostic is rendered identically: "location: checker: message". *)
Theorem C08_as_diag_roundtrip : forall loc c t, analysis_line loc (as_diag_msg c t) = cli_line loc c t.
Proof. exact as_diag_roundtrip. Qed.
Print Assumptions C08_as_diag_roundtrip.
Theorem C08_fix_forwarded_unchanged : forall q,
  te_pos (as_edit q) = qf_from q /\ te_end (as_edit q) = qf_to q /\ te_new (as_edit q) = qf_text q.
Proof. exact fix_forwarded_unchanged. Qed.
Print Assumptions C08_fix_forwarded_unchanged.

(* Each source file of a package unit (base, in-package tests, external tests) is analysed exactly
   once by the CLI, and the analysis driver — which analyses every variant and prints distinct
   diagnostics once — covers exactly the same files, each once. *)
Theorem C08_cli_each_file_once : forall u, wf_unit u = true -> NoDup (cli_selected_files u).
Proof. exact cli_files_nodup. Qed.
Print Assumptions C08_cli_each_file_once.
Theorem C08_driver_same_files : forall u f, wf_unit u = true ->
  (In f (dedup (driver_files u)) <-> In f (cli_selected_files u)).
Proof. exact driver_same_files. Qed.
Print Assumptions C08_driver_same_files.
Theorem C08_driver_each_once : forall u, NoDup (dedup (driver_files u)).
Proof. exact driver_each_once. Qed.
Print Assumptions C08_driver_each_once.

Example C08_example_unit :
  let u := {| u_base := ["a.go"]; u_test := Some ["a.go"; "a_test.go"]; u_xtest := Some ["x_test.go"] |} in
  wf_unit u = true /\ cli_selected_files u = ["x_test.go"; "a.go"; "a_test.go"]
  /\ dedup (driver_files u) = ["a.go"; "a_test.go"; "x_test.go"].
Proof. vm_compute. auto. Qed.
