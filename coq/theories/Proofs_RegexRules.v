(* Proofs_RegexRules.v — C11: one soundness lemma per rewrite rule of regexpSimplify.
   Each lemma is stated on semantic expressions (rx) or directly on the elaboration [den] of the tree
   shapes the checker matches; with Proofs_Regex.req_ctx every ≈ holds in arbitrary context. *)
From GC Require Import Base Model_Regex Model_RegexSimplify Proofs_Regex.
Local Open Scope nat_scope.

(* results of den compared up to ≈, with identical state (flags, next group index, names) *)
Definition dreq (a b : option (rx * dst)) : Prop :=
  match a, b with
  | Some (x, s1), Some (y, s2) => x ≈ y /\ s1 = s2
  | None, None => True
  | _, _ => False
  end.

Lemma dreq_refl a : dreq a a.
Proof. destruct a as [[x s]|]; simpl; auto using req_refl. Qed.

Lemma dreq_of_eq a b : a = b -> dreq a b.
Proof. intros ->. apply dreq_refl. Qed.

(* ------------------------------------------------------------------ *)
(* 1. repeat normalisation: {0,1} => ?   {1,} => +   {0,} => *   {1} => x   {0} => (nothing)          *)
(*    the elaboration of x{..} is literally the elaboration of the shorthand                          *)

Lemma repeat_01_question g x : build_repeat g x 0 (Some 1) = RQuest g x. Proof. reflexivity. Qed.
Lemma repeat_1x_plus g x : build_repeat g x 1 None = RPlus g x. Proof. reflexivity. Qed.
Lemma repeat_0x_star g x : build_repeat g x 0 None = RStar g x. Proof. reflexivity. Qed.
Lemma repeat_1_id g x : build_repeat g x 1 (Some 1) = x. Proof. reflexivity. Qed.
Lemma repeat_0_empty g x : build_repeat g x 0 (Some 0) = REmpty. Proof. reflexivity. Qed.

Lemma den_repeat_01 v v' x ra st :
  den (X OpRepeat v [x; X OpString "{0,1}" ra]) st = den (X OpQuestion v' [x]) st.
Proof.
  simpl. destruct (op_eqb (sx_op x) OpFlagOnlyGroup); [reflexivity|].
  destruct (den x st) as [[x' st1]|]; reflexivity.
Qed.

Lemma den_repeat_1x v v' x ra st :
  den (X OpRepeat v [x; X OpString "{1,}" ra]) st = den (X OpPlus v' [x]) st.
Proof.
  simpl. destruct (op_eqb (sx_op x) OpFlagOnlyGroup); [reflexivity|].
  destruct (den x st) as [[x' st1]|]; reflexivity.
Qed.

Lemma den_repeat_0x v v' x ra st :
  den (X OpRepeat v [x; X OpString "{0,}" ra]) st = den (X OpStar v' [x]) st.
Proof.
  simpl. destruct (op_eqb (sx_op x) OpFlagOnlyGroup); [reflexivity|].
  destruct (den x st) as [[x' st1]|]; reflexivity.
Qed.

(* {1}: the node elaborates to its operand *)
Lemma den_repeat_1 v x ra st : op_eqb (sx_op x) OpFlagOnlyGroup = false ->
  den (X OpRepeat v [x; X OpString "{1}" ra]) st = den x st.
Proof.
  intros Hx. simpl. rewrite Hx. destruct (den x st) as [[x' st1]|]; reflexivity.
Qed.

(* {0}: the node elaborates to the empty expression, PROVIDED the operand declares no capture group and
   sets no flag (state unchanged) — see C11_capture_under_zero_repeat_refuted *)
Lemma den_repeat_0 v x ra st x' : op_eqb (sx_op x) OpFlagOnlyGroup = false ->
  den x st = Some (x', st) ->
  den (X OpRepeat v [x; X OpString "{0}" ra]) st = Some (REmpty, st).
Proof. intros Hx H. simpl. rewrite Hx, H. reflexivity. Qed.

(* ------------------------------------------------------------------ *)
(* 2. xx* => x+                                                                                       *)

Lemma loopF_fuel {R} (ma : option rune -> list rune -> nat -> caps -> @kont R -> option R) g k :
  (forall p s i c ka kb, kext ka kb -> ma p s i c ka = ma p s i c kb) ->
  forall f1 f2 p s i c, length s < f1 -> length s < f2 -> loopF ma g k f1 p s i c = loopF ma g k f2 p s i c.
Proof.
  intros Hext f1. induction f1 as [|f1 IH]; intros f2 p s i c H1 H2; [lia|].
  destruct f2 as [|f2]; [lia|]. simpl.
  assert (E : ma p s i c (fun p' s' i' c' => if Nat.ltb (length s') (length s) then loopF ma g k f1 p' s' i' c' else None)
            = ma p s i c (fun p' s' i' c' => if Nat.ltb (length s') (length s) then loopF ma g k f2 p' s' i' c' else None)).
  { apply Hext. intros p' s' i' c'. destruct (Nat.ltb (length s') (length s)) eqn:E; [|reflexivity].
    apply Nat.ltb_lt in E. apply IH; lia. }
  rewrite E. reflexivity.
Qed.

(* for a consuming body, star is the plain loop *)
Lemma star_loop {R} g a : consumes a = true ->
  forall p s i c (k : @kont R), m (RStar g a) p s i c k = loopF (m a) g k (S (length s)) p s i c.
Proof.
  intros Hc p s i c k. rewrite m_star. simpl loopF.
  assert (E : firstF (m a) g k p s i c =
              m a p s i c (fun p' s' i' c' => if Nat.ltb (length s') (length s) then loopF (m a) g k (length s) p' s' i' c' else None)).
  { unfold firstF. rewrite (m_consumes_strict a Hc p s i c).
    rewrite (m_consumes_strict a Hc p s i c (fun p' s' i' c' => if Nat.ltb (length s') (length s) then loopF (m a) g k (length s) p' s' i' c' else None)).
    apply m_ext. intros p' s' i' c'. destruct (Nat.ltb (length s') (length s)) eqn:E; [|reflexivity].
    apply Nat.ltb_lt in E. apply loopF_fuel; [intros; apply m_ext; assumption|lia|lia]. }
  rewrite E. reflexivity.
Qed.

Theorem merge_x_xstar_plus g a : consumes a = true -> RCat a (RStar g a) ≈ RPlus g a.
Proof.
  intros Hc R p s i c k. rewrite m_plus. unfold firstF.
  change (m (RCat a (RStar g a)) p s i c k) with (m a p s i c (fun p' s' i' c' => m (RStar g a) p' s' i' c' k)).
  rewrite (m_consumes_strict a Hc p s i c).
  rewrite (m_consumes_strict a Hc p s i c (fun p1 s1 i1 c1 => if Nat.ltb (length s1) (length s) then loopF (m a) g k (S (length s1)) p1 s1 i1 c1 else k p1 s1 i1 c1)).
  apply m_ext. intros p' s' i' c'. destruct (Nat.ltb (length s') (length s)); [|reflexivity].
  apply star_loop. exact Hc.
Qed.

(* ------------------------------------------------------------------ *)
(* 3. run-length folding: x x ... x (n times) => x{n}                                                   *)

Lemma fold_run_repeat g x n : 2 <= n -> build_repeat g x n (Some n) = cat_list (ncopies n x).
Proof.
  intros Hn. unfold build_repeat.
  destruct n as [|[|n]]; [lia|lia|].
  rewrite Nat.eqb_refl. reflexivity.
Qed.

(* inside a concatenation *)
Lemma fold_run_in_concat g x n l1 l3 : 2 <= n ->
  cat_list (l1 ++ ncopies n x ++ l3) ≈ cat_list (l1 ++ build_repeat g x n (Some n) :: l3).
Proof. intros Hn. apply cat_list_splice. rewrite fold_run_repeat by exact Hn. apply req_refl. Qed.

(* ------------------------------------------------------------------ *)
(* 4. classes                                                                                          *)

Lemma in_cls_cons neg fold it its r :
  in_cls {| c_neg := neg; c_fold := fold; c_items := it :: its |} r =
  xorb neg (in_item fold r it || existsb (in_item fold r) its).
Proof. reflexivity. Qed.

(* [^0-9] => \D, [^\s] => \S, [^\d] => \D, [^[:word:]] => \W ... : a negated class of one item is the
   negated item; and the doubly negated forms [^\S] => \s ... *)
Lemma neg_class_single fold neg rs :
  RSet {| c_neg := true; c_fold := fold; c_items := [CI neg rs] |} ≈ set_item fold (CI (negb neg) rs).
Proof.
  apply rset_ext. intros r. unfold set_item, in_cls, in_item. simpl.
  destruct neg, (existsb (in_ranges rs) (orbit fold r)); reflexivity.
Qed.

(* [[:digit:]] => \d, [[:word:]] => \w, [0-9] => \d, [[:^digit:]] => \D: same ranges, same item *)
Lemma class_single_item fold it :
  RSet {| c_neg := false; c_fold := fold; c_items := [it] |} = set_item fold it.
Proof. reflexivity. Qed.

Lemma posix_digit_is_perl : posix_item "[:digit:]" = perl_item "\d" /\ posix_item "[:^digit:]" = perl_item "\D".
Proof. split; reflexivity. Qed.
Lemma posix_word_is_perl : posix_item "[:word:]" = perl_item "\w" /\ posix_item "[:^word:]" = perl_item "\W".
Proof. split; reflexivity. Qed.

(* the whole tables, on the actual trees: every entry except the three listed in the refutations
   elaborates to an equivalent expression, in every state *)
Definition class_table_sound_entries : list (sx * sx) :=
  [ (X OpCharClass "[0-9]" [X OpCharRange "0-9" [X OpChar "0" []; X OpChar "9" []]], X OpEscapeChar "\d" []);
    (X OpCharClass "[[:word:]]" [X OpPosixClass "[:word:]" []], X OpEscapeChar "\w" []);
    (X OpCharClass "[[:^word:]]" [X OpPosixClass "[:^word:]" []], X OpEscapeChar "\W" []);
    (X OpCharClass "[[:digit:]]" [X OpPosixClass "[:digit:]" []], X OpEscapeChar "\d" []);
    (X OpCharClass "[[:^digit:]]" [X OpPosixClass "[:^digit:]" []], X OpEscapeChar "\D" []);
    (X OpCharClass "[]]" [X OpChar "]" []], X OpEscapeMeta "\]" []) ].

Lemma class_table_sound :
  Forall (fun p => forall st, den (fst p) st = den (snd p) st) class_table_sound_entries.
Proof.
  unfold class_table_sound_entries.
  repeat (apply Forall_cons; [intros st; reflexivity|]). apply Forall_nil.
Qed.

Definition neg_class_table_sound_entries : list (sx * sx) :=
  [ (X OpNegCharClass "[^0-9]" [X OpCharRange "0-9" [X OpChar "0" []; X OpChar "9" []]], X OpEscapeChar "\D" []);
    (X OpNegCharClass "[^\s]" [X OpEscapeChar "\s" []], X OpEscapeChar "\S" []);
    (X OpNegCharClass "[^\S]" [X OpEscapeChar "\S" []], X OpEscapeChar "\s" []);
    (X OpNegCharClass "[^\w]" [X OpEscapeChar "\w" []], X OpEscapeChar "\W" []);
    (X OpNegCharClass "[^\W]" [X OpEscapeChar "\W" []], X OpEscapeChar "\w" []);
    (X OpNegCharClass "[^\d]" [X OpEscapeChar "\d" []], X OpEscapeChar "\D" []);
    (X OpNegCharClass "[^\D]" [X OpEscapeChar "\D" []], X OpEscapeChar "\d" []);
    (* the same six as the parser really builds them: the escape carries its letter as an argument *)
    (X OpNegCharClass "[^\s]" [X OpEscapeChar "\s" [X OpString "s" []]], X OpEscapeChar "\S" []);
    (X OpNegCharClass "[^\S]" [X OpEscapeChar "\S" [X OpString "S" []]], X OpEscapeChar "\s" []);
    (X OpNegCharClass "[^\w]" [X OpEscapeChar "\w" [X OpString "w" []]], X OpEscapeChar "\W" []);
    (X OpNegCharClass "[^\W]" [X OpEscapeChar "\W" [X OpString "W" []]], X OpEscapeChar "\w" []);
    (X OpNegCharClass "[^\d]" [X OpEscapeChar "\d" [X OpString "d" []]], X OpEscapeChar "\D" []);
    (X OpNegCharClass "[^\D]" [X OpEscapeChar "\D" [X OpString "D" []]], X OpEscapeChar "\d" []);
    (X OpNegCharClass "[^[:^word:]]" [X OpPosixClass "[:^word:]" []], X OpEscapeChar "\w" []);
    (X OpNegCharClass "[^[:word:]]" [X OpPosixClass "[:word:]" []], X OpEscapeChar "\W" []);
    (X OpNegCharClass "[^[:^digit:]]" [X OpPosixClass "[:^digit:]" []], X OpEscapeChar "\d" []);
    (X OpNegCharClass "[^[:digit:]]" [X OpPosixClass "[:digit:]" []], X OpEscapeChar "\D" []) ].

Lemma neg_class_table_sound :
  Forall (fun p => forall st, dreq (den (fst p) st) (den (snd p) st)) neg_class_table_sound_entries.
Proof.
  unfold neg_class_table_sound_entries.
  repeat (apply Forall_cons; [intros st; simpl; split; [apply (neg_class_single (f_i (d_fl st)))|reflexivity]|]).
  apply Forall_nil.
Qed.

(* single-element class => bare element: [a] => a, [\.] => \. *)
Lemma class_single_bare v cv st :
  den (X OpCharClass v [X OpChar cv []]) st = den (X OpChar cv []) st.
Proof. simpl. unfold class_item, escape_rune. destruct (rune_of cv); reflexivity. Qed.

(* small ranges: a-a => a, a-b => ab, a-c => abc *)
Lemma existsb_orb {A} (f g : A -> bool) l : existsb (fun x => f x || g x) l = existsb f l || existsb g l.
Proof.
  induction l as [|x l IH]; simpl; [reflexivity|]. rewrite IH.
  destruct (f x), (g x), (existsb f l), (existsb g l); reflexivity.
Qed.

Lemma existsb_ext {A} (f g : A -> bool) l : (forall x, f x = g x) -> existsb f l = existsb g l.
Proof. intros H. induction l as [|x l IH]; simpl; [reflexivity|]. rewrite H, IH. reflexivity. Qed.

Lemma in_range1 (a x : N) : in_ranges [(a, a)] x = N.eqb x a.
Proof.
  unfold in_ranges. simpl. rewrite orb_false_r.
  destruct (N.leb_spec a x), (N.leb_spec x a), (N.eqb_spec x a); simpl; try reflexivity; lia.
Qed.

Lemma in_range2 (a x : N) : in_ranges [(a, a + 1)%N] x = N.eqb x a || N.eqb x (a + 1).
Proof.
  unfold in_ranges. simpl. rewrite orb_false_r.
  destruct (N.leb_spec a x), (N.leb_spec x (a + 1)), (N.eqb_spec x a), (N.eqb_spec x (a + 1)); simpl; try reflexivity; lia.
Qed.

Lemma in_range3 (a x : N) : in_ranges [(a, a + 2)%N] x = N.eqb x a || N.eqb x (a + 1) || N.eqb x (a + 2).
Proof.
  unfold in_ranges. simpl. rewrite orb_false_r.
  destruct (N.leb_spec a x), (N.leb_spec x (a + 2)), (N.eqb_spec x a), (N.eqb_spec x (a + 1)), (N.eqb_spec x (a + 2));
    simpl; try reflexivity; lia.
Qed.

Lemma in_item_range3 fold r a :
  in_item fold r (CI false [(a, a + 2)%N]) =
  in_item fold r (CI false [(a, a)]) || in_item fold r (CI false [(a + 1, a + 1)%N]) || in_item fold r (CI false [(a + 2, a + 2)%N]).
Proof.
  unfold in_item. rewrite !xorb_false_l.
  rewrite (existsb_ext _ (fun x => (N.eqb x a || N.eqb x (a + 1)) || N.eqb x (a + 2)) _ (in_range3 a)).
  rewrite (existsb_ext (in_ranges [(a, a)]) _ _ (in_range1 a)).
  rewrite (existsb_ext (in_ranges [((a + 1)%N, (a + 1)%N)]) _ _ (in_range1 (a + 1))).
  rewrite (existsb_ext (in_ranges [((a + 2)%N, (a + 2)%N)]) _ _ (in_range1 (a + 2))).
  rewrite !existsb_orb. reflexivity.
Qed.

Lemma in_item_range2 fold r a :
  in_item fold r (CI false [(a, a + 1)%N]) =
  in_item fold r (CI false [(a, a)]) || in_item fold r (CI false [(a + 1, a + 1)%N]).
Proof.
  unfold in_item. rewrite !xorb_false_l.
  rewrite (existsb_ext _ (fun x => N.eqb x a || N.eqb x (a + 1)) _ (in_range2 a)).
  rewrite (existsb_ext (in_ranges [(a, a)]) _ _ (in_range1 a)).
  rewrite (existsb_ext (in_ranges [((a + 1)%N, (a + 1)%N)]) _ _ (in_range1 (a + 1))).
  rewrite !existsb_orb. reflexivity.
Qed.

Lemma existsb_app' {A} (f : A -> bool) l1 l2 : existsb f (l1 ++ l2) = existsb f l1 || existsb f l2.
Proof. apply existsb_app. Qed.

(* in any class, at any place: the item a-(a+2) may be replaced by the three items a, a+1, a+2 *)
Theorem range_small_enum3 neg fold pre post a :
  RSet {| c_neg := neg; c_fold := fold; c_items := pre ++ CI false [(a, a + 2)%N] :: post |} ≈
  RSet {| c_neg := neg; c_fold := fold;
          c_items := pre ++ CI false [(a, a)] :: CI false [(a + 1, a + 1)%N] :: CI false [(a + 2, a + 2)%N] :: post |}.
Proof.
  apply rset_ext. intros r. unfold in_cls. cbn [c_items c_fold c_neg]. f_equal.
  rewrite !existsb_app'. cbn [existsb]. rewrite in_item_range3.
  destruct (existsb (in_item fold r) pre), (in_item fold r (CI false [(a, a)])),
    (in_item fold r (CI false [((a + 1)%N, (a + 1)%N)])), (in_item fold r (CI false [((a + 2)%N, (a + 2)%N)]));
    reflexivity.
Qed.

Theorem range_small_enum2 neg fold pre post a :
  RSet {| c_neg := neg; c_fold := fold; c_items := pre ++ CI false [(a, a + 1)%N] :: post |} ≈
  RSet {| c_neg := neg; c_fold := fold;
          c_items := pre ++ CI false [(a, a)] :: CI false [(a + 1, a + 1)%N] :: post |}.
Proof.
  apply rset_ext. intros r. unfold in_cls. cbn [c_items c_fold c_neg]. f_equal.
  rewrite !existsb_app'. cbn [existsb]. rewrite in_item_range2.
  destruct (existsb (in_item fold r) pre), (in_item fold r (CI false [(a, a)])),
    (in_item fold r (CI false [((a + 1)%N, (a + 1)%N)])); reflexivity.
Qed.

(* ------------------------------------------------------------------ *)
(* 5. alternation of single characters => class                                                        *)

Definition char_items (rs : list rune) : list citem := map (fun r => CI false [(r, r)]) rs.

Theorem alt_chars_class fold rs : rs <> [] ->
  alt_list (map (set1 fold) rs) ≈ RSet {| c_neg := false; c_fold := fold; c_items := char_items rs |}.
Proof.
  induction rs as [|r rs IH]; [congruence|]. intros _.
  destruct rs as [|r2 rs].
  - simpl. apply req_refl.
  - change (map (set1 fold) (r :: r2 :: rs)) with (set1 fold r :: set1 fold r2 :: map (set1 fold) rs).
    rewrite alt_list_cons.
    eapply req_trans; [apply req_alt; [apply req_refl|apply IH; discriminate]|].
    unfold set1. apply alt_sets. intros x. unfold in_cls. cbn [c_neg c_fold c_items char_items map existsb].
    rewrite !xorb_false_l, orb_false_r. reflexivity.
Qed.

(* ------------------------------------------------------------------ *)
(* 6. escape removal: \& \# \! \@ \% \< \> \: \; \/ \, \= \.  => the bare character                     *)

Theorem escape_removal :
  Forall (fun v => forall st args, den (X OpEscapeChar v args) st = den (X OpChar (drop 1 v) []) st) removable_escapes.
Proof.
  unfold removable_escapes.
  repeat (apply Forall_cons; [intros st args; reflexivity|]). apply Forall_nil.
Qed.

(* ------------------------------------------------------------------ *)
(* 7. prefix / suffix factoring of two literals                                                        *)

(* `xy|x` => `xy?` — longer alternative first: sound *)
Theorem factor_prefix_longer_first (cs : list cls) (t : rx) :
  RAlt (cat_list (map RSet cs ++ [t])) (cat_list (map RSet cs)) ≈ cat_list (map RSet cs ++ [RQuest true t]).
Proof.
  induction cs as [|c cs IH].
  - simpl. intros R p s i cc k. reflexivity.
  - change (map RSet (c :: cs) ++ [t])%list with (RSet c :: (map RSet cs ++ [t]))%list.
    change (map RSet (c :: cs) ++ [RQuest true t])%list with (RSet c :: (map RSet cs ++ [RQuest true t]))%list.
    change (map RSet (c :: cs)) with (RSet c :: map RSet cs).
    eapply req_trans; [apply req_alt; apply cat_list_cons|].
    eapply req_trans; [apply alt_factor_set|].
    eapply req_trans; [apply req_cat; [apply req_refl|exact IH]|].
    apply req_sym, cat_list_cons.
Qed.

(* `hx|x` => `h?x` — longer alternative first: sound for any x *)
Theorem factor_suffix_longer_first (h x : rx) : RAlt (RCat h x) x ≈ RCat (RQuest true h) x.
Proof. intros R p s i c k. reflexivity. Qed.

(* `x|hx` => `h?x` — shorter first: sound when the first rune of x can never be h *)
Theorem factor_suffix_shorter_first (ch cf : cls) (x' : rx) :
  (forall r, in_cls ch r && in_cls cf r = false) ->
  RAlt (RCat (RSet cf) x') (RCat (RSet ch) (RCat (RSet cf) x')) ≈ RCat (RQuest true (RSet ch)) (RCat (RSet cf) x').
Proof.
  intros Hd R p s i c k. simpl. destruct s as [|r s']; [reflexivity|].
  specialize (Hd r). destruct (in_cls ch r), (in_cls cf r); simpl in *; try discriminate; try reflexivity;
    match goal with |- context [orelse ?a None] => destruct a; reflexivity end.
Qed.

(* ------------------------------------------------------------------ *)
(* 8. (?:x) => x for a character, escape or class                                                      *)

Lemma with_flags_id st : with_flags st (d_fl st) = st.
Proof. destruct st; reflexivity. Qed.

Definition atom_op (o : op) : bool :=
  match o with OpChar | OpEscapeChar | OpEscapeMeta | OpCharClass => true | _ => false end.

Lemma om_state {A} (f : A -> rx) (st : dst) (o : option A) x' st' :
  option_map (fun r => (f r, st)) o = Some (x', st') -> st' = st.
Proof. destruct o; simpl; intros H; [inversion H; reflexivity|discriminate]. Qed.

(* these nodes never change the elaboration state *)
Lemma den_atom_state o v args st x' st' : atom_op o = true -> den (X o v args) st = Some (x', st') -> st' = st.
Proof.
  intros Ho H. destruct o; try discriminate; simpl in H.
  - eapply om_state; exact H.
  - destruct (perl_item v); [inversion H; reflexivity|].
    destruct (assertion_of v); [inversion H; reflexivity|].
    eapply om_state; exact H.
  - eapply om_state; exact H.
  - eapply om_state; exact H.
Qed.

Theorem group_atom_id gv o v args st : atom_op o = true ->
  den (X OpGroup gv [X o v args]) st = den (X o v args) st.
Proof.
  intros Ho. change (den (X OpGroup gv [X o v args]) st) with
    (match den (X o v args) st with Some (x', st1) => Some (x', with_flags st1 (d_fl st)) | None => None end).
  destruct (den (X o v args) st) as [[x' st1]|] eqn:E; [|reflexivity].
  rewrite (den_atom_state o v args st x' st1 Ho E), with_flags_id. reflexivity.
Qed.
