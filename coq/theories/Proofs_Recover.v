From GC Require Import Base Model_Recover.

(* the handler as it is: main never leaves wg.Wait, so the only way to end is the worker's panic *)
Lemma crash_invariant found code sch : forall s,
  mpc s = MWaiting -> signalled s = false ->
  run_schedule worker_step found code sch s = None \/ run_schedule worker_step found code sch s = Some 2%Z.
Proof.
  induction sch as [|w r IH]; intros s Hm Hs; [left; reflexivity|].
  simpl. destruct w.
  - unfold worker_step. destruct (wpc s); try (apply IH; simpl; assumption).
    right. reflexivity.
  - unfold main_step. rewrite Hm, Hs. apply IH; assumption.
Qed.

Lemma crash_deterministic found code sch z :
  run_schedule worker_step found code sch rstart = Some z -> z = 2%Z.
Proof.
  intros H. destruct (crash_invariant found code sch rstart eq_refl eq_refl) as [E|E]; rewrite E in H; congruence.
Qed.

Lemma crash_terminates found code : run_schedule worker_step found code [true; true] rstart = Some 2%Z.
Proof. reflexivity. Qed.

(* the order before the repair: both the panic's status and main's status are reachable *)
Lemma prefix_races found code :
  run_schedule worker_step_prefix found code [true; true; true] rstart = Some 2%Z
  /\ run_schedule worker_step_prefix found code [true; false; false] rstart = Some (if found then code else 0%Z).
Proof. split; reflexivity. Qed.

Lemma prefix_crash_can_exit_zero :
  exists sch, run_schedule worker_step_prefix false 1%Z sch rstart = Some 0%Z.
Proof. exists [true; false; false]. reflexivity. Qed.

(* before the worker has signalled, main cannot end the process: the race window is exactly "after wg.Done()" *)
Lemma prefix_main_blocked_until_done found code n :
  run_schedule worker_step_prefix found code (repeat false n) rstart = None.
Proof. induction n as [|n IH]; [reflexivity|]. simpl. exact IH. Qed.
