(* Properties_C18.v — property C18: user rule files: group filtering and load-failure policy. *)
From GC Require Import Base Model_RuleFiles Proofs_RuleFiles.

(* An unknown failOn value is an initialisation error whatever else is configured. *)
Theorem C18_unknown_fail_on_always_error : forall c ps,
  parse_fail_on (c_fail_on c) (c_legacy c) = None -> init c ps = InitErr ErrUnknownFailOn.
Proof. exact unknown_fail_on_always_error. Qed.
Print Assumptions C18_unknown_fail_on_always_error.

(* With rules given, initialisation fails iff some pattern matches no file or some file fails with a
   class listed in failOn (incl. the legacy boolean) — for every sequence and mixture of faults. *)
Theorem C18_init_fails_iff : forall c ps fo,
  parse_fail_on (c_fail_on c) (c_legacy c) = Some fo -> String.eqb (c_rules c) "" = false ->
  ((exists e, init c ps = InitErr e) <-> has_no_match ps = true \/ listed_failure c fo ps = true).
Proof. exact init_fails_iff. Qed.
Print Assumptions C18_init_fails_iff.

(* In particular a malformed pattern (it matches no file) is an error whatever failOn says; before the
   repair it was logged and skipped even under failOn=all. *)
Theorem C18_bad_pattern_always_error : forall c ps fo,
  parse_fail_on (c_fail_on c) (c_legacy c) = Some fo -> String.eqb (c_rules c) "" = false ->
  In BadPattern ps -> exists e, init c ps = InitErr e.
Proof. exact bad_pattern_always_error. Qed.
Print Assumptions C18_bad_pattern_always_error.
Theorem C18_bad_pattern_skipped_prefix_refuted :
  exists c ps, In BadPattern ps /\ c_fail_on c = "all" /\ exists st, init_prefix c ps = PInitOk st.
Proof. exact bad_pattern_skipped_prefix_refuted. Qed.
Print Assumptions C18_bad_pattern_skipped_prefix_refuted.

(* Otherwise faulty files are skipped and exactly the enabled groups of the remaining files apply. *)
Theorem C18_survivors_apply : forall c ps st, init c ps = InitOk st ->
  active st = filter (group_enabled c) (valid_groups ps) /\ skipped st = invalid_names c (all_files ps).
Proof. exact survivors_apply. Qed.
Print Assumptions C18_survivors_apply.

(* Nothing loaded: the checker is a no-op (no spurious diagnostics). *)
Theorem C18_noop_when_nothing_loaded : forall c ps fo,
  parse_fail_on (c_fail_on c) (c_legacy c) = Some fo ->
  has_no_match ps = false -> listed_failure c fo ps = false ->
  count_valid c (all_files ps) = 0%N -> init c ps = InitNoop.
Proof. exact noop_when_nothing_loaded. Qed.
Print Assumptions C18_noop_when_nothing_loaded.

(* Group filter: enabled (by name, tag or "<all>") and not disabled by name or tag; experimental
   groups only on request. *)
Theorem C18_group_enabled_spec : forall c g, group_enabled c g = spec_group_enabled c g.
Proof. exact group_enabled_spec. Qed.
Print Assumptions C18_group_enabled_spec.
Theorem C18_experimental_only_on_request : forall c g,
  mem "experimental" (g_tags g) = true -> group_enabled c g = true -> mem "experimental" (enabled_tags c) = true.
Proof. exact experimental_only_on_request. Qed.
Print Assumptions C18_experimental_only_on_request.

(* The constructor before the repairs violated two of these statements. *)
Theorem C18_noop_when_nothing_loaded_prefix_refuted : exists c ps, init_prefix c ps = PInitEmptyEngine.
Proof. exact noop_when_nothing_loaded_prefix_refuted. Qed.
Print Assumptions C18_noop_when_nothing_loaded_prefix_refuted.
Theorem C18_unknown_fail_on_prefix_refuted :
  exists c ps, parse_fail_on (c_fail_on c) (c_legacy c) = None /\ init_prefix c ps = PInitNoop.
Proof. exact unknown_fail_on_prefix_refuted. Qed.
Print Assumptions C18_unknown_fail_on_prefix_refuted.

Example C18_example_mixture :
  let c := {| c_rules := "a.go,b*.go"; c_fail_on := "import"; c_legacy := false; c_enable := "<all>"; c_disable := "#test" |} in
  let ps := [Matches [("a.go", SyntaxErr)];
             Matches [("b1.go", Valid [{| g_name := "g1"; g_tags := ["style"] |}; {| g_name := "g2"; g_tags := ["test"] |}]);
                      ("b2.go", EmptyFile)]] in
  init c ps = InitOk {| active := [{| g_name := "g1"; g_tags := ["style"] |}]; skipped := ["a.go"; "b2.go"] |}.
Proof. vm_compute. reflexivity. Qed.
