(* Properties_C07.v — property C07 (every diagnostic points at a real syntactic element) for the modelled checkers:
   the position handed to ctx.Warn is the Pos() of a node of the analysed file, hence (by wf, which the tie checks
   against an independent go/scanner pass) the start of a token of that file; the zero-value suggestion of newDeref
   never contains a nil node. *)
From GC Require Import Base GoAst Model_Checkers Model_Checkers_Prefix Model_Checkers2 Model_Walkers Model_Comments Proofs_Checkers Proofs_Checkers2 Proofs_Walkers Proofs_Comments Proofs_Witnesses.

Theorem C07_newDeref_pos_valid : forall f, wf f = true -> forall w, In w (warnings (run_newDeref f)) -> In (w_pos w) (token_starts f).
Proof. exact (fun f W w H => cause_pos_valid f w W (newDeref_cause f w H)). Qed.
Print Assumptions C07_newDeref_pos_valid.

Theorem C07_flagName_pos_valid : forall f, wf f = true -> forall w, In w (warnings (run_flagName f)) -> In (w_pos w) (token_starts f).
Proof. exact (fun f W w H => cause_pos_valid f w W (proj1 (flagName_cause_callee f w H))). Qed.
Print Assumptions C07_flagName_pos_valid.

Theorem C07_filepathJoin_pos_valid : forall f, wf f = true -> forall w, In w (warnings (run_filepathJoin f)) -> In (w_pos w) (token_starts f).
Proof. exact (fun f W w H => cause_pos_valid f w W (filepathJoin_cause f w H)). Qed.
Print Assumptions C07_filepathJoin_pos_valid.

Theorem C07_dupOption_pos_valid : forall f, wf f = true -> forall w, In w (warnings (run_dupOption f)) -> In (w_pos w) (token_starts f).
Proof. exact (fun f W w H => cause_pos_valid f w W (dupOption_cause f w H)). Qed.
Print Assumptions C07_dupOption_pos_valid.

Theorem C07_appendCombine_pos_valid : forall f, wf f = true -> forall w, In w (warnings (run_appendCombine f)) -> In (w_pos w) (token_starts f).
Proof. exact (fun f W w H => cause_pos_valid f w W (appendCombine_cause f w H)). Qed.
Print Assumptions C07_appendCombine_pos_valid.

Theorem C07_appendAssign_pos_valid : forall f, wf f = true -> forall w, In w (warnings (run_appendAssign f)) -> In (w_pos w) (token_starts f).
Proof. exact (fun f W w H => cause_pos_valid f w W (appendAssign_cause f w H)). Qed.
Print Assumptions C07_appendAssign_pos_valid.

Theorem C07_typeDefFirst_pos_valid : forall f, wf f = true -> forall w, In w (warnings (run_typeDefFirst f)) -> In (w_pos w) (token_starts f).
Proof. exact (fun f W w H => cause_pos_valid f w W (typeDefFirst_cause f w H)). Qed.
Print Assumptions C07_typeDefFirst_pos_valid.

Theorem C07_sortSlice_pos_valid : forall f, wf f = true -> forall w, In w (warnings (run_sortSlice f)) -> In (w_pos w) (token_starts f).
Proof. exact (fun f W w H => cause_pos_valid f w W (sortSlice_cause f w H)). Qed.
Print Assumptions C07_sortSlice_pos_valid.

Theorem C07_evalOrder_pos_valid : forall f, wf f = true -> forall w, In w (warnings (run_evalOrder f)) -> In (w_pos w) (token_starts f).
Proof. exact (fun f W w H => cause_pos_valid f w W (evalOrder_cause f w H)). Qed.
Print Assumptions C07_evalOrder_pos_valid.

Theorem C07_rangeAppendAll_pos_valid : forall f, wf f = true -> forall w, In w (warnings (run_rangeAppendAll f)) -> In (w_pos w) (token_starts f).
Proof. exact (fun f W w H => cause_pos_valid f w W (rangeAppendAll_cause f w H)). Qed.
Print Assumptions C07_rangeAppendAll_pos_valid.

Theorem C07_truncateCmp_pos_valid : forall skip f, wf f = true -> forall w, In w (warnings (run_truncateCmp skip f)) -> In (w_pos w) (token_starts f).
Proof. exact (fun skip f W w H => cause_pos_valid f w W (truncateCmp_cause skip f w H)). Qed.
Print Assumptions C07_truncateCmp_pos_valid.

Theorem C07_nilValReturn_pos_valid : forall f, wf f = true -> forall w, In w (warnings (run_nilValReturn f)) -> In (w_pos w) (token_starts f).
Proof. exact (fun f W w H => cause_pos_valid f w W (nilValReturn_cause f w H)). Qed.
Print Assumptions C07_nilValReturn_pos_valid.

Theorem C07_badRegexp_entry_silent : forall f w, ~ In w (warnings (run_badRegexp_entry f)).
Proof. exact (fun f w => regexp_entry_no_warnings badRegexp_names "badRegexp" f w). Qed.
Print Assumptions C07_badRegexp_entry_silent.

Theorem C07_regexpPattern_entry_silent : forall f w, ~ In w (warnings (run_regexpPattern_entry f)).
Proof. exact (fun f w => regexp_entry_no_warnings regexpPattern_names "regexpPattern" f w). Qed.
Print Assumptions C07_regexpPattern_entry_silent.

Theorem C07_regexpSimplify_entry_silent : forall f w, ~ In w (warnings (run_regexpSimplify_entry f)).
Proof. exact (fun f w => regexp_entry_no_warnings regexpSimplify_names "regexpSimplify" f w). Qed.
Print Assumptions C07_regexpSimplify_entry_silent.

Theorem C07_zero_value_no_nil_arg : forall f, wf f = true -> forall w, In w (warnings (run_newDeref f)) -> w_render_ok w = true.
Proof. exact (fun f _ w H => newDeref_render_ok f w H). Qed.
Print Assumptions C07_zero_value_no_nil_arg.

Theorem C07_prefix_zero_value_no_nil_arg_refuted : exists f, wf f = true /\ exists w, In w (Prefix.warnings (run_newDeref_prefix f)) /\ Prefix.w_render_ok w = false.
Proof. exact newDeref_prefix_render_refuted. Qed.
Print Assumptions C07_prefix_zero_value_no_nil_arg_refuted.


(* ---------- second batch (Model_Checkers2.v) ---------- *)

Theorem C07_builtinShadowDecl_pos_valid : forall f, wf f = true -> forall w, In w (warnings (run_builtinShadowDecl f)) -> In (w_pos w) (token_starts f).
Proof. exact (fun f W w H => cause_pos_valid f w W (builtinShadowDecl_cause f w H)). Qed.
Print Assumptions C07_builtinShadowDecl_pos_valid.

Theorem C07_defaultCaseOrder_pos_valid : forall f, wf f = true -> forall w, In w (warnings (run_defaultCaseOrder f)) -> In (w_pos w) (token_starts f).
Proof. exact (fun f W w H => cause_pos_valid f w W (defaultCaseOrder_cause f w H)). Qed.
Print Assumptions C07_defaultCaseOrder_pos_valid.

Theorem C07_emptyFallthrough_pos_valid : forall f, wf f = true -> forall w, In w (warnings (run_emptyFallthrough f)) -> In (w_pos w) (token_starts f).
Proof. exact (fun f W w H => cause_pos_valid f w W (emptyFallthrough_cause f w H)). Qed.
Print Assumptions C07_emptyFallthrough_pos_valid.

Theorem C07_initClause_pos_valid : forall f, wf f = true -> forall w, In w (warnings (run_initClause f)) -> In (w_pos w) (token_starts f).
Proof. exact (fun f W w H => cause_pos_valid f w W (initClause_cause f w H)). Qed.
Print Assumptions C07_initClause_pos_valid.

Theorem C07_deferInLoop_pos_valid : forall f, wf f = true -> forall w, In w (warnings (run_deferInLoop f)) -> In (w_pos w) (token_starts f).
Proof. exact (fun f W w H => cause_pos_valid f w W (deferInLoop_cause f w H)). Qed.
Print Assumptions C07_deferInLoop_pos_valid.

Theorem C07_paramTypeCombine_pos_valid : forall f, wf f = true -> forall w, In w (warnings (run_paramTypeCombine f)) -> In (w_pos w) (token_starts f).
Proof. exact (fun f W w H => cause_pos_valid f w W (paramTypeCombine_cause f w H)). Qed.
Print Assumptions C07_paramTypeCombine_pos_valid.

Theorem C07_ptrToRefParam_pos_valid : forall f, wf f = true -> forall w, In w (warnings (run_ptrToRefParam f)) -> In (w_pos w) (token_starts f).
Proof. exact (fun f W w H => cause_pos_valid f w W (ptrToRefParam_cause f w H)). Qed.
Print Assumptions C07_ptrToRefParam_pos_valid.

Theorem C07_sloppyTypeAssert_pos_valid : forall f, wf f = true -> forall w, In w (warnings (run_sloppyTypeAssert f)) -> In (w_pos w) (token_starts f).
Proof. exact (fun f W w H => cause_pos_valid f w W (sloppyTypeAssert_cause f w H)). Qed.
Print Assumptions C07_sloppyTypeAssert_pos_valid.

Theorem C07_octalLiteral_pos_valid : forall f, wf f = true -> forall w, In w (warnings (run_octalLiteral f)) -> In (w_pos w) (token_starts f).
Proof. exact (fun f W w H => cause_pos_valid f w W (octalLiteral_cause f w H)). Qed.
Print Assumptions C07_octalLiteral_pos_valid.

Theorem C07_hexLiteral_pos_valid : forall f, wf f = true -> forall w, In w (warnings (run_hexLiteral f)) -> In (w_pos w) (token_starts f).
Proof. exact (fun f W w H => cause_pos_valid f w W (hexLiteral_cause f w H)). Qed.
Print Assumptions C07_hexLiteral_pos_valid.

Theorem C07_weakCond_pos_valid : forall f, wf f = true -> forall w, In w (warnings (run_weakCond f)) -> In (w_pos w) (token_starts f).
Proof. exact (fun f W w H => cause_pos_valid f w W (weakCond_cause f w H)). Qed.
Print Assumptions C07_weakCond_pos_valid.

Theorem C07_methodExprCall_pos_valid : forall f, wf f = true -> forall w, In w (warnings (run_methodExprCall f)) -> In (w_pos w) (token_starts f).
Proof. exact (fun f W w H => cause_pos_valid f w W (methodExprCall_cause f w H)). Qed.
Print Assumptions C07_methodExprCall_pos_valid.

Theorem C07_dupBranchBody_pos_valid : forall f, wf f = true -> forall w, In w (warnings (run_dupBranchBody f)) -> In (w_pos w) (token_starts f).
Proof. exact (fun f W w H => cause_pos_valid f w W (dupBranchBody_cause f w H)). Qed.
Print Assumptions C07_dupBranchBody_pos_valid.

Theorem C07_exitAfterDefer_pos_valid : forall f, wf f = true -> forall w, In w (warnings (run_exitAfterDefer f)) -> In (w_pos w) (token_starts f).
Proof. exact (fun f W w H => cause_pos_valid f w W (exitAfterDefer_cause f w H)). Qed.
Print Assumptions C07_exitAfterDefer_pos_valid.

Theorem C07_singleCaseSwitch_pos_valid : forall f, wf f = true -> forall w, In w (warnings (run_singleCaseSwitch f)) -> In (w_pos w) (token_starts f).
Proof. exact (fun f W w H => cause_pos_valid f w W (singleCaseSwitch_cause f w H)). Qed.
Print Assumptions C07_singleCaseSwitch_pos_valid.

Theorem C07_elseif_pos_valid : forall skip_balanced f, wf f = true -> forall w, In w (warnings (run_elseif skip_balanced f)) -> In (w_pos w) (token_starts f).
Proof. exact (fun p f W w H => cause_pos_valid f w W (elseif_cause p f w H)). Qed.
Print Assumptions C07_elseif_pos_valid.

Theorem C07_underef_pos_valid : forall skip_recv f, wf f = true -> forall w, In w (warnings (run_underef skip_recv f)) -> In (w_pos w) (token_starts f).
Proof. exact (fun p f W w H => cause_pos_valid f w W (underef_cause p f w H)). Qed.
Print Assumptions C07_underef_pos_valid.

Theorem C07_unnamedResult_pos_valid : forall check_exported f, wf f = true -> forall w, In w (warnings (run_unnamedResult check_exported f)) -> In (w_pos w) (token_starts f).
Proof. exact (fun p f W w H => cause_pos_valid f w W (unnamedResult_cause p f w H)). Qed.
Print Assumptions C07_unnamedResult_pos_valid.

Theorem C07_captLocal_pos_valid : forall params_only f, wf f = true -> forall w, In w (warnings (run_captLocal params_only f)) -> In (w_pos w) (token_starts f).
Proof. exact (fun p f W w H => cause_pos_valid f w W (captLocal_cause p f w H)). Qed.
Print Assumptions C07_captLocal_pos_valid.

Theorem C07_builtinShadow_pos_valid : forall f, wf f = true -> forall w, In w (warnings (run_builtinShadow f)) -> In (w_pos w) (token_starts f).
Proof. exact (fun f W w H => cause_pos_valid f w W (builtinShadow_cause f w H)). Qed.
Print Assumptions C07_builtinShadow_pos_valid.

Theorem C07_localDefWalker_shows_file_nodes : forall visit f w, (forall def w, In w (visit def) -> w_cause w = fst def) -> In w (warnings (run_localdef visit f)) -> In (w_cause w) (all_nodes f).
Proof. exact (fun visit f w V H => run_localdef_cause visit f w V H). Qed.
Print Assumptions C07_localDefWalker_shows_file_nodes.

(* ---------- the astwalk walkers (Model_Walkers.v): whatever a walker shows to ANY visitor is a subsequence of the file's nodes in
   pre-order: every shown node is a node of the file, in source order, and no occurrence is shown twice ---------- *)

Theorem C07_exprWalker_subseq : forall enter skip f l, walk_expr enter skip f = R l -> subseq l (all_nodes f).
Proof. exact (walk_expr_subseq). Qed.
Print Assumptions C07_exprWalker_subseq.

Theorem C07_bodyWalkers_subseq : forall cls enter skip f l, body_walk cls enter skip f = R l -> subseq l (all_nodes f).
Proof. exact (body_walk_subseq). Qed.
Print Assumptions C07_bodyWalkers_subseq.

Theorem C07_funcDeclWalker_subseq : forall enter f l, walk_func_decl enter f = R l -> subseq l (all_nodes f).
Proof. exact (walk_func_decl_subseq). Qed.
Print Assumptions C07_funcDeclWalker_subseq.

Theorem C07_typeExprWalker_subseq : forall enter skip f l, walk_type_expr enter skip f = R l -> subseq l (all_nodes f).
Proof. exact (walk_type_expr_subseq). Qed.
Print Assumptions C07_typeExprWalker_subseq.

Theorem C07_shown_node_pos_valid : forall f l, wf f = true -> subseq l (all_nodes f) -> forall n, In n l -> In (npos n) (token_starts f).
Proof. exact (fun f l W S n H => wf_pos_of f n W (subseq_In l (all_nodes f) n S H)). Qed.
Print Assumptions C07_shown_node_pos_valid.

Theorem C07_shown_at_most_once : forall f l, NoDup (all_nodes f) -> subseq l (all_nodes f) -> NoDup l.
Proof. exact (fun f l N S => subseq_NoDup l (all_nodes f) S N). Qed.
Print Assumptions C07_shown_at_most_once.

Theorem C07_exprWalker_noskip_is_expr_nodes : forall f, walk_expr decl_entered (fun _ => false) f = R (expr_nodes f).
Proof. exact (walk_expr_noskip). Qed.
Print Assumptions C07_exprWalker_noskip_is_expr_nodes.

Theorem C07_stmtWalker_noskip_is_stmt_nodes : forall f l, walk_stmt decl_entered (fun _ => false) f = R l -> l = stmt_nodes f.
Proof. exact (walk_stmt_noskip). Qed.
Print Assumptions C07_stmtWalker_noskip_is_stmt_nodes.

Theorem C07_unlambda_pos_valid : forall f, wf f = true -> forall w, In w (warnings (run_unlambda f)) -> In (w_pos w) (token_starts f).
Proof. exact (fun f W w H => cause_pos_valid f w W (unlambda_cause f w H)). Qed.
Print Assumptions C07_unlambda_pos_valid.

(* ---------- the comment walkers (Comment, LocalComment, DocComment) ---------- *)

Theorem C07_commentWalker_partition : forall cs, concat (walk_comments cs) = concat (c_groups cs).
Proof. exact (walk_comments_partition). Qed.
Print Assumptions C07_commentWalker_partition.

Theorem C07_commentWalker_groups_uniform : forall cs g, In g (walk_comments cs) -> group_uniform g.
Proof. exact (walk_comments_uniform). Qed.
Print Assumptions C07_commentWalker_groups_uniform.

Theorem C07_localCommentWalker_shows_file_comments : forall enter f cs g c, In g (walk_local_comments enter f cs) -> In c g -> In c (concat (c_groups cs)) /\ group_uniform g.
Proof. exact (walk_local_comments_members). Qed.
Print Assumptions C07_localCommentWalker_shows_file_comments.

Theorem C07_docCommentWalker_shows_doc_fields : forall f cs g, In g (walk_doc_comments f cs) -> exists n, In n (all_nodes f) /\ In (tag_code n, npos n, g) (c_docs cs).
Proof. exact (walk_doc_comments_docs). Qed.
Print Assumptions C07_docCommentWalker_shows_doc_fields.

Theorem C07_deprecatedComment_pos_valid : forall f cs ct w, wf_comments f cs = true -> In w (warnings (run_deprecatedComment f cs ct)) -> In (w_pos w) (token_starts f).
Proof. exact (deprecatedComment_pos_valid). Qed.
Print Assumptions C07_deprecatedComment_pos_valid.
