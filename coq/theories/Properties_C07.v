(* Properties_C07.v — property C07 (every diagnostic points at a real syntactic element) for modelled checkers:
   the position handed to ctx.Warn is the Pos() of a node of the analysed file, hence (by wf, which the tie checks
   against an independent go/scanner pass) the start of a token. *)
From GC Require Import Base GoAst Model_Checkers Proofs_Checkers Proofs_Witnesses.

Theorem C07_newDeref_pos_valid : forall f, wf f = true -> forall w, In w (warnings (run_newDeref f)) -> In (w_pos w) (token_starts f).
Proof. exact (fun f W w H => cause_pos_valid f w W (newDeref_cause f w H)). Qed.
Print Assumptions C07_newDeref_pos_valid.

Theorem C07_flagName_pos_valid : forall f, wf f = true -> forall w, In w (warnings (run_flagName f)) -> In (w_pos w) (token_starts f).
Proof. exact (fun f W w H => cause_pos_valid f w W (proj1 (flagName_cause_callee f w H))). Qed.
Print Assumptions C07_flagName_pos_valid.

Theorem C07_filepathJoin_pos_valid : forall f, wf f = true -> forall w, In w (warnings (run_filepathJoin f)) -> In (w_pos w) (token_starts f).
Proof. exact (fun f W w H => cause_pos_valid f w W (filepathJoin_cause f w H)). Qed.
Print Assumptions C07_filepathJoin_pos_valid.

Theorem C07_dupOption_pos_valid : forall f, wf f = true -> forall w, In w (warnings (run_dupOption f)) -> In (w_pos w) (token_starts f).
Proof. exact (fun f W w H => cause_pos_valid f w W (dupOption_cause f w H)). Qed.
Print Assumptions C07_dupOption_pos_valid.

Theorem C07_zero_value_no_nil_arg_refuted : exists f, wf f = true /\ exists w, In w (warnings (run_newDeref f)) /\ w_render_ok w = false.
Proof. exact newDeref_render_refuted. Qed.
Print Assumptions C07_zero_value_no_nil_arg_refuted.

Theorem C07_zero_value_no_nil_arg_partial : forall f, wf f = true -> all_nodes_sat g_new_has_literal f -> forall w, In w (warnings (run_newDeref f)) -> w_render_ok w = true.
Proof. exact (fun f _ G w H => newDeref_render_partial f w G H). Qed.
Print Assumptions C07_zero_value_no_nil_arg_partial.

