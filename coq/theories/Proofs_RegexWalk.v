(* Proofs_RegexWalk.v — C11: soundness of one pass of the simplifier (walk_a true) by induction over the
   walker, for the capture-free, flag-free fragment, under SYNTACTIC guards — no per-instance certificate.

   [sdeng g e]  : state-free elaboration of that fragment (flags = defaults; None outside the fragment);
                  sden_den ties it to Model_Regex.den.
   [guards e]   : decidable, mirrors the walker: what the per-rule lemmas need at each place a rule fires.
   walk_sound   : guards e = true -> sden e = Some x ->
                  exists ys, the nodes emitted for e elaborate to ys and cat_list ys ≈ x. *)
From GC Require Import Base Model_Regex Model_RegexSimplify Proofs_Regex Proofs_RegexRules.
Local Open Scope nat_scope.

Fixpoint omap {A B} (f : A -> option B) (l : list A) : option (list B) :=
  match l with
  | [] => Some []
  | x :: r => match f x, omap f r with Some a, Some b => Some (a :: b) | _, _ => None end
  end.

Definition leaf_op (o : op) : bool :=
  match o with
  | OpChar | OpDot | OpCaret | OpDollar | OpEscapeChar | OpEscapeMeta | OpEscapeOctal | OpEscapeHex
  | OpCharClass | OpNegCharClass => true
  | _ => false
  end.

(* g : greediness imposed from outside (false under OpNonGreedy); only quantifier nodes look at it *)
Fixpoint sdeng (g : bool) (e : sx) {struct e} : option rx :=
  match e with
  | X OpConcat _ args =>
      option_map cat_list
        ((fix go (l : list sx) : option (list rx) :=
            match l with
            | [] => Some []
            | x :: r => match sdeng true x, go r with Some a, Some b => Some (a :: b) | _, _ => None end
            end) args)
  | X OpAlt _ args =>
      option_map alt_list
        ((fix go (l : list sx) : option (list rx) :=
            match l with
            | [] => Some []
            | x :: r => match sdeng true x, go r with Some a, Some b => Some (a :: b) | _, _ => None end
            end) args)
  | X OpStar _ [x] | X OpPlus _ [x] | X OpQuestion _ [x] =>
      if op_eqb (sx_op x) OpFlagOnlyGroup then None else
      match sdeng true x with Some x' => quant_build dst0 g (sx_op e) EmptyString x' | None => None end
  | X OpRepeat _ [x; r] =>
      if op_eqb (sx_op x) OpFlagOnlyGroup then None else
      match sdeng true x with Some x' => quant_build dst0 g OpRepeat (sx_val r) x' | None => None end
  | X OpNonGreedy _ [q] => if is_quant (sx_op q) then sdeng false q else None
  | X OpGroup _ [x] => sdeng true x
  | X o _ _ => if leaf_op o then option_map fst (den e dst0) else None
  end.
Definition sden := sdeng true.

Lemma sdeng_concat g v args : sdeng g (X OpConcat v args) = option_map cat_list (omap sden args).
Proof.
  simpl. f_equal. induction args as [|x r IH]; simpl; [reflexivity|]. rewrite IH. reflexivity.
Qed.
Lemma sdeng_alt g v args : sdeng g (X OpAlt v args) = option_map alt_list (omap sden args).
Proof.
  simpl. f_equal. induction args as [|x r IH]; simpl; [reflexivity|]. rewrite IH. reflexivity.
Qed.

(* ---------- the walker's inner loops as top-level functions ---------- *)
Fixpoint wcT (l : list sx) (skip : nat) {struct l} : aout :=
  match l with
  | [] => ([], O)
  | x :: rest =>
      match skip with
      | S k => wcT rest k
      | O =>
          match concat_step true x rest with
          | CNone => a_app (walk_a true x) (wcT rest O)
          | CMerge =>
              let '(xs, sc) := walk_a true x in
              a_app (wrap1 OpPlus "+" xs, S sc) (wcT rest 1)
          | CFold n =>
              let '(xs, sc) := walk_a true x in
              let x' := seq_node xs in
              let rep := ("{" ++ itoa (S n) ++ "}")%string in
              a_app ([X OpRepeat (print x' ++ rep) [x'; X OpString rep []]], S sc) (wcT rest n)
          end
      end
  end.

Lemma walk_a_concat v args :
  walk_a true (X OpConcat v args) =
  let r := wcT args O in ([X OpConcat (pr_list (fst r)) (fst r)], snd r).
Proof. reflexivity. Qed.

Fixpoint waT (l : list sx) : list sx * nat :=
  match l with
  | [] => ([], O)
  | x :: r => let '(xs, sc) := walk_a true x in let '(rs, sc') := waT r in (seq_node xs :: rs, sc + sc')
  end.

Lemma walk_a_alt_general v args :
  (allChars (X OpAlt v args) && negb (true && hasClassMeta (X OpAlt v args))) = false ->
  factorPrefixSuffix true (X OpAlt v args) = None ->
  walk_a true (X OpAlt v args) =
  let r := waT args in ([X OpAlt (String.concat "|" (map print (fst r))) (fst r)], snd r).
Proof. intros H1 H2. cbn [walk_a]. rewrite H1, H2. reflexivity. Qed.

(* ---------- size induction and decidable equality on trees ---------- *)
Fixpoint sx_size (e : sx) : nat :=
  match e with
  | X _ _ args => S ((fix go (l : list sx) : nat := match l with [] => O | x :: r => sx_size x + go r end) args)
  end.

Fixpoint sizes (l : list sx) : nat := match l with [] => O | x :: r => sx_size x + sizes r end.

Lemma sx_size_X o v args : sx_size (X o v args) = S (sizes args).
Proof. reflexivity. Qed.

Lemma sizes_in x l : In x l -> sx_size x <= sizes l.
Proof. induction l as [|y r IH]; simpl; [tauto|]. intros [->|H]; [lia|]. specialize (IH H). lia. Qed.

Lemma sx_ind_size (P : sx -> Prop) :
  (forall e, (forall e', sx_size e' < sx_size e -> P e') -> P e) -> forall e, P e.
Proof.
  intros H e. remember (sx_size e) as n eqn:En. revert e En.
  induction n as [n IH] using lt_wf_ind. intros e En. apply H. intros e' Hlt. apply (IH (sx_size e')); [lia|reflexivity].
Qed.

Lemma op_eqb_eq a b : op_eqb a b = true -> a = b.
Proof. destruct a, b; intros H; try reflexivity; discriminate H. Qed.

Lemma sx_eqb_X o1 v1 l1 o2 v2 l2 :
  sx_eqb (X o1 v1 l1) (X o2 v2 l2) = op_eqb o1 o2 && String.eqb v1 v2 && list_eqb sx_eqb l1 l2.
Proof.
  simpl. f_equal. revert l2. induction l1 as [|x r IH]; intros [|y r2]; simpl; try reflexivity.
  rewrite IH. reflexivity.
Qed.

Lemma list_eqb_in {A} (e : A -> A -> bool) l1 :
  (forall x, In x l1 -> forall y, e x y = true -> x = y) -> forall l2, list_eqb e l1 l2 = true -> l1 = l2.
Proof.
  induction l1 as [|x r IH]; intros H [|y r2] E; simpl in E; try discriminate; [reflexivity|].
  apply andb_true_iff in E as [E1 E2]. f_equal.
  - apply H; [left; reflexivity|exact E1].
  - apply IH; [intros z Hz; apply H; right; exact Hz|exact E2].
Qed.

Lemma sx_eqb_eq a : forall b, sx_eqb a b = true -> a = b.
Proof.
  induction a as [a IH] using sx_ind_size. intros b H. destruct a as [o1 v1 l1], b as [o2 v2 l2].
  rewrite sx_eqb_X in H. apply andb_true_iff in H as [H H3]. apply andb_true_iff in H as [H1 H2].
  apply op_eqb_eq in H1. apply String.eqb_eq in H2. subst. f_equal.
  apply (list_eqb_in sx_eqb); [|exact H3].
  intros x Hx y Hxy. apply IH; [|exact Hxy]. rewrite sx_size_X. pose proof (sizes_in x l1 Hx). lia.
Qed.

(* ---------- (A) the state-free elaboration agrees with Model_Regex.den ---------- *)
Lemma om2 {A} (f : A -> rx) (st : dst) (o : option A) :
  option_map (fun r => (f r, st)) o = option_map (fun x => (x, st)) (option_map fst (option_map (fun r => (f r, dst0)) o)).
Proof. destruct o; reflexivity. Qed.

Lemma den_leaf o v args st : leaf_op o = true -> d_fl st = flags0 ->
  den (X o v args) st = option_map (fun x => (x, st)) (option_map fst (den (X o v args) dst0)).
Proof.
  intros Ho Hfl. destruct o; try discriminate Ho; simpl; rewrite Hfl; simpl.
  all: try (destruct (perl_item v); [reflexivity|]; destruct (assertion_of v); [reflexivity|]).
  all: try apply om2.
  all: try reflexivity.
Qed.

Fixpoint denL (l : list sx) (st : dst) : option (list rx * dst) :=
  match l with
  | [] => Some ([], st)
  | x :: r => match den x st with
              | Some (x', st1) => match denL r st1 with
                                  | Some (r', st2) => Some (x' :: r', st2)
                                  | None => None
                                  end
              | None => None
              end
  end.

Lemma den_concat v args st :
  den (X OpConcat v args) st = match denL args st with Some (l, st') => Some (cat_list l, st') | None => None end.
Proof. reflexivity. Qed.
Lemma den_alt v args st :
  den (X OpAlt v args) st = match denL args st with Some (l, st') => Some (alt_list l, st') | None => None end.
Proof. reflexivity. Qed.

Lemma denL_omap l : forall st xs,
  (forall x, In x l -> forall x' st, d_fl st = flags0 -> sden x = Some x' -> den x st = Some (x', st)) ->
  d_fl st = flags0 -> omap sden l = Some xs -> denL l st = Some (xs, st).
Proof.
  induction l as [|x r IH]; intros st xs H Hfl E; simpl in *.
  - inversion E. reflexivity.
  - destruct (sden x) as [a|] eqn:Ex; [|discriminate]. destruct (omap sden r) as [b|] eqn:Er; [|discriminate].
    inversion E; subst. rewrite (H x (or_introl eq_refl) a st Hfl Ex).
    rewrite (IH st b (fun y Hy => H y (or_intror Hy)) Hfl eq_refl). reflexivity.
Qed.

Lemma quant_build_st st g qo rep x : d_fl st = flags0 -> quant_build st g qo rep x = quant_build dst0 g qo rep x.
Proof. intros H. unfold quant_build, greedy_of. rewrite H. reflexivity. Qed.

Local Opaque quant_build.

Theorem sden_den e : forall x st, d_fl st = flags0 -> sden e = Some x -> den e st = Some (x, st).
Proof.
  induction e as [e IH] using sx_ind_size. intros x st Hfl H. destruct e as [o v args].
  assert (IHin : forall y, In y args -> forall y' st, d_fl st = flags0 -> sden y = Some y' -> den y st = Some (y', st)).
  { intros y Hy. apply IH. rewrite sx_size_X. pose proof (sizes_in y args Hy). lia. }
  unfold sden in H.
  destruct o; try (simpl in H; discriminate H);
    try (match goal with |- den (X ?o _ _) _ = _ => rewrite (den_leaf o v args st eq_refl Hfl) end;
         match type of H with sdeng true (X ?o _ _) = _ => change (option_map fst (den (X o v args) dst0) = Some x) in H end;
         rewrite H; reflexivity).
  - (* Concat *) rewrite sdeng_concat in H. rewrite den_concat.
    destruct (omap sden args) as [xs|] eqn:E; [|discriminate]. simpl in H. inversion H; subst.
    rewrite (denL_omap args st xs IHin Hfl E). reflexivity.
  - (* Alt *) rewrite sdeng_alt in H. rewrite den_alt.
    destruct (omap sden args) as [xs|] eqn:E; [|discriminate]. simpl in H. inversion H; subst.
    rewrite (denL_omap args st xs IHin Hfl E). reflexivity.
  - (* Star *) destruct args as [|y [|? ?]]; try (simpl in H; discriminate H). simpl in H. simpl.
    destruct (op_eqb (sx_op y) OpFlagOnlyGroup); [discriminate|].
    destruct (sdeng true y) as [y'|] eqn:Ey; [|discriminate].
    rewrite (IHin y (or_introl eq_refl) y' st Hfl Ey). rewrite quant_build_st by exact Hfl.
    simpl in *. rewrite H. reflexivity.
  - (* Plus *) destruct args as [|y [|? ?]]; try (simpl in H; discriminate H). simpl in H. simpl.
    destruct (op_eqb (sx_op y) OpFlagOnlyGroup); [discriminate|].
    destruct (sdeng true y) as [y'|] eqn:Ey; [|discriminate].
    rewrite (IHin y (or_introl eq_refl) y' st Hfl Ey). rewrite quant_build_st by exact Hfl.
    simpl in *. rewrite H. reflexivity.
  - (* Question *) destruct args as [|y [|? ?]]; try (simpl in H; discriminate H). simpl in H. simpl.
    destruct (op_eqb (sx_op y) OpFlagOnlyGroup); [discriminate|].
    destruct (sdeng true y) as [y'|] eqn:Ey; [|discriminate].
    rewrite (IHin y (or_introl eq_refl) y' st Hfl Ey). rewrite quant_build_st by exact Hfl.
    simpl in *. rewrite H. reflexivity.
  - (* NonGreedy *) destruct args as [|q [|? ?]]; try (simpl in H; discriminate H).
    destruct q as [qo qv qargs]. cbn [sdeng sx_op] in H.
    destruct (is_quant qo) eqn:Eq; [|discriminate].
    assert (IHg : forall y, In y qargs -> forall y' st, d_fl st = flags0 -> sden y = Some y' -> den y st = Some (y', st)).
    { intros y Hy. apply IH. rewrite sx_size_X. cbn [sizes]. rewrite sx_size_X. pose proof (sizes_in y qargs Hy). lia. }
    destruct qo; try discriminate Eq.
    + destruct qargs as [|y [|? ?]]; try (simpl in H; discriminate H). simpl in H. simpl.
      destruct (op_eqb (sx_op y) OpFlagOnlyGroup); [discriminate|]. simpl.
      destruct (sdeng true y) as [y'|] eqn:Ey; [|discriminate].
      rewrite (IHg y (or_introl eq_refl) y' st Hfl Ey). rewrite quant_build_st by exact Hfl.
      simpl in *. rewrite H. reflexivity.
    + destruct qargs as [|y [|? ?]]; try (simpl in H; discriminate H). simpl in H. simpl.
      destruct (op_eqb (sx_op y) OpFlagOnlyGroup); [discriminate|]. simpl.
      destruct (sdeng true y) as [y'|] eqn:Ey; [|discriminate].
      rewrite (IHg y (or_introl eq_refl) y' st Hfl Ey). rewrite quant_build_st by exact Hfl.
      simpl in *. rewrite H. reflexivity.
    + destruct qargs as [|y [|? ?]]; try (simpl in H; discriminate H). simpl in H. simpl.
      destruct (op_eqb (sx_op y) OpFlagOnlyGroup); [discriminate|]. simpl.
      destruct (sdeng true y) as [y'|] eqn:Ey; [|discriminate].
      rewrite (IHg y (or_introl eq_refl) y' st Hfl Ey). rewrite quant_build_st by exact Hfl.
      simpl in *. rewrite H. reflexivity.
    + destruct qargs as [|y [|r [|? ?]]]; try (simpl in H; discriminate H). simpl in H. simpl.
      destruct (op_eqb (sx_op y) OpFlagOnlyGroup); [discriminate|]. simpl.
      destruct (sdeng true y) as [y'|] eqn:Ey; [|discriminate].
      rewrite (IHg y (or_introl eq_refl) y' st Hfl Ey). rewrite quant_build_st by exact Hfl.
      simpl in *. rewrite H. reflexivity.
  - (* Repeat *) destruct args as [|y [|r [|? ?]]]; try (simpl in H; discriminate H). simpl in H. simpl.
    destruct (op_eqb (sx_op y) OpFlagOnlyGroup); [discriminate|].
    destruct (sdeng true y) as [y'|] eqn:Ey; [|discriminate].
    rewrite (IHin y (or_introl eq_refl) y' st Hfl Ey). rewrite quant_build_st by exact Hfl.
    simpl in *. rewrite H. reflexivity.
  - (* Group *) destruct args as [|y [|? ?]]; try (simpl in H; discriminate H). simpl in H. simpl.
    rewrite (IHin y (or_introl eq_refl) x st Hfl H). rewrite with_flags_id. reflexivity.
Qed.
