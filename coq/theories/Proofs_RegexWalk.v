(* Proofs_RegexWalk.v — C11: soundness of one pass of the simplifier (walk_a true) by induction over the
   walker, for the capture-free, flag-free fragment, under SYNTACTIC guards — no per-instance certificate.

   [sdeng g e]  : state-free elaboration of that fragment (flags = defaults; None outside the fragment);
                  sden_den ties it to Model_Regex.den.
   [guards e]   : decidable, mirrors the walker: what the per-rule lemmas need at each place a rule fires.
   walk_sound   : guards e = true -> sden e = Some x ->
                  exists ys, the nodes emitted for e elaborate to ys and cat_list ys ≈ x. *)
From GC Require Import Base Model_Regex Model_RegexSimplify Proofs_Regex Proofs_RegexRules.
Local Open Scope nat_scope.

(* ---------- the relation carried through the induction ----------
   observational equivalence, plus the two syntactic facts that keep the emitted tree inside the domain in
   which the matcher model is exact (Model_Regex.loops_ok) *)
Definition rel (y x : rx) : Prop := y ≈ x /\ consumes y = consumes x /\ loops_ok y = loops_ok x.
Infix "≃" := rel (at level 70).

Lemma rel_refl a : a ≃ a. Proof. split; [apply req_refl|split; reflexivity]. Qed.
Lemma rel_sym a b : a ≃ b -> b ≃ a.
Proof. intros (H1 & H2 & H3). split; [apply req_sym, H1|split; congruence]. Qed.
Lemma rel_trans a b c : a ≃ b -> b ≃ c -> a ≃ c.
Proof. intros (H1 & H2 & H3) (G1 & G2 & G3). split; [eapply req_trans; eassumption|split; congruence]. Qed.
Lemma rel_cat a a' b b' : a ≃ a' -> b ≃ b' -> RCat a b ≃ RCat a' b'.
Proof. intros (H1 & H2 & H3) (G1 & G2 & G3). split; [apply req_cat; assumption|split; simpl; congruence]. Qed.
Lemma rel_alt a a' b b' : a ≃ a' -> b ≃ b' -> RAlt a b ≃ RAlt a' b'.
Proof. intros (H1 & H2 & H3) (G1 & G2 & G3). split; [apply req_alt; assumption|split; simpl; congruence]. Qed.
Lemma rel_star g a a' : a ≃ a' -> RStar g a ≃ RStar g a'.
Proof. intros (H1 & H2 & H3). split; [apply req_star; assumption|split; simpl; congruence]. Qed.
Lemma rel_plus g a a' : a ≃ a' -> RPlus g a ≃ RPlus g a'.
Proof. intros (H1 & H2 & H3). split; [apply req_plus; assumption|split; simpl; congruence]. Qed.
Lemma rel_quest g a a' : a ≃ a' -> RQuest g a ≃ RQuest g a'.
Proof. intros (H1 & H2 & H3). split; [apply req_quest; assumption|split; simpl; congruence]. Qed.

Lemma rel_cat_empty_l a : RCat REmpty a ≃ a.
Proof. split; [apply cat_empty_l|split; reflexivity]. Qed.
Lemma rel_cat_empty_r a : RCat a REmpty ≃ a.
Proof. split; [apply cat_empty_r|split; [simpl; apply orb_false_r|simpl; apply andb_true_r]]. Qed.
Lemma rel_cat_assoc a b c : RCat (RCat a b) c ≃ RCat a (RCat b c).
Proof. split; [apply cat_assoc|split; [simpl; symmetry; apply orb_assoc|simpl; symmetry; apply andb_assoc]]. Qed.

Lemma rel_cat_list_cons x l : cat_list (x :: l) ≃ RCat x (cat_list l).
Proof.
  destruct l as [|y l]; simpl.
  - apply rel_sym, rel_cat_empty_r.
  - apply rel_refl.
Qed.

Lemma rel_cat_list_app l1 l2 : cat_list (l1 ++ l2) ≃ RCat (cat_list l1) (cat_list l2).
Proof.
  induction l1 as [|x l1 IH].
  - simpl. apply rel_sym, rel_cat_empty_l.
  - change ((x :: l1) ++ l2)%list with (x :: (l1 ++ l2))%list.
    eapply rel_trans; [apply rel_cat_list_cons|].
    eapply rel_trans; [apply rel_cat; [apply rel_refl|exact IH]|].
    eapply rel_trans; [apply rel_sym, rel_cat_assoc|].
    apply rel_cat; [apply rel_sym, rel_cat_list_cons|apply rel_refl].
Qed.

Lemma rel_cat_list_congr l1 l2 : Forall2 rel l1 l2 -> cat_list l1 ≃ cat_list l2.
Proof.
  induction 1 as [|x y l1 l2 Hxy Hl IH].
  - apply rel_refl.
  - eapply rel_trans; [apply rel_cat_list_cons|]. apply rel_sym.
    eapply rel_trans; [apply rel_cat_list_cons|]. apply rel_sym.
    apply rel_cat; assumption.
Qed.

Lemma rel_alt_list_congr l1 l2 : Forall2 rel l1 l2 -> alt_list l1 ≃ alt_list l2.
Proof.
  induction 1 as [|x y l1 l2 Hxy Hl IH].
  - apply rel_refl.
  - destruct Hl as [|x' y' l1' l2' Hx' Hl'].
    + simpl. exact Hxy.
    + rewrite !alt_list_cons. apply rel_alt; assumption.
Qed.

Lemma rel_merge g a : consumes a = true -> RCat a (RStar g a) ≃ RPlus g a.
Proof.
  intros Hc. split; [apply merge_x_xstar_plus, Hc|split; [simpl; apply orb_false_r|]].
  simpl. rewrite Hc. destruct (loops_ok a); reflexivity.
Qed.

Lemma alt_sets_synt fold rs : rs <> [] ->
  consumes (alt_list (map (set1 fold) rs)) = true /\ loops_ok (alt_list (map (set1 fold) rs)) = true.
Proof.
  induction rs as [|r rs IH]; [congruence|]. intros _. destruct rs as [|r2 rs]; [split; reflexivity|].
  change (map (set1 fold) (r :: r2 :: rs)) with (set1 fold r :: set1 fold r2 :: map (set1 fold) rs).
  rewrite alt_list_cons. destruct (IH ltac:(discriminate)) as [H1 H2]. simpl in *. rewrite H1, H2. split; reflexivity.
Qed.

Lemma rel_alt_chars_class fold rs : rs <> [] ->
  alt_list (map (set1 fold) rs) ≃ RSet {| c_neg := false; c_fold := fold; c_items := char_items rs |}.
Proof.
  intros H. destruct (alt_sets_synt fold rs H) as [H1 H2].
  split; [apply alt_chars_class, H|split; [rewrite H1; reflexivity|rewrite H2; reflexivity]].
Qed.

Lemma rel_rset c1 c2 : (forall r, in_cls c1 r = in_cls c2 r) -> RSet c1 ≃ RSet c2.
Proof. intros H. split; [apply rset_ext, H|split; reflexivity]. Qed.

Fixpoint omap {A B} (f : A -> option B) (l : list A) : option (list B) :=
  match l with
  | [] => Some []
  | x :: r => match f x, omap f r with Some a, Some b => Some (a :: b) | _, _ => None end
  end.

Definition leaf_op (o : op) : bool :=
  match o with
  | OpChar | OpDot | OpCaret | OpDollar | OpEscapeChar | OpEscapeMeta | OpEscapeOctal | OpEscapeHex
  | OpCharClass | OpNegCharClass => true
  | _ => false
  end.

(* g : greediness imposed from outside (false under OpNonGreedy); only quantifier nodes look at it *)
Fixpoint sdeng (g : bool) (e : sx) {struct e} : option rx :=
  match e with
  | X OpConcat _ args =>
      option_map cat_list
        ((fix go (l : list sx) : option (list rx) :=
            match l with
            | [] => Some []
            | x :: r => match sdeng true x, go r with Some a, Some b => Some (a :: b) | _, _ => None end
            end) args)
  | X OpAlt _ args =>
      option_map alt_list
        ((fix go (l : list sx) : option (list rx) :=
            match l with
            | [] => Some []
            | x :: r => match sdeng true x, go r with Some a, Some b => Some (a :: b) | _, _ => None end
            end) args)
  | X OpStar _ [x] | X OpPlus _ [x] | X OpQuestion _ [x] =>
      if op_eqb (sx_op x) OpFlagOnlyGroup then None else
      match sdeng true x with Some x' => quant_build dst0 g (sx_op e) EmptyString x' | None => None end
  | X OpRepeat _ [x; r] =>
      if op_eqb (sx_op x) OpFlagOnlyGroup then None else
      match sdeng true x with Some x' => quant_build dst0 g OpRepeat (sx_val r) x' | None => None end
  | X OpNonGreedy _ [q] => if is_quant (sx_op q) then sdeng false q else None
  | X OpGroup _ [x] => sdeng true x
  | X o _ _ => if leaf_op o then option_map fst (den e dst0) else None
  end.
Definition sden := sdeng true.

Lemma sdeng_concat g v args : sdeng g (X OpConcat v args) = option_map cat_list (omap sden args).
Proof.
  simpl. f_equal. induction args as [|x r IH]; simpl; [reflexivity|]. rewrite IH. reflexivity.
Qed.
Lemma sdeng_alt g v args : sdeng g (X OpAlt v args) = option_map alt_list (omap sden args).
Proof.
  simpl. f_equal. induction args as [|x r IH]; simpl; [reflexivity|]. rewrite IH. reflexivity.
Qed.

(* ---------- the walker's inner loops as top-level functions ---------- *)
Fixpoint wcT (l : list sx) (skip : nat) {struct l} : aout :=
  match l with
  | [] => ([], O)
  | x :: rest =>
      match skip with
      | S k => wcT rest k
      | O =>
          match concat_step true x rest with
          | CNone => a_app (walk_a true x) (wcT rest O)
          | CMerge =>
              let '(xs, sc) := walk_a true x in
              a_app (wrap1 OpPlus "+" xs, S sc) (wcT rest 1)
          | CFold n =>
              let '(xs, sc) := walk_a true x in
              let x' := seq_node xs in
              let rep := ("{" ++ itoa (S n) ++ "}")%string in
              a_app ([X OpRepeat (print x' ++ rep) [x'; X OpString rep []]], S sc) (wcT rest n)
          end
      end
  end.

Lemma walk_a_concat v args :
  walk_a true (X OpConcat v args) =
  let r := wcT args O in ([X OpConcat (pr_list (fst r)) (fst r)], snd r).
Proof. reflexivity. Qed.

Fixpoint waT (l : list sx) : list sx * nat :=
  match l with
  | [] => ([], O)
  | x :: r => let '(xs, sc) := walk_a true x in let '(rs, sc') := waT r in (seq_node xs :: rs, sc + sc')
  end.

Lemma walk_a_alt_general v args :
  (allChars (X OpAlt v args) && negb (true && hasClassMeta (X OpAlt v args))) = false ->
  factorPrefixSuffix true (X OpAlt v args) = None ->
  walk_a true (X OpAlt v args) =
  let r := waT args in ([X OpAlt (String.concat "|" (map print (fst r))) (fst r)], snd r).
Proof. intros H1 H2. cbn [walk_a]. rewrite H1, H2. reflexivity. Qed.

(* ---------- size induction and decidable equality on trees ---------- *)
Fixpoint sx_size (e : sx) : nat :=
  match e with
  | X _ _ args => S ((fix go (l : list sx) : nat := match l with [] => O | x :: r => sx_size x + go r end) args)
  end.

Fixpoint sizes (l : list sx) : nat := match l with [] => O | x :: r => sx_size x + sizes r end.

Lemma sx_size_X o v args : sx_size (X o v args) = S (sizes args).
Proof. reflexivity. Qed.

Lemma sizes_in x l : In x l -> sx_size x <= sizes l.
Proof. induction l as [|y r IH]; simpl; [tauto|]. intros [->|H]; [lia|]. specialize (IH H). lia. Qed.

Lemma sx_ind_size (P : sx -> Prop) :
  (forall e, (forall e', sx_size e' < sx_size e -> P e') -> P e) -> forall e, P e.
Proof.
  intros H e. remember (sx_size e) as n eqn:En. revert e En.
  induction n as [n IH] using lt_wf_ind. intros e En. apply H. intros e' Hlt. apply (IH (sx_size e')); [lia|reflexivity].
Qed.

Lemma op_eqb_eq a b : op_eqb a b = true -> a = b.
Proof. destruct a, b; intros H; try reflexivity; discriminate H. Qed.

Lemma sx_eqb_X o1 v1 l1 o2 v2 l2 :
  sx_eqb (X o1 v1 l1) (X o2 v2 l2) = op_eqb o1 o2 && String.eqb v1 v2 && list_eqb sx_eqb l1 l2.
Proof.
  simpl. f_equal. revert l2. induction l1 as [|x r IH]; intros [|y r2]; simpl; try reflexivity.
  rewrite IH. reflexivity.
Qed.

Lemma list_eqb_in {A} (e : A -> A -> bool) l1 :
  (forall x, In x l1 -> forall y, e x y = true -> x = y) -> forall l2, list_eqb e l1 l2 = true -> l1 = l2.
Proof.
  induction l1 as [|x r IH]; intros H [|y r2] E; simpl in E; try discriminate; [reflexivity|].
  apply andb_true_iff in E as [E1 E2]. f_equal.
  - apply H; [left; reflexivity|exact E1].
  - apply IH; [intros z Hz; apply H; right; exact Hz|exact E2].
Qed.

Lemma sx_eqb_eq a : forall b, sx_eqb a b = true -> a = b.
Proof.
  induction a as [a IH] using sx_ind_size. intros b H. destruct a as [o1 v1 l1], b as [o2 v2 l2].
  rewrite sx_eqb_X in H. apply andb_true_iff in H as [H H3]. apply andb_true_iff in H as [H1 H2].
  apply op_eqb_eq in H1. apply String.eqb_eq in H2. subst. f_equal.
  apply (list_eqb_in sx_eqb); [|exact H3].
  intros x Hx y Hxy. apply IH; [|exact Hxy]. rewrite sx_size_X. pose proof (sizes_in x l1 Hx). lia.
Qed.

(* ---------- (A) the state-free elaboration agrees with Model_Regex.den ---------- *)
Lemma om2 {A} (f : A -> rx) (st : dst) (o : option A) :
  option_map (fun r => (f r, st)) o = option_map (fun x => (x, st)) (option_map fst (option_map (fun r => (f r, dst0)) o)).
Proof. destruct o; reflexivity. Qed.

Lemma den_leaf o v args st : leaf_op o = true -> d_fl st = flags0 ->
  den (X o v args) st = option_map (fun x => (x, st)) (option_map fst (den (X o v args) dst0)).
Proof.
  intros Ho Hfl. destruct o; try discriminate Ho; simpl; rewrite Hfl; simpl.
  all: try (destruct (perl_item v); [reflexivity|]; destruct (assertion_of v); [reflexivity|]).
  all: try apply om2.
  all: try reflexivity.
Qed.

Fixpoint denL (l : list sx) (st : dst) : option (list rx * dst) :=
  match l with
  | [] => Some ([], st)
  | x :: r => match den x st with
              | Some (x', st1) => match denL r st1 with
                                  | Some (r', st2) => Some (x' :: r', st2)
                                  | None => None
                                  end
              | None => None
              end
  end.

Lemma den_concat v args st :
  den (X OpConcat v args) st = match denL args st with Some (l, st') => Some (cat_list l, st') | None => None end.
Proof. reflexivity. Qed.
Lemma den_alt v args st :
  den (X OpAlt v args) st = match denL args st with Some (l, st') => Some (alt_list l, st') | None => None end.
Proof. reflexivity. Qed.

Lemma denL_omap l : forall st xs,
  (forall x, In x l -> forall x' st, d_fl st = flags0 -> sden x = Some x' -> den x st = Some (x', st)) ->
  d_fl st = flags0 -> omap sden l = Some xs -> denL l st = Some (xs, st).
Proof.
  induction l as [|x r IH]; intros st xs H Hfl E; simpl in *.
  - inversion E. reflexivity.
  - destruct (sden x) as [a|] eqn:Ex; [|discriminate]. destruct (omap sden r) as [b|] eqn:Er; [|discriminate].
    inversion E; subst. rewrite (H x (or_introl eq_refl) a st Hfl Ex).
    rewrite (IH st b (fun y Hy => H y (or_intror Hy)) Hfl eq_refl). reflexivity.
Qed.

Lemma quant_build_st st g qo rep x : d_fl st = flags0 -> quant_build st g qo rep x = quant_build dst0 g qo rep x.
Proof. intros H. unfold quant_build, greedy_of. rewrite H. reflexivity. Qed.

Local Opaque quant_build.

Theorem sden_den e : forall x st, d_fl st = flags0 -> sden e = Some x -> den e st = Some (x, st).
Proof.
  induction e as [e IH] using sx_ind_size. intros x st Hfl H. destruct e as [o v args].
  assert (IHin : forall y, In y args -> forall y' st, d_fl st = flags0 -> sden y = Some y' -> den y st = Some (y', st)).
  { intros y Hy. apply IH. rewrite sx_size_X. pose proof (sizes_in y args Hy). lia. }
  unfold sden in H.
  destruct o; try (simpl in H; discriminate H);
    try (match goal with |- den (X ?o _ _) _ = _ => rewrite (den_leaf o v args st eq_refl Hfl) end;
         match type of H with sdeng true (X ?o _ _) = _ => change (option_map fst (den (X o v args) dst0) = Some x) in H end;
         rewrite H; reflexivity).
  - (* Concat *) rewrite sdeng_concat in H. rewrite den_concat.
    destruct (omap sden args) as [xs|] eqn:E; [|discriminate]. simpl in H. inversion H; subst.
    rewrite (denL_omap args st xs IHin Hfl E). reflexivity.
  - (* Alt *) rewrite sdeng_alt in H. rewrite den_alt.
    destruct (omap sden args) as [xs|] eqn:E; [|discriminate]. simpl in H. inversion H; subst.
    rewrite (denL_omap args st xs IHin Hfl E). reflexivity.
  - (* Star *) destruct args as [|y [|? ?]]; try (simpl in H; discriminate H). simpl in H. simpl.
    destruct (op_eqb (sx_op y) OpFlagOnlyGroup); [discriminate|].
    destruct (sdeng true y) as [y'|] eqn:Ey; [|discriminate].
    rewrite (IHin y (or_introl eq_refl) y' st Hfl Ey). rewrite quant_build_st by exact Hfl.
    simpl in *. rewrite H. reflexivity.
  - (* Plus *) destruct args as [|y [|? ?]]; try (simpl in H; discriminate H). simpl in H. simpl.
    destruct (op_eqb (sx_op y) OpFlagOnlyGroup); [discriminate|].
    destruct (sdeng true y) as [y'|] eqn:Ey; [|discriminate].
    rewrite (IHin y (or_introl eq_refl) y' st Hfl Ey). rewrite quant_build_st by exact Hfl.
    simpl in *. rewrite H. reflexivity.
  - (* Question *) destruct args as [|y [|? ?]]; try (simpl in H; discriminate H). simpl in H. simpl.
    destruct (op_eqb (sx_op y) OpFlagOnlyGroup); [discriminate|].
    destruct (sdeng true y) as [y'|] eqn:Ey; [|discriminate].
    rewrite (IHin y (or_introl eq_refl) y' st Hfl Ey). rewrite quant_build_st by exact Hfl.
    simpl in *. rewrite H. reflexivity.
  - (* NonGreedy *) destruct args as [|q [|? ?]]; try (simpl in H; discriminate H).
    destruct q as [qo qv qargs]. cbn [sdeng sx_op] in H.
    destruct (is_quant qo) eqn:Eq; [|discriminate].
    assert (IHg : forall y, In y qargs -> forall y' st, d_fl st = flags0 -> sden y = Some y' -> den y st = Some (y', st)).
    { intros y Hy. apply IH. rewrite sx_size_X. cbn [sizes]. rewrite sx_size_X. pose proof (sizes_in y qargs Hy). lia. }
    destruct qo; try discriminate Eq.
    + destruct qargs as [|y [|? ?]]; try (simpl in H; discriminate H). simpl in H. simpl.
      destruct (op_eqb (sx_op y) OpFlagOnlyGroup); [discriminate|]. simpl.
      destruct (sdeng true y) as [y'|] eqn:Ey; [|discriminate].
      rewrite (IHg y (or_introl eq_refl) y' st Hfl Ey). rewrite quant_build_st by exact Hfl.
      simpl in *. rewrite H. reflexivity.
    + destruct qargs as [|y [|? ?]]; try (simpl in H; discriminate H). simpl in H. simpl.
      destruct (op_eqb (sx_op y) OpFlagOnlyGroup); [discriminate|]. simpl.
      destruct (sdeng true y) as [y'|] eqn:Ey; [|discriminate].
      rewrite (IHg y (or_introl eq_refl) y' st Hfl Ey). rewrite quant_build_st by exact Hfl.
      simpl in *. rewrite H. reflexivity.
    + destruct qargs as [|y [|? ?]]; try (simpl in H; discriminate H). simpl in H. simpl.
      destruct (op_eqb (sx_op y) OpFlagOnlyGroup); [discriminate|]. simpl.
      destruct (sdeng true y) as [y'|] eqn:Ey; [|discriminate].
      rewrite (IHg y (or_introl eq_refl) y' st Hfl Ey). rewrite quant_build_st by exact Hfl.
      simpl in *. rewrite H. reflexivity.
    + destruct qargs as [|y [|r [|? ?]]]; try (simpl in H; discriminate H). simpl in H. simpl.
      destruct (op_eqb (sx_op y) OpFlagOnlyGroup); [discriminate|]. simpl.
      destruct (sdeng true y) as [y'|] eqn:Ey; [|discriminate].
      rewrite (IHg y (or_introl eq_refl) y' st Hfl Ey). rewrite quant_build_st by exact Hfl.
      simpl in *. rewrite H. reflexivity.
  - (* Repeat *) destruct args as [|y [|r [|? ?]]]; try (simpl in H; discriminate H). simpl in H. simpl.
    destruct (op_eqb (sx_op y) OpFlagOnlyGroup); [discriminate|].
    destruct (sdeng true y) as [y'|] eqn:Ey; [|discriminate].
    rewrite (IHin y (or_introl eq_refl) y' st Hfl Ey). rewrite quant_build_st by exact Hfl.
    simpl in *. rewrite H. reflexivity.
  - (* Group *) destruct args as [|y [|? ?]]; try (simpl in H; discriminate H). simpl in H. simpl.
    rewrite (IHin y (or_introl eq_refl) x st Hfl H). rewrite with_flags_id. reflexivity.
Qed.

Local Transparent quant_build.

(* ---------- guards: what the per-rule lemmas need, where a rule fires ---------- *)
Definition consumes_sx (e : sx) : bool := match sden e with Some x => consumes x | None => false end.

Definition merge_ok (x : sx) (rest : list sx) : bool :=
  match rest with
  | X OpStar _ [y0] :: _ => sx_eqb x y0 && consumes_sx x      (* the two copies are one tree; it cannot match "" *)
  | _ => false
  end.

Definition fold_ok (x : sx) (rest : list sx) (n : nat) : bool :=
  Nat.leb 1 n && Nat.leb (S n) 64 && Nat.leb n (length rest) && forallb (sx_eqb x) (firstn n rest).

(* class items: a small range is only enumerated between ASCII bounds (single-byte characters of a
   well-formed UTF-8 pattern always are) *)
Definition item_ok (it : sx) : bool :=
  match it with
  | X OpCharRange _ (X OpChar _ _ :: X OpChar (String h EmptyString) _ :: _) => (N_of_ascii h <? 128)%N
  | _ => true
  end.
Definition items_ok (e : sx) : bool := forallb item_ok (sx_args e).

Fixpoint guards (e : sx) {struct e} : bool :=
  match e with
  | X OpConcat _ args =>
      (fix gc (l : list sx) (skip : nat) {struct l} : bool :=
         match l with
         | [] => true
         | x :: rest =>
             match skip with
             | S k => gc rest k
             | O => guards x &&
                 match concat_step true x rest with
                 | CNone => gc rest O
                 | CMerge => merge_ok x rest && gc rest 1
                 | CFold n => fold_ok x rest n && gc rest n
                 end
             end
         end) args O
  | X OpAlt _ args =>
      if allChars e && negb (true && hasClassMeta e) then negb (match args with [] => true | _ => false end)
      else match factorPrefixSuffix true e with
           | Some _ => false                                   (* factoring: per-rule lemmas + certificate only *)
           | None => (fix ga (l : list sx) : bool := match l with [] => true | x :: r => guards x && ga r end) args
           end
  | X OpGroup _ [x] | X OpStar _ [x] | X OpPlus _ [x] | X OpQuestion _ [x] | X OpNonGreedy _ [x] => guards x
  | X OpRepeat _ [x; _] => guards x && negb (hasCapture x)
  | X OpCharClass v _ =>
      match simplifyCharClass true e with
      | Some _ =>
          match lookup_s v class_table with
          | Some _ => existsb (fun p => sx_eqb e (fst p)) class_table_sound_entries
          | None => true
          end
      | None => items_ok e
      end
  | X OpNegCharClass v _ =>
      match simplifyNegCharClass e with
      | Some _ => existsb (fun p => sx_eqb e (fst p)) neg_class_table_sound_entries
      | None => items_ok e
      end
  | _ => true
  end.

Fixpoint gcT (l : list sx) (skip : nat) {struct l} : bool :=
  match l with
  | [] => true
  | x :: rest =>
      match skip with
      | S k => gcT rest k
      | O => guards x &&
          match concat_step true x rest with
          | CNone => gcT rest O
          | CMerge => merge_ok x rest && gcT rest 1
          | CFold n => fold_ok x rest n && gcT rest n
          end
      end
  end.
Lemma guards_concat v args : guards (X OpConcat v args) = gcT args O.
Proof. reflexivity. Qed.

(* ---------- small lemmas ---------- *)
Lemma omap_app {A B} (f : A -> option B) a b :
  omap f (a ++ b) = match omap f a, omap f b with Some x, Some y => Some (x ++ y)%list | _, _ => None end.
Proof.
  induction a as [|x a IH]; simpl.
  - destruct (omap f b); reflexivity.
  - destruct (f x); [|reflexivity]. rewrite IH. destruct (omap f a), (omap f b); reflexivity.
Qed.

Lemma sden_seq_node xs ys : omap sden xs = Some ys -> sden (seq_node xs) = Some (cat_list ys).
Proof.
  intros H. destruct xs as [|x1 [|x2 r]].
  - simpl in H. inversion H. reflexivity.
  - simpl in H. simpl. destruct (sden x1); [|discriminate]. inversion H. reflexivity.
  - unfold seq_node, sden. rewrite sdeng_concat. rewrite H. reflexivity.
Qed.

Lemma sden_not_flagonly e x : sden e = Some x -> op_eqb (sx_op e) OpFlagOnlyGroup = false.
Proof. destruct e as [o v a]. destruct o; try reflexivity. simpl. discriminate. Qed.

Lemma ncopies_congr n a b : a ≃ b -> Forall2 rel (ncopies n a) (ncopies n b).
Proof. intros H. induction n; simpl; constructor; assumption. Qed.

Lemma nest_quest_congr g a b k : a ≃ b -> nest_quest g a k ≃ nest_quest g b k.
Proof.
  intros H. induction k as [|k IH]; [apply rel_refl|].
  destruct k as [|k]; simpl.
  - apply rel_quest. exact H.
  - apply rel_quest. apply rel_cat; [exact H|exact IH].
Qed.

Lemma Forall2_app_req l1 l2 l3 l4 : Forall2 rel l1 l2 -> Forall2 rel l3 l4 -> Forall2 rel (l1 ++ l3) (l2 ++ l4).
Proof. intros H1 H2. induction H1; simpl; [exact H2|constructor; assumption]. Qed.

Lemma build_repeat_congr g a b mn mx : a ≃ b -> build_repeat g a mn mx ≃ build_repeat g b mn mx.
Proof.
  intros H. unfold build_repeat. destruct mx as [mxv|].
  - destruct (Nat.eqb mxv 0); [apply rel_refl|].
    destruct (Nat.eqb mn 1 && Nat.eqb mxv 1); [exact H|].
    destruct (Nat.eqb mn mxv).
    + apply rel_cat_list_congr, ncopies_congr, H.
    + apply rel_cat_list_congr, Forall2_app_req; [apply ncopies_congr, H|].
      constructor; [apply nest_quest_congr, H|constructor].
  - destruct mn as [|k]; [apply rel_star, H|].
    apply rel_cat_list_congr, Forall2_app_req; [apply ncopies_congr, H|].
    constructor; [apply rel_plus, H|constructor].
Qed.

Lemma quant_build_congr g qo rep a b qa : a ≃ b ->
  quant_build dst0 g qo rep a = Some qa -> exists qb, quant_build dst0 g qo rep b = Some qb /\ qb ≃ qa.
Proof.
  intros H. unfold quant_build. destruct qo; try discriminate.
  - intros E. inversion E. eexists. split; [reflexivity|]. apply rel_star, rel_sym, H.
  - intros E. inversion E. eexists. split; [reflexivity|]. apply rel_plus, rel_sym, H.
  - intros E. inversion E. eexists. split; [reflexivity|]. apply rel_quest, rel_sym, H.
  - destruct (parse_repeat rep) as [[mn mx]|]; [|discriminate].
    destruct (_ || _); [discriminate|]. intros E. inversion E. eexists. split; [reflexivity|].
    apply build_repeat_congr, rel_sym, H.
Qed.

(* the decimal text of the run length parses back: checked for every length a 60-byte pattern can have *)
Lemma fold_repeat_text k c : 2 <= k -> k <= 64 ->
  quant_build dst0 true OpRepeat ("{" ++ itoa k ++ "}") c = Some (cat_list (ncopies k c)).
Proof.
  intros H2 H64.
  do 65 (destruct k as [|k]; [try lia; reflexivity|]). lia.
Qed.

(* ---------- the statement proved by induction ---------- *)
Definition P (e : sx) : Prop :=
  guards e = true -> forall x, sden e = Some x ->
  exists ys, omap sden (fst (walk_a true e)) = Some ys /\ cat_list ys ≃ x.

Definition quant_node (q : sx) : bool :=
  match q with
  | X OpStar _ [_] | X OpPlus _ [_] | X OpQuestion _ [_] | X OpRepeat _ [_; _] => true
  | _ => false
  end.

(* wrapping what was emitted for x in a shorthand operator *)
Lemma wrap_quant g qo sfx xs ys x' xq :
  (qo = OpStar \/ qo = OpPlus \/ qo = OpQuestion) ->
  omap sden xs = Some ys -> cat_list ys ≃ x' ->
  quant_build dst0 g qo EmptyString x' = Some xq ->
  exists q', wrap1 qo sfx xs = [q'] /\ is_quant (sx_op q') = true /\ quant_node q' = true /\
             exists y, sdeng g q' = Some y /\ y ≃ xq.
Proof.
  intros Hq Hys Hc Hb. unfold wrap1. eexists. split; [reflexivity|].
  pose proof (sden_seq_node xs ys Hys) as Hs.
  pose proof (sden_not_flagonly _ _ Hs) as Hf.
  destruct (quant_build_congr g qo EmptyString x' (cat_list ys) xq (rel_sym _ _ Hc) Hb) as (qb & Hqb & Hreq).
  destruct Hq as [Hq|[Hq|Hq]]; subst qo; (split; [reflexivity|]; split; [reflexivity|]; exists qb; split; [|exact Hreq]);
    cbn [sdeng sx_op]; rewrite Hf; unfold sden in Hs; rewrite Hs; exact Hqb.
Qed.

Lemma quant_step q : quant_node q = true ->
  (forall x, In x (sx_args q) -> P x) -> guards q = true ->
  forall g xq, sdeng g q = Some xq ->
  if dropped_repeat q
  then exists ys, omap sden (fst (walk_a true q)) = Some ys /\ cat_list ys ≃ xq
  else exists q', fst (walk_a true q) = [q'] /\ is_quant (sx_op q') = true /\ quant_node q' = true /\
                  exists y, sdeng g q' = Some y /\ y ≃ xq.
Proof.
  intros Hq IH Hg g xq Hs. destruct q as [qo qv qargs].
  destruct qo; try discriminate Hq.
  - (* Star *)
    destruct qargs as [|x [|? ?]]; try discriminate Hq. cbn [sdeng sx_op] in Hs. cbn [guards] in Hg.
    destruct (op_eqb (sx_op x) OpFlagOnlyGroup); [discriminate|].
    destruct (sdeng true x) as [x'|] eqn:Ex; [|discriminate].
    destruct (IH x (or_introl eq_refl) Hg x' Ex) as (ys & Hys & Hc).
    cbn [dropped_repeat walk_a]. destruct (walk_a true x) as [xs sc]. cbn [fst] in *.
    apply (wrap_quant g OpStar "*" xs ys x' xq); auto.
  - (* Plus *)
    destruct qargs as [|x [|? ?]]; try discriminate Hq. cbn [sdeng sx_op] in Hs. cbn [guards] in Hg.
    destruct (op_eqb (sx_op x) OpFlagOnlyGroup); [discriminate|].
    destruct (sdeng true x) as [x'|] eqn:Ex; [|discriminate].
    destruct (IH x (or_introl eq_refl) Hg x' Ex) as (ys & Hys & Hc).
    cbn [dropped_repeat walk_a]. destruct (walk_a true x) as [xs sc]. cbn [fst] in *.
    apply (wrap_quant g OpPlus "+" xs ys x' xq); auto.
  - (* Question *)
    destruct qargs as [|x [|? ?]]; try discriminate Hq. cbn [sdeng sx_op] in Hs. cbn [guards] in Hg.
    destruct (op_eqb (sx_op x) OpFlagOnlyGroup); [discriminate|].
    destruct (sdeng true x) as [x'|] eqn:Ex; [|discriminate].
    destruct (IH x (or_introl eq_refl) Hg x' Ex) as (ys & Hys & Hc).
    cbn [dropped_repeat walk_a]. destruct (walk_a true x) as [xs sc]. cbn [fst] in *.
    apply (wrap_quant g OpQuestion "?" xs ys x' xq); auto.
  - (* Repeat *)
    destruct qargs as [|x [|r [|? ?]]]; try discriminate Hq. cbn [sdeng sx_op] in Hs. cbn [guards] in Hg.
    apply andb_true_iff in Hg as [Hg Hcap]. apply negb_true_iff in Hcap.
    destruct (op_eqb (sx_op x) OpFlagOnlyGroup) eqn:Hfo; [discriminate|].
    destruct (sdeng true x) as [x'|] eqn:Ex; [|discriminate].
    destruct (IH x (or_introl eq_refl) Hg x' Ex) as (ys & Hys & Hc).
    cbn [dropped_repeat walk_a]. rewrite Hcap. destruct (walk_a true x) as [xs sc]. cbn [fst] in *.
    destruct (String.eqb_spec (sx_val r) "{0,1}") as [E|_].
    { rewrite E in *. cbn [String.eqb Ascii.eqb Bool.eqb orb andb fst].
      apply (wrap_quant g OpQuestion "?" xs ys x' xq); auto. }
    destruct (String.eqb_spec (sx_val r) "{1,}") as [E|_].
    { rewrite E in *. cbn [String.eqb Ascii.eqb Bool.eqb orb andb fst].
      apply (wrap_quant g OpPlus "+" xs ys x' xq); auto. }
    destruct (String.eqb_spec (sx_val r) "{0,}") as [E|_].
    { rewrite E in *. cbn [String.eqb Ascii.eqb Bool.eqb orb andb fst].
      apply (wrap_quant g OpStar "*" xs ys x' xq); auto. }
    destruct (String.eqb_spec (sx_val r) "{0}") as [E|N0].
    { rewrite E in *. cbn [orb andb fst]. exists []. split; [reflexivity|].
      inversion Hs. subst xq. apply rel_refl. }
    destruct (String.eqb_spec (sx_val r) "{1}") as [E|N1].
    { rewrite E in *. cbn [orb andb fst]. exists ys. split; [exact Hys|].
      inversion Hs. subst xq. exact Hc. }
    cbn [orb fst].
    eexists. split; [reflexivity|]. split; [reflexivity|]. split; [reflexivity|].
    pose proof (sden_seq_node xs ys Hys) as Hsn.
    destruct (quant_build_congr g OpRepeat (sx_val r) x' (cat_list ys) xq (rel_sym _ _ Hc) Hs) as (qb & Hqb & Hreq).
    exists qb. split; [|exact Hreq].
    cbn [sdeng sx_op]. rewrite (sden_not_flagonly _ _ Hsn). unfold sden in Hsn. rewrite Hsn. exact Hqb.
Qed.

(* ---------- concatenations ---------- *)
Lemma omap_firstn_same x x' : sden x = Some x' ->
  forall n rest rs, omap sden rest = Some rs -> n <= length rest -> forallb (sx_eqb x) (firstn n rest) = true ->
  rs = (ncopies n x' ++ skipn n rs)%list.
Proof.
  intros Hx n. induction n as [|n IH]; intros rest rs Hr Hn Hall; [reflexivity|].
  destruct rest as [|y rest]; [simpl in Hn; lia|]. simpl in Hr, Hall.
  apply andb_true_iff in Hall as [Hy Hall]. apply sx_eqb_eq in Hy. subst y. rewrite Hx in Hr.
  destruct (omap sden rest) as [rs'|] eqn:Er; [|discriminate]. inversion Hr; subst rs.
  simpl. f_equal. apply (IH rest rs' Er); [simpl in Hn; lia|exact Hall].
Qed.

Lemma skipn_cons_S {A} k (x : A) l : skipn (S k) (x :: l) = skipn k l.
Proof. reflexivity. Qed.

Lemma wc_sound l : (forall x, In x l -> P x) ->
  forall skip xs, gcT l skip = true -> omap sden l = Some xs ->
  exists ys, omap sden (fst (wcT l skip)) = Some ys /\ cat_list ys ≃ cat_list (skipn skip xs).
Proof.
  induction l as [|x rest IHl]; intros HP skip xs Hg Hs.
  - simpl in Hs. inversion Hs. exists []. split; [reflexivity|]. destruct skip; apply rel_refl.
  - simpl in Hs. destruct (sden x) as [x'|] eqn:Ex; [|discriminate].
    destruct (omap sden rest) as [rs|] eqn:Er; [|discriminate]. inversion Hs; subst xs. clear Hs.
    assert (HPr : forall y, In y rest -> P y) by (intros y Hy; apply HP; right; exact Hy).
    destruct skip as [|k].
    + cbn [gcT] in Hg. apply andb_true_iff in Hg as [Hgx Hg].
      destruct (HP x (or_introl eq_refl) Hgx x' Ex) as (ys1 & Hys1 & Hc1).
      cbn [wcT skipn]. destruct (concat_step true x rest) as [| |n] eqn:Estep.
      * (* no rule *)
        destruct (IHl HPr 0 rs Hg eq_refl) as (ys2 & Hys2 & Hc2).
        unfold a_app. cbn [fst]. rewrite omap_app, Hys1, Hys2. eexists. split; [reflexivity|].
        eapply rel_trans; [apply rel_cat_list_app|].
        eapply rel_trans; [apply rel_cat; [exact Hc1|exact Hc2]|]. apply rel_sym, rel_cat_list_cons.
      * (* xx* => x+ *)
        apply andb_true_iff in Hg as [Hm Hg]. unfold merge_ok in Hm.
        destruct rest as [|[so sv sargs] rest']; [discriminate|].
        destruct so; try discriminate Hm. destruct sargs as [|y0 [|? ?]]; try discriminate Hm.
        apply andb_true_iff in Hm as [Hy0 Hcons]. apply sx_eqb_eq in Hy0. subst y0.
        unfold consumes_sx in Hcons. rewrite Ex in Hcons.
        destruct (IHl HPr 1 rs Hg eq_refl) as (ys2 & Hys2 & Hc2).
        (* the elaboration of the star *)
        assert (Hstar : sden (X OpStar sv [x]) = Some (RStar true x')).
        { unfold sden. cbn [sdeng sx_op]. rewrite (sden_not_flagonly x x' Ex). unfold sden in Ex. rewrite Ex. reflexivity. }
        cbn [omap] in Er. rewrite Hstar in Er.
        destruct (omap sden rest') as [rs'|] eqn:Er'; [|discriminate]. inversion Er; subst rs. clear Er.
        destruct (walk_a true x) as [xs0 sc]. cbn [fst] in *.
        destruct (wrap_quant true OpPlus "+" xs0 ys1 x' (RPlus true x') (or_intror (or_introl eq_refl)) Hys1 Hc1 eq_refl)
          as (q' & Hq' & _ & _ & y & Hy & Hyreq).
        unfold a_app. cbn [fst]. rewrite Hq'. rewrite omap_app. cbn [omap]. unfold sden at 1. rewrite Hy, Hys2.
        eexists. split; [reflexivity|].
        change ((?a :: nil) ++ ys2)%list with (y :: ys2).
        cbn [app].
        eapply rel_trans; [apply rel_cat_list_cons|].
        eapply rel_trans; [apply rel_cat; [exact Hyreq|exact Hc2]|].
        cbn [skipn].
        eapply rel_trans; [apply rel_cat; [apply rel_sym, (rel_merge true x' Hcons)|apply rel_refl]|].
        eapply rel_trans; [apply rel_cat_assoc|].
        apply rel_sym.
        eapply rel_trans; [apply rel_cat_list_cons|]. apply rel_cat; [apply rel_refl|]. apply rel_cat_list_cons.
      * (* run-length folding *)
        apply andb_true_iff in Hg as [Hf Hg]. unfold fold_ok in Hf.
        apply andb_true_iff in Hf as [Hf Hall]. apply andb_true_iff in Hf as [Hf Hlen].
        apply andb_true_iff in Hf as [H1 H64].
        apply Nat.leb_le in H1. apply Nat.leb_le in H64. apply Nat.leb_le in Hlen.
        destruct (IHl HPr n rs Hg eq_refl) as (ys2 & Hys2 & Hc2).
        pose proof (omap_firstn_same x x' Ex n rest rs Er Hlen Hall) as Hrs.
        destruct (walk_a true x) as [xs0 sc]. cbn [fst] in *.
        pose proof (sden_seq_node xs0 ys1 Hys1) as Hsn.
        unfold a_app. cbn [fst]. rewrite omap_app. cbn [omap]. unfold sden at 1.
        cbn [sdeng sx_op sx_val]. rewrite (sden_not_flagonly _ _ Hsn). unfold sden in Hsn. rewrite Hsn.
        rewrite (fold_repeat_text (S n) (cat_list ys1)) by lia. rewrite Hys2.
        eexists. split; [reflexivity|]. cbn [app].
        eapply rel_trans; [apply rel_cat_list_cons|].
        eapply rel_trans; [apply rel_cat; [apply rel_cat_list_congr, (ncopies_congr (S n) _ x' Hc1)|exact Hc2]|].
        apply rel_sym. rewrite Hrs at 1.
        change (x' :: ncopies n x' ++ skipn n rs)%list with (ncopies (S n) x' ++ skipn n rs)%list.
        apply rel_cat_list_app.
    + cbn [gcT] in Hg. cbn [wcT]. rewrite skipn_cons_S. apply (IHl HPr k rs Hg eq_refl).
Qed.

(* ---------- alternations ---------- *)
Fixpoint gaT (l : list sx) : bool := match l with [] => true | x :: r => guards x && gaT r end.

Lemma wa_sound l : (forall x, In x l -> P x) ->
  forall xs, gaT l = true -> omap sden l = Some xs ->
  exists ys, omap sden (fst (waT l)) = Some ys /\ Forall2 rel ys xs.
Proof.
  induction l as [|x rest IHl]; intros HP xs Hg Hs.
  - simpl in Hs. inversion Hs. exists []. split; [reflexivity|constructor].
  - simpl in Hs. destruct (sden x) as [x'|] eqn:Ex; [|discriminate].
    destruct (omap sden rest) as [rs|] eqn:Er; [|discriminate]. inversion Hs; subst xs. clear Hs.
    cbn [gaT] in Hg. apply andb_true_iff in Hg as [Hgx Hg].
    destruct (HP x (or_introl eq_refl) Hgx x' Ex) as (ys1 & Hys1 & Hc1).
    destruct (IHl (fun y Hy => HP y (or_intror Hy)) rs Hg eq_refl) as (ys2 & Hys2 & Hc2).
    cbn [waT]. destruct (walk_a true x) as [xs0 sc]. destruct (waT rest) as [rs0 sc']. cbn [fst] in *.
    cbn [omap]. rewrite (sden_seq_node xs0 ys1 Hys1), Hys2.
    eexists. split; [reflexivity|]. constructor; assumption.
Qed.

Lemma sden_char v aa : sden (X OpChar v aa) = option_map (set1 false) (rune_of v).
Proof. unfold sden. simpl. destruct (rune_of v); reflexivity. Qed.

Lemma allchars_items args : forallb (fun a => op_eqb (sx_op a) OpChar) args = true ->
  forall xs, omap sden args = Some xs ->
  exists rs, xs = map (set1 false) rs /\ length rs = length args /\
             class_items (map (fun a => mk_char (sx_val a)) args) = Some (char_items rs).
Proof.
  induction args as [|a args IH]; intros Hall xs Hs.
  - simpl in Hs. inversion Hs. exists []. repeat split.
  - simpl in Hall. apply andb_true_iff in Hall as [Ha Hall]. apply op_eqb_eq in Ha.
    destruct a as [o v aa]. simpl in Ha. subst o.
    cbn [omap] in Hs. rewrite sden_char in Hs. destruct (rune_of v) as [r|] eqn:Er; cbn [option_map] in Hs; [|discriminate].
    destruct (omap sden args) as [rs|] eqn:Eo; [|discriminate]. inversion Hs; subst xs.
    destruct (IH Hall rs eq_refl) as (rr & -> & Hlen & Hci).
    exists (r :: rr). split; [reflexivity|]. split; [simpl; lia|].
    cbn [map class_items sx_val]. unfold mk_char, class_item, escape_rune. rewrite Er. cbn [option_map].
    unfold mk_char in Hci. rewrite Hci. reflexivity.
Qed.

(* ---------- leaves ---------- *)
Lemma sden_escape_args v a1 a2 : sden (X OpEscapeChar v a1) = sden (X OpEscapeChar v a2).
Proof. reflexivity. Qed.

Lemma assertion_escape v a : assertion_of v = Some a -> escape_rune OpEscapeChar v = None.
Proof.
  unfold assertion_of.
  destruct (String.eqb_spec v "\A") as [->|_]; [reflexivity|].
  destruct (String.eqb_spec v "\z") as [->|_]; [reflexivity|].
  destruct (String.eqb_spec v "\b") as [->|_]; [reflexivity|].
  destruct (String.eqb_spec v "\B") as [->|_]; [reflexivity|]. discriminate.
Qed.

Lemma escape_removal_sden v args : mem_s v removable_escapes = true ->
  sden (X OpEscapeChar v args) = sden (mk_char (drop 1 v)).
Proof.
  intros H. apply mem_In in H. pose proof escape_removal as HF. rewrite Forall_forall in HF.
  unfold sden, mk_char. cbn [sdeng leaf_op]. rewrite (HF v H dst0 args). reflexivity.
Qed.

Lemma walk_a_group v x :
  fst (walk_a true (X OpGroup v [x])) =
  if atom_op (sx_op x) then fst (walk_a true x) else [X OpGroup v [seq_node (fst (walk_a true x))]].
Proof. cbn [walk_a]. destruct (sx_op x), (walk_a true x); reflexivity. Qed.


(* ---------- class items ---------- *)
Fixpoint wlT (l : list sx) : aout := match l with [] => ([], O) | x :: r => a_app (walk_a true x) (wlT r) end.

Lemma walk_a_class v items : simplifyCharClass true (X OpCharClass v items) = None ->
  fst (walk_a true (X OpCharClass v items)) = [X OpCharClass v (fst (wlT items))].
Proof. intros H. cbn [walk_a]. rewrite H. reflexivity. Qed.
Lemma walk_a_negclass v items : simplifyNegCharClass (X OpNegCharClass v items) = None ->
  fst (walk_a true (X OpNegCharClass v items)) = [X OpNegCharClass v (fst (wlT items))].
Proof. intros H. cbn [walk_a]. rewrite H. reflexivity. Qed.

Lemma class_items_app a b :
  class_items (a ++ b) = match class_items a, class_items b with Some x, Some y => Some (x ++ y)%list | _, _ => None end.
Proof.
  induction a as [|x a IH]; simpl.
  - destruct (class_items b); reflexivity.
  - destruct (class_item x); [|reflexivity]. rewrite IH. destruct (class_items a), (class_items b); reflexivity.
Qed.

Lemma rune_of_byte a : rune_of (String a EmptyString) = Some (N_of_ascii a).
Proof.
  unfold rune_of, decode_rune, byte_of.
  destruct (N_of_ascii a <? 128)%N; [reflexivity|].
  destruct (N_of_ascii a <? 224)%N; [reflexivity|].
  destruct (N_of_ascii a <? 240)%N; reflexivity.
Qed.

Lemma removable_class_item :
  Forall (fun v => forall a, class_item (X OpEscapeChar v a) = class_item (mk_char (drop 1 v))) removable_escapes.
Proof.
  unfold removable_escapes. repeat (apply Forall_cons; [intros a; reflexivity|]). apply Forall_nil.
Qed.

Lemma item_sound it ci : item_ok it = true -> class_item it = Some ci ->
  exists cis, class_items (fst (walk_a true it)) = Some cis /\
              forall fold r, existsb (in_item fold r) cis = in_item fold r ci.
Proof.
  intros Hok Hci.
  assert (Hsame : fst (walk_a true it) = [it] ->
          exists cis, class_items (fst (walk_a true it)) = Some cis /\ forall fold r, existsb (in_item fold r) cis = in_item fold r ci).
  { intros ->. exists [ci]. split; [cbn [class_items]; rewrite Hci; reflexivity|]. intros fold r. cbn [existsb]. apply orb_false_r. }
  destruct it as [o v args]. destruct o; try (simpl in Hci; discriminate Hci); try (apply Hsame; reflexivity).
  - (* EscapeChar *)
    destruct (mem_s v removable_escapes) eqn:Em; [|apply Hsame; cbn [walk_a]; rewrite Em; reflexivity].
    cbn [walk_a]. rewrite Em. apply mem_In in Em. pose proof removable_class_item as HF. rewrite Forall_forall in HF.
    rewrite (HF v Em args) in Hci. exists [ci]. split; [cbn [fst class_items]; rewrite Hci; reflexivity|].
    intros fold r. cbn [existsb]. apply orb_false_r.
  - (* CharRange *)
    destruct (simplifyCharRange true (X OpCharRange v args)) as [s|] eqn:Es;
      [|apply Hsame; cbn [walk_a]; rewrite Es; reflexivity].
    cbn [walk_a]. rewrite Es. unfold simplifyCharRange in Es. cbn [sx_args] in Es.
    destruct args as [|[lo_o lo la] args1]; [discriminate Es|].
    destruct lo_o; try discriminate Es.
    destruct args1 as [|[hi_o hi ha] rest]; [discriminate Es|].
    destruct hi_o; try discriminate Es.
    destruct lo as [|l [|? ?]]; try discriminate Es. destruct hi as [|h [|? ?]]; try discriminate Es.
    cbn [item_ok] in Hok. apply N.ltb_lt in Hok.
    (* the item itself *)
    destruct rest as [|? ?]; [|cbn [class_item] in Hci; discriminate Hci].
    cbn [class_item sx_op sx_val] in Hci. unfold escape_rune in Hci. rewrite !rune_of_byte in Hci.
    set (lb := N_of_ascii l) in *. set (hb := N_of_ascii h) in *.
    destruct (N.leb_spec lb hb) as [Hle|]; [|discriminate Hci]. inversion Hci; subst ci. clear Hci.
    assert (Hd : ((hb + 256 - lb) mod 256 = hb - lb)%N).
    { replace (hb + 256 - lb)%N with (hb - lb + 1 * 256)%N by lia. rewrite N.mod_add by lia. apply N.mod_small. lia. }
    rewrite Hd in Es.
    destruct ((lb =? 45)%N || (hb =? 45)%N || ((hb - lb =? 2)%N && ((lb + 1) mod 256 =? 45)%N)); [discriminate Es|].
    cbn [andb] in Es.
    destruct (N.eqb_spec (hb - lb) 0) as [E0|_].
    + inversion Es; subst s. cbn [fst chars_of_bytes class_items]. unfold mk_char, class_item, escape_rune.
      rewrite rune_of_byte. fold lb. cbn [option_map]. eexists. split; [reflexivity|].
      intros fold r. cbn [existsb]. rewrite orb_false_r. replace hb with lb by lia. reflexivity.
    + destruct (N.eqb_spec (hb - lb) 1) as [E1|_].
      * inversion Es; subst s. cbn [fst append chars_of_bytes class_items]. unfold mk_char, class_item, escape_rune.
        rewrite !rune_of_byte. fold lb hb. cbn [option_map]. eexists. split; [reflexivity|].
        intros fold r. cbn [existsb]. rewrite orb_false_r. replace hb with (lb + 1)%N by lia.
        symmetry. apply in_item_range2.
      * destruct (N.eqb_spec (hb - lb) 2) as [E2|_]; [|discriminate Es].
        inversion Es; subst s. clear Es.
        assert (Hm : ((lb + 1) mod 256 = lb + 1)%N) by (apply N.mod_small; lia).
        rewrite Hm. unfold string_of_byte. assert (Hlt : (lb + 1 <? 128)%N = true) by (apply N.ltb_lt; lia).
        rewrite Hlt. unfold byte_str. cbn [fst append chars_of_bytes class_items].
        unfold mk_char, class_item, escape_rune. rewrite !rune_of_byte. fold lb hb.
        rewrite N_ascii_embedding by lia. cbn [option_map]. eexists. split; [reflexivity|].
        intros fold r. cbn [existsb]. rewrite orb_false_r, orb_assoc. replace hb with (lb + 2)%N by lia.
        symmetry. apply in_item_range3.
Qed.

Lemma items_sound items : forall cis, forallb item_ok items = true -> class_items items = Some cis ->
  exists cis', class_items (fst (wlT items)) = Some cis' /\
               forall fold r, existsb (in_item fold r) cis' = existsb (in_item fold r) cis.
Proof.
  induction items as [|it items IH]; intros cis Hok Hci.
  - simpl in Hci. inversion Hci. exists []. split; reflexivity.
  - cbn [forallb] in Hok. apply andb_true_iff in Hok as [Hok1 Hok].
    cbn [class_items] in Hci. destruct (class_item it) as [ci|] eqn:E1; [|discriminate].
    destruct (class_items items) as [cr|] eqn:E2; [|discriminate]. inversion Hci; subst cis.
    destruct (item_sound it ci Hok1 E1) as (c1 & Hc1 & Hs1).
    destruct (IH cr Hok eq_refl) as (c2 & Hc2 & Hs2).
    cbn [wlT]. unfold a_app. cbn [fst]. rewrite class_items_app, Hc1, Hc2. eexists. split; [reflexivity|].
    intros fold r. rewrite existsb_app, Hs1, Hs2. reflexivity.
Qed.

Lemma class_general neg o v items x :
  (o = OpCharClass /\ neg = false \/ o = OpNegCharClass /\ neg = true) ->
  forallb item_ok items = true -> sden (X o v items) = Some x ->
  exists y, sden (X o v (fst (wlT items))) = Some y /\ y ≃ x.
Proof.
  intros Ho Hok Hs.
  assert (E : forall its, sden (X o v its) =
              option_map (fun cs => RSet {| c_neg := neg; c_fold := false; c_items := cs |}) (class_items its)).
  { intros its. destruct Ho as [[-> ->]|[-> ->]]; unfold sden; cbn [sdeng leaf_op den];
      destruct (class_items its); reflexivity. }
  rewrite E in Hs. destruct (class_items items) as [cis|] eqn:Eci; [|discriminate]. cbn [option_map] in Hs.
  inversion Hs; subst x. destruct (items_sound items cis Hok Eci) as (cis' & Hc' & Hsame).
  rewrite E, Hc'. cbn [option_map]. eexists. split; [reflexivity|].
  apply rel_rset. intros r. unfold in_cls. cbn [c_neg c_fold c_items]. rewrite Hsame. reflexivity.
Qed.

Lemma quant_node_of g q x : is_quant (sx_op q) = true -> sdeng g q = Some x -> quant_node q = true.
Proof.
  destruct q as [o v a]. intros Hq Hs. destruct o; try discriminate Hq.
  - destruct a as [|? [|? ?]]; try reflexivity; simpl in Hs; discriminate.
  - destruct a as [|? [|? ?]]; try reflexivity; simpl in Hs; discriminate.
  - destruct a as [|? [|? ?]]; try reflexivity; simpl in Hs; discriminate.
  - destruct a as [|? [|? [|? ?]]]; try reflexivity; simpl in Hs; discriminate.
Qed.

Lemma guards_alt_general v args :
  (allChars (X OpAlt v args) && negb (true && hasClassMeta (X OpAlt v args))) = false ->
  factorPrefixSuffix true (X OpAlt v args) = None -> guards (X OpAlt v args) = gaT args.
Proof. intros H1 H2. cbn [guards]. rewrite H1, H2. reflexivity. Qed.

Ltac leaf_case x Hs :=
  exists [x]; split; [cbn [walk_a fst omap]; rewrite Hs; reflexivity|apply rel_refl].

Ltac table_case Hs :=
  vm_compute in Hs; inversion Hs; subst; eexists; split; [vm_compute; reflexivity|];
  cbn [cat_list]; apply rel_rset; intros r0; unfold in_cls, in_item; cbn [c_neg c_fold c_items existsb];
  repeat match goal with |- context [existsb ?f ?l] => destruct (existsb f l) end; reflexivity.

Theorem walk_sound e : P e.
Proof.
  induction e as [e IH] using sx_ind_size. destruct e as [o v args].
  assert (IHin : forall y, In y args -> P y).
  { intros y Hy. apply IH. rewrite sx_size_X. pose proof (sizes_in y args Hy). lia. }
  unfold P. intros Hg x Hs.
  destruct o; try (simpl in Hs; discriminate Hs).
  - (* Concat *)
    rewrite guards_concat in Hg. unfold sden in Hs. rewrite sdeng_concat in Hs.
    destruct (omap sden args) as [xs|] eqn:Ea; [|discriminate]. cbn [option_map] in Hs. inversion Hs; subst x.
    destruct (wc_sound args IHin 0 xs Hg Ea) as (ys & Hys & Hc).
    rewrite walk_a_concat. cbn [fst omap]. unfold sden at 1. rewrite sdeng_concat, Hys. cbn [option_map].
    exists [cat_list ys]. split; [reflexivity|]. exact Hc.
  - (* Dot *) leaf_case x Hs.
  - (* Alt *)
    unfold sden in Hs. rewrite sdeng_alt in Hs.
    destruct (omap sden args) as [xs|] eqn:Ea; [|discriminate]. cbn [option_map] in Hs. inversion Hs; subst x.
    destruct (allChars (X OpAlt v args) && negb (true && hasClassMeta (X OpAlt v args))) eqn:Eall.
    + cbn [guards] in Hg. rewrite Eall in Hg.
      apply andb_true_iff in Eall as [Hall Hmeta]. unfold allChars in Hall. cbn [sx_args] in Hall.
      destruct (allchars_items args Hall xs Ea) as (rs & -> & Hlen & Hci).
      cbn [walk_a]. unfold allChars. cbn [sx_args]. rewrite Hall, Hmeta.
      cbn [andb fst omap]. unfold sden at 1. cbn [sdeng leaf_op]. cbn [den]. rewrite Hci. cbn [option_map fst].
      eexists. split; [reflexivity|]. cbn [cat_list].
      apply rel_sym, rel_alt_chars_class. destruct args; [discriminate Hg|]. destruct rs; [discriminate Hlen|discriminate].
    + destruct (factorPrefixSuffix true (X OpAlt v args)) eqn:Ef.
      * cbn [guards] in Hg. rewrite Eall, Ef in Hg. discriminate.
      * rewrite (guards_alt_general v args Eall Ef) in Hg.
        destruct (wa_sound args IHin xs Hg Ea) as (ys & Hys & Hc).
        rewrite (walk_a_alt_general v args Eall Ef). cbn [fst omap]. unfold sden at 1. rewrite sdeng_alt, Hys.
        cbn [option_map]. eexists. split; [reflexivity|]. cbn [cat_list]. apply rel_alt_list_congr. exact Hc.
  - (* Star *)
    destruct args as [|y [|? ?]]; try (simpl in Hs; discriminate Hs).
    pose proof (quant_step (X OpStar v [y]) eq_refl IHin Hg true x Hs) as Q. cbn [dropped_repeat] in Q.
    destruct Q as (q' & Hq' & _ & _ & z & Hz & Hreq). rewrite Hq'. cbn [omap]. unfold sden at 1. rewrite Hz.
    exists [z]. split; [reflexivity|exact Hreq].
  - (* Plus *)
    destruct args as [|y [|? ?]]; try (simpl in Hs; discriminate Hs).
    pose proof (quant_step (X OpPlus v [y]) eq_refl IHin Hg true x Hs) as Q. cbn [dropped_repeat] in Q.
    destruct Q as (q' & Hq' & _ & _ & z & Hz & Hreq). rewrite Hq'. cbn [omap]. unfold sden at 1. rewrite Hz.
    exists [z]. split; [reflexivity|exact Hreq].
  - (* Question *)
    destruct args as [|y [|? ?]]; try (simpl in Hs; discriminate Hs).
    pose proof (quant_step (X OpQuestion v [y]) eq_refl IHin Hg true x Hs) as Q. cbn [dropped_repeat] in Q.
    destruct Q as (q' & Hq' & _ & _ & z & Hz & Hreq). rewrite Hq'. cbn [omap]. unfold sden at 1. rewrite Hz.
    exists [z]. split; [reflexivity|exact Hreq].
  - (* NonGreedy *)
    destruct args as [|q [|? ?]]; try (simpl in Hs; discriminate Hs).
    unfold sden in Hs. cbn [sdeng] in Hs. destruct (is_quant (sx_op q)) eqn:Eq; [|discriminate].
    pose proof (quant_node_of false q x Eq Hs) as Hqn. cbn [guards] in Hg.
    assert (IHq : forall y, In y (sx_args q) -> P y).
    { intros y Hy. apply IH. rewrite sx_size_X. cbn [sizes]. destruct q as [qo qv qa]. rewrite sx_size_X.
      cbn [sx_args] in Hy. pose proof (sizes_in y qa Hy). lia. }
    pose proof (quant_step q Hqn IHq Hg false x Hs) as Q.
    cbn [walk_a]. destruct (walk_a true q) as [xs sc] eqn:Ew. cbn [fst] in Q.
    destruct (dropped_repeat q) eqn:Ed; cbn [andb fst].
    + exact Q.
    + destruct Q as (q' & Hq' & Hisq & _ & z & Hz & Hreq). subst xs. unfold wrap1. cbn [seq_node omap].
      unfold sden at 1. cbn [sdeng]. rewrite Hisq, Hz. exists [z]. split; [reflexivity|exact Hreq].
  - (* Caret *) leaf_case x Hs.
  - (* Dollar *) leaf_case x Hs.
  - (* Char *) leaf_case x Hs.
  - (* EscapeChar *)
    cbn [walk_a]. destruct (mem_s v removable_escapes) eqn:Em.
    + exists [x]. split; [|apply rel_refl]. cbn [fst omap]. rewrite <- (escape_removal_sden v args Em), Hs. reflexivity.
    + leaf_case x Hs.
  - (* EscapeMeta *) leaf_case x Hs.
  - (* EscapeOctal *) leaf_case x Hs.
  - (* EscapeHex *) leaf_case x Hs.
  - (* CharClass *)
    cbn [guards] in Hg. destruct (simplifyCharClass true (X OpCharClass v args)) as [s|] eqn:Es.
    + destruct (lookup_s v class_table) as [t|] eqn:El.
      * apply existsb_exists in Hg as (p & Hin & Heq). apply sx_eqb_eq in Heq.
        unfold class_table_sound_entries in Hin. cbn [In] in Hin.
        repeat (destruct Hin as [<-|Hin]; [cbn [fst] in Heq; inversion Heq; subst; table_case Hs|]). destruct Hin.
      * cbn [walk_a]. rewrite Es, El. cbn [fst].
        unfold simplifyCharClass in Es. cbn [sx_val sx_args] in Es. rewrite El in Es.
        destruct args as [|it [|? ?]]; [discriminate Es| |destruct it as [[] ? ?]; discriminate Es].
        destruct it as [io iv ia].
        destruct io; try discriminate Es.
        -- (* [c] => c *)
           assert (E : sden (X OpChar iv ia) = sden (X OpCharClass v [X OpChar iv ia])).
           { rewrite sden_char. unfold sden. cbn [sdeng leaf_op den class_items]. unfold class_item, escape_rune.
             destruct (rune_of iv); reflexivity. }
           exists [x]. split; [|apply rel_refl]. cbn [omap]. rewrite E, Hs. reflexivity.
        -- (* [\d] => \d *)
           assert (E : sden (X OpEscapeChar iv ia) = sden (X OpCharClass v [X OpEscapeChar iv ia])).
           { unfold sden. cbn [sdeng leaf_op den class_items]. unfold class_item.
             destruct (perl_item iv) as [pi|] eqn:Ep; [reflexivity|].
             destruct (escape_rune OpEscapeChar iv) as [er|] eqn:Ee.
             - destruct (assertion_of iv) as [aa|] eqn:Ea; [rewrite (assertion_escape iv aa Ea) in Ee; discriminate|].
               reflexivity.
             - exfalso. unfold sden in Hs. cbn [sdeng leaf_op den class_items] in Hs. unfold class_item in Hs.
               rewrite Ep, Ee in Hs. discriminate Hs. }
           exists [x]. split; [|apply rel_refl]. cbn [omap]. rewrite E, Hs. reflexivity.
    + unfold items_ok in Hg. cbn [sx_args] in Hg.
      destruct (class_general false OpCharClass v args x (or_introl (conj eq_refl eq_refl)) Hg Hs) as (y & Hy & Hreq).
      rewrite (walk_a_class v args Es). cbn [omap]. rewrite Hy. exists [y]. split; [reflexivity|exact Hreq].
  - (* NegCharClass *)
    cbn [guards] in Hg. destruct (simplifyNegCharClass (X OpNegCharClass v args)) as [s|] eqn:Es.
    + apply existsb_exists in Hg as (p & Hin & Heq). apply sx_eqb_eq in Heq.
      unfold neg_class_table_sound_entries in Hin. cbn [In] in Hin.
      repeat (destruct Hin as [<-|Hin]; [cbn [fst] in Heq; inversion Heq; subst; table_case Hs|]). destruct Hin.
    + unfold items_ok in Hg. cbn [sx_args] in Hg.
      destruct (class_general true OpNegCharClass v args x (or_intror (conj eq_refl eq_refl)) Hg Hs) as (y & Hy & Hreq).
      rewrite (walk_a_negclass v args Es). cbn [omap]. rewrite Hy. exists [y]. split; [reflexivity|exact Hreq].
  - (* Repeat *)
    destruct args as [|y [|r [|? ?]]]; try (simpl in Hs; discriminate Hs).
    pose proof (quant_step (X OpRepeat v [y; r]) eq_refl IHin Hg true x Hs) as Q.
    destruct (dropped_repeat (X OpRepeat v [y; r])); [exact Q|].
    destruct Q as (q' & Hq' & _ & _ & z & Hz & Hreq). rewrite Hq'. cbn [omap]. unfold sden at 1. rewrite Hz.
    exists [z]. split; [reflexivity|exact Hreq].
  - (* Group *)
    destruct args as [|y [|? ?]]; try (simpl in Hs; discriminate Hs).
    cbn [guards] in Hg. unfold sden in Hs. cbn [sdeng] in Hs.
    destruct (IHin y (or_introl eq_refl) Hg x Hs) as (ys & Hys & Hc).
    rewrite walk_a_group. destruct (atom_op (sx_op y)).
    + exists ys. split; assumption.
    + cbn [omap]. unfold sden at 1. cbn [sdeng]. fold sden. rewrite (sden_seq_node _ ys Hys).
      exists [cat_list ys]. split; [reflexivity|exact Hc].
Qed.

(* ---------- the theorem in the vocabulary of the property ---------- *)
(* no capture group, no flag group, no \Q..\E, and inside the domain where the matcher model is Go's semantics *)
Definition in_fragment (e : sx) : bool := match sden e with Some x => loops_ok x | None => false end.
Definition avoids_defects (e : sx) : bool := guards e.

Theorem simplify_sound_fragment e :
  in_fragment e = true -> avoids_defects e = true ->
  exists x y, den_top e = Some (x, 0, []) /\ den_top (simp_ast e) = Some (y, 0, []) /\ y ≈ x /\
              model_exact (simp_ast e) = true /\
              forall subject, find_go (simp_ast e) subject = find_go e subject.
Proof.
  unfold in_fragment, avoids_defects. intros Hf Hg. destruct (sden e) as [x|] eqn:Hs; [|discriminate].
  destruct (walk_sound e Hg x Hs) as (ys & Hys & Hc & Hcons & Hloops).
  pose proof (sden_seq_node _ ys Hys) as Hsn. fold (simp_ast e) in Hsn.
  pose proof (sden_den e x dst0 eq_refl Hs) as H1.
  pose proof (sden_den (simp_ast e) (cat_list ys) dst0 eq_refl Hsn) as H2.
  exists x, (cat_list ys). unfold model_exact, den_top, find_go, den_top. rewrite H1, H2.
  cbn [d_next d_names dst0 rev Nat.sub].
  split; [reflexivity|]. split; [reflexivity|]. split; [exact Hc|]. split; [rewrite Hloops; exact Hf|].
  intros subject. rewrite (req_find _ _ Hc). reflexivity.
Qed.

(* satisfiable: the example of the checker's documentation is in the fragment and avoids the defects *)
Definition doc_example2 : sx :=
  X OpConcat "(?:a|b|c)   [a-z][a-z]*"
    [X OpGroup "(?:a|b|c)" [X OpAlt "a|b|c" [X OpChar "a" []; X OpChar "b" []; X OpChar "c" []]];
     X OpChar " " []; X OpChar " " []; X OpChar " " [];
     X OpCharClass "[a-z]" [X OpCharRange "a-z" [X OpChar "a" []; X OpChar "z" []]];
     X OpStar "[a-z]*" [X OpCharClass "[a-z]" [X OpCharRange "a-z" [X OpChar "a" []; X OpChar "z" []]]]].
Example doc_example_fragment :
  in_fragment doc_example2 = true /\ avoids_defects doc_example2 = true /\ simp_text doc_example2 = "(?:[abc]) {3}[a-z]+".
Proof. repeat split; vm_compute; reflexivity. Qed.
