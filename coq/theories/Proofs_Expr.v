(* Proofs_Expr.v — basic facts about Model_Expr: decidable equalities, typing of values,
   sample environments, evaluation of argument lists, purity. *)
From GC Require Import Base Model_Expr.
From Coq Require Import QArith DecimalString DecimalN DecimalFacts.
Close Scope Q_scope.
Open Scope string_scope.

Lemma ty_eqb_eq a b : ty_eqb a b = true <-> a = b.
Proof. destruct a, b; simpl; split; congruence. Qed.
Lemma ty_eqb_refl a : ty_eqb a a = true.
Proof. destruct a; reflexivity. Qed.

Lemma default_value_typed t : has_type (default_value t) t.
Proof. destruct t; reflexivity. Qed.

Lemma env_of_ok vs fs : env_ok (env_of vs fs).
Proof.
  split.
  - intros x t. unfold env_of, has_type; simpl.
    destruct (find _ vs) as [p|] eqn:F.
    + apply find_some in F as [_ F]. apply andb_true_iff in F as [_ F]. apply ty_eqb_eq in F. exact F.
    + apply default_value_typed.
  - intros f a h t. unfold env_of, has_type; simpl.
    destruct (find _ fs) as [p|]; [|apply default_value_typed].
    destruct (ty_eqb _ t) eqn:E; [apply ty_eqb_eq in E; exact E|apply default_value_typed].
Qed.

(* ---------- induction principle for the nested inductive ---------- *)
Section ExprInd.
  Variable P : expr -> Prop.
  Hypothesis HId : forall x t, P (EIdent x t).
  Hypothesis HLit : forall k s t, P (ELit k s t).
  Hypothesis HParen : forall e, P e -> P (EParen e).
  Hypothesis HUn : forall o e, P e -> P (EUnary o e).
  Hypothesis HBin : forall o l r, P l -> P r -> P (EBinary o l r).
  Hypothesis HCall : forall f args, Forall P args -> P (ECall f args).
  Hypothesis HIdx : forall a i, P a -> P i -> P (EIndex a i).
  Hypothesis HSl : forall a, P a -> P (ESliceAll a).
  Hypothesis HVarK : forall x k t, P (EVarK x k t).
  Hypothesis HSel : forall x f k t, P (ESel x f k t).
  Hypothesis HConst : forall x cv, P (EConst x cv).
  Hypothesis HDeref : forall a, P a -> P (EDeref a).
  Fixpoint expr_ind' (e : expr) : P e :=
    match e with
    | EIdent x t => HId x t
    | ELit k s t => HLit k s t
    | EParen x => HParen x (expr_ind' x)
    | EUnary o x => HUn o x (expr_ind' x)
    | EBinary o l r => HBin o l r (expr_ind' l) (expr_ind' r)
    | ECall f args =>
        HCall f args ((fix go (l : list expr) : Forall P l :=
                         match l with
                         | [] => Forall_nil P
                         | x :: r => Forall_cons x (expr_ind' x) (go r)
                         end) args)
    | EIndex a i => HIdx a i (expr_ind' a) (expr_ind' i)
    | ESliceAll a => HSl a (expr_ind' a)
    | EVarK x k t => HVarK x k t
    | ESel x f k t => HSel x f k t
    | EConst x v => HConst x v
    | EDeref a => HDeref a (expr_ind' a)
    end.
End ExprInd.

(* ---------- decidable equalities ---------- *)
Lemma unop_eqb_eq a b : unop_eqb a b = true -> a = b.
Proof. destruct a, b; simpl; congruence. Qed.
Lemma binop_eqb_eq a b : binop_eqb a b = true -> a = b.
Proof. destruct a, b; vm_compute; congruence. Qed.
Lemma litkind_eqb_eq a b : litkind_eqb a b = true -> a = b.
Proof. destruct a, b; simpl; congruence. Qed.
Lemma prim_eqb_eq a b : prim_eqb a b = true -> a = b.
Proof. destruct a, b; vm_compute; congruence. Qed.
Lemma fn_eqb_eq a b : fn_eqb a b = true -> a = b.
Proof.
  destruct a, b; simpl; try discriminate.
  - intros H. apply andb_true_iff in H as [H1 H2]. apply String.eqb_eq in H1. apply ty_eqb_eq in H2. congruence.
  - intros H. apply prim_eqb_eq in H. congruence.
Qed.

Lemma vkind_eqb_eq a b : vkind_eqb a b = true -> a = b.
Proof. destruct a, b; simpl; try discriminate; auto. intros H. apply String.eqb_eq in H. congruence. Qed.
Lemma fl_eqb_eq a b : fl_eqb a b = true -> a = b.
Proof.
  destruct a as [|x|[pn pd]], b as [|y|[qn qd]]; simpl; try discriminate; auto.
  - intros H. apply Bool.eqb_prop in H. congruence.
  - intros H. apply andb_true_iff in H as [H1 H2]. apply Z.eqb_eq in H1. apply Pos.eqb_eq in H2. congruence.
Qed.
Lemma value_eqb_eq a b : value_eqb a b = true -> a = b.
Proof.
  destruct a, b; simpl; try discriminate; intros H.
  - apply Z.eqb_eq in H. congruence.
  - apply fl_eqb_eq in H. congruence.
  - apply String.eqb_eq in H. congruence.
  - apply String.eqb_eq in H. congruence.
  - apply Bool.eqb_prop in H. congruence.
  - apply (list_eqb_eq Z.eqb Z.eqb_eq) in H. congruence.
  - apply Z.eqb_eq in H. congruence.
  - apply andb_true_iff in H as [H1 H2]. apply Nat.eqb_eq in H1. subst.
    destruct o as [a|], o0 as [b|]; try discriminate; [|reflexivity].
    apply (list_eqb_eq Z.eqb Z.eqb_eq) in H2. congruence.
  - assert (E : forall p q : Z * string, Z.eqb (fst p) (fst q) && String.eqb (snd p) (snd q) = true <-> p = q).
    { intros [a b] [c d]; simpl. rewrite andb_true_iff, Z.eqb_eq, String.eqb_eq. split; [intros [-> ->]; reflexivity|intros H0; inversion H0; auto]. }
    apply (list_eqb_eq _ E) in H. congruence.
Qed.

Lemma expr_eqb_eq : forall a b, expr_eqb a b = true -> a = b.
Proof.
  induction a using expr_ind'; intros b Hb; destruct b; simpl in Hb; try discriminate.
  - apply andb_true_iff in Hb as [H1 H2]. apply String.eqb_eq in H1. apply ty_eqb_eq in H2. congruence.
  - apply andb_true_iff in Hb as [H1 H3]. apply andb_true_iff in H1 as [H1 H2].
    apply litkind_eqb_eq in H1. apply String.eqb_eq in H2. apply ty_eqb_eq in H3. congruence.
  - f_equal. auto.
  - apply andb_true_iff in Hb as [H1 H2]. apply unop_eqb_eq in H1. f_equal; auto.
  - apply andb_true_iff in Hb as [H1 H3]. apply andb_true_iff in H1 as [H1 H2].
    apply binop_eqb_eq in H1. f_equal; auto.
  - apply andb_true_iff in Hb as [H1 H2]. apply fn_eqb_eq in H1. subst f0. f_equal.
    revert args0 H2. induction H as [|x r Hx Hr IH]; intros [|y r'] H2; try discriminate; auto.
    apply andb_true_iff in H2 as [H2 H3]. f_equal; auto.
  - apply andb_true_iff in Hb as [H1 H2]. f_equal; auto.
  - f_equal; auto.
  - apply andb_true_iff in Hb as [H1 H3]. apply andb_true_iff in H1 as [H1 H2].
    apply String.eqb_eq in H1. apply vkind_eqb_eq in H2. apply ty_eqb_eq in H3. congruence.
  - apply andb_true_iff in Hb as [H1 H4]. apply andb_true_iff in H1 as [H1 H3]. apply andb_true_iff in H1 as [H1 H2].
    apply String.eqb_eq in H1. apply String.eqb_eq in H2. apply vkind_eqb_eq in H3. apply ty_eqb_eq in H4. congruence.
  - apply andb_true_iff in Hb as [H1 H2]. apply String.eqb_eq in H1. apply value_eqb_eq in H2. congruence.
  - f_equal; auto.
Qed.

(* ---------- evaluation of argument lists ---------- *)
Lemma evalS_call en f args h :
  evalS en (ECall f args) h =
  match evalS_list en args h with
  | None => None
  | Some (RPanic, h1) => Some (RPanic, h1)
  | Some (RVal vs, h1) =>
      match f with
      | FOpaque name ret => let v := funs en name vs h1 ret in Some (RVal v, Ev name vs v :: h1)
      | FPrim p => lift (prim_apply p vs) h1
      end
  end.
Proof.
  simpl.
  match goal with |- match ?F args h with _ => _ end = _ => assert (E : forall l h0, F l h0 = evalS_list en l h0) end.
  { induction l as [|x r IH]; intros h0; simpl; auto.
    destruct (evalS en x h0) as [[[v|] h1]|]; auto; try (rewrite IH; reflexivity). }
  rewrite E. reflexivity.
Qed.

Fixpoint typeof_list (l : list expr) : option (list ty) :=
  match l with
  | [] => Some []
  | x :: r => match typeof x, typeof_list r with Some t, Some ts => Some (t :: ts) | _, _ => None end
  end.

Lemma typeof_call f args :
  typeof (ECall f args) =
  match typeof_list args with
  | Some ts => match f with FOpaque _ ret => Some ret | FPrim p => prim_type p ts end
  | None => None
  end.
Proof.
  simpl.
  match goal with |- match ?F args with _ => _ end = _ => assert (E : forall l, F l = typeof_list l) end.
  { induction l as [|x r IH]; simpl; auto; try (rewrite IH; reflexivity). }
  rewrite E. reflexivity.
Qed.

Fixpoint sef_list (l : list expr) : bool :=
  match l with [] => true | x :: r => side_effect_free x && sef_list r end.
Lemma sef_call f args :
  side_effect_free (ECall f args) =
  match f with FPrim p => prim_fun_is_type_lit p && sef_list args | FOpaque _ _ => false end.
Proof.
  destruct f; reflexivity.
Qed.

(* ---------- type preservation of evaluation ---------- *)
Lemma lit_value_typed k s t v : lit_value k s t = Some v -> vty v = t.
Proof.
  destruct k, t; simpl; try discriminate.
  - destruct (go_int_lit s); simpl; intros H; inversion H; reflexivity.
  - destruct (go_int_lit s); simpl; intros H; inversion H; reflexivity.
  - destruct (go_float_lit s); simpl; intros H; inversion H; reflexivity.
  - destruct (go_string_lit s); simpl; intros H; inversion H; reflexivity.
Qed.

Lemma binop_apply_typed o v1 v2 v t :
  binop_apply o v1 v2 = Some (RVal v) -> binop_type o (vty v1) (vty v2) = Some t -> vty v = t.
Proof.
  unfold binop_apply, binop_type.
  destruct o, v1, v2; simpl; intros H1 H2; try discriminate;
    repeat match goal with
           | H : context [if ?c then _ else _] |- _ => destruct c
           end;
    try discriminate; inversion H1; inversion H2; reflexivity.
Qed.

Lemma unop_apply_typed o v v' : unop_apply o v = Some (RVal v') -> vty v' = vty v.
Proof. destruct o, v; simpl; intros H; inversion H; reflexivity. Qed.

Lemma prim_apply_typed p vs v t :
  prim_apply p vs = Some (RVal v) -> prim_type p (map vty vs) = Some t -> vty v = t.
Proof.
  destruct p; simpl;
    repeat (let x := fresh "x" in destruct vs as [|x vs]; simpl; try discriminate; try destruct x; simpl; try discriminate);
    intros H1 H2;
    repeat match goal with
           | H : context [if ?c then _ else _] |- _ => destruct c
           | H : option_map _ ?x = Some _ |- _ => destruct x; simpl in H
           end; try discriminate;
    inversion H1; inversion H2; reflexivity.
Qed.

Definition index_result_ty (a : value) : ty := match a with VMap _ => TString | _ => TInt end.
Lemma index_apply_typed a i v : index_apply a i = Some (RVal v) -> vty v = index_result_ty a.
Proof.
  destruct a as [| | | | | | |n [l|]|m], i; simpl; try discriminate; intros H; inversion H as [H']; clear H;
    try reflexivity;
    destruct (_ <? 0)%Z; try discriminate;
    match type of H' with context [match ?x with _ => _ end] => destruct x end; try discriminate; inversion H'; reflexivity.
Qed.

Lemma preservation en (Hen : env_ok en) :
  forall e t h v h', typeof e = Some t -> evalS en e h = Some (RVal v, h') -> vty v = t.
Proof.
  induction e using expr_ind'; intros t0 h v h' Ht Hv.
  - simpl in *. inversion Ht; inversion Hv; subst. apply Hen.
  - simpl in *. destruct (lit_type_ok k s t); [|discriminate]. inversion Ht; subst.
    destruct (lit_value k s t0) eqn:E; simpl in Hv; [|discriminate]. inversion Hv; subst.
    eapply lit_value_typed; eauto.
  - simpl in *. eauto.
  - simpl in Hv. destruct (evalS en e h) as [[[v1|] h1]|] eqn:E; simpl in Hv; try discriminate.
    destruct (unop_apply o v1) as [[v2|]|] eqn:U; simpl in Hv; try discriminate. inversion Hv; subst.
    apply unop_apply_typed in U. rewrite U.
    simpl in Ht. destruct o.
    + destruct (typeof e) as [[]|] eqn:T; try discriminate. inversion Ht; subst. eapply IHe; eauto.
    + destruct (typeof e) as [[]|] eqn:T; try discriminate; inversion Ht; subst; eapply IHe; eauto.
  - simpl in Ht. destruct (typeof e1) as [ta|] eqn:T1; [|discriminate]. destruct (typeof e2) as [tb|] eqn:T2; [|discriminate].
    destruct o;
      try (simpl in Hv;
           destruct (evalS en e1 h) as [[[v1|] h1]|] eqn:E1; simpl in Hv; try discriminate;
           destruct (evalS en e2 h1) as [[[v2|] h2]|] eqn:E2; simpl in Hv; try discriminate;
           match type of Hv with lift ?b _ = _ => destruct b as [[w|]|] eqn:B end; simpl in Hv; try discriminate;
           inversion Hv; subst; eapply binop_apply_typed; [exact B|];
           rewrite (IHe1 _ _ _ _ eq_refl E1), (IHe2 _ _ _ _ eq_refl E2); exact Ht).
    + (* && *)
      assert (t0 = TBool) as ->.
      { unfold binop_type in Ht. destruct (negb (ty_eqb ta tb)); [discriminate|]. destruct ta; congruence. }
      simpl in Hv. destruct (evalS en e1 h) as [[[v1|] h1]|]; simpl in Hv; try discriminate.
      destruct v1 as [| | | |[]| | | |]; try discriminate.
      * destruct (evalS en e2 h1) as [[[v2|] h2]|]; simpl in Hv; try discriminate.
        destruct v2; simpl in Hv; try discriminate. inversion Hv; reflexivity.
      * inversion Hv; reflexivity.
    + (* || *)
      assert (t0 = TBool) as ->.
      { unfold binop_type in Ht. destruct (negb (ty_eqb ta tb)); [discriminate|]. destruct ta; congruence. }
      simpl in Hv. destruct (evalS en e1 h) as [[[v1|] h1]|]; simpl in Hv; try discriminate.
      destruct v1 as [| | | |[]| | | |]; try discriminate.
      * inversion Hv; reflexivity.
      * destruct (evalS en e2 h1) as [[[v2|] h2]|]; simpl in Hv; try discriminate.
        destruct v2; simpl in Hv; try discriminate. inversion Hv; reflexivity.
  - rewrite typeof_call in Ht. rewrite evalS_call in Hv.
    destruct (typeof_list args) as [ts|] eqn:TL; [|discriminate].
    destruct (evalS_list en args h) as [[[vs|] h1]|] eqn:EL; try discriminate.
    assert (M : map vty vs = ts).
    { clear Ht Hv. revert ts h vs h1 TL EL. induction H as [|x r Hx Hr IH]; intros ts h vs h1 TL EL; simpl in *.
      - inversion TL; inversion EL; reflexivity.
      - destruct (typeof x) as [tx|] eqn:Tx; [|discriminate]. destruct (typeof_list r) as [tr|] eqn:Tr; [|discriminate].
        inversion TL; subst.
        destruct (evalS en x h) as [[[vx|] hx]|] eqn:Ex; try discriminate.
        destruct (evalS_list en r hx) as [[[vr|] hr]|] eqn:Er; try discriminate.
        inversion EL; subst. simpl. f_equal; eauto. }
    destruct f as [name ret|p].
    + simpl in Hv. inversion Hv; inversion Ht; subst. apply Hen.
    + destruct (prim_apply p vs) as [[w|]|] eqn:PA; simpl in Hv; try discriminate. inversion Hv; subst.
      eapply prim_apply_typed; [exact PA|exact Ht].
  - simpl in Ht. simpl in Hv.
    destruct (typeof e1) as [t1|] eqn:T1; [|discriminate].
    destruct (evalS en e1 h) as [[[v1|] h1]|] eqn:E1; simpl in Hv; try discriminate.
    pose proof (IHe1 _ _ _ _ eq_refl E1) as V1.
    destruct (evalS en e2 h1) as [[[v2|] h2]|]; simpl in Hv; try discriminate.
    destruct (index_apply v1 v2) as [[w|]|] eqn:IA; simpl in Hv; try discriminate. inversion Hv; subst.
    rewrite (index_apply_typed _ _ _ IA).
    destruct v1; simpl in *; destruct (typeof e2) as [[]|]; try discriminate; inversion Ht; reflexivity.
  - simpl in Hv. destruct (evalS en e h) as [[[v1|] h1]|] eqn:E; simpl in Hv; try discriminate.
    simpl in Ht. destruct (typeof e) as [te|] eqn:T; [|discriminate].
    pose proof (IHe _ _ _ _ eq_refl E) as V1.
    destruct v1 as [| | | | | | |n [l|]|m]; simpl in Hv; try discriminate; inversion Hv; subst; simpl in Ht; inversion Ht; reflexivity.
  - simpl in *. inversion Ht; inversion Hv; subst. apply Hen.
  - simpl in *. destruct (nilp en x); [discriminate|]. inversion Ht; inversion Hv; subst. apply Hen.
  - simpl in *. inversion Ht; inversion Hv; subst. reflexivity.
  - simpl in Hv. destruct (evalS en e h) as [[[v1|] h1]|] eqn:E; simpl in Hv; try discriminate.
    simpl in Ht. destruct (typeof e) as [[]|] eqn:T; try discriminate. inversion Ht; subst.
    destruct v1 as [| | | | | | |n [l|]|m]; simpl in Hv; try discriminate; inversion Hv; subst; reflexivity.
Qed.

(* ---------- side-effect-free expressions: no events, result independent of the history ---------- *)
Definition pure_at (en : env) (e : expr) : Prop := exists r : option outcome, forall h, evalS en e h = lift r h.

(* no opaque call anywhere: the common core of the purity notions of the tools *)
Fixpoint no_opaque (e : expr) : bool :=
  match e with
  | EIdent _ _ | ELit _ _ _ | EVarK _ _ _ | ESel _ _ _ _ | EConst _ _ => true
  | EParen x | EUnary _ x | ESliceAll x | EDeref x => no_opaque x
  | EBinary _ l r => no_opaque l && no_opaque r
  | EIndex a i => no_opaque a && no_opaque i
  | ECall (FPrim _) args => (fix go (l : list expr) : bool := match l with [] => true | x :: r => no_opaque x && go r end) args
  | ECall (FOpaque _ _) _ => false
  end.
Fixpoint no_opaque_list (l : list expr) : bool :=
  match l with [] => true | x :: r => no_opaque x && no_opaque_list r end.
Lemma no_opaque_call f args :
  no_opaque (ECall f args) = match f with FPrim _ => no_opaque_list args | FOpaque _ _ => false end.
Proof. destruct f; reflexivity. Qed.

Lemma no_opaque_pure en : forall e, no_opaque e = true -> pure_at en e.
Proof.
  induction e using expr_ind'; intros S.
  - eexists (Some _); intros h; reflexivity.
  - exists (option_map RVal (lit_value k s t)); intros h; reflexivity.
  - simpl in *. auto.
  - simpl in S. destruct (IHe S) as [r Hr].
    destruct r as [[v|]|].
    + exists (unop_apply o v). intros h. simpl. rewrite Hr. reflexivity.
    + exists (Some RPanic). intros h. simpl. rewrite Hr. reflexivity.
    + exists None. intros h. simpl. rewrite Hr. reflexivity.
  - simpl in S. apply andb_true_iff in S as [S1 S2].
    destruct (IHe1 S1) as [r1 H1], (IHe2 S2) as [r2 H2].
    destruct r1 as [[v1|]|]; [|exists (Some RPanic); intros h; destruct o; simpl; rewrite H1; reflexivity
                              |exists None; intros h; destruct o; simpl; rewrite H1; reflexivity].
    destruct r2 as [[v2|]|].
    + destruct o;
        try (match goal with |- pure_at _ (EBinary ?o _ _) => exists (binop_apply o v1 v2) end; intros h; simpl; rewrite H1; simpl; rewrite H2; reflexivity).
      * destruct v1 as [| | | |[]| | | |];
          try (exists None; intros h; simpl; rewrite H1; reflexivity).
        -- destruct v2; try (exists None; intros h; simpl; rewrite H1; simpl; rewrite H2; reflexivity).
           eexists (Some _); intros h; simpl; rewrite H1; simpl; rewrite H2; reflexivity.
        -- eexists (Some _); intros h; simpl; rewrite H1; reflexivity.
      * destruct v1 as [| | | |[]| | | |];
          try (exists None; intros h; simpl; rewrite H1; reflexivity).
        -- eexists (Some _); intros h; simpl; rewrite H1; reflexivity.
        -- destruct v2; try (exists None; intros h; simpl; rewrite H1; simpl; rewrite H2; reflexivity).
           eexists (Some _); intros h; simpl; rewrite H1; simpl; rewrite H2; reflexivity.
    + destruct o;
        try (exists (Some RPanic); intros h; simpl; rewrite H1; simpl; rewrite H2; reflexivity).
      * destruct v1 as [| | | |[]| | | |];
          try (exists None; intros h; simpl; rewrite H1; reflexivity).
        -- exists (Some RPanic); intros h; simpl; rewrite H1; simpl; rewrite H2; reflexivity.
        -- eexists (Some _); intros h; simpl; rewrite H1; reflexivity.
      * destruct v1 as [| | | |[]| | | |];
          try (exists None; intros h; simpl; rewrite H1; reflexivity).
        -- eexists (Some _); intros h; simpl; rewrite H1; reflexivity.
        -- exists (Some RPanic); intros h; simpl; rewrite H1; simpl; rewrite H2; reflexivity.
    + destruct o;
        try (exists None; intros h; simpl; rewrite H1; simpl; rewrite H2; reflexivity).
      * destruct v1 as [| | | |[]| | | |];
          try (exists None; intros h; simpl; rewrite H1; reflexivity).
        -- exists None; intros h; simpl; rewrite H1; simpl; rewrite H2; reflexivity.
        -- eexists (Some _); intros h; simpl; rewrite H1; reflexivity.
      * destruct v1 as [| | | |[]| | | |];
          try (exists None; intros h; simpl; rewrite H1; reflexivity).
        -- eexists (Some _); intros h; simpl; rewrite H1; reflexivity.
        -- exists None; intros h; simpl; rewrite H1; simpl; rewrite H2; reflexivity.
  - rewrite no_opaque_call in S. destruct f as [|p]; [discriminate|].
    assert (L : exists rs : option (res (list value)), forall h, evalS_list en args h = match rs with Some x => Some (x, h) | None => None end).
    { induction H as [|x r Hx Hr IH]; simpl in *.
      - exists (Some (RVal [])). reflexivity.
      - apply andb_true_iff in S as [Sx Sr]. destruct (Hx Sx) as [rx Ex], (IH Sr) as [rr Er].
        destruct rx as [[vx|]|].
        + destruct rr as [[vr|]|].
          * exists (Some (RVal (vx :: vr))). intros h. rewrite Ex. simpl. rewrite Er. reflexivity.
          * exists (Some RPanic). intros h. rewrite Ex. simpl. rewrite Er. reflexivity.
          * exists None. intros h. rewrite Ex. simpl. rewrite Er. reflexivity.
        + exists (Some RPanic). intros h. rewrite Ex. reflexivity.
        + exists None. intros h. rewrite Ex. reflexivity. }
    destruct L as [rs Hrs]. destruct rs as [[vs|]|].
    + exists (prim_apply p vs). intros h. rewrite evalS_call, Hrs. reflexivity.
    + exists (Some RPanic). intros h. rewrite evalS_call, Hrs. reflexivity.
    + exists None. intros h. rewrite evalS_call, Hrs. reflexivity.
  - simpl in S. apply andb_true_iff in S as [S1 S2].
    destruct (IHe1 S1) as [r1 H1], (IHe2 S2) as [r2 H2].
    destruct r1 as [[v1|]|].
    + destruct r2 as [[v2|]|].
      * exists (index_apply v1 v2). intros h. simpl. rewrite H1. simpl. rewrite H2. reflexivity.
      * exists (Some RPanic). intros h. simpl. rewrite H1. simpl. rewrite H2. reflexivity.
      * exists None. intros h. simpl. rewrite H1. simpl. rewrite H2. reflexivity.
    + exists (Some RPanic). intros h. simpl. rewrite H1. reflexivity.
    + exists None. intros h. simpl. rewrite H1. reflexivity.
  - simpl in S. destruct (IHe S) as [r Hr]. destruct r as [[v|]|].
    + exists (slice_all_apply v). intros h. simpl. rewrite Hr. reflexivity.
    + exists (Some RPanic). intros h. simpl. rewrite Hr. reflexivity.
    + exists None. intros h. simpl. rewrite Hr. reflexivity.
  - eexists (Some _); intros h; reflexivity.
  - exists (if nilp en x then Some RPanic else Some (RVal (vars en (x ++ "." ++ f) t))); intros h; simpl.
    destruct (nilp en x); reflexivity.
  - eexists (Some _); intros h; reflexivity.
  - simpl in S. destruct (IHe S) as [r Hr]. destruct r as [[v|]|].
    + exists (deref_apply v). intros h. simpl. rewrite Hr. reflexivity.
    + exists (Some RPanic). intros h. simpl. rewrite Hr. reflexivity.
    + exists None. intros h. simpl. rewrite Hr. reflexivity.
Qed.


Lemma sef_no_opaque : forall e, side_effect_free e = true -> no_opaque e = true.
Proof.
  induction e using expr_ind'; simpl; intros S; auto.
  - apply andb_true_iff in S as [S1 S2]. rewrite IHe1, IHe2; auto.
  - destruct f as [|p]; [discriminate|]. apply andb_true_iff in S as [_ S].
    induction H as [|x r Hx Hr IH]; simpl in *; auto. apply andb_true_iff in S as [S1 S2]. rewrite Hx, IH; auto.
  - apply andb_true_iff in S as [S1 S2]. rewrite IHe1, IHe2; auto.
Qed.

Fixpoint rg_pure_list (l : list expr) : bool :=
  match l with [] => true | x :: r => rg_pure x && rg_pure_list r end.
Lemma rg_pure_no_opaque : forall e, rg_pure e = true -> no_opaque e = true.
Proof.
  induction e using expr_ind'; simpl; intros S; auto; try discriminate.
  - apply andb_true_iff in S as [S1 S2]. rewrite IHe1, IHe2; auto.
  - destruct f as [|p]; [discriminate|].
    assert (S' : rg_pure_list args = true) by (destruct p; try discriminate; exact S).
    clear S. induction H as [|x r Hx Hr IH]; simpl in *; auto. apply andb_true_iff in S' as [S1 S2]. rewrite Hx, IH; auto.
  - apply andb_true_iff in S as [S1 S2]. rewrite IHe1, IHe2; auto.
Qed.

Lemma side_effect_free_pure en e : side_effect_free e = true -> pure_at en e.
Proof. intros S. apply no_opaque_pure. apply sef_no_opaque. exact S. Qed.

(* ---------- decimal literals: strconv.FormatInt output is read back by the Go literal reader ---------- *)
Lemma strip_us_digits d : strip_us (NilEmpty.string_of_uint d) = NilEmpty.string_of_uint d.
Proof. induction d; simpl; try rewrite IHd; reflexivity. Qed.

Lemma unorm_D0 d d' : Decimal.unorm d = Decimal.D0 d' -> d' = Decimal.Nil.
Proof.
  induction d; simpl; intros H; try discriminate; auto.
  inversion H; reflexivity.
Qed.
Lemma unorm_nonnil d : Decimal.unorm d <> Decimal.Nil.
Proof. induction d; simpl; try discriminate; auto. Qed.

Lemma to_uint_unorm n : N.to_uint n = Decimal.unorm (N.to_uint n).
Proof. rewrite <- DecimalN.Unsigned.to_of. rewrite DecimalN.Unsigned.of_to. reflexivity. Qed.

Lemma go_int_lit_dec_of_N n : go_int_lit (dec_of_N n) = Some (Z.of_N n).
Proof.
  unfold go_int_lit, dec_of_N. rewrite strip_us_digits.
  pose proof (to_uint_unorm n) as U. pose proof (DecimalN.Unsigned.of_to n) as OT.
  assert (D : dec_parse (NilEmpty.string_of_uint (N.to_uint n)) = Some n).
  { unfold dec_parse. rewrite NilEmpty.usu, OT.
    destruct (N.to_uint n) eqn:E; try reflexivity. exfalso. symmetry in U. revert U. apply unorm_nonnil. }
  destruct (N.to_uint n) as [|d|d|d|d|d|d|d|d|d|d];
    try (simpl in *; rewrite D; reflexivity).
  - discriminate U.
  - (* leading digit 0: the numeral is exactly "0" *)
    symmetry in U. apply unorm_D0 in U. subst d. vm_compute in D. inversion D. reflexivity.
Qed.

Lemma go_int_lit_dec_of_Z z : (0 <= z)%Z -> go_int_lit (dec_of_Z z) = Some z.
Proof.
  destruct z as [|p|p]; intros H.
  - reflexivity.
  - unfold dec_of_Z. rewrite go_int_lit_dec_of_N. reflexivity.
  - exfalso. apply H. reflexivity.
Qed.

Lemma parse_int_base10_nonneg s z : parse_int_base10 s = Some z -> (0 <= z)%Z.
Proof.
  unfold parse_int_base10. destruct (dec_parse s); [|discriminate].
  destruct (_ <=? _)%Z; [|discriminate]. intros H; inversion H. apply N2Z.is_nonneg.
Qed.
