(* Proofs_Expr.v — basic facts about Model_Expr: decidable equalities, typing of values,
   sample environments, evaluation of argument lists, purity. *)
From GC Require Import Base Model_Expr.
From Coq Require Import QArith DecimalString DecimalN DecimalFacts.
Close Scope Q_scope.
Open Scope string_scope.

Lemma ty_eqb_eq a b : ty_eqb a b = true <-> a = b.
Proof. destruct a, b; simpl; split; congruence. Qed.
Lemma ty_eqb_refl a : ty_eqb a a = true.
Proof. destruct a; reflexivity. Qed.

Lemma default_value_typed t : has_type (default_value t) t.
Proof. destruct t; reflexivity. Qed.

Lemma env_of_ok vs fs : env_ok (env_of vs fs).
Proof.
  split.
  - intros x t. unfold env_of, has_type; simpl.
    destruct (find _ vs) as [p|] eqn:F.
    + apply find_some in F as [_ F]. apply andb_true_iff in F as [_ F]. apply ty_eqb_eq in F. exact F.
    + apply default_value_typed.
  - intros f a h t. unfold env_of, has_type; simpl.
    destruct (find _ fs) as [p|]; [|apply default_value_typed].
    destruct (ty_eqb _ t) eqn:E; [apply ty_eqb_eq in E; exact E|apply default_value_typed].
Qed.
