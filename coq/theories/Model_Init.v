(* Model_Init.v — how configuration errors travel: the CLI step runner (cmd/go-critic/check.go:29-56,
   265-295, 187-263) and the analyzer's cached initialisation with its report-once latch
   (checkers/analyzer/run.go:27-55, 82-135, 225-235). No proofs here. *)
From GC Require Export Base.

(* ---------------- CLI ---------------- *)
Record cli_config := {
  args_parse_ok : bool;     (* flag.Parse accepts the arguments (e.g. -@hugeParam.sizeThreshold=x does not) *)
  load_ok : bool;           (* go/packages returned no error *)
  go_version_ok : bool;     (* linter.ParseGoVersion accepts -go *)
  selection_nonempty : bool;
  first_ctor_error : bool   (* some selected checker's constructor fails (unknown failOn, rules pattern without match, ...) *)
}.

Inductive cli_outcome :=
| Fatal (step : string)   (* log.Fatalf("<step>: <err>") : exit status 1, message names the step *)
| CliPanic (site : string)
| Ran.                    (* checkers ran; exit status decided by diagnostics (C16) *)

(* the step list of runCheck, in order; each step either continues or ends the run *)
Definition cli_steps (c : cli_config) : list (string * option cli_outcome) :=
  [ ("bind checker params", None);
    ("bind default enabled list", None);
    ("parse args", if args_parse_ok c then None else Some (Fatal "parse args"));
    ("start profiling", None);
    ("assign checker params", None);
    ("load program",
       if negb (load_ok c) then Some (Fatal "load packages")
       else if negb (go_version_ok c) then Some (Fatal "load program")
       else None);
    ("init checkers",
       if first_ctor_error c then Some (Fatal "init checkers")
       else if negb (selection_nonempty c) then Some (Fatal "init checkers")
       else None) ].

Fixpoint run_steps (l : list (string * option cli_outcome)) : cli_outcome :=
  match l with
  | [] => Ran
  | (_, Some o) :: _ => o
  | (_, None) :: r => run_steps r
  end.
Definition run_cli (c : cli_config) : cli_outcome := run_steps (cli_steps c).

(* before the repair, loadProgram called Context.SetGoVersion, which panics on a parse error *)
Definition cli_steps_prefix (c : cli_config) : list (string * option cli_outcome) :=
  [ ("parse args", if args_parse_ok c then None else Some (Fatal "parse args"));
    ("load program",
       if negb (load_ok c) then Some (Fatal "load packages")
       else if negb (go_version_ok c) then Some (CliPanic "SetGoVersion")
       else None);
    ("init checkers",
       if first_ctor_error c then Some (Fatal "init checkers")
       else if negb (selection_nonempty c) then Some (Fatal "init checkers")
       else None) ].
Definition run_cli_prefix (c : cli_config) : cli_outcome := run_steps (cli_steps_prefix c).

Definition cli_valid (c : cli_config) : bool :=
  args_parse_ok c && load_ok c && go_version_ok c && selection_nonempty c && negb (first_ctor_error c).

(* ---------------- analyzer ---------------- *)
(* flags are process-global and may change between passes; a configuration is what newGocritic
   would make of the flags at that moment *)
Record an_config := {
  an_go_ok : bool;          (* ParseGoVersion(flagGoVersion) succeeds *)
  an_ctor_ok : bool         (* createCheckers succeeds for the filtered list *)
}.
Record gstate := { cached : option an_config; latch : bool }.
Definition g0 : gstate := {| cached := None; latch := false |}.

Inductive prep_result := PCritic (c : an_config) | PErr | PNilNil.

(* prepareGocritic with the cache enabled *)
Definition prepare (g : gstate) (flags : an_config) : gstate * prep_result :=
  if latch g then (g, PNilNil)
  else match cached g with
       | Some c => (g, PCritic c)
       | None =>
           if an_go_ok flags then ({| cached := Some flags; latch := false |}, PCritic flags)
           else ({| cached := None; latch := true |}, PErr)
       end.

Inductive pass_result :=
| PassDiags        (* checkers ran over the package *)
| PassInitError    (* "init error: ..." returned to the driver: non-zero exit, message names the problem *)
| PassCtorError    (* createCheckers failed: error returned, nothing analysed *)
| PassSkipped      (* error already reported: nothing analysed, nothing reported *)
| PassPanic.       (* nil dereference *)

(* runAnalyzer today *)
Definition run_pass (g : gstate) (flags : an_config) : gstate * pass_result :=
  let '(g', r) := prepare g flags in
  match r with
  | PErr => (g', PassInitError)
  | PNilNil => (g', PassSkipped)
  | PCritic c => (g', if an_ctor_ok c then PassDiags else PassCtorError)
  end.

(* runAnalyzer before the repair: (nil, nil) from prepareGocritic was dereferenced *)
Definition run_pass_prefix (g : gstate) (flags : an_config) : gstate * pass_result :=
  let '(g', r) := prepare g flags in
  match r with
  | PErr => (g', PassInitError)
  | PNilNil => (g', PassPanic)
  | PCritic c => (g', if an_ctor_ok c then PassDiags else PassCtorError)
  end.

(* a history of passes, each seeing the flag values of its moment *)
Fixpoint run_passes (step : gstate -> an_config -> gstate * pass_result)
         (g : gstate) (h : list an_config) : list pass_result :=
  match h with
  | [] => []
  | f :: r => let '(g', o) := step g f in o :: run_passes step g' r
  end.

Definition is_clean_failure (o : pass_result) : bool :=
  match o with PassInitError | PassCtorError | PassSkipped => true | _ => false end.

(* ---------------- round 5: what the command-line arguments yield ----------------
   loadProgram calls packages.Load itself and refuses, before anything is analysed, an empty package list and every
   package without a name or without files (missing directory or file, pattern without match, directory without Go
   files, missing package clause, unknown import path, `go list` giving up): "load program: <id>: <error>". *)
Record target_config := {
  tc_base : cli_config;
  tc_all_targets_yield : bool    (* every argument yields at least one package with files *)
}.
Definition target_steps (c : target_config) : list (string * option cli_outcome) :=
  let b := tc_base c in
  [ ("parse args", if args_parse_ok b then None else Some (Fatal "parse args"));
    ("load program",
       if negb (load_ok b) then Some (Fatal "load packages")
       else if negb (tc_all_targets_yield c) then Some (Fatal "load program")
       else if negb (go_version_ok b) then Some (Fatal "load program")
       else None);
    ("init checkers",
       if first_ctor_error b then Some (Fatal "init checkers")
       else if negb (selection_nonempty b) then Some (Fatal "init checkers")
       else None) ].
Definition run_cli_targets (c : target_config) : cli_outcome := run_steps (target_steps c).
Definition target_config_valid (c : target_config) : bool := cli_valid (tc_base c) && tc_all_targets_yield c.

(* before the repair the patterns went to pkgload.LoadPackages, which passes over nameless packages, and nobody
   looked at the packages' Errors: an argument that yields nothing changed nothing *)
Definition run_cli_targets_prefix (c : target_config) : cli_outcome := run_cli (tc_base c).

(* ---------------- round 5: the sub-command dispatcher ----------------
   cmd/go-critic/main.go run() + github.com/cristalhq/acmd Runner.Run/findCmd, cmd/go-critic/doc.go runDocs.
   argv is os.Args[1:]. *)
Inductive dispatched :=
| DCheck (args : list string)
| DDoc (args : list string)
| DHelp
| DVersion
| DError (msg : string).

Definition quote (s : string) : string := String (ascii_of_N 34) (s ++ String (ascii_of_N 34) "").
Definition subcommands : list string := ["check"; "doc"; "help"; "version"].

Definition dispatch (argv : list string) : dispatched :=
  match argv with
  | [] => DError "no args provided"
  | c :: rest =>
      (* run() refuses the empty word before the runner sees it *)
      if String.eqb c "" then DError ("no such command " ++ quote c)
      else if String.eqb c "check" then DCheck rest
      else if String.eqb c "doc" then DDoc rest
      else if String.eqb c "help" then DHelp
      else if String.eqb c "version" then DVersion
      else DError ("no such command " ++ quote c)
  end.

(* flag.FlagSet.Parse for a flag set without flags: "--" ends the flags, "-" is positional, any other
   argument that starts with '-' before the first positional one is an error (incl. -h: flag.ErrHelp) *)
Definition doc_parse (args : list string) : option (list string) :=
  match args with
  | [] => Some []
  | a :: r => if String.eqb a "--" then Some r
              else if has_prefix "-" a && negb (String.eqb a "-") then None
              else Some args
  end.

Definition doc_status (known : string -> bool) (args : list string) : Z :=
  match doc_parse args with
  | None => 1                                   (* returned error -> log.Fatal in run() *)
  | Some [] => 0                                (* printShortDoc *)
  | Some [n] => if known n then 0 else 1        (* printDoc / log.Fatalf("checker with name %q not found") *)
  | Some _ => 1                                 (* log.Fatalf("expected 0 or 1 positional arguments") *)
  end.

(* exit status of main; check_status abstracts runCheck (Model_Init.run_cli for errors, Model_Cli.run otherwise) *)
Definition main_status (known : string -> bool) (check_status : list string -> Z) (argv : list string) : Z :=
  match dispatch argv with
  | DCheck a => check_status a
  | DDoc a => doc_status known a
  | DHelp | DVersion => 0
  | DError _ => 1
  end.

(* the runner alone (github.com/cristalhq/acmd findCmd) compares the word with each command's Name AND Alias; no
   command has an alias, so the empty word equals every alias and selects the first command of the sorted list: check *)
Definition dispatch_prefix (argv : list string) : dispatched :=
  match argv with
  | [] => DError "no args provided"
  | c :: rest =>
      if String.eqb c "check" || String.eqb c "" then DCheck rest
      else if String.eqb c "doc" then DDoc rest
      else if String.eqb c "help" then DHelp
      else if String.eqb c "version" then DVersion
      else DError ("no such command " ++ quote c)
  end.
Definition main_status_empty_word_prefix (known : string -> bool) (check_status : list string -> Z) (argv : list string) : Z :=
  match dispatch_prefix argv with
  | DCheck a => check_status a
  | DDoc a => doc_status known a
  | DHelp | DVersion => 0
  | DError _ => 1
  end.

(* before the earlier repair run() only printed the runner's error *)
Definition main_status_prefix (known : string -> bool) (check_status : list string -> Z) (argv : list string) : Z :=
  match dispatch argv with
  | DCheck a => check_status a
  | DDoc a => match doc_parse a with None => 0 | _ => doc_status known a end
  | DHelp | DVersion => 0
  | DError _ => 0
  end.
