From GC Require Import Base Model_Select Proofs_Select Model_Cli Proofs_Cli Model_Sched Proofs_Sched Model_System.

Lemma file_checked_indep cfg n g w1 w2 :
  file_checked cfg {| fname := n; fgroups := g; fwarn := w1 |} = file_checked cfg {| fname := n; fgroups := g; fwarn := w2 |}.
Proof. reflexivity. Qed.

Lemma flat_map_filter {A B} (p : A -> bool) (g : A -> list B) l :
  flat_map g (filter p l) = flat_map (fun x => if p x then g x else []) l.
Proof.
  induction l as [|x r IH]; [reflexivity|]. simpl. destruct (p x); simpl; rewrite IH; reflexivity.
Qed.

Lemma flat_map_ext_in {A B} (f g : A -> list B) l : (forall x, In x l -> f x = g x) -> flat_map f l = flat_map g l.
Proof.
  induction l as [|x r IH]; intros H; [reflexivity|]. simpl. rewrite (H x (or_introl eq_refl)).
  rewrite IH; [reflexivity|]. intros y Hy. apply H. right. exact Hy.
Qed.

Lemma file_lines_src sel f :
  file_lines (file_as_src sel f) =
  flat_map (fun c => map (fun w => fmt_line (fst w) (cname c) (snd w)) (warnings_of f c)) sel.
Proof.
  unfold file_lines, file_as_src. cbn [fwarn]. induction sel as [|c r IH]; [reflexivity|].
  cbn [map flat_map fst snd]. rewrite IH. reflexivity.
Qed.

(* the whole run prints exactly the specified lines, when every registered checker is validly named *)
Lemma system_run_lines reg fl cfg files :
  forallb valid_checker reg = true ->
  all_lines cfg (map (file_as_src (selected reg fl)) files) = spec_lines reg fl cfg files.
Proof.
  intros Hv. unfold all_lines, spec_lines. rewrite flat_map_concat_map, map_map, <- flat_map_concat_map.
  apply flat_map_ext_in. intros f _.
  unfold file_as_src at 1.
  rewrite (file_checked_indep cfg (sf_name f) (sf_groups f) (map (fun c => (cname c, warnings_of f c)) (selected reg fl)) []).
  destruct (file_checked cfg {| fname := sf_name f; fgroups := sf_groups f; fwarn := [] |}); [|reflexivity].
  change {| fname := sf_name f; fgroups := sf_groups f; fwarn := map (fun c => (cname c, warnings_of f c)) (selected reg fl) |} with (file_as_src (selected reg fl) f).
  rewrite file_lines_src. unfold selected. rewrite flat_map_filter.
  apply flat_map_ext_in. intros c Hc.
  assert (Hvc : valid_checker c = true) by (rewrite forallb_forall in Hv; auto).
  unfold cli_selected. rewrite (filter_selected_spec _ _ _ c Hvc). reflexivity.
Qed.

Lemma system_run_spec reg fl cfg files :
  forallb valid_checker reg = true ->
  system_run reg fl cfg files =
  match selected reg fl with
  | [] => SysFatal "init checkers"
  | _ => SysExit (if nonempty (spec_lines reg fl cfg files) then exit_code cfg else 0%Z) (spec_lines reg fl cfg files)
  end.
Proof.
  intros Hv. unfold system_run. destruct (selected reg fl) as [|c r] eqn:E; [reflexivity|].
  rewrite run_spec. rewrite <- E. rewrite (system_run_lines reg fl cfg files Hv). reflexivity.
Qed.

(* per file, every complete schedule of the pool prints what file_lines says *)
Lemma sequential_pool sel f : forall n, n <= List.length sel ->
  sequential (pool_run sel f) n =
  flat_map (fun c => map (fun w => fmt_line (fst w) (cname c) (snd w)) (warnings_of f c)) (firstn n sel).
Proof.
  induction n as [|n IH]; intros Hn; [reflexivity|].
  cbn [sequential]. rewrite IH by lia.
  assert (Hlt : n < List.length sel) by lia.
  destruct (nth_error sel n) as [c|] eqn:En; [|apply nth_error_None in En; lia].
  replace (pool_run sel f n) with (map (fun w => fmt_line (fst w) (cname c) (snd w)) (warnings_of f c))
    by (unfold pool_run; rewrite En; reflexivity).
  assert (Hf : firstn (S n) sel = (firstn n sel ++ [c])%list).
  { clear - En. revert n En. induction sel as [|x r IH]; intros [|n] En; simpl in *; try discriminate.
    - injection En as ->. reflexivity.
    - rewrite (IH n En). reflexivity. }
  rewrite Hf, flat_map_app. simpl. rewrite app_nil_r. reflexivity.
Qed.

Lemma pool_prints_file_lines cap sel f sch s' :
  exec (list string) (List.length sel) cap (pool_run sel f) (init (list string)) sch = Some s' ->
  terminal (list string) (List.length sel) s' ->
  printed (slots (list string) s') (List.length sel) = file_lines (file_as_src sel f).
Proof.
  intros He Ht. rewrite (sched_confluent _ cap _ sch s' He Ht).
  rewrite sequential_pool by lia. rewrite firstn_all. symmetry. apply file_lines_src.
Qed.

(* ---- both kinds of front-end print the same lines when they select the same checkers and the CLI
        filters no file ---- *)
Lemma an_lines_filter reg af files :
  an_lines reg af files =
  flat_map (fun f => flat_map (fun c => if an_selected af c
      then map (fun w => fmt_line (fst w) (cname c) (snd w)) (warnings_of f c) else []) reg) files.
Proof.
  unfold an_lines, an_filter. apply flat_map_ext_in. intros f _. apply flat_map_filter.
Qed.

Lemma frontends_same_lines reg fl af cfg files :
  forallb valid_checker reg = true ->
  (forall c, In c reg -> an_selected af c = cli_selected reg fl c) ->
  (forall f, In f files -> file_checked cfg {| fname := sf_name f; fgroups := sf_groups f; fwarn := [] |} = true) ->
  spec_lines reg fl cfg files = an_lines reg af files.
Proof.
  intros Hv Hsel Hf. rewrite an_lines_filter. unfold spec_lines.
  apply flat_map_ext_in. intros f Hin. rewrite (Hf f Hin).
  apply flat_map_ext_in. intros c Hc.
  assert (Hvc : valid_checker c = true) by (rewrite forallb_forall in Hv; auto).
  rewrite (Hsel c Hc). unfold cli_selected. rewrite (filter_selected_spec _ _ _ c Hvc). reflexivity.
Qed.

Lemma selected_nil_iff reg fl af :
  (forall c, In c reg -> an_selected af c = cli_selected reg fl c) ->
  an_filter af reg = selected reg fl.
Proof.
  intros H. unfold an_filter, selected. apply filter_ext_in. exact H.
Qed.

Lemma frontends_agree reg fl af cfg files :
  forallb valid_checker reg = true ->
  (forall c, In c reg -> an_selected af c = cli_selected reg fl c) ->
  (forall f, In f files -> file_checked cfg {| fname := sf_name f; fgroups := sf_groups f; fwarn := [] |} = true) ->
  match system_run reg fl cfg files, analysis_run reg af files with
  | SysFatal _, AnError => True
  | SysExit c1 l1, AnExit c2 l2 => l1 = l2 /\ (c2 = 0%Z <-> l1 = []) /\ (l1 = [] -> c1 = 0%Z)
  | _, _ => False
  end.
Proof.
  intros Hv Hsel Hf. rewrite (system_run_spec reg fl cfg files Hv). unfold analysis_run.
  rewrite (selected_nil_iff reg fl af Hsel).
  destruct (selected reg fl) as [|c r]; [exact I|].
  rewrite (frontends_same_lines reg fl af cfg files Hv Hsel Hf).
  split; [reflexivity|]. destruct (an_lines reg af files) as [|x l]; cbn [an_nonempty nonempty].
  - split; [split; reflexivity|reflexivity].
  - split; [split; discriminate|discriminate].
Qed.

