(* Model_PrecParse.v — a model of the part of go/parser that decides how operators group: precedence climbing
   (parseBinaryExpr(prec1): parse a unary expression, then, while the next token is a binary operator of precedence
   >= prec1, parse the right operand at precedence+1 and fold to the left), unary operators, primary expressions with
   selector / call / index / composite / assertion suffixes and parenthesised expressions, over Model_Prec's tokens.
   All functions recurse on explicit fuel; running out of fuel is the error value None. No proofs. *)
From GC Require Import Base Model_Prec.
Local Open Scope list_scope.

Definition binprec (s : string) : nat :=
  if mem s ["||"] then 1
  else if mem s ["&&"] then 2
  else if mem s ["=="; "!="; "<"; "<="; ">"; ">="] then 3
  else if mem s ["+"; "-"; "|"; "^"] then 4
  else if mem s ["*"; "/"; "%"; "<<"; ">>"; "&"; "&^"] then 5
  else 0.

Definition is_unop (s : string) : bool := mem s ["+"; "-"; "!"; "^"; "*"; "&"; "<-"].

(* opening token of a suffix with arguments and its closing token *)
Definition closer (o : string) : option string :=
  if String.eqb o "(" then Some ")"
  else if String.eqb o "[" then Some "]"
  else if String.eqb o "{" then Some "}"
  else if String.eqb o ".(" then Some ")"
  else None.

Definition is_punct (s : string) : bool :=
  negb (Nat.eqb (binprec s) 0) || is_unop s || mem s ["("; ")"; "["; "]"; "{"; "}"; ","; ";"; "."; ".("; ":"].

Fixpoint parse_bin (fuel q : nat) (w : list tok) {struct fuel} : option (ex * list tok) :=
  match fuel with
  | O => None
  | S f => match parse_unary f w with
           | Some (x, w') => bin_loop f q x w'
           | None => None
           end
  end
with bin_loop (fuel q : nat) (x : ex) (w : list tok) {struct fuel} : option (ex * list tok) :=
  match fuel with
  | O => None
  | S f =>
      match w with
      | T op :: w' =>
          let p := binprec op in
          if negb (Nat.eqb p 0) && Nat.leb q p then
            match parse_bin f (S p) w' with
            | Some (y, w'') => bin_loop f q (EBin p op x y) w''
            | None => None
            end
          else Some (x, w)
      | _ => Some (x, w)
      end
  end
with parse_unary (fuel : nat) (w : list tok) {struct fuel} : option (ex * list tok) :=
  match fuel with
  | O => None
  | S f =>
      match w with
      | T op :: w' =>
          if is_unop op then
            match parse_unary f w' with
            | Some (e, w'') => Some (EUn op e, w'')
            | None => None
            end
          else parse_primary f w
      | _ => None
      end
  end
with parse_primary (fuel : nat) (w : list tok) {struct fuel} : option (ex * list tok) :=
  match fuel with
  | O => None
  | S f =>
      match w with
      | T a :: w' =>
          if String.eqb a "(" then
            match parse_bin f 1 w' with
            | Some (e, T c :: w'') => if String.eqb c ")" then suffix_loop f (EParen e) w'' else None
            | _ => None
            end
          else if is_punct a then None
          else suffix_loop f (EAtom a) w'
      | _ => None
      end
  end
with suffix_loop (fuel : nat) (x : ex) (w : list tok) {struct fuel} : option (ex * list tok) :=
  match fuel with
  | O => None
  | S f =>
      match w with
      | T d :: w' =>
          if String.eqb d "." then
            match w' with
            | T fld :: w'' => if is_punct fld then Some (x, w) else suffix_loop f (ESel x fld) w''
            | _ => Some (x, w)
            end
          else
            match closer d with
            | Some c => match parse_args f c w' with
                        | Some (ks, w'') => suffix_loop f (EApp x d c ks) w''
                        | None => None
                        end
            | None => Some (x, w)
            end
      | _ => Some (x, w)
      end
  end
with parse_args (fuel : nat) (c : string) (w : list tok) {struct fuel} : option (list ex * list tok) :=
  match fuel with
  | O => None
  | S f =>
      match w with
      | T t :: w' => if String.eqb t c then Some ([], w') else parse_args1 f c w
      | _ => None
      end
  end
with parse_args1 (fuel : nat) (c : string) (w : list tok) {struct fuel} : option (list ex * list tok) :=
  match fuel with
  | O => None
  | S f =>
      match parse_bin f 1 w with
      | Some (k, T t :: w') =>
          if String.eqb t c then Some ([k], w')
          else if String.eqb t "," then
            match parse_args1 f c w' with
            | Some (ks, w'') => Some (k :: ks, w'')
            | None => None
            end
          else None
      | _ => None
      end
  end.

(* parser.ParseExpr: an expression at the lowest precedence, nothing left over *)
Definition parse_expr (fuel : nat) (w : list tok) : option ex :=
  match parse_bin fuel 1 w with
  | Some (e, []) => Some e
  | _ => None
  end.

(* trees the printer/parser pair is about: closed, no statement sequences, tokens in their proper classes *)
Fixpoint good (e : ex) : bool :=
  match e with
  | EAtom a => negb (is_punct a)
  | EHole _ => false
  | EParen e => good e
  | EUn op e => is_unop op && good e
  | EBin p op l r => Nat.eqb (binprec op) p && good l && good r
  | ESel e f => negb (is_punct f) && good e
  | EApp h o c ks => (match closer o with Some c' => String.eqb c' c | None => false end) && good h && forallb good ks
  | ESeq _ => false
  end.

(* the token after an expression does not continue it as a suffix *)
Definition nosuffix (rest : list tok) : bool :=
  match rest with
  | T s :: _ => negb (String.eqb s ".") && match closer s with None => true | Some _ => false end
  | _ => true
  end.

Definition bp_head (rest : list tok) : nat :=
  match rest with
  | T s :: _ => binprec s
  | _ => 0
  end.

(* structural equality of trees (for the correspondence cases) *)
Fixpoint ex_eqb (a b : ex) {struct a} : bool :=
  match a, b with
  | EAtom s, EAtom s' => String.eqb s s'
  | EHole x, EHole x' => String.eqb x x'
  | EParen e, EParen e' => ex_eqb e e'
  | EUn op e, EUn op' e' => String.eqb op op' && ex_eqb e e'
  | EBin p op l r, EBin p' op' l' r' => Nat.eqb p p' && String.eqb op op' && ex_eqb l l' && ex_eqb r r'
  | ESel e f, ESel e' f' => String.eqb f f' && ex_eqb e e'
  | EApp h o c ks, EApp h' o' c' ks' =>
      String.eqb o o' && String.eqb c c' && ex_eqb h h' &&
      (fix eqs (l : list ex) (l' : list ex) {struct l} : bool :=
         match l, l' with
         | [], [] => true
         | k :: r, k' :: r' => ex_eqb k k' && eqs r r'
         | _, _ => false
         end) ks ks'
  | ESeq ks, ESeq ks' =>
      (fix eqs (l : list ex) (l' : list ex) {struct l} : bool :=
         match l, l' with
         | [], [] => true
         | k :: r, k' :: r' => ex_eqb k k' && eqs r r'
         | _, _ => false
         end) ks ks'
  | _, _ => false
  end.

(* a correspondence case: the tokens go/scanner produced for an expression and the tree go/parser built from them *)
Definition parse_case_ok (k : list string * ex) : bool :=
  match parse_expr 400 (map T (fst k)) with
  | Some e => ex_eqb e (snd k)
  | None => false
  end.

(* ---- underef's quoted suggestion (checkers/underef_checker.go:81-101): for a selector or index expression on a parenthesised dereference of X it prints X — kept in
   parentheses only when X is itself a dereference — followed by the selector or index, as text ---- *)
Definition underef_operand (x : ex) : list tok :=
  match x with
  | EUn op _ => if String.eqb op "*" then pp (EParen x) else pp x
  | _ => pp x
  end.
Definition underef_sel_text (x : ex) (f : string) : list tok := underef_operand x ++ [T "."; T f].
Definition underef_idx_text (x i : ex) : list tok := underef_operand x ++ T "[" :: pp i ++ [T "]"].
(* what the suggestion is meant to denote *)
Definition underef_sel_tree (x : ex) (f : string) : ex :=
  match x with
  | EUn op _ => if String.eqb op "*" then ESel (EParen x) f else ESel x f
  | _ => ESel x f
  end.
(* a correspondence case: the dereferenced operand X of a reported selector expression, the field, and the tokens of the suggestion the checker printed *)
Definition underef_case_ok (k : ex * string * list string) : bool :=
  let '(x, f, toks) := k in
  (fix eqs (a : list tok) (b : list string) : bool :=
     match a, b with
     | [], [] => true
     | T s :: a', s' :: b' => String.eqb s s' && eqs a' b'
     | _, _ => false
     end) (underef_sel_text x f) toks.
