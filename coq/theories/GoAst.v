(* GoAst.v — a small inductive mirror of the go/ast subset that the modelled checkers inspect.

   Encoding.  A node is [Nd tag pos s a b facts kids]:
     tag    node kind (the go/ast node type; everything the modelled checkers never look into is [TOther class])
     pos    1 + byte offset of node.Pos() in the analysed file (0 = token.NoPos / freshly built node)
     s      Ident name or BasicLit value text, "" otherwise
     a, b   two numeric slots whose meaning depends on the tag (operator, ellipsis flag, number of
            left-hand sides, presence flags of optional children); listed at [tag]
     facts  what go/types (and two go-toolsmith helpers) say about the node; filled by the converter
            harness/internal/corpus/convert.go from types.Info; the checkers of the model read these
            the way the Go code reads ctx.TypesInfo
     kids   the children in ast.Inspect order (comment groups are not part of the mirror)

   [wf] states what parser + type checker guarantee about such a tree; it is executable and is evaluated on
   every converted real file by the tie, so a wrong assumption shows up as a correspondence failure. *)
From GC Require Import Base.
From Coq Require Import PArith FSets.FSetPositive.

Inductive nclass := CExpr | CStmt | CNode.

Inductive tag :=
  | TIdent                      (* s = name *)
  | TBasicLit                   (* s = literal text, a = literal kind (token code) *)
  | TParen | TStar              (* [X] *)
  | TUnary | TBinary            (* a = operator token; [X] / [X; Y] *)
  | TSelector                   (* [X; Sel] *)
  | TIndex                      (* [X; Index] *)
  | TIndexList                  (* X :: Indices *)
  | TSliceExpr                  (* X :: Low? High? Max? *)
  | TCall                       (* a = 1 iff Ellipsis is set; Fun :: Args *)
  | TCompositeLit               (* a = 1 iff Type present; Type? ++ Elts *)
  | TFuncLit                    (* [FuncType; Block] *)
  | TArrayType                  (* a = 1 iff Len present; Len? ++ [Elt] *)
  | TFuncType                   (* a = 1 iff TypeParams, b = 1 iff Results; TypeParams? ++ [Params] ++ Results? *)
  | TFieldList                  (* Fields *)
  | TField                      (* a = number of names; Names ++ [Type] ++ Tag? *)
  | TBlock                      (* Stmts *)
  | TAssign                     (* a = token, b = number of left-hand sides; Lhs ++ Rhs *)
  | TReturn                     (* Results *)
  | TRange                      (* a = number of Key/Value children (0..2); Key? Value? X Body *)
  | TIf                         (* a = 1 iff Init, b = 1 iff Else; Init? Cond Body Else? *)
  | TDefer                      (* [Call] *)
  | TExprStmt                   (* [X] *)
  | TCaseClause                 (* a = number of case expressions; List ++ Body *)
  | TCommClause                 (* a = 1 iff Comm present; Comm? ++ Body *)
  | TFuncDecl                   (* a = 1 iff Recv, b = 1 iff Body; Recv? Name Type Body? *)
  | TGenDecl                    (* a = token (IMPORT/CONST/TYPE/VAR); Specs *)
  | TTypeSpec                   (* a = 1 iff TypeParams; Name TypeParams? Type *)
  | TSwitch                     (* a = 1 iff Init, b = 1 iff Tag; Init? Tag? Body *)
  | TTypeSwitch                 (* a = 1 iff Init; Init? Assign Body *)
  | TSelect                     (* [Body] *)
  | TFor                        (* a = presence mask Init(1) Cond(2) Post(4); Init? Cond? Post? Body *)
  | TBranch                     (* a = token (BREAK/CONTINUE/GOTO/FALLTHROUGH); Label? *)
  | TValueSpec                  (* a = number of names, b = 1 iff Type; Names ++ Type? ++ Values *)
  | TTypeAssert                 (* a = 1 iff Type (0 for x.(type)); X Type? *)
  | TOther (c : nclass).        (* any other node; children in ast.Inspect order; a = 1000 * kind code + scalar attribute
                                   (token, channel direction, ...) so that structural equality tells kinds apart *)

(* object a (callee) identifier resolves to, from types.Info.Uses / Defs *)
Inductive okind :=
  | OBuiltin (name : string)    (* universe function *)
  | OUniverseType (name : string)
  | ONil                        (* universe nil *)
  | OPkgName (path : string)    (* imported package *)
  | OFunc                       (* user (or imported, for Sel) function or method *)
  | OVar                        (* variable, parameter, field *)
  | OTypeName | OConst | OLabel
  | ONone.                      (* no object recorded *)

(* class of TypeOf(expr), as far as lintutil.ZeroValueOf / appendAssign look *)
Inductive tyclass :=
  | TyInt | TyFloat | TyString | TyBool     (* underlying *types.Basic with the corresponding info flag *)
  | TyBasicOther                            (* other basic: complex, unsafe.Pointer, invalid, untyped nil *)
  | TyNilable                               (* slice, map, pointer, interface *)
  | TyArray | TyStruct
  | TyTypeParam
  | TyOther.                                (* chan, func, tuple, ... *)

Inductive recvkind := RNone | RVal | RPtr.

(* TypeOf(x) when it is a *types.Signature *)
Inductive sigfact :=
  | NoSig
  | Sig (nparams : N) (variadic : bool) (recv : recvkind) (last_elem_optionlike : bool).

Record facts := {
  f_obj : okind;            (* Ident: object kind *)
  f_objid : N;              (* Ident: identity of the types.Object (0 = nil) *)
  f_astobj_nil : bool;      (* Ident: the deprecated ast.Ident.Obj is nil *)
  f_ty : tyclass;           (* Expr: class of TypeOf *)
  f_deflit : bool;          (* Expr: the type itself is the basic type bool/int/float64/string *)
  f_arr : bool;             (* Expr: TypeOf is directly a *types.Array *)
  f_pure : bool;            (* Expr: typep.SideEffectFree *)
  f_cst : option string;    (* Expr: constant string value *)
  f_sig : sigfact;          (* Expr: TypeOf is a signature *)
  f_istype : bool;          (* Expr: denotes a type (types.TypeAndValue.IsType), e.g. the Fun of a conversion *)
  f_multi : N;              (* Expr: number of values when it is a (possibly parenthesised) call yielding a tuple of >= 2, else 0 *)
  f_basic : option (N * N * N); (* Expr: underlying basic type: (info flags, kind, size in bytes) *)
  f_ext : N;                (* bit set of further boolean facts, see [x_*] below *)
  f_tn : string             (* Expr: unnamedResult.typeName(TypeOf(e)): name of the named type under pointers/slices/arrays, "" otherwise *)
}.

Definition nf : facts :=
  {| f_obj := ONone; f_objid := 0; f_astobj_nil := true; f_ty := TyOther; f_deflit := false; f_arr := false; f_pure := false;
     f_cst := None; f_sig := NoSig; f_istype := false; f_multi := 0; f_basic := None; f_ext := 0; f_tn := "" |}.

(* compact constructor used by the converter *)
Definition F (o : okind) (id : N) (astnil : bool) (t : tyclass) (deflit arr pure : bool) (cst : option string)
  (sg : sigfact) (istype : bool) (multi : N) : facts :=
  {| f_obj := o; f_objid := id; f_astobj_nil := astnil; f_ty := t; f_deflit := deflit; f_arr := arr; f_pure := pure;
     f_cst := cst; f_sig := sg; f_istype := istype; f_multi := multi; f_basic := None; f_ext := 0; f_tn := "" |}.

(* the same with the underlying basic type: (types.BasicInfo flags, types.BasicKind, 1 + Sizeof or 0 when unknown) *)
Definition FB (o : okind) (id : N) (astnil : bool) (t : tyclass) (deflit arr pure : bool) (cst : option string)
  (sg : sigfact) (istype : bool) (multi : N) (binfo bkind bsize1 : N) : facts :=
  {| f_obj := o; f_objid := id; f_astobj_nil := astnil; f_ty := t; f_deflit := deflit; f_arr := arr; f_pure := pure;
     f_cst := cst; f_sig := sg; f_istype := istype; f_multi := multi; f_basic := Some (binfo, bkind, bsize1); f_ext := 0; f_tn := "" |}.

(* any of the above extended with the bit set and the type name *)
Definition FX (base : facts) (ext : N) (tn : string) : facts :=
  {| f_obj := f_obj base; f_objid := f_objid base; f_astobj_nil := f_astobj_nil base; f_ty := f_ty base; f_deflit := f_deflit base;
     f_arr := f_arr base; f_pure := f_pure base; f_cst := f_cst base; f_sig := f_sig base; f_istype := f_istype base;
     f_multi := f_multi base; f_basic := f_basic base; f_ext := ext; f_tn := tn |}.

(* bits of [f_ext] (filled by the converter from types.Info, go/ast and typep exactly as the checkers call them) *)
Definition x_defs : N := 0.        (* Ident: TypesInfo.Defs[id] != nil *)
Definition x_exported : N := 1.    (* Ident: ast.IsExported(id.Name) *)
Definition x_ptr_u : N := 2.       (* Expr: TypeOf(e).Underlying() is a pointer *)
Definition x_ptr_elem_pi : N := 3. (* Expr: ... whose Elem().Underlying() is a pointer or an interface *)
Definition x_ptr_arr : N := 4.     (* Expr: TypeOf(e) is directly a pointer to (directly) an array *)
Definition x_ptr_ref : N := 5.     (* Expr: TypeOf(e) is directly a pointer whose element is a map, chan, interface or named interface *)
Definition x_slice : N := 6.       (* Expr: typep.IsSlice(TypeOf(e)) *)
Definition x_typeexpr : N := 7.    (* Expr: typep.IsTypeExpr(info, e) *)
Definition x_assert_same : N := 8. (* TypeAssertExpr: types.Identical(TypeOf(e), TypeOf(e.X)) *)
Definition x_multiline : N := 9.   (* FieldList: Opening and Closing are on different lines *)
Definition x_var_nonstruct : N := 10. (* Ident: ObjectOf(id) is a *types.Var whose type's underlying type is not a struct *)
Definition x_fn_same_type : N := 11.  (* FuncLit whose body is `return f(...)`: types.Identical(TypeOf(lit), TypeOf(f)) *)
Definition x_isnil : N := 12.        (* Expr: TypesInfo.Types[e].IsNil(): the predeclared nil *)

Inductive node := Nd (t : tag) (pos : N) (s : string) (a b : N) (f : facts) (kids : nodes)
with nodes := NN | NC (n : node) (r : nodes).

Scheme node_ind2 := Induction for node Sort Prop
  with nodes_ind2 := Induction for nodes Sort Prop.

Definition ntag (n : node) := match n with Nd t _ _ _ _ _ _ => t end.
Definition npos (n : node) := match n with Nd _ p _ _ _ _ _ => p end.
Definition nstr (n : node) := match n with Nd _ _ s _ _ _ _ => s end.
Definition na (n : node) := match n with Nd _ _ _ a _ _ _ => a end.
Definition nb (n : node) := match n with Nd _ _ _ _ b _ _ => b end.
Definition nfacts (n : node) := match n with Nd _ _ _ _ _ f _ => f end.
Definition nkids (n : node) := match n with Nd _ _ _ _ _ _ k => k end.

Fixpoint to_list (l : nodes) : list node :=
  match l with NN => [] | NC n r => n :: to_list r end.

Definition kids (n : node) : list node := to_list (nkids n).

(* a file: top-level declarations + (1 + offset) of every token/comment start of an independent go/scanner pass *)
Record file := { decls : list node; token_starts : list N }.

(* ---------- traversal (ast.Inspect order) ---------- *)
Fixpoint pre (n : node) : list node :=
  match n with Nd _ _ _ _ _ _ k => n :: pres k end
with pres (l : nodes) : list node :=
  match l with NN => [] | NC n r => (pre n ++ pres r)%list end.

(* post-order (astutil.Apply's post callback) *)
Fixpoint post (n : node) : list node :=
  match n with Nd _ _ _ _ _ _ k => (posts k ++ [n])%list end
with posts (l : nodes) : list node :=
  match l with NN => [] | NC n r => (post n ++ posts r)%list end.

(* ---------- classes ---------- *)
Definition tag_eqb (x y : tag) : bool :=
  match x, y with
  | TIdent, TIdent | TBasicLit, TBasicLit | TParen, TParen | TStar, TStar | TUnary, TUnary | TBinary, TBinary
  | TSelector, TSelector | TIndex, TIndex | TIndexList, TIndexList | TSliceExpr, TSliceExpr | TCall, TCall
  | TCompositeLit, TCompositeLit | TFuncLit, TFuncLit | TArrayType, TArrayType | TFuncType, TFuncType
  | TFieldList, TFieldList | TField, TField | TBlock, TBlock | TAssign, TAssign | TReturn, TReturn | TRange, TRange
  | TIf, TIf | TDefer, TDefer | TExprStmt, TExprStmt | TCaseClause, TCaseClause | TCommClause, TCommClause
  | TFuncDecl, TFuncDecl | TGenDecl, TGenDecl | TTypeSpec, TTypeSpec => true
  | TSwitch, TSwitch | TTypeSwitch, TTypeSwitch | TSelect, TSelect | TFor, TFor | TBranch, TBranch
  | TValueSpec, TValueSpec | TTypeAssert, TTypeAssert => true
  | TOther CExpr, TOther CExpr | TOther CStmt, TOther CStmt | TOther CNode, TOther CNode => true
  | _, _ => false
  end.

Definition is_tag (t : tag) (n : node) : bool := tag_eqb (ntag n) t.

Definition class_of (t : tag) : nclass :=
  match t with
  | TIdent | TBasicLit | TParen | TStar | TUnary | TBinary | TSelector | TIndex | TIndexList | TSliceExpr | TCall
  | TCompositeLit | TFuncLit | TArrayType | TFuncType | TTypeAssert => CExpr
  | TBlock | TAssign | TReturn | TRange | TIf | TDefer | TExprStmt | TCaseClause | TCommClause
  | TSwitch | TTypeSwitch | TSelect | TFor | TBranch => CStmt
  | TFieldList | TField | TFuncDecl | TGenDecl | TTypeSpec | TValueSpec => CNode
  | TOther c => c
  end.

Definition is_expr (n : node) : bool := match class_of (ntag n) with CExpr => true | _ => false end.
Definition is_stmt (n : node) : bool := match class_of (ntag n) with CStmt => true | _ => false end.

(* ---------- structural equality (astequal.Node / astequal.Expr): positions and facts are ignored ---------- *)
Fixpoint node_eqb (x y : node) : bool :=
  match x, y with
  | Nd t1 _ s1 a1 b1 _ k1, Nd t2 _ s2 a2 b2 _ k2 =>
      tag_eqb t1 t2 && String.eqb s1 s2 && N.eqb a1 a2 && N.eqb b1 b2 &&
      (fix nodes_eqb (l1 : nodes) (l2 : nodes) {struct l1} : bool :=
         match l1, l2 with
         | NN, NN => true
         | NC n1 r1, NC n2 r2 => node_eqb n1 n2 && nodes_eqb r1 r2
         | _, _ => false
         end) k1 k2
  end.

(* ---------- token codes used by the modelled checkers (go/token) ---------- *)
Definition tok_INT : N := 5.   Definition tok_FLOAT : N := 6.  Definition tok_STRING : N := 9.
Definition tok_AND : N := 17.
Definition tok_EQL : N := 39.  Definition tok_LSS : N := 40.   Definition tok_GTR : N := 41.
Definition tok_ASSIGN : N := 42.
Definition tok_NEQ : N := 44.  Definition tok_LEQ : N := 45.   Definition tok_GEQ : N := 46.
Definition tok_DEFINE : N := 47.
Definition tok_TYPE : N := 84.
Definition tok_LAND : N := 34.  Definition tok_LOR : N := 35.
Definition tok_BREAK : N := 61. Definition tok_FALLTHROUGH : N := 69.
Definition tok_CONST : N := 64. Definition tok_VAR : N := 85. Definition tok_IMPORT : N := 75.

(* ---------- accessors through the encoding ---------- *)
Definition kid (i : nat) (n : node) : option node := nth_error (kids n) i.

Definition obj_of (n : node) : okind := f_obj (nfacts n).

(* astutil.Unparen *)
Fixpoint unparen (n : node) : node :=
  match n with
  | Nd TParen _ _ _ _ _ (NC x NN) => unparen x
  | _ => n
  end.

(* ---------- well-formedness ---------- *)
Definition okind_eqb (x y : okind) : bool :=
  match x, y with
  | OBuiltin a, OBuiltin b => String.eqb a b
  | OUniverseType a, OUniverseType b => String.eqb a b
  | OPkgName a, OPkgName b => String.eqb a b
  | ONil, ONil | OFunc, OFunc | OVar, OVar | OTypeName, OTypeName | OConst, OConst | OLabel, OLabel | ONone, ONone => true
  | _, _ => false
  end.

Definition all_tag (t : tag) (l : list node) : bool := forallb (is_tag t) l.

(* std API arities the partial theorems rely on (checked against go/types on every converted call) *)
Definition flag_names1 : list string := ["Bool"; "Duration"; "Float64"; "String"; "Int"; "Int64"; "Uint"; "Uint64"].
Definition flag_names2 : list string :=
  ["BoolVar"; "DurationVar"; "Float64Var"; "StringVar"; "IntVar"; "Int64Var"; "UintVar"; "Uint64Var"].
Definition regexp_names : list string := ["Compile"; "CompilePOSIX"; "MustCompile"; "MustCompilePOSIX"].

Definition api_arity (path name : string) : option N :=
  if String.eqb path "flag" then
    if mem name flag_names1 then Some 3%N else if mem name flag_names2 then Some 4%N else None
  else if String.eqb path "regexp" then
    if mem name regexp_names then Some 1%N else None
  else None.

(* argument count of a call is what its signature allows *)
Definition arity_ok (nargs : nat) (ellipsis : bool) (first_multi : N) (sg : sigfact) : bool :=
  match sg with
  | NoSig => true
  | Sig np variadic _ _ =>
      let np := N.to_nat np in
      if (Nat.eqb nargs 1 && negb (N.eqb first_multi 0) && negb ellipsis)%bool then
        (* f(g()) with g yielding several values *)
        if variadic then Nat.leb (np - 1) (N.to_nat first_multi) else Nat.eqb (N.to_nat first_multi) np
      else if variadic then
        if ellipsis then Nat.eqb nargs np else Nat.leb (np - 1) nargs
      else Nat.eqb nargs np
  end.

Definition wf_call (n : node) : bool :=
  match kids n with
  | [] => false
  | fn :: args =>
      let fm := match args with x :: _ => f_multi (nfacts x) | [] => 0%N end in
      let ell := N.eqb (na n) 1 in
      (* a conversion T(x) has one operand; otherwise the signature decides *)
      (if f_istype (nfacts fn) then Nat.eqb (length args) 1 else arity_ok (length args) ell fm (f_sig (nfacts fn))) &&
      (* `f(x...)` needs an argument *)
      (negb ell || negb (Nat.eqb (length args) 0)) &&
      (* builtins new / append *)
      match unparen fn with
      | Nd TIdent _ _ _ _ ff _ =>
          match f_obj ff with
          | OBuiltin "new" => Nat.eqb (length args) 1
          | OBuiltin "append" => negb (Nat.eqb (length args) 0)
          | _ => true
          end
      | Nd TSelector _ _ _ _ _ (NC (Nd TIdent _ _ _ _ qf _) (NC (Nd TIdent _ sel _ _ _ _) NN)) =>
          match f_obj qf with
          | OPkgName path =>
              match api_arity path sel with
              | Some k => match f_sig (nfacts fn) with Sig np false _ _ => N.eqb np k | _ => false end
              | None => true
              end
          | _ => true
          end
      | _ => true
      end
  end.

(* receiver base types as the type checker accepts them: parentheses, pointers, a name, an instantiation *)
Fixpoint recv_shape (e : node) : bool :=
  match e with
  | Nd TParen _ _ _ _ _ (NC x NN) => recv_shape x
  | Nd TStar _ _ _ _ _ (NC x NN) => recv_shape x
  | Nd TIdent _ _ _ _ _ _ => true
  | Nd TIndex _ _ _ _ _ (NC x _) => recv_shape x
  | Nd TIndexList _ _ _ _ _ (NC x _) => recv_shape x
  | _ => false
  end.

Definition wf_node (n : node) : bool :=
  let ks := kids n in
  match ntag n with
  | TIdent =>
      match ks with
      | [] => (* only the predeclared nil is a nil value *)
          if N.testbit (f_ext (nfacts n)) x_isnil then okind_eqb (f_obj (nfacts n)) ONil else true
      | _ => false
      end
  | TBasicLit => match ks with [] => true | _ => false end
  | TParen | TStar | TUnary | TExprStmt => match ks with [x] => is_expr x | _ => false end
  | TBinary | TIndex => match ks with [x; y] => is_expr x && is_expr y | _ => false end
  | TSelector => match ks with [x; sel] => is_expr x && is_tag TIdent sel | _ => false end
  | TIndexList | TSliceExpr => match ks with x :: _ => forallb is_expr ks | [] => false end
  | TCall => forallb is_expr ks && wf_call n
  | TCompositeLit => forallb is_expr ks
  | TFuncLit => match ks with [t; b] => is_tag TFuncType t && is_tag TBlock b | _ => false end
  | TArrayType => Nat.eqb (length ks) (N.to_nat (na n) + 1) && forallb is_expr ks
  | TFuncType =>
      Nat.eqb (length ks) (N.to_nat (na n) + 1 + N.to_nat (nb n)) && all_tag TFieldList ks &&
      N.leb (na n) 1 && N.leb (nb n) 1 &&
      (* "mixed named and unnamed parameters" is a syntax error *)
      forallb (fun fl => forallb (fun fd => N.eqb (na fd) 0) (kids fl) || forallb (fun fd => negb (N.eqb (na fd) 0)) (kids fl)) ks
  | TFieldList => all_tag TField ks
  | TField =>
      Nat.leb (N.to_nat (na n) + 1) (length ks) && all_tag TIdent (firstn (N.to_nat (na n)) ks) &&
      forallb is_expr ks
  | TBlock => forallb is_stmt ks
  | TAssign =>
      N.ltb 0 (nb n) && Nat.ltb (N.to_nat (nb n)) (length ks) && forallb is_expr ks
  | TReturn => forallb is_expr ks
  | TRange =>
      N.leb (na n) 2 && Nat.eqb (length ks) (N.to_nat (na n) + 2) &&
      forallb is_expr (firstn (N.to_nat (na n) + 1) ks) &&
      match nth_error ks (N.to_nat (na n) + 1) with Some b => is_tag TBlock b | None => false end
  | TIf =>
      N.leb (na n) 1 && N.leb (nb n) 1 && Nat.eqb (length ks) (N.to_nat (na n) + 2 + N.to_nat (nb n)) &&
      match nth_error ks (N.to_nat (na n)), nth_error ks (N.to_nat (na n) + 1) with
      | Some c, Some b => is_expr c && is_tag TBlock b
      | _, _ => false
      end
  | TDefer => match ks with [c] => is_tag TCall c | _ => false end
  | TCaseClause =>
      Nat.leb (N.to_nat (na n)) (length ks) && forallb is_expr (firstn (N.to_nat (na n)) ks) &&
      forallb is_stmt (skipn (N.to_nat (na n)) ks)
  | TCommClause =>
      N.leb (na n) 1 && Nat.leb (N.to_nat (na n)) (length ks) && forallb is_stmt ks
  | TFuncDecl =>
      N.leb (na n) 1 && N.leb (nb n) 1 && Nat.eqb (length ks) (N.to_nat (na n) + 2 + N.to_nat (nb n)) &&
      (* a method has exactly one receiver field *)
      (if N.eqb (na n) 1 then
         match ks with
         | r :: _ =>
             is_tag TFieldList r &&
             match kids r with
             | [fl] => match nth_error (kids fl) (N.to_nat (na fl)) with Some ty => recv_shape ty | None => false end
             | _ => false
             end
         | [] => false
         end
       else true) &&
      match nth_error ks (N.to_nat (na n)), nth_error ks (N.to_nat (na n) + 1) with
      | Some nm, Some ty => is_tag TIdent nm && is_tag TFuncType ty
      | _, _ => false
      end &&
      (if N.eqb (nb n) 1 then match nth_error ks (N.to_nat (na n) + 2) with Some b => is_tag TBlock b | None => false end
       else true)
  | TGenDecl => if N.eqb (na n) tok_TYPE then all_tag TTypeSpec ks else true
  | TTypeSpec =>
      N.leb (na n) 1 && Nat.eqb (length ks) (N.to_nat (na n) + 2) &&
      match ks with nm :: _ => is_tag TIdent nm | [] => false end
  | TSwitch =>
      N.leb (na n) 1 && N.leb (nb n) 1 && Nat.eqb (length ks) (N.to_nat (na n) + N.to_nat (nb n) + 1) &&
      match nth_error ks (N.to_nat (na n) + N.to_nat (nb n)) with
      | Some body => is_tag TBlock body && all_tag TCaseClause (kids body)
      | None => false
      end
  | TTypeSwitch =>
      N.leb (na n) 1 && Nat.eqb (length ks) (N.to_nat (na n) + 2) &&
      match nth_error ks (N.to_nat (na n) + 1) with
      | Some body => is_tag TBlock body && all_tag TCaseClause (kids body)
      | None => false
      end
  | TSelect => match ks with [body] => is_tag TBlock body && all_tag TCommClause (kids body) | _ => false end
  | TFor =>
      N.leb (na n) 7 &&
      Nat.eqb (length ks) (N.to_nat (N.land (na n) 1) + N.to_nat (N.land (N.shiftr (na n) 1) 1) + N.to_nat (N.shiftr (na n) 2) + 1) &&
      is_tag TBlock (last ks n)
  | TBranch => match ks with [] => true | [l] => is_tag TIdent l | _ => false end
  | TValueSpec =>
      N.ltb 0 (na n) && N.leb (nb n) 1 && Nat.leb (N.to_nat (na n) + N.to_nat (nb n)) (length ks) &&
      all_tag TIdent (firstn (N.to_nat (na n)) ks) && forallb is_expr ks
  | TTypeAssert => N.leb (na n) 1 && Nat.eqb (length ks) (N.to_nat (na n) + 1) && forallb is_expr ks
  | TOther _ =>
      (* StructType.Fields / InterfaceType.Methods (kind codes 2 and 3) are never nil *)
      if N.eqb (N.div (na n) 1000) 2 || N.eqb (N.div (na n) 1000) 3
      then match ks with [fl] => is_tag TFieldList fl | _ => false end else true
  end.

(* positions: membership in the scanner's token starts through a positive set *)
Definition starts_set (l : list N) : PositiveSet.t :=
  fold_right (fun p s => PositiveSet.add (N.succ_pos p) s) PositiveSet.empty l.

Definition pos_ok (s : PositiveSet.t) (n : node) : bool := PositiveSet.mem (N.succ_pos (npos n)) s.

Definition all_nodes (f : file) : list node := flat_map pre (decls f).

Definition wf (f : file) : bool :=
  let s := starts_set (token_starts f) in
  forallb (fun n => wf_node n && pos_ok s n) (all_nodes f).
