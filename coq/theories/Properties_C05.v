(* Properties_C05.v — property C05: checkers treat their input as read-only. Statements only; each closed by [exact]. *)
From GC Require Import Base Model_Inventory Model_Walk Model_Heap Proofs_Heap Review_MutSites.
From GCgen Require Import MutationSites StateInventory.
From GC Require Import Review_State.

(* frame law per rewriting shape: every cell allocated before the checker ran is unchanged afterwards *)
Theorem C05_boolExprSimplify_frame : forall fuel h root id, (id < next h)%N ->
  cells (fst (run_boolExprSimplify fuel h root)) id = cells h id.
Proof. intros fuel h root. exact (proj2 (boolExprSimplify_frame fuel h root)). Qed.
Print Assumptions C05_boolExprSimplify_frame.

Theorem C05_typeUnparen_frame : forall fuel h root id, (id < next h)%N ->
  cells (fst (run_typeUnparen fuel h root)) id = cells h id.
Proof. intros fuel h root. exact (proj2 (typeUnparen_frame fuel h root)). Qed.
Print Assumptions C05_typeUnparen_frame.

Theorem C05_badCond_frame : forall fuel h root id, (id < next h)%N ->
  cells (fst (run_badCond fuel h root)) id = cells h id.
Proof. intros fuel h root. exact (proj2 (badCond_frame fuel h root)). Qed.
Print Assumptions C05_badCond_frame.

Theorem C05_sloppyReassign_frame : forall fuel h root id, (id < next h)%N ->
  cells (fst (run_sloppyReassign fuel h root)) id = cells h id.
Proof. intros fuel h root. exact (proj2 (sloppyReassign_frame fuel h root)). Qed.
Print Assumptions C05_sloppyReassign_frame.

Theorem C05_methodExprCall_frame : forall fuel h root arg id, (id < next h)%N ->
  cells (fst (run_methodExprCall fuel h root arg)) id = cells h id.
Proof. intros fuel h root arg. exact (proj2 (methodExprCall_frame fuel h root arg)). Qed.
Print Assumptions C05_methodExprCall_frame.

Theorem C05_freshAlias_frame : forall h root id, (id < next h)%N ->
  cells (fst (run_freshAlias h root)) id = cells h id.
Proof. intros h root. exact (proj2 (freshAlias_frame h root)). Qed.
Print Assumptions C05_freshAlias_frame.

(* astcopy itself: never writes an existing cell; its root is fresh *)
Theorem C05_astcopy_frame : forall fuel h id, frame h (fst (copy fuel h id)).
Proof. exact copy_frame. Qed.
Print Assumptions C05_astcopy_frame.

Theorem C05_astcopy_root_fresh : forall fuel h id n, cells h id = Some n -> (next h <= snd (copy fuel h id))%N.
Proof. exact copy_root_fresh. Qed.
Print Assumptions C05_astcopy_root_fresh.

(* any sequence of frame-respecting checkers leaves the original region unchanged *)
Theorem C05_frame_compose : forall cs, Forall frame_respecting cs -> forall h root, frame h (fst (run_all cs h root)).
Proof. exact frame_compose. Qed.
Print Assumptions C05_frame_compose.

(* hence what checker B reports does not depend on which (frame-respecting) checkers ran before it *)
Theorem C05_order_of_checkers_irrelevant : forall cs g fuel h root,
  wf_heap h -> (root < next h)%N -> Forall frame_respecting cs ->
  snd (run_readonly g fuel (fst (run_all cs h root)) root) = snd (run_readonly g fuel h root).
Proof. exact order_of_checkers_irrelevant. Qed.
Print Assumptions C05_order_of_checkers_irrelevant.

Theorem C05_modelled_checkers_frame_respecting : forall fuel,
  Forall frame_respecting [fun h r => run_boolExprSimplify fuel h r; fun h r => run_typeUnparen fuel h r; fun h r => run_badCond fuel h r;
                           fun h r => run_sloppyReassign fuel h r; fun h r => run_methodExprCall fuel h r r; run_freshAlias].
Proof.
  intros fuel. repeat apply Forall_cons; try apply Forall_nil; intros h r.
  - exact (boolExprSimplify_frame fuel h r).
  - exact (typeUnparen_frame fuel h r).
  - exact (badCond_frame fuel h r).
  - exact (sloppyReassign_frame fuel h r).
  - exact (methodExprCall_frame fuel h r r).
  - exact (freshAlias_frame h r).
Qed.
Print Assumptions C05_modelled_checkers_frame_respecting.

(* a SHALLOW copy (`x := *node`) followed by top-level field writes of the copy respects the frame as well (the translator
   classifies such writes as local-value-write: benign); a write THROUGH a shared child pointer of the shallow copy does not *)
Theorem C05_shallowCopy_frame : forall h root id, (id < next h)%N ->
  cells (fst (run_shallowCopy h root)) id = cells h id.
Proof. intros h root id H. exact (proj2 (shallowCopy_frame h root) id H). Qed.
Print Assumptions C05_shallowCopy_frame.
Theorem C05_shallowCopy_repoint_frame : forall h root arg id, (id < next h)%N ->
  cells (fst (run_shallowCopy_repoint h root arg)) id = cells h id.
Proof. intros h root arg id H. exact (proj2 (shallowCopy_repoint_frame h root arg) id H). Qed.
Print Assumptions C05_shallowCopy_repoint_frame.
Theorem C05_shallowCopy_through_child_refuted : ~ frame h_example2 (fst (run_shallowCopy_through h_example2 0)).
Proof. exact shallowCopy_through_breaks_frame. Qed.
Print Assumptions C05_shallowCopy_through_child_refuted.

(* the seeded defect (a dropped astcopy call) violates both statements *)
Theorem C05_copy_needed_refuted :
  ~ frame h_example (fst (run_boolExprSimplify_nocopy h_example 0))
  /\ view 1 (fst (run_boolExprSimplify_nocopy h_example 0)) 0 <> view 1 h_example 0.
Proof. exact (conj nocopy_breaks_frame nocopy_changes_view). Qed.
Print Assumptions C05_copy_needed_refuted.

(* ---- obligations re-proved on every run over the regenerated inventory ---- *)
(* diagnostics for a broken obligation: functions whose write/copy sites are not (exactly) reviewed *)
Eval vm_compute in (map mf_fn (filter (fun m => negb (fn_reviewed reviewed_mut_fns m)) mutation_sites)).
Theorem C05_mutation_sites_covered :
  forallb (fn_reviewed reviewed_mut_fns) mutation_sites = true.
Proof. vm_compute. reflexivity. Qed.
Print Assumptions C05_mutation_sites_covered.

(* Direction: only NEW or MORE write sites, and a vanished copy in a function that still has sites, need review
   (Model_Inventory.fn_sites_within). A reviewed function that no longer exists cannot write; such entries are listed for
   information (a RENAMED function shows up as unreviewed in the obligation above): *)
Eval vm_compute in (map rf_fn (filter (fun r => negb (fn_present mutation_sites r)) reviewed_mut_fns)).

(* each rewriting checker still has its copy call: a write site in a checker file without any astcopy in that file
   is only acceptable for the two fresh-node builders *)
Definition file_has_copy (f : string) : bool :=
  existsb (fun m => String.eqb (mf_file m) f && existsb (fun s => has_prefix "astcopy:" (fst s)) (mf_sites m)) mutation_sites.
(* (functions whose only sites are benign — writes to their own local struct values — need no copy; the fresh-node builders
   evalOrder.VisitStmt and paramTypeCombine.optimizeParams write nodes they allocated themselves, as reviewed) *)
Definition only_benign (m : mut_fn) : bool := forallb benign_site (mf_sites m).
Theorem C05_every_writer_copies :
  forallb (fun m => only_benign m || file_has_copy (mf_file m)
                    || mem (mf_file m) ["evalOrder_checker.go"; "paramTypeCombine_checker.go"]) mutation_sites = true.
Proof. vm_compute. reflexivity. Qed.
Print Assumptions C05_every_writer_copies.

(* the shared context is written only through the integrator's API (SetPackageInfo / SetGoVersion / SetFileInfo and their
   helpers), never from code that runs during Check: a cache, counter or table added to linter.Context and written by a
   checker or by CheckerContext breaks this obligation (re-proved over the regenerated scratch-state inventory) *)
Definition integrator_api : list string :=
  ["Context.SetPackageInfo"; "Context.SetGoVersion"; "Context.SetFileInfo"; "resolvePkgObjects"; "resolvePkgRenames"].
Eval vm_compute in
  (flat_map (fun s => if String.eqb (s_pkg s) "linter" && String.eqb (s_name s) "Context"
                      then flat_map (fun f => map (fun w => (f_name f, w)) (filter (fun w => let 'W m _ _ := w in negb (mem m integrator_api)) (live_writes f))) (s_fields s)
                      else []) state_inventory).
Theorem C05_context_written_only_by_integrator :
  forallb (fun s => negb (String.eqb (s_pkg s) "linter" && String.eqb (s_name s) "Context")
                    || forallb (fun f => forallb (fun w => let 'W m _ _ := w in mem m integrator_api) (live_writes f)) (s_fields s))
          state_inventory = true
  /\ existsb (fun s => String.eqb (s_pkg s) "linter" && String.eqb (s_name s) "Context") state_inventory = true.
Proof. vm_compute. auto. Qed.
Print Assumptions C05_context_written_only_by_integrator.

(* ... and CONSTRUCTORS do not write it either, except for the documented Require bits: the scratch-state obligations ignore
   constructor writes (they happen before the first Check), but the context is SHARED, so a checker whose constructor adjusts
   SizesInfo / GoVersion / a table for its own purposes changes what every other checker measures *)
Eval vm_compute in
  (flat_map (fun s => if String.eqb (s_pkg s) "linter" && String.eqb (s_name s) "Context"
                      then flat_map (fun f => if String.eqb (f_name f) "Require" then [] else
                                     map (fun w => (f_name f, w)) (filter (fun w => let 'W m _ _ := w in negb (mem m integrator_api)) (f_writes f))) (s_fields s)
                      else []) state_inventory).
Theorem C05_context_not_written_by_constructors :
  forallb (fun s => negb (String.eqb (s_pkg s) "linter" && String.eqb (s_name s) "Context")
                    || forallb (fun f => String.eqb (f_name f) "Require"
                                         || forallb (fun w => let 'W m _ _ := w in mem m integrator_api) (f_writes f)) (s_fields s))
          state_inventory = true.
Proof. vm_compute. reflexivity. Qed.
Print Assumptions C05_context_not_written_by_constructors.

(* the tables the checkers share (package-level variables of checkers/, checkers/internal/*, linter/: the registered collection,
   the predeclared-identifier table, ...) are read-only input of every checker as well. A write rooted at such a variable, and — for
   maps, slices and pointers — a copy of the reference into a field, literal or variable (kind alias: writes through that copy reach
   the shared table without naming it), must be a reviewed site; constructor sites included, because a constructor runs per
   configuration while the table is shared by all checkers of the process: only the two registration tables may have any site at all,
   and none of them an alias site *)
Definition registration_tables : list string := ["collection"; "prototypes"].
Definition shared_table_ok (f : field_inv) : bool :=
  match f_writes f with
  | [] => true
  | ws => mem (f_name f) registration_tables
          && forallb (fun w => let 'W _ k _ := w in negb (mem k ["alias"; "ctor:alias"])) ws
  end.
(* diagnostics for a broken obligation: the shared variables with an unreviewed site *)
Eval vm_compute in
  (flat_map (fun s => if String.eqb (s_name s) "package-level variables"
                      then map f_name (filter (fun f => negb (shared_table_ok f)) (s_fields s)) else []) state_inventory).
Theorem C05_shared_tables_written_only_at_reviewed_sites :
  forallb (fun s => negb (String.eqb (s_name s) "package-level variables")
                    || (struct_reviewed reviewed_state s && forallb shared_table_ok (s_fields s))) state_inventory = true.
Proof. vm_compute. reflexivity. Qed.
Print Assumptions C05_shared_tables_written_only_at_reviewed_sites.


Theorem C05_inventory_sane :
  (10 <=? N.of_nat (length mutation_sites))%N = true
  /\ forallb (fun f => file_has_copy f
                        || forallb (fun m => negb (String.eqb (mf_file m) f) || only_benign m
                                             || String.eqb (mf_fn m) "paramTypeCombineChecker.optimizeParams") mutation_sites)
       ["boolExprSimplify_checker.go"; "typeUnparen_checker.go"; "badCond_checker.go"; "sloppyReassign_checker.go";
        "methodExprCall_checker.go"; "paramTypeCombine_checker.go"] = true
  /\ forallb file_has_copy ["boolExprSimplify_checker.go"; "typeUnparen_checker.go"] = true.
Proof. vm_compute. auto. Qed.
Print Assumptions C05_inventory_sane.

(* non-vacuity: on a concrete two-node heap the rewrite lands in fresh cells and the original is intact *)
Example C05_example :
  let h := {| cells := fun j => if N.eqb j 0 then Some {| tag := 41; kids := [1%N] |}
                               else if N.eqb j 1 then Some {| tag := 5; kids := [] |} else None; next := 2 |} in
  let h' := fst (run_boolExprSimplify 3 h 0) in
  next h' = 4%N /\ cells h' 0%N = cells h 0%N /\ cells h' 1%N = cells h 1%N
  /\ cells h' 3%N = Some {| tag := 42; kids := [2%N] |}.
Proof. vm_compute. auto. Qed.
