(* Model_Flags.v — the flag tables of the front-ends (regenerated into gen/FlagTable.v from parseArgs of both CLI
   mains and from the analyzer's init()) and the hand-written account of how they correspond. No proofs here. *)
From GC Require Export Base.

Inductive flag_kind := FBool | FInt | FString.
Record flag_decl := { fl_name : string; fl_kind : flag_kind; fl_default : string (* source text of the default *); fl_usage : string }.

Definition kind_eqb (a b : flag_kind) : bool :=
  match a, b with FBool, FBool | FInt, FInt | FString, FString => true | _, _ => false end.
Definition flag_eqb (a b : flag_decl) : bool :=
  String.eqb (fl_name a) (fl_name b) && kind_eqb (fl_kind a) (fl_kind b)
  && String.eqb (fl_default a) (fl_default b) && String.eqb (fl_usage a) (fl_usage b).
Definition find_flag (n : string) (t : list flag_decl) : option flag_decl :=
  find (fun f => String.eqb (fl_name f) n) t.

(* CLI flag -> analyzer flag of the same meaning; same_default: the two defaults are the same literal.
   -enable / -disable have dialect defaults (the CLI computes the no-opt-in name list, the analyzer uses tags and
   "<default>"); that they select the same set is C06_registry_defaults_agree. *)
Definition counterpart : list (string * string * bool) :=
  [ ("enableAll", "enable-all", true); ("enable", "enable", false); ("disable", "disable", false);
    ("go", "go", true); ("v", "debug-init", true) ].

(* flags only a CLI has, each with the reason why the analysis front-ends need none *)
Definition cli_only : list (string * string) :=
  [ ("exitCode", "the analysis driver (singlechecker) owns the exit status: 3 with diagnostics, 1 on errors");
    ("concurrency", "the analysis driver schedules the passes");
    ("checkTests", "an output filter on the test variant the CLI always loads; the driver's own -test=false is not its equivalent: it loads the base variant instead, where method sets can differ");
    ("checkGenerated", "no file filter in the analysis front-ends");
    ("shorterErrLocation", "the analysis driver prints absolute positions");
    ("memprofile", "the analysis driver has its own -memprofile");
    ("cpuprofile", "the analysis driver has its own -cpuprofile") ].

(* numeric flags that parseArgs passes on unchecked: none (-exitCode was one until its range check was added) *)
Definition int_flags_unchecked_known : list string := [].

Definition accounted (f : flag_decl) : bool :=
  mem (fl_name f) (map (fun c => fst (fst c)) counterpart) || mem (fl_name f) (map fst cli_only).

Definition counterpart_ok (cli an : list flag_decl) (c : string * string * bool) : bool :=
  match find_flag (fst (fst c)) cli, find_flag (snd (fst c)) an with
  | Some f, Some g => kind_eqb (fl_kind f) (fl_kind g)
                      && (negb (snd c) || String.eqb (fl_default f) (fl_default g))
  | _, _ => false
  end.

Definition analyzer_flag_accounted (f : flag_decl) : bool :=
  mem (fl_name f) (map (fun c => snd (fst c)) counterpart).

Definition int_flag_ok (validated : list string) (f : flag_decl) : bool :=
  match fl_kind f with
  | FInt => mem (fl_name f) validated || mem (fl_name f) int_flags_unchecked_known
  | _ => true
  end.

Fixpoint nodup_names (l : list string) : bool :=
  match l with [] => true | x :: r => negb (mem x r) && nodup_names r end.
