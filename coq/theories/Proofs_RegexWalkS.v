(* Proofs_RegexWalkS.v — C11: soundness of one pass of the simplifier (walk_a true) by induction over the
   walker, carried out against the FULL elaboration Model_Regex.den with its state (flags i m s U in effect,
   next capture index, capture names): capture groups, named groups, flag groups (?i:..) and flag-only
   groups (?i) are inside the induction, and so is prefix/suffix factoring of two literals.

   walkS_sound : guardsS ff e = true -> (ff = false -> flag_free e /\ flags are the defaults) ->
                 den e st = Some (x, st') ->
                 exists ys, the nodes emitted for e elaborate FROM THE SAME STATE to ys, leave THE SAME
                 STATE st' (same number, numbering and names of groups, same flags) and cat_list ys ≃ x.

   [ff] = "flags may be in effect here" (inside a group with flags, or anywhere in a tree with a flag-only group):
   factoring is only claimed where ff = false
   (under (?U) the emitted `?` is non-greedy, under (?i) two literals can overlap: both refuted).
   Factoring instances, precisely (leftmost-first semantics, positions and captures):
     y|x  with y = x t  (longer first)   => x t?    sound            (factor_prefix_longer_first)
     x|y  with y = x t  (shorter first)  => x t?    UNSOUND, always  (prefix_shorter_first_refuted_all: for every x and t)
     h x|x              (longer first)   => h? x    sound            (factor_suffix_longer_first)
     x|h x             (shorter first)  => h? x    sound exactly when x is not a prefix of hx (Proofs_RegexLit:
                                                     suffix_shorter_first_sound), which is the case whenever the
                                                     code gets that far (else hx = xt and the prefix form fires
                                                     first); no case folding may be in effect: under (?i)
                                                     it is unsound: (?i:aA|aaA) => (?i:a?aA) on "aaa" (suffix_factoring_under_fold_refuted). *)
From GC Require Import Base Model_Regex Model_RegexSimplify Proofs_Regex Proofs_RegexRules Proofs_RegexWalk Proofs_RegexLit.
Local Open Scope nat_scope.

Lemma rel_group n a a' : a ≃ a' -> RGroup n a ≃ RGroup n a'.
Proof. intros (H1 & H2 & H3). split; [apply req_group; assumption|split; simpl; congruence]. Qed.

(* ---------- what is emitted for the operand of a quantifier can stand as an operand ---------- *)
Definition not_fo (e : sx) : Prop := op_eqb (sx_op e) OpFlagOnlyGroup = false.

(* what is emitted for an expression that elaborates and is not a flag-only group is not a flag-only group either *)
Definition Q (e : sx) : Prop :=
  forall st r, den e st = Some r -> not_fo e -> forall f, fst (walk_a true e) = [f] -> not_fo f.

Lemma chars_of_bytes_ops s f : chars_of_bytes s = [f] -> not_fo f.
Proof. destruct s as [|a [|b r]]; simpl; intros H; inversion H; reflexivity. Qed.

Lemma table_tree_ops s f : table_tree s = [f] -> not_fo f.
Proof.
  unfold table_tree. destruct (String.eqb s "\]\["); [discriminate|]. destruct (String.eqb s "\]"); intros H; inversion H; reflexivity.
Qed.

Ltac leafQ := match goal with Hf : fst (walk_a true _) = [_], Hn : not_fo _ |- _ => cbn [walk_a fst] in Hf; inversion Hf; subst; exact Hn end.

Theorem emit_not_flagonly e : Q e.
Proof.
  induction e as [e IH] using sx_ind_size. destruct e as [o v args]. intros st r Hd Hn f Hf.
  assert (IHin : forall y, In y args -> Q y).
  { intros y Hy. apply IH. rewrite sx_size_X. pose proof (sizes_in y args Hy). lia. }
  destruct o; try (simpl in Hd; discriminate Hd).
  - (* Concat *) cbn [walk_a fst] in Hf. inversion Hf. reflexivity.
  - (* Dot *) leafQ.
  - (* Alt *) cbn [walk_a] in Hf.
    destruct (allChars (X OpAlt v args) && negb (true && hasClassMeta (X OpAlt v args))); [inversion Hf; reflexivity|].
    destruct (factorPrefixSuffix true (X OpAlt v args)).
    + destruct args as [|a0 [|a1 [|? ?]]]; try (inversion Hf; reflexivity).
      destruct (Nat.ltb _ _); destruct (_ && _); inversion Hf; reflexivity.
    + cbn [fst] in Hf. inversion Hf. reflexivity.
  - (* Star *) destruct args as [|y [|? ?]]; try (simpl in Hd; discriminate Hd). cbn [walk_a] in Hf.
    destruct (walk_a true y). cbn [fst wrap1] in Hf. inversion Hf. reflexivity.
  - (* Plus *) destruct args as [|y [|? ?]]; try (simpl in Hd; discriminate Hd). cbn [walk_a] in Hf.
    destruct (walk_a true y). cbn [fst wrap1] in Hf. inversion Hf. reflexivity.
  - (* Question *) destruct args as [|y [|? ?]]; try (simpl in Hd; discriminate Hd). cbn [walk_a] in Hf.
    destruct (walk_a true y). cbn [fst wrap1] in Hf. inversion Hf. reflexivity.
  - (* NonGreedy *)
    destruct args as [|q [|? ?]]; try (simpl in Hd; discriminate Hd); try (destruct q as [? ? [|? ?]]; simpl in Hd; discriminate Hd).
    cbn [walk_a] in Hf. destruct (walk_a true q) as [xs sc] eqn:Ew. destruct (dropped_repeat q) eqn:Edr; cbn [andb fst] in Hf.
    + (* the repeat is not printed: what is emitted is what its operand emitted, or nothing, or the kept x{0} *)
      destruct q as [qo qv qa]. destruct qo; try discriminate Edr. destruct qa as [|y [|rr [|? ?]]]; try discriminate Edr.
      cbn [den] in Hd. cbn [is_quant andb] in Hd.
      destruct (op_eqb (sx_op y) OpFlagOnlyGroup) eqn:Ey; [discriminate Hd|]. cbn [negb] in Hd.
      destruct (den y st) as [[y' st1]|] eqn:Edy; [|discriminate Hd].
      cbn [walk_a] in Ew. destruct (walk_a true y) as [ys sy] eqn:Ewy. subst xs. unfold wrap1 in Ew.
      destruct (String.eqb (sx_val rr) "{0,1}"); [inversion Ew; reflexivity|].
      destruct (String.eqb (sx_val rr) "{1,}"); [inversion Ew; reflexivity|].
      destruct (String.eqb (sx_val rr) "{0,}"); [inversion Ew; reflexivity|].
      destruct (String.eqb (sx_val rr) "{0}").
      { destruct (true && hasCapture y); inversion Ew. reflexivity. }
      destruct (String.eqb (sx_val rr) "{1}").
      { inversion Ew; subst ys.
        assert (Qy : Q y). { apply IH. rewrite !sx_size_X. cbn [sizes]. rewrite sx_size_X. cbn [sizes]. lia. }
        apply (Qy st (y', st1) Edy Ey f). rewrite Ewy. reflexivity. }
      inversion Ew. reflexivity.
    + unfold wrap1 in Hf. inversion Hf. reflexivity.
  - (* Caret *) leafQ.
  - (* Dollar *) leafQ.
  - (* Char *) leafQ.
  - (* Quote *) leafQ.
  - (* EscapeChar *) cbn [walk_a] in Hf. destruct (mem_s v removable_escapes); inversion Hf; reflexivity.
  - (* EscapeMeta *) leafQ.
  - (* EscapeOctal *) leafQ.
  - (* EscapeHex *) leafQ.
  - (* CharClass *) cbn [walk_a] in Hf. destruct (simplifyCharClass true (X OpCharClass v args)) as [s|] eqn:Es.
    + destruct (lookup_s v class_table) eqn:El.
      * cbn [fst] in Hf. apply (table_tree_ops _ _ Hf).
      * cbn [fst] in Hf. unfold simplifyCharClass in Es. cbn [sx_val sx_args] in Es. rewrite El in Es.
        destruct args as [|it [|? ?]]; [discriminate Es| |destruct it as [[] ? ?]; discriminate Es].
        inversion Hf; subst f. destruct it as [io iv ia]. destruct io; try discriminate Es; reflexivity.
    + cbn [fst] in Hf. inversion Hf. reflexivity.
  - (* NegCharClass *) cbn [walk_a] in Hf. destruct (simplifyNegCharClass (X OpNegCharClass v args)) as [s|].
    + cbn [fst] in Hf. apply (table_tree_ops _ _ Hf).
    + cbn [fst] in Hf. inversion Hf. reflexivity.
  - (* Repeat *) destruct args as [|y [|rr [|? ?]]]; try (simpl in Hd; discriminate Hd).
    cbn [den] in Hd. destruct (op_eqb (sx_op y) OpFlagOnlyGroup) eqn:Ey; [discriminate Hd|].
    destruct (den y st) as [[y' st1]|] eqn:Edy; [|discriminate Hd].
    cbn [walk_a] in Hf. destruct (walk_a true y) as [ys sy] eqn:Ewy.
    destruct (String.eqb (sx_val rr) "{0,1}"); [inversion Hf; reflexivity|].
    destruct (String.eqb (sx_val rr) "{1,}"); [inversion Hf; reflexivity|].
    destruct (String.eqb (sx_val rr) "{0,}"); [inversion Hf; reflexivity|].
    destruct (String.eqb (sx_val rr) "{0}").
    { destruct (true && hasCapture y); inversion Hf. reflexivity. }
    destruct (String.eqb (sx_val rr) "{1}").
    { cbn [fst] in Hf. subst ys. apply (IHin y (or_introl eq_refl) st (y', st1) Edy Ey f). rewrite Ewy. reflexivity. }
    inversion Hf. reflexivity.
  - (* Capture *) destruct args as [|y [|? ?]]; try (simpl in Hd; discriminate Hd). cbn [walk_a] in Hf.
    destruct (walk_a true y). inversion Hf. reflexivity.
  - (* NamedCapture *) destruct args as [|y [|nm [|? ?]]]; try (simpl in Hd; discriminate Hd). cbn [walk_a] in Hf.
    destruct (walk_a true y). inversion Hf. reflexivity.
  - (* Group *) destruct args as [|y [|? ?]]; try (simpl in Hd; discriminate Hd).
    cbn [den] in Hd. destruct (den y st) as [[y' st1]|] eqn:Edy; [|discriminate Hd].
    rewrite walk_a_group in Hf. destruct (atom_op (sx_op y)) eqn:Eat.
    + apply (IHin y (or_introl eq_refl) st (y', st1) Edy); [|exact Hf].
      unfold not_fo. destruct (sx_op y); try reflexivity; discriminate Eat.
    + inversion Hf. reflexivity.
  - (* GroupWithFlags *) destruct args as [|y [|fl [|? ?]]]; try (simpl in Hd; discriminate Hd). cbn [walk_a] in Hf.
    destruct (walk_a true y). inversion Hf. reflexivity.
  - (* FlagOnlyGroup *) leafQ.
Qed.

Corollary emits_operand_holds x st r : den x st = Some r -> op_eqb (sx_op x) OpFlagOnlyGroup = false ->
  op_eqb (sx_op (seq_node (fst (walk_a true x)))) OpFlagOnlyGroup = false.
Proof.
  intros Hd Hn. destruct (fst (walk_a true x)) as [|f [|g l]] eqn:E; [reflexivity| |reflexivity].
  cbn [seq_node]. exact (emit_not_flagonly x st r Hd Hn f E).
Qed.

(* ---------- how den changes the elaboration state ---------- *)
Fixpoint anyb {A} (f : A -> bool) (l : list A) : bool := match l with [] => false | x :: r => f x || anyb f r end.

Lemma anyb_false {A} (f : A -> bool) l : anyb f l = false -> forall x, In x l -> f x = false.
Proof.
  induction l as [|y r IH]; simpl; [tauto|]. intros H x [->|Hx]; apply orb_false_iff in H as [H1 H2]; auto.
Qed.

Definition cap_op (o : op) : bool := match o with OpCapture | OpNamedCapture => true | _ => false end.

Lemma hasCapture_X o v args : hasCapture (X o v args) = cap_op o || anyb hasCapture args.
Proof.
  simpl. unfold cap_op. f_equal. induction args as [|x r IH]; simpl; [reflexivity|]. rewrite IH. reflexivity.
Qed.

(* [has_flag e]: a flag-only group (?flags) occurs in e - its effect reaches past the node, up to the end of the enclosing group;
   a group with flags (?flags:..) restores the flags at its end and is tracked positionally by guardsS instead *)
Definition flag_op (o : op) : bool := match o with OpFlagOnlyGroup => true | _ => false end.

Fixpoint has_flag (e : sx) : bool :=
  match e with
  | X o _ args => flag_op o || (fix any (l : list sx) : bool := match l with [] => false | x :: r => has_flag x || any r end) args
  end.
Definition flag_free (e : sx) : bool := negb (has_flag e).

Lemma has_flag_X o v args : has_flag (X o v args) = flag_op o || anyb has_flag args.
Proof. simpl. f_equal. induction args as [|x r IH]; simpl; [reflexivity|]. rewrite IH. reflexivity. Qed.

(* a flag-only group whose effect reaches past the node *)
Definition leak_through (o : op) : bool :=
  match o with OpConcat | OpAlt | OpStar | OpPlus | OpQuestion | OpRepeat | OpNonGreedy => true | _ => false end.

Fixpoint leaks (e : sx) : bool :=
  match e with
  | X o _ args =>
      match o with OpFlagOnlyGroup => true | _ => false end
      || (leak_through o && (fix any (l : list sx) : bool := match l with [] => false | x :: r => leaks x || any r end) args)
  end.

Lemma leaks_X o v args :
  leaks (X o v args) = match o with OpFlagOnlyGroup => true | _ => false end || (leak_through o && anyb leaks args).
Proof. simpl. f_equal. f_equal. induction args as [|x r IH]; simpl; [reflexivity|]. rewrite IH. reflexivity. Qed.

Lemma flag_free_leaks e : has_flag e = false -> leaks e = false.
Proof.
  induction e as [e IH] using sx_ind_size. destruct e as [o v args]. rewrite has_flag_X, leaks_X. intros H.
  apply orb_false_iff in H as [Ho Ha].
  assert (E : anyb leaks args = false).
  { assert (G : forall y, In y args -> leaks y = false).
    { intros y Hy. apply IH; [rewrite sx_size_X; pose proof (sizes_in y args Hy); lia|]. exact (anyb_false _ _ Ha y Hy). }
    clear -G. induction args as [|y r IHr]; simpl; [reflexivity|]. rewrite (G y (or_introl eq_refl)). simpl.
    apply IHr. intros z Hz. apply G. right. exact Hz. }
  rewrite E, andb_false_r, orb_false_r. destruct o; try reflexivity; discriminate Ho.
Qed.

Lemma leaks_not_fo x : leaks x = false -> op_eqb (sx_op x) OpFlagOnlyGroup = false.
Proof. destruct x as [o v a]. rewrite leaks_X. destruct o; try reflexivity. discriminate. Qed.

Definition st_fl_same (a b : dst) : Prop := d_fl b = d_fl a.
Definition st_cnt_same (a b : dst) : Prop := d_next b = d_next a /\ d_names b = d_names a.

Definition state_law (e : sx) : Prop :=
  forall st x st', den e st = Some (x, st') ->
    (leaks e = false -> st_fl_same st st') /\ (hasCapture e = false -> st_cnt_same st st').

Lemma denL_state l :
  (forall y, In y l -> state_law y) ->
  forall st xs st', denL l st = Some (xs, st') ->
    (anyb leaks l = false -> st_fl_same st st') /\ (anyb hasCapture l = false -> st_cnt_same st st').
Proof.
  induction l as [|y r IH]; intros HP st xs st' H; simpl in H.
  - inversion H; subst. split; intros _; [reflexivity|split; reflexivity].
  - destruct (den y st) as [[y' st1]|] eqn:Ey; [|discriminate].
    destruct (denL r st1) as [[r' st2]|] eqn:Er; [|discriminate]. inversion H; subst. clear H.
    destruct (HP y (or_introl eq_refl) st y' st1 Ey) as [A1 A2].
    destruct (IH (fun z Hz => HP z (or_intror Hz)) st1 r' st' Er) as [B1 B2].
    split; simpl; intros E; apply orb_false_iff in E as [E1 E2].
    + unfold st_fl_same in *. rewrite (B1 E2). apply A1. exact E1.
    + unfold st_cnt_same in *. destruct (A2 E1) as [a1 a2]. destruct (B2 E2) as [b1 b2]. split; congruence.
Qed.

Lemma om_st {A} (f : A -> rx) (st : dst) (o : option A) x st' :
  option_map (fun r => (f r, st)) o = Some (x, st') -> st' = st.
Proof. destruct o; simpl; intros H; [inversion H; reflexivity|discriminate]. Qed.

Lemma om_st2 (st1 : dst) (o : option rx) x st' :
  option_map (fun q => (q, st1)) o = Some (x, st') -> st' = st1 /\ o = Some x.
Proof. destruct o; simpl; intros H; [inversion H; split; reflexivity|discriminate]. Qed.

Ltac st1_of H := first [apply om_st2 in H as [-> _] | (inversion H; subst; clear H)].
Ltac orb_split := repeat match goal with H : (_ || _) = false |- _ => apply orb_false_iff in H; destruct H end.
Ltac same_state := split; intros _; [reflexivity|split; reflexivity].

Theorem den_state e : state_law e.
Proof.
  induction e as [e IH] using sx_ind_size. destruct e as [o v args].
  assert (IHin : forall y, In y args -> state_law y).
  { intros y Hy. apply IH. rewrite sx_size_X. pose proof (sizes_in y args Hy). lia. }
  intros st x st' H. rewrite leaks_X, hasCapture_X.
  destruct o; try (simpl in H; discriminate H).
  - (* Concat *) rewrite den_concat in H. destruct (denL args st) as [[l st1]|] eqn:E; [|discriminate].
    inversion H; subst. exact (denL_state args IHin st l st' E).
  - (* Dot *) simpl in H. inversion H; subst. same_state.
  - (* Alt *) rewrite den_alt in H. destruct (denL args st) as [[l st1]|] eqn:E; [|discriminate].
    inversion H; subst. exact (denL_state args IHin st l st' E).
  - (* Star *) destruct args as [|y [|? ?]]; try (simpl in H; discriminate H). simpl in H.
    destruct (op_eqb (sx_op y) OpFlagOnlyGroup); [discriminate|].
    destruct (den y st) as [[y' st1]|] eqn:Ey; [|discriminate].
    destruct (IHin y (or_introl eq_refl) st y' st1 Ey) as [A1 A2]. st1_of H. simpl. rewrite !orb_false_r. split; assumption.
  - (* Plus *) destruct args as [|y [|? ?]]; try (simpl in H; discriminate H). simpl in H.
    destruct (op_eqb (sx_op y) OpFlagOnlyGroup); [discriminate|].
    destruct (den y st) as [[y' st1]|] eqn:Ey; [|discriminate].
    destruct (IHin y (or_introl eq_refl) st y' st1 Ey) as [A1 A2]. st1_of H. simpl. rewrite !orb_false_r. split; assumption.
  - (* Question *) destruct args as [|y [|? ?]]; try (simpl in H; discriminate H). simpl in H.
    destruct (op_eqb (sx_op y) OpFlagOnlyGroup); [discriminate|].
    destruct (den y st) as [[y' st1]|] eqn:Ey; [|discriminate].
    destruct (IHin y (or_introl eq_refl) st y' st1 Ey) as [A1 A2]. st1_of H. simpl. rewrite !orb_false_r. split; assumption.
  - (* NonGreedy *)
    destruct args as [|[qo qv [|y qr]] [|? ?]]; try (simpl in H; discriminate H). simpl in H.
    destruct (is_quant qo && negb (op_eqb (sx_op y) OpFlagOnlyGroup)) eqn:Eq; [|discriminate].
    destruct (den y st) as [[y' st1]|] eqn:Ey; [|discriminate].
    assert (Hy : state_law y).
    { apply IH. rewrite !sx_size_X. cbn [sizes]. rewrite sx_size_X. cbn [sizes]. lia. }
    destruct (Hy st y' st1 Ey) as [A1 A2]. st1_of H. cbn [anyb]. rewrite !orb_false_r, leaks_X, hasCapture_X. cbn [anyb].
    split; intros E.
    + apply A1. apply andb_true_iff in Eq as [Eq _]. destruct qo; try discriminate Eq; simpl in E; orb_split; assumption.
    + apply A2. simpl in E. orb_split; assumption.
  - (* Caret *) simpl in H. inversion H; subst. same_state.
  - (* Dollar *) simpl in H. inversion H; subst. same_state.
  - (* Char *) simpl in H. apply om_st in H. subst. same_state.
  - (* Quote *)
    destruct args as [|[[] lit ?] [|? ?]]; try (simpl in H; discriminate H). simpl in H. inversion H; subst. same_state.
  - (* EscapeChar *) simpl in H. destruct (perl_item v); [inversion H; subst; same_state|].
    destruct (assertion_of v); [inversion H; subst; same_state|]. apply om_st in H. subst. same_state.
  - (* EscapeMeta *) simpl in H. apply om_st in H. subst. same_state.
  - (* EscapeOctal *) simpl in H. apply om_st in H. subst. same_state.
  - (* EscapeHex *) simpl in H. apply om_st in H. subst. same_state.
  - (* CharClass *) simpl in H. destruct (class_items args); simpl in H; [|discriminate]. inversion H; subst. same_state.
  - (* NegCharClass *) simpl in H. destruct (class_items args); simpl in H; [|discriminate]. inversion H; subst. same_state.
  - (* Repeat *) destruct args as [|y [|r [|? ?]]]; try (simpl in H; discriminate H). simpl in H.
    destruct (op_eqb (sx_op y) OpFlagOnlyGroup); [discriminate|].
    destruct (den y st) as [[y' st1]|] eqn:Ey; [|discriminate].
    destruct (IHin y (or_introl eq_refl) st y' st1 Ey) as [A1 A2]. st1_of H.
    split; intros E; simpl in E; orb_split; auto.
  - (* Capture *) destruct args as [|y [|? ?]]; try (simpl in H; discriminate H). simpl in H.
    destruct (den y _) as [[y' st1]|] eqn:Ey; [|discriminate]. inversion H; subst.
    split; [intros _; reflexivity|intros E; discriminate E].
  - (* NamedCapture *) destruct args as [|y [|nm [|? ?]]]; try (simpl in H; discriminate H). simpl in H.
    destruct (den y _) as [[y' st1]|] eqn:Ey; [|discriminate]. inversion H; subst.
    split; [intros _; reflexivity|intros E; discriminate E].
  - (* Group *) destruct args as [|y [|? ?]]; try (simpl in H; discriminate H). simpl in H.
    destruct (den y st) as [[y' st1]|] eqn:Ey; [|discriminate].
    destruct (IHin y (or_introl eq_refl) st y' st1 Ey) as [A1 A2]. inversion H; subst.
    split; [intros _; reflexivity|]. intros E. simpl in E. orb_split. exact (A2 ltac:(assumption)).
  - (* GroupWithFlags *) destruct args as [|y [|fl [|? ?]]]; try (simpl in H; discriminate H). simpl in H.
    destruct (apply_flags (sx_val fl) true (d_fl st)) as [f'|]; [|discriminate].
    destruct (den y (with_flags st f')) as [[y' st1]|] eqn:Ey; [|discriminate].
    destruct (IHin y (or_introl eq_refl) _ y' st1 Ey) as [A1 A2]. inversion H; subst.
    split; [intros _; reflexivity|]. intros E. simpl in E. orb_split. exact (A2 ltac:(assumption)).
  - (* FlagOnlyGroup *) destruct args as [|fl [|? ?]]; try (simpl in H; discriminate H). simpl in H.
    destruct (apply_flags (sx_val fl) true (d_fl st)) as [f'|]; [|discriminate]. inversion H; subst.
    split; [intros E; discriminate E|intros _; split; reflexivity].
Qed.

Lemma dst_eta (a b : dst) : d_fl b = d_fl a -> d_next b = d_next a -> d_names b = d_names a -> b = a.
Proof. destruct a, b; simpl; intros -> -> ->; reflexivity. Qed.

(* an expression that declares no group and lets no flag escape leaves the state as it found it *)
Corollary den_neutral e st x st' :
  hasCapture e = false -> leaks e = false -> den e st = Some (x, st') -> st' = st.
Proof.
  intros Hc Hl H. destruct (den_state e st x st' H) as [A B]. destruct (B Hc) as [B1 B2].
  apply dst_eta; [exact (A Hl)|exact B1|exact B2].
Qed.

Corollary den_flag_free_fl e st x st' : has_flag e = false -> den e st = Some (x, st') -> d_fl st' = d_fl st.
Proof. intros Hf H. destruct (den_state e st x st' H) as [A _]. apply A. apply flag_free_leaks. exact Hf. Qed.

(* ---------- lists of nodes ---------- *)
Lemma denL_app a b st :
  denL (a ++ b) st =
  match denL a st with
  | Some (xs, st1) => match denL b st1 with Some (ys, st2) => Some ((xs ++ ys)%list, st2) | None => None end
  | None => None
  end.
Proof.
  revert st. induction a as [|x a IH]; intros st; simpl.
  - destruct (denL b st) as [[ys st2]|]; reflexivity.
  - destruct (den x st) as [[x' st1]|]; [|reflexivity]. rewrite IH.
    destruct (denL a st1) as [[xs st2]|]; [|reflexivity]. destruct (denL b st2) as [[ys st3]|]; reflexivity.
Qed.

Lemma denL_one x st : denL [x] st = match den x st with Some (x', st1) => Some ([x'], st1) | None => None end.
Proof. simpl. destruct (den x st) as [[x' st1]|]; reflexivity. Qed.

Lemma den_seq_node xs st ys st1 : denL xs st = Some (ys, st1) -> den (seq_node xs) st = Some (cat_list ys, st1).
Proof.
  intros H. destruct xs as [|x1 [|x2 r]].
  - simpl in H. inversion H. reflexivity.
  - rewrite denL_one in H. simpl. destruct (den x1 st) as [[x' s']|]; [|discriminate]. inversion H. reflexivity.
  - unfold seq_node. rewrite den_concat, H. reflexivity.
Qed.

(* ---------- quantifier nodes with the greediness imposed from outside ---------- *)
Definition denq (g : bool) (q : sx) (st : dst) : option (rx * dst) :=
  match q with
  | X qo _ (x :: qr) =>
      if op_eqb (sx_op x) OpFlagOnlyGroup then None else
      match den x st with
      | Some (x', st1) => option_map (fun y => (y, st1)) (quant_build st g qo (rep_text (x :: qr)) x')
      | None => None
      end
  | _ => None
  end.

Lemma den_quant q st : quant_node q = true -> den q st = denq true q st.
Proof.
  destruct q as [qo qv qa]. intros Hq. destruct qo; try discriminate Hq.
  - destruct qa as [|x [|? ?]]; try discriminate Hq. reflexivity.
  - destruct qa as [|x [|? ?]]; try discriminate Hq. reflexivity.
  - destruct qa as [|x [|? ?]]; try discriminate Hq. reflexivity.
  - destruct qa as [|x [|r [|? ?]]]; try discriminate Hq. reflexivity.
Qed.

Lemma den_nongreedy v q st : quant_node q = true -> den (X OpNonGreedy v [q]) st = denq false q st.
Proof.
  destruct q as [qo qv qa]. intros Hq. destruct qo; try discriminate Hq.
  - destruct qa as [|x [|? ?]]; try discriminate Hq. simpl. destruct (op_eqb (sx_op x) OpFlagOnlyGroup); reflexivity.
  - destruct qa as [|x [|? ?]]; try discriminate Hq. simpl. destruct (op_eqb (sx_op x) OpFlagOnlyGroup); reflexivity.
  - destruct qa as [|x [|? ?]]; try discriminate Hq. simpl. destruct (op_eqb (sx_op x) OpFlagOnlyGroup); reflexivity.
  - destruct qa as [|x [|r [|? ?]]]; try discriminate Hq. simpl. destruct (op_eqb (sx_op x) OpFlagOnlyGroup); reflexivity.
Qed.

Lemma quant_build_congrS st g qo rep a b qa : a ≃ b ->
  quant_build st g qo rep a = Some qa -> exists qb, quant_build st g qo rep b = Some qb /\ qb ≃ qa.
Proof.
  intros H. unfold quant_build. destruct qo; try discriminate.
  - intros E. inversion E. eexists. split; [reflexivity|]. apply rel_star, rel_sym, H.
  - intros E. inversion E. eexists. split; [reflexivity|]. apply rel_plus, rel_sym, H.
  - intros E. inversion E. eexists. split; [reflexivity|]. apply rel_quest, rel_sym, H.
  - destruct (parse_repeat rep) as [[mn mx]|]; [|discriminate].
    destruct (_ || _); [discriminate|]. intros E. inversion E. eexists. split; [reflexivity|].
    apply build_repeat_congr, rel_sym, H.
Qed.

Lemma fold_repeat_textS st k c : 2 <= k -> k <= 64 ->
  quant_build st true OpRepeat ("{" ++ itoa k ++ "}") c = Some (cat_list (ncopies k c)).
Proof.
  intros H2 H64.
  do 65 (destruct k as [|k]; [try lia; reflexivity|]). lia.
Qed.

(* ---------- syntactic "always consumes a rune" ---------- *)
Fixpoint consumes_s (e : sx) : bool :=
  match e with
  | X o v args =>
      match o with
      | OpChar | OpDot | OpEscapeMeta | OpEscapeOctal | OpEscapeHex | OpCharClass | OpNegCharClass => true
      | OpEscapeChar =>
          match perl_item v with
          | Some _ => true
          | None => match assertion_of v with Some _ => false | None => true end
          end
      | OpGroup | OpCapture => match args with [x] => consumes_s x | _ => false end
      | OpNamedCapture | OpGroupWithFlags => match args with [x; _] => consumes_s x | _ => false end
      | OpConcat => (fix any (l : list sx) : bool := match l with [] => false | x :: r => consumes_s x || any r end) args
      | _ => false
      end
  end.

Lemma consumes_s_concat v args : consumes_s (X OpConcat v args) = anyb consumes_s args.
Proof. simpl. induction args as [|x r IH]; simpl; [reflexivity|]. rewrite IH. reflexivity. Qed.

Lemma consumes_cat_list_cons x l : consumes (cat_list (x :: l)) = consumes x || consumes (cat_list l).
Proof. destruct l; simpl; [rewrite orb_false_r|]; reflexivity. Qed.

Lemma om_set {A} (f : A -> rx) (st : dst) (o : option A) x st' :
  (forall r, consumes (f r) = true) -> option_map (fun r => (f r, st)) o = Some (x, st') -> consumes x = true.
Proof. intros Hf. destruct o; simpl; intros H; [inversion H; apply Hf|discriminate]. Qed.

Lemma denL_consumes_any l :
  (forall y, In y l -> forall st x st', consumes_s y = true -> den y st = Some (x, st') -> consumes x = true) ->
  anyb consumes_s l = true -> forall st xs st', denL l st = Some (xs, st') -> consumes (cat_list xs) = true.
Proof.
  induction l as [|y r IHr]; intros HP Hc st xs st' E; [discriminate Hc|].
  simpl in E. destruct (den y st) as [[y' s1]|] eqn:Ey; [|discriminate].
  destruct (denL r s1) as [[r' s2]|] eqn:Er; [|discriminate]. inversion E; subst.
  rewrite consumes_cat_list_cons. simpl in Hc. apply orb_true_iff in Hc as [Hc|Hc].
  - rewrite (HP y (or_introl eq_refl) st y' s1 Hc Ey). reflexivity.
  - rewrite (IHr (fun z Hz => HP z (or_intror Hz)) Hc s1 r' st' Er). apply orb_true_r.
Qed.

Theorem consumes_s_sound e : forall st x st', consumes_s e = true -> den e st = Some (x, st') -> consumes x = true.
Proof.
  induction e as [e IH] using sx_ind_size. destruct e as [o v args]. intros st x st' Hc H.
  assert (IHin : forall y, In y args -> forall st x st', consumes_s y = true -> den y st = Some (x, st') -> consumes x = true).
  { intros y Hy. apply IH. rewrite sx_size_X. pose proof (sizes_in y args Hy). lia. }
  destruct o; try discriminate Hc.
  - (* Concat *) rewrite consumes_s_concat in Hc. rewrite den_concat in H.
    destruct (denL args st) as [[l st1]|] eqn:E; [|discriminate]. inversion H; subst. clear H.
    exact (denL_consumes_any args IHin Hc st l st' E).
  - (* Dot *) simpl in H. inversion H. reflexivity.
  - (* Char *) simpl in H. eapply om_set; [|exact H]. reflexivity.
  - (* EscapeChar *) simpl in H, Hc. destruct (perl_item v); [inversion H; reflexivity|].
    destruct (assertion_of v); [discriminate|]. eapply om_set; [|exact H]. reflexivity.
  - (* EscapeMeta *) simpl in H. eapply om_set; [|exact H]. reflexivity.
  - (* EscapeOctal *) simpl in H. eapply om_set; [|exact H]. reflexivity.
  - (* EscapeHex *) simpl in H. eapply om_set; [|exact H]. reflexivity.
  - (* CharClass *) simpl in H. destruct (class_items args); simpl in H; [|discriminate]. inversion H. reflexivity.
  - (* NegCharClass *) simpl in H. destruct (class_items args); simpl in H; [|discriminate]. inversion H. reflexivity.
  - (* Capture *) destruct args as [|y [|? ?]]; try discriminate Hc. simpl in H, Hc.
    destruct (den y _) as [[y' st1]|] eqn:Ey; [|discriminate]. inversion H; subst. simpl.
    exact (IHin y (or_introl eq_refl) _ _ _ Hc Ey).
  - (* NamedCapture *) destruct args as [|y [|nm [|? ?]]]; try discriminate Hc. simpl in H, Hc.
    destruct (den y _) as [[y' st1]|] eqn:Ey; [|discriminate]. inversion H; subst. simpl.
    exact (IHin y (or_introl eq_refl) _ _ _ Hc Ey).
  - (* Group *) destruct args as [|y [|? ?]]; try discriminate Hc. simpl in H, Hc.
    destruct (den y st) as [[y' st1]|] eqn:Ey; [|discriminate]. inversion H; subst.
    exact (IHin y (or_introl eq_refl) _ _ _ Hc Ey).
  - (* GroupWithFlags *) destruct args as [|y [|fl [|? ?]]]; try discriminate Hc. simpl in H, Hc.
    destruct (apply_flags (sx_val fl) true (d_fl st)) as [f'|]; [|discriminate].
    destruct (den y (with_flags st f')) as [[y' st1]|] eqn:Ey; [|discriminate]. inversion H; subst.
    exact (IHin y (or_introl eq_refl) _ _ _ Hc Ey).
Qed.

(* ---------- prefix / suffix factoring of two literals, with the two syntactic side facts ---------- *)
Lemma loops_ok_cat_list l : loops_ok (cat_list l) = forallb loops_ok l.
Proof.
  induction l as [|x l IH]; [reflexivity|]. destruct l as [|y l]; [simpl; rewrite andb_true_r; reflexivity|].
  change (cat_list (x :: y :: l)) with (RCat x (cat_list (y :: l))). cbn [loops_ok forallb]. rewrite IH. reflexivity.
Qed.

Lemma loops_ok_sets cs : forallb loops_ok (map RSet cs) = true.
Proof. induction cs; simpl; auto. Qed.

Lemma consumes_sets c cs l : consumes (cat_list (map RSet (c :: cs) ++ l)) = true.
Proof. cbn [map app]. rewrite consumes_cat_list_cons. reflexivity. Qed.

Lemma rel_factor_prefix c cs ct :
  RAlt (cat_list (map RSet (c :: cs) ++ [RSet ct])) (cat_list (map RSet (c :: cs))) ≃
  cat_list (map RSet (c :: cs) ++ [RQuest true (RSet ct)]).
Proof.
  split; [apply factor_prefix_longer_first|]. split.
  - cbn [consumes]. rewrite !consumes_sets. rewrite <- (app_nil_r (map RSet (c :: cs))) at 1. rewrite consumes_sets. reflexivity.
  - cbn [loops_ok]. rewrite !loops_ok_cat_list, !forallb_app, !loops_ok_sets. reflexivity.
Qed.

Lemma rel_factor_suffix_long ch c cs :
  RAlt (cat_list (RSet ch :: map RSet (c :: cs))) (cat_list (map RSet (c :: cs))) ≃
  cat_list (RQuest true (RSet ch) :: map RSet (c :: cs)).
Proof.
  split; [|split].
  - eapply req_trans; [apply req_alt; [apply cat_list_cons|apply req_refl]|].
    eapply req_trans; [apply factor_suffix_longer_first|]. apply req_sym, cat_list_cons.
  - cbn [consumes]. rewrite !consumes_cat_list_cons.
    rewrite <- (app_nil_r (map RSet (c :: cs))). rewrite consumes_sets. reflexivity.
  - cbn [loops_ok]. rewrite !loops_ok_cat_list. cbn [forallb loops_ok]. rewrite !loops_ok_sets. reflexivity.
Qed.

Lemma rel_factor_suffix_short ch cf cs : (forall r, in_cls ch r && in_cls cf r = false) ->
  RAlt (cat_list (map RSet (cf :: cs))) (cat_list (RSet ch :: map RSet (cf :: cs))) ≃
  cat_list (RQuest true (RSet ch) :: map RSet (cf :: cs)).
Proof.
  intros Hd. split; [|split].
  - cbn [map].
    eapply req_trans; [apply req_alt; [apply cat_list_cons|]|].
    { eapply req_trans; [apply cat_list_cons|]. apply req_cat; [apply req_refl|apply cat_list_cons]. }
    eapply req_trans; [apply (factor_suffix_shorter_first ch cf _ Hd)|].
    apply req_sym. eapply req_trans; [apply cat_list_cons|]. apply req_cat; [apply req_refl|apply cat_list_cons].
  - cbn [consumes]. rewrite !consumes_cat_list_cons.
    rewrite <- (app_nil_r (map RSet (cf :: cs))). rewrite consumes_sets. reflexivity.
  - cbn [loops_ok]. rewrite !loops_ok_cat_list. cbn [forallb loops_ok]. rewrite !loops_ok_sets. reflexivity.
Qed.

Lemma rel_factor_suffix_short2 (xr : list rune) (rh : rune) : xr <> [] -> firstn (length xr) (rh :: xr) <> xr ->
  RAlt (cat_list (map RSet (map (cls1 false) xr))) (cat_list (RSet (cls1 false rh) :: map RSet (map (cls1 false) xr))) ≃
  cat_list (RQuest true (RSet (cls1 false rh)) :: map RSet (map (cls1 false) xr)).
Proof.
  intros Hne Hnp. split; [|split].
  - rewrite map_map.
    eapply req_trans; [apply (suffix_shorter_first_sound xr rh Hnp)|].
    apply req_sym. eapply req_trans; [apply cat_list_cons|]. apply req_refl.
  - destruct xr as [|c cs]; [congruence|]. cbn [consumes map]. rewrite !consumes_cat_list_cons. reflexivity.
  - cbn [loops_ok]. rewrite !loops_ok_cat_list. cbn [forallb loops_ok]. rewrite !loops_ok_sets. reflexivity.
Qed.

Fixpoint runes_of (vs : list string) : option (list rune) :=
  match vs with
  | [] => Some []
  | v :: r => match rune_of v, runes_of r with Some a, Some b => Some (a :: b) | _, _ => None end
  end.

Lemma cls1_disjoint a b : N.eqb a b = false -> forall r, in_cls (cls1 false a) r && in_cls (cls1 false b) r = false.
Proof.
  intros Hab r. unfold in_cls, cls1, in_item, orbit, in_ranges. cbn [c_neg c_fold c_items existsb fst snd xorb].
  apply N.eqb_neq in Hab.
  destruct (N.leb_spec a r), (N.leb_spec r a), (N.leb_spec b r), (N.leb_spec r b); simpl; try reflexivity; lia.
Qed.

(* a list of OpChar nodes elaborates to one-rune sets and leaves the state alone *)
Fixpoint charsets (fold : bool) (vs : list string) : option (list cls) :=
  match vs with
  | [] => Some []
  | v :: r => match rune_of v, charsets fold r with Some a, Some b => Some (cls1 fold a :: b) | _, _ => None end
  end.

Lemma denL_chars vs st :
  denL (map mk_char vs) st =
  match charsets (f_i (d_fl st)) vs with Some cs => Some (map RSet cs, st) | None => None end.
Proof.
  induction vs as [|v r IH]; [reflexivity|]. cbn [map denL charsets]. unfold mk_char at 1. cbn [den].
  destruct (rune_of v) as [a|]; cbn [option_map]; [|reflexivity]. rewrite IH.
  destruct (charsets (f_i (d_fl st)) r); reflexivity.
Qed.

Lemma charsets_runes vs : forall xr, runes_of vs = Some xr -> charsets false vs = Some (map (cls1 false) xr).
Proof.
  induction vs as [|v r IH]; intros xr H; simpl in H.
  - inversion H. reflexivity.
  - cbn [charsets]. destruct (rune_of v) as [a|]; [|discriminate]. destruct (runes_of r) as [b|]; [|discriminate].
    inversion H. rewrite (IH b eq_refl). reflexivity.
Qed.

Lemma chars_of_map x : chars_of x = map mk_char (utf8_chunks (String.length x) x).
Proof. reflexivity. Qed.

Definition chars_eqb (a b : list sx) : bool := list_eqb sx_eqb a b.
Lemma chars_eqb_eq a b : chars_eqb a b = true -> a = b.
Proof. apply (list_eqb_in sx_eqb). intros x _ y. apply sx_eqb_eq. Qed.

(* mirrors the factoring branch of walk_a: the two literals' Values are the texts of their characters
   (true of every tree the parser builds; checked, not assumed), and the instance is one of the sound ones *)
Definition factor_ok (alt : sx) : bool :=
  match sx_args alt with
  | [X o0 v0 cs0; X o1 v1 cs1] =>
      op_eqb o0 OpConcat && op_eqb o1 OpConcat &&
      let x0 := concatLiteral true (X OpConcat v0 cs0) in
      let y0 := concatLiteral true (X OpConcat v1 cs1) in
      let swap := Nat.ltb (String.length y0) (String.length x0) in
      let x := if swap then y0 else x0 in
      let y := if swap then x0 else y0 in
      let cx := if swap then cs1 else cs0 in
      let cy := if swap then cs0 else cs1 in
      let tail := trim_prefix y x in
      match utf8_chunks (String.length x) x with
      | [] => false
      | v1 :: vr =>
          chars_eqb cx (chars_of x) &&
          if Nat.leb (String.length tail) 4 && Nat.eqb (rune_count tail) 1 then
            swap && chars_eqb cy (chars_of x ++ [mk_char tail])
          else
            let head := trim_suffix y x in
            (* since the fix only the longer-first form `hx|x` is factored *)
            chars_eqb cy (mk_char head :: chars_of x) && swap
      end
  | _ => false
  end.

(* ---------- guards ---------- *)
Definition merge_okS (x : sx) (rest : list sx) : bool :=
  match rest with
  | X OpStar _ [y0] :: _ => sx_eqb x y0 && consumes_s x && negb (hasCapture x) && negb (leaks x)
  | _ => false
  end.

Definition fold_okS (x : sx) (rest : list sx) (n : nat) : bool :=
  fold_ok x rest n && negb (hasCapture x) && negb (leaks x).

Fixpoint guardsS (ff : bool) (e : sx) {struct e} : bool :=
  match e with
  | X OpConcat _ args =>
      (fix gc (l : list sx) (skip : nat) {struct l} : bool :=
         match l with
         | [] => true
         | x :: rest =>
             match skip with
             | S k => gc rest k
             | O => guardsS ff x &&
                 match concat_step true x rest with
                 | CNone => gc rest O
                 | CMerge => merge_okS x rest && gc rest 1
                 | CFold n => fold_okS x rest n && gc rest n
                 end
             end
         end) args O
  | X OpAlt _ args =>
      if allChars e && negb (true && hasClassMeta e) then negb (match args with [] => true | _ => false end)
      else match factorPrefixSuffix true e with
           | Some _ => negb ff && factor_ok e
           | None => (fix ga (l : list sx) : bool := match l with [] => true | x :: r => guardsS ff x && ga r end) args
           end
  | X OpGroup _ [x] | X OpCapture _ [x] | X OpNamedCapture _ [x; _] => guardsS ff x
  | X OpGroupWithFlags _ [x; _] => guardsS true x          (* inside, flags are in effect *)
  | X OpStar _ [x] | X OpPlus _ [x] | X OpQuestion _ [x] => guardsS ff x
  | X OpNonGreedy _ [q] => quant_node q && guardsS ff q
  | X OpRepeat _ [x; r] =>
      guardsS ff x &&
      (if String.eqb (sx_val r) "{0}" then hasCapture x || negb (leaks x) else true)
  | X OpCharClass v _ =>
      match simplifyCharClass true e with
      | Some _ =>
          match lookup_s v class_table with
          | Some _ => existsb (fun p => sx_eqb e (fst p)) class_table_sound_entries
          | None => true
          end
      | None => items_ok e
      end
  | X OpNegCharClass v _ =>
      match simplifyNegCharClass e with
      | Some _ => existsb (fun p => sx_eqb e (fst p)) neg_class_table_sound_entries
      | None => items_ok e
      end
  | _ => true
  end.

Section GS.
Variable ff : bool.
Fixpoint gcS (l : list sx) (skip : nat) {struct l} : bool :=
  match l with
  | [] => true
  | x :: rest =>
      match skip with
      | S k => gcS rest k
      | O => guardsS ff x &&
          match concat_step true x rest with
          | CNone => gcS rest O
          | CMerge => merge_okS x rest && gcS rest 1
          | CFold n => fold_okS x rest n && gcS rest n
          end
      end
  end.
Fixpoint gaS (l : list sx) : bool := match l with [] => true | x :: r => guardsS ff x && gaS r end.
End GS.
Lemma guardsS_concat ff v args : guardsS ff (X OpConcat v args) = gcS ff args O.
Proof. reflexivity. Qed.


(* ---------- the statement proved by induction ---------- *)
Definition flags_dflt (ff : bool) (e : sx) (st : dst) : Prop := ff = false -> has_flag e = false /\ d_fl st = flags0.

Definition PS (e : sx) : Prop :=
  forall ff, guardsS ff e = true -> forall st x st', flags_dflt ff e st -> den e st = Some (x, st') ->
  exists ys, denL (fst (walk_a true e)) st = Some (ys, st') /\ cat_list ys ≃ x.

Lemma fd_child ff o v args st y st_y :
  flags_dflt ff (X o v args) st -> In y args -> d_fl st_y = d_fl st -> flags_dflt ff y st_y.
Proof.
  intros H Hy Hfl Hff. destruct (H Hff) as [Hf H0]. rewrite has_flag_X in Hf. apply orb_false_iff in Hf as [_ Hf].
  split; [exact (anyb_false _ _ Hf y Hy)|congruence].
Qed.

Definition flagsL_dflt (ff : bool) (l : list sx) (st : dst) : Prop := ff = false -> anyb has_flag l = false /\ d_fl st = flags0.

Lemma fd_args ff o v args st : flags_dflt ff (X o v args) st -> flagsL_dflt ff args st.
Proof.
  intros H Hff. destruct (H Hff) as [Hf H0]. rewrite has_flag_X in Hf. apply orb_false_iff in Hf as [_ Hf]. split; assumption.
Qed.

(* ---------- quantifiers ---------- *)
Lemma wrap_quantS g qo sfx xs ys x' xq st st1 :
  (qo = OpStar \/ qo = OpPlus \/ qo = OpQuestion) ->
  op_eqb (sx_op (seq_node xs)) OpFlagOnlyGroup = false ->
  denL xs st = Some (ys, st1) -> cat_list ys ≃ x' ->
  quant_build st g qo EmptyString x' = Some xq ->
  exists q', wrap1 qo sfx xs = [q'] /\ quant_node q' = true /\ exists y, denq g q' st = Some (y, st1) /\ y ≃ xq.
Proof.
  intros Hq Hf Hys Hc Hb. unfold wrap1. eexists. split; [reflexivity|].
  pose proof (den_seq_node xs st ys st1 Hys) as Hs.
  destruct (quant_build_congrS st g qo EmptyString x' (cat_list ys) xq (rel_sym _ _ Hc) Hb) as (qb & Hqb & Hreq).
  destruct Hq as [Hq|[Hq|Hq]]; subst qo; (split; [reflexivity|]; exists qb; split; [|exact Hreq]);
    unfold denq; rewrite Hf, Hs; cbn [rep_text]; rewrite Hqb; reflexivity.
Qed.

Lemma denq_inv g qo qv x qr st xq st' : denq g (X qo qv (x :: qr)) st = Some (xq, st') ->
  op_eqb (sx_op x) OpFlagOnlyGroup = false /\
  exists x', den x st = Some (x', st') /\ quant_build st g qo (rep_text (x :: qr)) x' = Some xq.
Proof.
  unfold denq. destruct (op_eqb (sx_op x) OpFlagOnlyGroup); [discriminate|].
  destruct (den x st) as [[x' st1]|]; [|discriminate]. intros H. apply om_st2 in H as [-> H].
  split; [reflexivity|]. exists x'. split; [reflexivity|exact H].
Qed.

Lemma quant_stepS q : quant_node q = true ->
  (forall x, In x (sx_args q) -> PS x) -> forall ff, guardsS ff q = true ->
  forall g st xq st', flags_dflt ff q st -> denq g q st = Some (xq, st') ->
  if dropped_repeat q
  then exists ys, denL (fst (walk_a true q)) st = Some (ys, st') /\ cat_list ys ≃ xq
  else exists q', fst (walk_a true q) = [q'] /\ quant_node q' = true /\
                  exists y, denq g q' st = Some (y, st') /\ y ≃ xq.
Proof.
  intros Hq IH ff Hg g st xq st' Hfd Hs. destruct q as [qo qv qargs].
  destruct qo; try discriminate Hq.
  - (* Star *)
    destruct qargs as [|x [|? ?]]; try discriminate Hq. cbn [guardsS] in Hg.
    apply denq_inv in Hs as (Hfo & x' & Ex & Hb). pose proof (emits_operand_holds x st _ Ex Hfo) as Hem.
    destruct (IH x (or_introl eq_refl) ff Hg st x' st' (fd_child _ _ _ _ _ x st Hfd (or_introl eq_refl) eq_refl) Ex) as (ys & Hys & Hc).
    cbn [dropped_repeat walk_a]. destruct (walk_a true x) as [xs sc]. cbn [fst] in *.
    apply (wrap_quantS g OpStar "*" xs ys x' xq st st'); auto.
  - (* Plus *)
    destruct qargs as [|x [|? ?]]; try discriminate Hq. cbn [guardsS] in Hg.
    apply denq_inv in Hs as (Hfo & x' & Ex & Hb). pose proof (emits_operand_holds x st _ Ex Hfo) as Hem.
    destruct (IH x (or_introl eq_refl) ff Hg st x' st' (fd_child _ _ _ _ _ x st Hfd (or_introl eq_refl) eq_refl) Ex) as (ys & Hys & Hc).
    cbn [dropped_repeat walk_a]. destruct (walk_a true x) as [xs sc]. cbn [fst] in *.
    apply (wrap_quantS g OpPlus "+" xs ys x' xq st st'); auto.
  - (* Question *)
    destruct qargs as [|x [|? ?]]; try discriminate Hq. cbn [guardsS] in Hg.
    apply denq_inv in Hs as (Hfo & x' & Ex & Hb). pose proof (emits_operand_holds x st _ Ex Hfo) as Hem.
    destruct (IH x (or_introl eq_refl) ff Hg st x' st' (fd_child _ _ _ _ _ x st Hfd (or_introl eq_refl) eq_refl) Ex) as (ys & Hys & Hc).
    cbn [dropped_repeat walk_a]. destruct (walk_a true x) as [xs sc]. cbn [fst] in *.
    apply (wrap_quantS g OpQuestion "?" xs ys x' xq st st'); auto.
  - (* Repeat *)
    destruct qargs as [|x [|r [|? ?]]]; try discriminate Hq. cbn [guardsS] in Hg.
    apply andb_true_iff in Hg as [Hg H0].
    apply denq_inv in Hs as (Hfo & x' & Ex & Hb). cbn [rep_text] in Hb. pose proof (emits_operand_holds x st _ Ex Hfo) as Hem.
    destruct (IH x (or_introl eq_refl) ff Hg st x' st' (fd_child _ _ _ _ _ x st Hfd (or_introl eq_refl) eq_refl) Ex) as (ys & Hys & Hc).
    cbn [dropped_repeat walk_a]. destruct (walk_a true x) as [xs sc]. cbn [fst] in *.
    destruct (String.eqb_spec (sx_val r) "{0,1}") as [E|_].
    { rewrite E in *. cbn [String.eqb Ascii.eqb Bool.eqb orb andb fst].
      apply (wrap_quantS g OpQuestion "?" xs ys x' xq st st'); auto. }
    destruct (String.eqb_spec (sx_val r) "{1,}") as [E|_].
    { rewrite E in *. cbn [String.eqb Ascii.eqb Bool.eqb orb andb fst].
      apply (wrap_quantS g OpPlus "+" xs ys x' xq st st'); auto. }
    destruct (String.eqb_spec (sx_val r) "{0,}") as [E|_].
    { rewrite E in *. cbn [String.eqb Ascii.eqb Bool.eqb orb andb fst].
      apply (wrap_quantS g OpStar "*" xs ys x' xq st st'); auto. }
    pose proof (den_seq_node xs st ys st' Hys) as Hsn.
    destruct (quant_build_congrS st g OpRepeat (sx_val r) x' (cat_list ys) xq (rel_sym _ _ Hc) Hb) as (qb & Hqb & Hreq).
    destruct (String.eqb_spec (sx_val r) "{0}") as [E|N0].
    { cbn [orb andb]. destruct (hasCapture x) eqn:Ecap; cbn [fst].
      - (* kept: a capture group must not disappear *)
        rewrite denL_one. cbn [den]. rewrite Hem, Hsn. rewrite E in Hb, Hqb |- *.
        inversion Hb; subst xq. eexists. split; [reflexivity|]. apply rel_refl.
      - (* dropped: the operand declares nothing and lets no flag escape *)
        cbn [orb] in H0. apply negb_true_iff in H0. rewrite (den_neutral x st x' st' Ecap H0 Ex).
        exists []. split; [reflexivity|]. rewrite E in Hb. inversion Hb; subst xq. apply rel_refl. }
    destruct (String.eqb_spec (sx_val r) "{1}") as [E|N1].
    { cbn [orb andb fst]. exists ys. split; [exact Hys|]. rewrite E in Hb. inversion Hb; subst xq. exact Hc. }
    cbn [orb fst].
    eexists. split; [reflexivity|]. split; [reflexivity|].
    exists qb. split; [|exact Hreq]. unfold denq. rewrite Hem, Hsn. cbn [rep_text]. rewrite Hqb. reflexivity.
Qed.

(* ---------- concatenations ---------- *)
Lemma denL_firstn_same x x' st : den x st = Some (x', st) ->
  forall n rest rs st', denL rest st = Some (rs, st') -> n <= length rest -> forallb (sx_eqb x) (firstn n rest) = true ->
  rs = (ncopies n x' ++ skipn n rs)%list /\ denL (skipn n rest) st = Some (skipn n rs, st').
Proof.
  intros Hx n. induction n as [|n IH]; intros rest rs st' Hr Hn Hall; [split; [reflexivity|exact Hr]|].
  destruct rest as [|y rest]; [simpl in Hn; lia|]. simpl in Hr, Hall.
  apply andb_true_iff in Hall as [Hy Hall]. apply sx_eqb_eq in Hy. subst y. rewrite Hx in Hr.
  destruct (denL rest st) as [[rs' s2]|] eqn:Er; [|discriminate]. inversion Hr; subst.
  destruct (IH rest rs' st' Er ltac:(simpl in Hn; lia) Hall) as [A B].
  split; [simpl; f_equal; exact A|exact B].
Qed.

Lemma anyb_flag_tail (x : sx) r : anyb has_flag (x :: r) = false -> has_flag x = false /\ anyb has_flag r = false.
Proof. simpl. intros H. apply orb_false_iff in H. exact H. Qed.

Lemma wc_soundS ff l : (forall x, In x l -> PS x) ->
  forall skip st xs st', gcS ff l skip = true -> flagsL_dflt ff l st ->
  (forall y, In y (firstn skip l) -> hasCapture y = false /\ leaks y = false) ->
  denL l st = Some (xs, st') ->
  exists ys, denL (fst (wcT l skip)) st = Some (ys, st') /\ cat_list ys ≃ cat_list (skipn skip xs).
Proof.
  induction l as [|x rest IHl]; intros HP skip st xs st' Hg Hfd Hneu Hs.
  - simpl in Hs. inversion Hs. exists []. split; [reflexivity|]. destruct skip; apply rel_refl.
  - simpl in Hs. destruct (den x st) as [[x' st1]|] eqn:Ex; [|discriminate].
    destruct (denL rest st1) as [[rs st2]|] eqn:Er; [|discriminate]. inversion Hs; subst xs st2. clear Hs.
    assert (HPr : forall y, In y rest -> PS y) by (intros y Hy; apply HP; right; exact Hy).
    assert (Hfdx : flags_dflt ff x st).
    { intros Hff. destruct (Hfd Hff) as [A B]. apply anyb_flag_tail in A as [A _]. split; assumption. }
    assert (Hfdr : flagsL_dflt ff rest st1).
    { intros Hff. destruct (Hfd Hff) as [A B]. apply anyb_flag_tail in A as [A1 A2]. split; [exact A2|].
      rewrite (den_flag_free_fl x st x' st1 A1 Ex). exact B. }
    destruct skip as [|k].
    + cbn [gcS] in Hg. apply andb_true_iff in Hg as [Hgx Hg].
      destruct (HP x (or_introl eq_refl) ff Hgx st x' st1 Hfdx Ex) as (ys1 & Hys1 & Hc1).
      cbn [wcT skipn]. destruct (concat_step true x rest) as [| |n] eqn:Estep.
      * (* no rule *)
        destruct (IHl HPr 0 st1 rs st' Hg Hfdr (fun y Hy => match Hy with end) Er) as (ys2 & Hys2 & Hc2).
        unfold a_app. cbn [fst]. rewrite denL_app, Hys1, Hys2. eexists. split; [reflexivity|].
        eapply rel_trans; [apply rel_cat_list_app|].
        eapply rel_trans; [apply rel_cat; [exact Hc1|exact Hc2]|]. apply rel_sym, rel_cat_list_cons.
      * (* xx* => x+ *)
        apply andb_true_iff in Hg as [Hm Hg]. unfold merge_okS in Hm.
        destruct rest as [|[so sv sargs] rest']; [discriminate|].
        destruct so; try discriminate Hm. destruct sargs as [|y0 [|? ?]]; try discriminate Hm.
        apply andb_true_iff in Hm as [Hm Hlk]. apply andb_true_iff in Hm as [Hm Hcap].
        apply andb_true_iff in Hm as [Hy0 Hcons]. apply sx_eqb_eq in Hy0. subst y0.
        apply negb_true_iff in Hlk. apply negb_true_iff in Hcap.
        pose proof (den_neutral x st x' st1 Hcap Hlk Ex) as Est. subst st1.
        pose proof (consumes_s_sound x st x' st Hcons Ex) as Hcx.
        pose proof (emits_operand_holds x st _ Ex (leaks_not_fo x Hlk)) as Hem.
        (* the elaboration of the star *)
        cbn [denL] in Er. cbn [den] in Er.
        destruct (op_eqb (sx_op x) OpFlagOnlyGroup) eqn:Efo; [discriminate|]. rewrite Ex in Er. cbn [sx_op option_map quant_build] in Er.
        destruct (denL rest' st) as [[rs' s3]|] eqn:Er'; [|discriminate]. inversion Er; subst rs s3. clear Er.
        assert (Hneu1 : forall y, In y (firstn 1 (X OpStar sv [x] :: rest')) -> hasCapture y = false /\ leaks y = false).
        { intros y [<-|[]]. rewrite hasCapture_X, leaks_X. cbn [cap_op anyb leak_through orb andb]. rewrite Hcap, Hlk. split; reflexivity. }
        assert (Er1 : denL (X OpStar sv [x] :: rest') st = Some (RStar (greedy_of st true) x' :: rs', st')).
        { cbn [denL den]. rewrite Efo, Ex. cbn [sx_op option_map quant_build]. rewrite Er'. reflexivity. }
        destruct (IHl HPr 1 st _ st' Hg Hfdr Hneu1 Er1) as (ys2 & Hys2 & Hc2).
        destruct (walk_a true x) as [xs0 sc]. cbn [fst] in *.
        destruct (wrap_quantS true OpPlus "+" xs0 ys1 x' (RPlus (greedy_of st true) x') st st (or_intror (or_introl eq_refl)) Hem Hys1 Hc1 eq_refl)
          as (q' & Hq' & Hqn & y & Hy & Hyreq).
        unfold a_app. cbn [fst]. rewrite Hq'. rewrite denL_app, denL_one, (den_quant q' st Hqn), Hy, Hys2.
        eexists. split; [reflexivity|]. cbn [app].
        eapply rel_trans; [apply rel_cat_list_cons|].
        eapply rel_trans; [apply rel_cat; [exact Hyreq|exact Hc2]|].
        cbn [skipn].
        eapply rel_trans; [apply rel_cat; [apply rel_sym, (rel_merge (greedy_of st true) x' Hcx)|apply rel_refl]|].
        eapply rel_trans; [apply rel_cat_assoc|].
        apply rel_sym.
        eapply rel_trans; [apply rel_cat_list_cons|]. apply rel_cat; [apply rel_refl|]. apply rel_cat_list_cons.
      * (* run-length folding *)
        apply andb_true_iff in Hg as [Hf Hg]. unfold fold_okS in Hf.
        apply andb_true_iff in Hf as [Hf Hlk]. apply andb_true_iff in Hf as [Hf Hcap].
        apply negb_true_iff in Hlk. apply negb_true_iff in Hcap. unfold fold_ok in Hf.
        apply andb_true_iff in Hf as [Hf Hall]. apply andb_true_iff in Hf as [Hf Hlen].
        apply andb_true_iff in Hf as [H1 H64].
        apply Nat.leb_le in H1. apply Nat.leb_le in H64. apply Nat.leb_le in Hlen.
        pose proof (den_neutral x st x' st1 Hcap Hlk Ex) as Est. subst st1.
        pose proof (emits_operand_holds x st _ Ex (leaks_not_fo x Hlk)) as Hem.
        assert (Hneun : forall y, In y (firstn n rest) -> hasCapture y = false /\ leaks y = false).
        { intros y Hy. rewrite forallb_forall in Hall. specialize (Hall y Hy). apply sx_eqb_eq in Hall. subst y. split; assumption. }
        destruct (IHl HPr n st rs st' Hg Hfdr Hneun Er) as (ys2 & Hys2 & Hc2).
        destruct (denL_firstn_same x x' st Ex n rest rs st' Er Hlen Hall) as [Hrs _].
        destruct (walk_a true x) as [xs0 sc]. cbn [fst] in *.
        pose proof (den_seq_node xs0 st ys1 st Hys1) as Hsn.
        unfold a_app. cbn [fst]. rewrite denL_app, denL_one. cbn [den sx_val]. rewrite Hem, Hsn.
        rewrite (fold_repeat_textS st (S n) (cat_list ys1)) by lia. cbn [option_map]. rewrite Hys2.
        eexists. split; [reflexivity|]. cbn [app].
        eapply rel_trans; [apply rel_cat_list_cons|].
        eapply rel_trans; [apply rel_cat; [apply rel_cat_list_congr, (ncopies_congr (S n) _ x' Hc1)|exact Hc2]|].
        apply rel_sym. rewrite Hrs at 1.
        change (x' :: ncopies n x' ++ skipn n rs)%list with (ncopies (S n) x' ++ skipn n rs)%list.
        apply rel_cat_list_app.
    + cbn [gcS] in Hg. cbn [wcT]. rewrite skipn_cons_S.
      destruct (Hneu x (or_introl eq_refl)) as [Hcap Hlk].
      pose proof (den_neutral x st x' st1 Hcap Hlk Ex) as Est. subst st1.
      apply (IHl HPr k st rs st' Hg Hfdr); [|exact Er]. intros y Hy. apply Hneu. right. exact Hy.
Qed.

(* ---------- alternations ---------- *)
Lemma wa_soundS ff l : (forall x, In x l -> PS x) ->
  forall st xs st', gaS ff l = true -> flagsL_dflt ff l st -> denL l st = Some (xs, st') ->
  exists ys, denL (fst (waT l)) st = Some (ys, st') /\ Forall2 rel ys xs.
Proof.
  induction l as [|x rest IHl]; intros HP st xs st' Hg Hfd Hs.
  - simpl in Hs. inversion Hs. exists []. split; [reflexivity|constructor].
  - simpl in Hs. destruct (den x st) as [[x' st1]|] eqn:Ex; [|discriminate].
    destruct (denL rest st1) as [[rs st2]|] eqn:Er; [|discriminate]. inversion Hs; subst xs st2. clear Hs.
    cbn [gaS] in Hg. apply andb_true_iff in Hg as [Hgx Hg].
    assert (Hfdx : flags_dflt ff x st).
    { intros Hff. destruct (Hfd Hff) as [A B]. apply anyb_flag_tail in A as [A _]. split; assumption. }
    assert (Hfdr : flagsL_dflt ff rest st1).
    { intros Hff. destruct (Hfd Hff) as [A B]. apply anyb_flag_tail in A as [A1 A2]. split; [exact A2|].
      rewrite (den_flag_free_fl x st x' st1 A1 Ex). exact B. }
    destruct (HP x (or_introl eq_refl) ff Hgx st x' st1 Hfdx Ex) as (ys1 & Hys1 & Hc1).
    destruct (IHl (fun y Hy => HP y (or_intror Hy)) st1 rs st' Hg Hfdr Er) as (ys2 & Hys2 & Hc2).
    cbn [waT]. destruct (walk_a true x) as [xs0 sc]. destruct (waT rest) as [rs0 sc']. cbn [fst] in *.
    cbn [denL]. rewrite (den_seq_node xs0 st ys1 st1 Hys1), Hys2.
    eexists. split; [reflexivity|]. constructor; assumption.
Qed.

(* ---------- factoring, on trees ---------- *)
Lemma charsets_nonempty fold v vs cs : charsets fold (v :: vs) = Some cs -> exists c cs', cs = c :: cs'.
Proof.
  cbn [charsets]. destruct (rune_of v); [|discriminate]. destruct (charsets fold vs); [|discriminate].
  intros H. inversion H. eexists. eexists. reflexivity.
Qed.

Lemma den_question_char st tq t : d_fl st = flags0 ->
  den (X OpQuestion tq [mk_char t]) st =
  option_map (fun r => (RQuest true (RSet (cls1 false r)), st)) (rune_of t).
Proof.
  intros Hfl. unfold mk_char. cbn [den sx_op op_eqb op_id N.eqb Pos.eqb]. rewrite Hfl. cbn [f_i flags0].
  destruct (rune_of t); cbn [option_map quant_build]; [|reflexivity]. unfold greedy_of. rewrite Hfl. reflexivity.
Qed.

Lemma den_char_dflt st t : d_fl st = flags0 ->
  den (mk_char t) st = option_map (fun r => (RSet (cls1 false r), st)) (rune_of t).
Proof. intros Hfl. unfold mk_char. cbn [den]. rewrite Hfl. reflexivity. Qed.

Lemma factor_prefix_den st v va vb s tq t v1 vs xx st' : d_fl st = flags0 ->
  den (X OpAlt v [X OpConcat va (map mk_char (v1 :: vs) ++ [mk_char t]); X OpConcat vb (map mk_char (v1 :: vs))]) st = Some (xx, st') ->
  exists ys, denL [X OpConcat s (map mk_char (v1 :: vs) ++ [X OpQuestion tq [mk_char t]])] st = Some (ys, st') /\ cat_list ys ≃ xx.
Proof.
  intros Hfl H. rewrite den_alt in H. cbn [denL] in H. rewrite !den_concat, denL_app, denL_chars, Hfl in H.
  cbn [f_i flags0] in H. destruct (charsets false (v1 :: vs)) as [cs|] eqn:Ecs; [|discriminate].
  rewrite denL_one, (den_char_dflt st t Hfl) in H. destruct (rune_of t) as [rt|] eqn:Et; cbn [option_map] in H; [|discriminate].
  rewrite ?den_concat, denL_chars, Hfl in H. cbn [f_i flags0] in H. rewrite Ecs in H. inversion H; subst xx st'. clear H.
  rewrite denL_one, den_concat, denL_app, denL_chars, Hfl. cbn [f_i flags0]. rewrite Ecs, denL_one, (den_question_char st tq t Hfl), Et.
  cbn [option_map]. eexists. split; [reflexivity|]. cbn [cat_list alt_list].
  destruct (charsets_nonempty _ _ _ _ Ecs) as (c & cs' & ->). apply rel_sym, rel_factor_prefix.
Qed.

Lemma factor_suffix_long_den st v va vb s hq h v1 vs xx st' : d_fl st = flags0 ->
  den (X OpAlt v [X OpConcat va (mk_char h :: map mk_char (v1 :: vs)); X OpConcat vb (map mk_char (v1 :: vs))]) st = Some (xx, st') ->
  exists ys, denL [X OpConcat s (X OpQuestion hq [mk_char h] :: map mk_char (v1 :: vs))] st = Some (ys, st') /\ cat_list ys ≃ xx.
Proof.
  intros Hfl H. rewrite den_alt in H. cbn [denL] in H. rewrite !den_concat in H.
  change (mk_char h :: map mk_char (v1 :: vs)) with ([mk_char h] ++ map mk_char (v1 :: vs))%list in H.
  rewrite denL_app, denL_one, (den_char_dflt st h Hfl) in H.
  destruct (rune_of h) as [rh|] eqn:Eh; cbn [option_map] in H; [|discriminate].
  rewrite ?den_concat, denL_chars, Hfl in H. cbn [f_i flags0] in H. destruct (charsets false (v1 :: vs)) as [cs|] eqn:Ecs; [|discriminate].
  rewrite ?den_concat, denL_chars, Hfl in H. cbn [f_i flags0] in H. rewrite Ecs in H.
  inversion H; subst xx st'. clear H.
  rewrite denL_one, den_concat.
  change (X OpQuestion hq [mk_char h] :: map mk_char (v1 :: vs)) with ([X OpQuestion hq [mk_char h]] ++ map mk_char (v1 :: vs))%list.
  rewrite denL_app, denL_one, (den_question_char st hq h Hfl), Eh. cbn [option_map].
  rewrite denL_chars, Hfl. cbn [f_i flags0]. rewrite Ecs.
  eexists. split; [reflexivity|]. cbn [cat_list alt_list app].
  destruct (charsets_nonempty _ _ _ _ Ecs) as (c & cs' & ->). apply rel_sym, rel_factor_suffix_long.
Qed.

Lemma charsets_head v1 vs c cs : charsets false (v1 :: vs) = Some (c :: cs) -> exists r1, rune_of v1 = Some r1 /\ c = cls1 false r1.
Proof.
  cbn [charsets]. destruct (rune_of v1) as [r1|]; [|discriminate]. destruct (charsets false vs); [|discriminate].
  intros H. inversion H. exists r1. split; reflexivity.
Qed.

Lemma factor_suffix_short_den st v va vb s hq h v1 vs xx st' : d_fl st = flags0 ->
  match rune_of h, runes_of (v1 :: vs) with
  | Some a, Some xr => negb (list_eqb N.eqb (firstn (length xr) (a :: xr)) xr)
  | _, _ => false
  end = true ->
  den (X OpAlt v [X OpConcat va (map mk_char (v1 :: vs)); X OpConcat vb (mk_char h :: map mk_char (v1 :: vs))]) st = Some (xx, st') ->
  exists ys, denL [X OpConcat s (X OpQuestion hq [mk_char h] :: map mk_char (v1 :: vs))] st = Some (ys, st') /\ cat_list ys ≃ xx.
Proof.
  intros Hfl Hd H. rewrite den_alt in H. cbn [denL] in H. rewrite !den_concat in H.
  rewrite denL_chars, Hfl in H. cbn [f_i flags0] in H. destruct (charsets false (v1 :: vs)) as [cs|] eqn:Ecs; [|discriminate].
  change (mk_char h :: map mk_char (v1 :: vs)) with ([mk_char h] ++ map mk_char (v1 :: vs))%list in H.
  rewrite ?den_concat, denL_app, denL_one, (den_char_dflt st h Hfl) in H.
  destruct (rune_of h) as [rh|] eqn:Eh; cbn [option_map] in H; [|discriminate].
  rewrite denL_chars, Hfl in H. cbn [f_i flags0] in H. rewrite Ecs in H.
  inversion H; subst xx st'. clear H.
  rewrite denL_one, den_concat.
  change (X OpQuestion hq [mk_char h] :: map mk_char (v1 :: vs)) with ([X OpQuestion hq [mk_char h]] ++ map mk_char (v1 :: vs))%list.
  rewrite denL_app, denL_one, (den_question_char st hq h Hfl), Eh. cbn [option_map].
  rewrite denL_chars, Hfl. cbn [f_i flags0]. rewrite Ecs.
  eexists. split; [reflexivity|]. cbn [cat_list alt_list app].
  destruct (runes_of (v1 :: vs)) as [xr|] eqn:Exr; [|discriminate Hd].
  rewrite (charsets_runes _ xr Exr) in Ecs. inversion Ecs; subst cs. apply negb_true_iff in Hd.
  apply rel_sym, rel_factor_suffix_short2.
  - intros E. subst xr. simpl in Exr. destruct (rune_of v1); [|discriminate]. destruct (runes_of vs); discriminate.
  - intros E. rewrite E in Hd. assert (T : list_eqb N.eqb xr xr = true) by (apply (list_eqb_eq N.eqb N.eqb_eq); reflexivity).
    congruence.
Qed.

(* ---------- classes, under whatever case-folding flag is in effect ---------- *)
Lemma den_class_form neg o v its st :
  (o = OpCharClass /\ neg = false \/ o = OpNegCharClass /\ neg = true) ->
  den (X o v its) st =
  option_map (fun cs => (RSet {| c_neg := neg; c_fold := f_i (d_fl st); c_items := cs |}, st)) (class_items its).
Proof. intros [[-> ->]|[-> ->]]; reflexivity. Qed.

Lemma class_generalS neg o v items st x st' :
  (o = OpCharClass /\ neg = false \/ o = OpNegCharClass /\ neg = true) ->
  forallb item_ok items = true -> den (X o v items) st = Some (x, st') ->
  exists y, den (X o v (fst (wlT items))) st = Some (y, st') /\ y ≃ x.
Proof.
  intros Ho Hok Hs. rewrite (den_class_form neg o v _ st Ho) in Hs. rewrite (den_class_form neg o v _ st Ho).
  destruct (class_items items) as [cis|] eqn:Eci; [|discriminate]. cbn [option_map] in Hs.
  inversion Hs; subst x st'. destruct (items_sound items cis Hok Eci) as (cis' & Hc' & Hsame).
  rewrite Hc'. cbn [option_map]. eexists. split; [reflexivity|].
  apply rel_rset. intros r. unfold in_cls. cbn [c_neg c_fold c_items]. rewrite Hsame. reflexivity.
Qed.

Lemma allchars_itemsS args st : forallb (fun a => op_eqb (sx_op a) OpChar) args = true ->
  forall xs st', denL args st = Some (xs, st') ->
  st' = st /\ exists rs, xs = map (set1 (f_i (d_fl st))) rs /\ length rs = length args /\
                         class_items (map (fun a => mk_char (sx_val a)) args) = Some (char_items rs).
Proof.
  induction args as [|a args IH]; intros Hall xs st' Hs.
  - simpl in Hs. inversion Hs. split; [reflexivity|]. exists []. repeat split.
  - simpl in Hall. apply andb_true_iff in Hall as [Ha Hall]. apply op_eqb_eq in Ha.
    destruct a as [o v aa]. simpl in Ha. subst o.
    cbn [denL den] in Hs. destruct (rune_of v) as [r|] eqn:Er; cbn [option_map] in Hs; [|discriminate].
    destruct (denL args st) as [[rs s2]|] eqn:Eo; [|discriminate]. inversion Hs; subst xs st'.
    destruct (IH Hall rs s2 eq_refl) as (-> & rr & -> & Hlen & Hci). split; [reflexivity|].
    exists (r :: rr). split; [reflexivity|]. split; [simpl; lia|].
    cbn [map class_items sx_val]. unfold mk_char, class_item, escape_rune. rewrite Er. cbn [option_map].
    unfold mk_char in Hci. rewrite Hci. reflexivity.
Qed.

Ltac leafS x Hs := exists [x]; split; [cbn [walk_a fst]; rewrite denL_one, Hs; reflexivity|apply rel_refl].

Ltac table_caseS st Hs :=
  destruct st as [[fi fm fs fU] nx nms]; vm_compute in Hs; inversion Hs; subst; eexists; split; [vm_compute; reflexivity|];
  cbn [cat_list]; apply rel_rset; intros r0; unfold in_cls, in_item; cbn [c_neg c_fold c_items existsb];
  repeat match goal with |- context [existsb ?f ?l] => destruct (existsb f l) end; reflexivity.

Lemma guardsS_alt_general ff v args :
  (allChars (X OpAlt v args) && negb (true && hasClassMeta (X OpAlt v args))) = false ->
  factorPrefixSuffix true (X OpAlt v args) = None -> guardsS ff (X OpAlt v args) = gaS ff args.
Proof. intros H1 H2. cbn [guardsS]. rewrite H1, H2. reflexivity. Qed.

Theorem walkS_sound e : PS e.
Proof.
  induction e as [e IH] using sx_ind_size. destruct e as [o v args].
  assert (IHin : forall y, In y args -> PS y).
  { intros y Hy. apply IH. rewrite sx_size_X. pose proof (sizes_in y args Hy). lia. }
  unfold PS. intros ff Hg st x st' Hfd Hs.
  destruct o; try (simpl in Hs; discriminate Hs).
  - (* Concat *)
    rewrite guardsS_concat in Hg. rewrite den_concat in Hs.
    destruct (denL args st) as [[xs st1]|] eqn:Ea; [|discriminate]. inversion Hs; subst x st1.
    destruct (wc_soundS ff args IHin 0 st xs st' Hg (fd_args _ _ _ _ _ Hfd) (fun y Hy => match Hy with end) Ea) as (ys & Hys & Hc).
    rewrite walk_a_concat. cbn [fst]. rewrite denL_one, den_concat, Hys.
    exists [cat_list ys]. split; [reflexivity|]. exact Hc.
  - (* Dot *) leafS x Hs.
  - (* Alt *)
    pose proof Hs as Hs0. rewrite den_alt in Hs.
    destruct (denL args st) as [[xs st1]|] eqn:Ea; [|discriminate]. inversion Hs; subst x st1. clear Hs.
    destruct (allChars (X OpAlt v args) && negb (true && hasClassMeta (X OpAlt v args))) eqn:Eall.
    + cbn [guardsS] in Hg. rewrite Eall in Hg.
      apply andb_true_iff in Eall as [Hall Hmeta]. unfold allChars in Hall. cbn [sx_args] in Hall.
      destruct (allchars_itemsS args st Hall xs st' Ea) as (-> & rs & -> & Hlen & Hci).
      cbn [walk_a]. unfold allChars. cbn [sx_args]. rewrite Hall, Hmeta.
      cbn [andb fst]. rewrite denL_one. cbn [den]. rewrite Hci. cbn [option_map].
      eexists. split; [reflexivity|]. cbn [cat_list].
      apply rel_sym, rel_alt_chars_class. destruct args; [discriminate Hg|]. destruct rs; [discriminate Hlen|discriminate].
    + destruct (factorPrefixSuffix true (X OpAlt v args)) as [s|] eqn:Ef.
      * (* prefix / suffix factoring *)
        cbn [guardsS] in Hg. rewrite Eall, Ef in Hg. apply andb_true_iff in Hg as [Hff Hfo]. apply negb_true_iff in Hff.
        destruct (Hfd Hff) as [_ Hfl0].
        unfold factor_ok in Hfo. cbn [sx_args] in Hfo.
        destruct args as [|[o0 v0 cs0] [|[o1 v1 cs1] [|? ?]]]; try discriminate Hfo.
        apply andb_true_iff in Hfo as [Hops Hfo]. apply andb_true_iff in Hops as [Ho0 Ho1].
        apply op_eqb_eq in Ho0. apply op_eqb_eq in Ho1. subst o0 o1.
        cbn [walk_a]. rewrite Eall, Ef.
        remember (concatLiteral true (X OpConcat v0 cs0)) as x0 eqn:Ex0. remember (concatLiteral true (X OpConcat v1 cs1)) as y0 eqn:Ey0.
        destruct (Nat.ltb (String.length y0) (String.length x0)) eqn:Esw.
        -- (* the first alternative is the longer one *)
           destruct (utf8_chunks (String.length y0) y0) as [|w1 ws] eqn:Ech; [discriminate Hfo|].
           apply andb_true_iff in Hfo as [Hcx Hfo]. apply chars_eqb_eq in Hcx. rewrite chars_of_map, Ech in Hcx.
           destruct (Nat.leb (String.length (trim_prefix x0 y0)) 4 && Nat.eqb (rune_count (trim_prefix x0 y0)) 1) eqn:Etail.
           ++ apply chars_eqb_eq in Hfo. rewrite chars_of_map, Ech in Hfo. subst cs0 cs1. cbn [fst].
              rewrite chars_of_map, Ech. eapply factor_prefix_den; [exact Hfl0|exact Hs0].
           ++ apply andb_true_iff in Hfo as [Hcy _]. apply chars_eqb_eq in Hcy. rewrite chars_of_map, Ech in Hcy. subst cs0 cs1.
              cbn [fst]. rewrite chars_of_map, Ech. eapply factor_suffix_long_den; [exact Hfl0|exact Hs0].
        -- (* the first alternative is the shorter one: nothing is factored any more in a sound way; the guard is false *)
           destruct (utf8_chunks (String.length x0) x0) as [|w1 ws] eqn:Ech; [discriminate Hfo|].
           apply andb_true_iff in Hfo as [_ Hfo].
           destruct (Nat.leb (String.length (trim_prefix y0 x0)) 4 && Nat.eqb (rune_count (trim_prefix y0 x0)) 1);
             [discriminate Hfo|]. apply andb_true_iff in Hfo as [_ Hfo]. discriminate Hfo.
      * rewrite (guardsS_alt_general ff v args Eall Ef) in Hg.
        destruct (wa_soundS ff args IHin st xs st' Hg (fd_args _ _ _ _ _ Hfd) Ea) as (ys & Hys & Hc).
        rewrite (walk_a_alt_general v args Eall Ef). cbn [fst]. rewrite denL_one, den_alt, Hys.
        eexists. split; [reflexivity|]. cbn [cat_list]. apply rel_alt_list_congr. exact Hc.
  - (* Star *)
    destruct args as [|y [|? ?]]; try (simpl in Hs; discriminate Hs).
    rewrite (den_quant (X OpStar v [y]) st eq_refl) in Hs.
    pose proof (quant_stepS (X OpStar v [y]) eq_refl IHin ff Hg true st x st' Hfd Hs) as Q. cbn [dropped_repeat] in Q.
    destruct Q as (q' & Hq' & Hqn & z & Hz & Hreq). rewrite Hq', denL_one, (den_quant q' st Hqn), Hz.
    exists [z]. split; [reflexivity|exact Hreq].
  - (* Plus *)
    destruct args as [|y [|? ?]]; try (simpl in Hs; discriminate Hs).
    rewrite (den_quant (X OpPlus v [y]) st eq_refl) in Hs.
    pose proof (quant_stepS (X OpPlus v [y]) eq_refl IHin ff Hg true st x st' Hfd Hs) as Q. cbn [dropped_repeat] in Q.
    destruct Q as (q' & Hq' & Hqn & z & Hz & Hreq). rewrite Hq', denL_one, (den_quant q' st Hqn), Hz.
    exists [z]. split; [reflexivity|exact Hreq].
  - (* Question *)
    destruct args as [|y [|? ?]]; try (simpl in Hs; discriminate Hs).
    rewrite (den_quant (X OpQuestion v [y]) st eq_refl) in Hs.
    pose proof (quant_stepS (X OpQuestion v [y]) eq_refl IHin ff Hg true st x st' Hfd Hs) as Q. cbn [dropped_repeat] in Q.
    destruct Q as (q' & Hq' & Hqn & z & Hz & Hreq). rewrite Hq', denL_one, (den_quant q' st Hqn), Hz.
    exists [z]. split; [reflexivity|exact Hreq].
  - (* NonGreedy *)
    destruct args as [|q [|? ?]]; try (simpl in Hs; discriminate Hs);
      try (destruct q as [? ? [|? ?]]; simpl in Hs; discriminate Hs).
    cbn [guardsS] in Hg. apply andb_true_iff in Hg as [Hqn Hg].
    rewrite (den_nongreedy v q st Hqn) in Hs.
    assert (IHq : forall y, In y (sx_args q) -> PS y).
    { intros y Hy. apply IH. rewrite sx_size_X. cbn [sizes]. destruct q as [qo qv qa]. rewrite sx_size_X.
      cbn [sx_args] in Hy. pose proof (sizes_in y qa Hy). lia. }
    pose proof (quant_stepS q Hqn IHq ff Hg false st x st' (fd_child _ _ _ _ _ q st Hfd (or_introl eq_refl) eq_refl) Hs) as Q.
    cbn [walk_a]. destruct (walk_a true q) as [xs sc] eqn:Ew. cbn [fst] in Q.
    destruct (dropped_repeat q) eqn:Ed; cbn [andb fst].
    + exact Q.
    + destruct Q as (q' & Hq' & Hqn' & z & Hz & Hreq). subst xs. unfold wrap1. cbn [seq_node].
      rewrite denL_one, (den_nongreedy _ q' st Hqn'), Hz. exists [z]. split; [reflexivity|exact Hreq].
  - (* Caret *) leafS x Hs.
  - (* Dollar *) leafS x Hs.
  - (* Char *) leafS x Hs.
  - (* Quote *) leafS x Hs.
  - (* EscapeChar *)
    cbn [walk_a]. destruct (mem_s v removable_escapes) eqn:Em.
    + exists [x]. split; [|apply rel_refl]. cbn [fst]. rewrite denL_one.
      apply mem_In in Em. pose proof escape_removal as HF. rewrite Forall_forall in HF.
      unfold mk_char. rewrite <- (HF v Em st args), Hs. reflexivity.
    + leafS x Hs.
  - (* EscapeMeta *) leafS x Hs.
  - (* EscapeOctal *) leafS x Hs.
  - (* EscapeHex *) leafS x Hs.
  - (* CharClass *)
    cbn [guardsS] in Hg. destruct (simplifyCharClass true (X OpCharClass v args)) as [s|] eqn:Es.
    + destruct (lookup_s v class_table) as [t|] eqn:El.
      * apply existsb_exists in Hg as (p & Hin & Heq). apply sx_eqb_eq in Heq.
        unfold class_table_sound_entries in Hin. cbn [In] in Hin.
        repeat (destruct Hin as [<-|Hin]; [cbn [fst] in Heq; inversion Heq; subst; table_caseS st Hs|]). destruct Hin.
      * cbn [walk_a]. rewrite Es, El. cbn [fst].
        unfold simplifyCharClass in Es. cbn [sx_val sx_args] in Es. rewrite El in Es.
        destruct args as [|it [|? ?]]; [discriminate Es| |destruct it as [[] ? ?]; discriminate Es].
        destruct it as [io iv ia].
        destruct io; try discriminate Es.
        -- (* [c] => c *)
           exists [x]. split; [|apply rel_refl]. rewrite denL_one. cbn [den class_items] in Hs |- *.
           unfold class_item, escape_rune in Hs. destruct (rune_of iv); cbn [option_map] in Hs |- *; [|discriminate].
           inversion Hs. reflexivity.
        -- (* [\d] => \d *)
           exists [x]. split; [|apply rel_refl]. rewrite denL_one. cbn [den class_items] in Hs |- *.
           unfold class_item in Hs. destruct (perl_item iv) as [pi|] eqn:Ep.
           ++ cbn [option_map] in Hs. inversion Hs. reflexivity.
           ++ destruct (escape_rune OpEscapeChar iv) as [er|] eqn:Ee; cbn [option_map] in Hs; [|discriminate].
              destruct (assertion_of iv) as [aa|] eqn:Ea; [rewrite (assertion_escape iv aa Ea) in Ee; discriminate|].
              cbn [option_map]. inversion Hs. reflexivity.
    + unfold items_ok in Hg. cbn [sx_args] in Hg.
      destruct (class_generalS false OpCharClass v args st x st' (or_introl (conj eq_refl eq_refl)) Hg Hs) as (y & Hy & Hreq).
      rewrite (walk_a_class v args Es), denL_one, Hy. exists [y]. split; [reflexivity|exact Hreq].
  - (* NegCharClass *)
    cbn [guardsS] in Hg. destruct (simplifyNegCharClass (X OpNegCharClass v args)) as [s|] eqn:Es.
    + apply existsb_exists in Hg as (p & Hin & Heq). apply sx_eqb_eq in Heq.
      unfold neg_class_table_sound_entries in Hin. cbn [In] in Hin.
      repeat (destruct Hin as [<-|Hin]; [cbn [fst] in Heq; inversion Heq; subst; table_caseS st Hs|]). destruct Hin.
    + unfold items_ok in Hg. cbn [sx_args] in Hg.
      destruct (class_generalS true OpNegCharClass v args st x st' (or_intror (conj eq_refl eq_refl)) Hg Hs) as (y & Hy & Hreq).
      rewrite (walk_a_negclass v args Es), denL_one, Hy. exists [y]. split; [reflexivity|exact Hreq].
  - (* Repeat *)
    destruct args as [|y [|r [|? ?]]]; try (simpl in Hs; discriminate Hs).
    rewrite (den_quant (X OpRepeat v [y; r]) st eq_refl) in Hs.
    pose proof (quant_stepS (X OpRepeat v [y; r]) eq_refl IHin ff Hg true st x st' Hfd Hs) as Q.
    destruct (dropped_repeat (X OpRepeat v [y; r])); [exact Q|].
    destruct Q as (q' & Hq' & Hqn & z & Hz & Hreq). rewrite Hq', denL_one, (den_quant q' st Hqn), Hz.
    exists [z]. split; [reflexivity|exact Hreq].
  - (* Capture *)
    destruct args as [|y [|? ?]]; try (simpl in Hs; discriminate Hs).
    cbn [guardsS] in Hg. cbn [den] in Hs.
    set (st0 := {| d_fl := d_fl st; d_next := S (d_next st); d_names := EmptyString :: d_names st |}) in *.
    destruct (den y st0) as [[y' st1]|] eqn:Ey; [|discriminate]. inversion Hs; subst x st'. clear Hs.
    destruct (IHin y (or_introl eq_refl) ff Hg st0 y' st1 (fd_child _ _ _ _ _ y st0 Hfd (or_introl eq_refl) eq_refl) Ey) as (ys & Hys & Hc).
    cbn [walk_a]. destruct (walk_a true y) as [xs sc]. cbn [fst] in *.
    rewrite denL_one. cbn [den]. fold st0. rewrite (den_seq_node xs st0 ys st1 Hys).
    eexists. split; [reflexivity|]. cbn [cat_list]. apply rel_group. exact Hc.
  - (* NamedCapture *)
    destruct args as [|y [|nm [|? ?]]]; try (simpl in Hs; discriminate Hs).
    cbn [guardsS] in Hg. cbn [den] in Hs.
    set (st0 := {| d_fl := d_fl st; d_next := S (d_next st); d_names := sx_val nm :: d_names st |}) in *.
    destruct (den y st0) as [[y' st1]|] eqn:Ey; [|discriminate]. inversion Hs; subst x st'. clear Hs.
    destruct (IHin y (or_introl eq_refl) ff Hg st0 y' st1 (fd_child _ _ _ _ _ y st0 Hfd (or_introl eq_refl) eq_refl) Ey) as (ys & Hys & Hc).
    cbn [walk_a]. destruct (walk_a true y) as [xs sc]. cbn [fst] in *.
    rewrite denL_one. cbn [den]. fold st0. rewrite (den_seq_node xs st0 ys st1 Hys).
    eexists. split; [reflexivity|]. cbn [cat_list]. apply rel_group. exact Hc.
  - (* Group *)
    destruct args as [|y [|? ?]]; try (simpl in Hs; discriminate Hs).
    cbn [guardsS] in Hg. cbn [den] in Hs.
    destruct (den y st) as [[y' st1]|] eqn:Ey; [|discriminate]. inversion Hs; subst x st'. clear Hs.
    destruct (IHin y (or_introl eq_refl) ff Hg st y' st1 (fd_child _ _ _ _ _ y st Hfd (or_introl eq_refl) eq_refl) Ey) as (ys & Hys & Hc).
    rewrite walk_a_group. destruct (atom_op (sx_op y)) eqn:Eat.
    + destruct y as [yo yv ya]. cbn [sx_op] in Eat. rewrite (den_atom_state yo yv ya st y' st1 Eat Ey) in *.
      rewrite with_flags_id. exists ys. split; assumption.
    + rewrite denL_one. cbn [den]. rewrite (den_seq_node _ st ys st1 Hys).
      exists [cat_list ys]. split; [reflexivity|exact Hc].
  - (* GroupWithFlags *)
    destruct args as [|y [|fl [|? ?]]]; try (simpl in Hs; discriminate Hs).
    cbn [guardsS] in Hg. cbn [den] in Hs.
    destruct (apply_flags (sx_val fl) true (d_fl st)) as [f'|] eqn:Efl; [|discriminate].
    destruct (den y (with_flags st f')) as [[y' st1]|] eqn:Ey; [|discriminate]. inversion Hs; subst x st'. clear Hs.
    assert (Hfdy : flags_dflt true y (with_flags st f')) by (intros Hff; discriminate Hff).
    destruct (IHin y (or_introl eq_refl) true Hg _ y' st1 Hfdy Ey) as (ys & Hys & Hc).
    cbn [walk_a]. destruct (walk_a true y) as [xs sc]. cbn [fst] in *.
    rewrite denL_one. cbn [den sx_val]. rewrite Efl, (den_seq_node xs _ ys st1 Hys).
    eexists. split; [reflexivity|]. exact Hc.
  - (* FlagOnlyGroup *) leafS x Hs.
Qed.

(* ---------- the theorem in the vocabulary of the property ---------- *)
(* the tree elaborates (capture groups, named groups, flag groups included; \Q..\E, \p{..} and an operator
   directly after a flag group are outside the elaboration) and lies inside the domain where the matcher
   model is Go's semantics (every loop body consumes a rune) *)
Definition in_fragmentS (e : sx) : bool := model_exact e.
(* factoring is only claimed outside groups with flags (?flags:..) and in trees without a flag-only group (?flags) *)
Definition avoids_defectsS (e : sx) : bool := guardsS (has_flag e) e.

Theorem simplify_sound_S e :
  in_fragmentS e = true -> avoids_defectsS e = true ->
  exists x y n names, den_top e = Some (x, n, names) /\ den_top (simp_ast e) = Some (y, n, names) /\ y ≈ x /\
                      model_exact (simp_ast e) = true /\
                      forall subject, find_go (simp_ast e) subject = find_go e subject.
Proof.
  unfold in_fragmentS, avoids_defectsS, model_exact, den_top. intros Hf Hg.
  destruct (den e dst0) as [[x st']|] eqn:Hs; [|discriminate].
  assert (Hfd : flags_dflt (has_flag e) e dst0) by (intros H; split; [exact H|reflexivity]).
  destruct (walkS_sound e (has_flag e) Hg dst0 x st' Hfd Hs) as (ys & Hys & Hc & Hcons & Hloops).
  pose proof (den_seq_node _ dst0 ys st' Hys) as Hsn. fold (simp_ast e) in Hsn.
  exists x, (cat_list ys), (d_next st' - 1), (rev (d_names st')).
  unfold find_go, den_top. rewrite Hs, Hsn.
  split; [reflexivity|]. split; [reflexivity|]. split; [exact Hc|]. split; [rewrite Hloops; exact Hf|].
  intros subject. rewrite (req_find _ _ Hc). reflexivity.
Qed.

(* ---------- any number of passes ----------
   The checker runs the pass again on the tree the parser builds from the text of the previous pass.  Whether
   that tree means what the previous pass emitted is the text-level question (re-lexing); here it is the
   decidable link [same_meaning (simp_ast t) t'] (equal normal forms, equal group declarations), evaluated by
   the kernel per case.  With it, soundness of one pass on a fragment gives soundness of the whole chain. *)
From GC Require Import Proofs_RegexSimplify.

Definition pass_ok (t : sx) : bool := in_fragmentS t && avoids_defectsS t.

Fixpoint chain_ok (t : sx) (rest : list sx) : bool :=
  pass_ok t && match rest with [] => true | t' :: r => same_meaning (simp_ast t) t' && chain_ok t' r end.

Definition chain_final (t : sx) (rest : list sx) : sx := simp_ast (last rest t).

Lemma last_nonempty_default {A} (l : list A) : forall a d d', last (a :: l) d = last (a :: l) d'.
Proof. induction l as [|b l IH]; intros a d d'; [reflexivity|]. change (last (b :: l) d = last (b :: l) d'). apply IH. Qed.

Theorem chain_sound rest : forall t, chain_ok t rest = true ->
  exists a b n names, den_top t = Some (a, n, names) /\ den_top (chain_final t rest) = Some (b, n, names) /\ b ≈ a /\
                      model_exact (chain_final t rest) = true /\
                      forall subject, find_go (chain_final t rest) subject = find_go t subject.
Proof.
  induction rest as [|t' r IH]; intros t H; cbn [chain_ok] in H; apply andb_true_iff in H as [Hp H];
    unfold pass_ok in Hp; apply andb_true_iff in Hp as [Hf Hg].
  - destruct (simplify_sound_S t Hf Hg) as (x & y & n & names & H1 & H2 & H3 & H4 & H5).
    exists x, y, n, names. repeat split; assumption.
  - apply andb_true_iff in H as [Hl Hr].
    destruct (simplify_sound_S t Hf Hg) as (x & y & n & names & H1 & H2 & H3 & H4 & H5).
    destruct (same_meaning_find _ _ Hl) as (a2 & b2 & n2 & names2 & G1 & G2 & G3 & G4).
    destruct (IH t' Hr) as (a3 & b3 & n3 & names3 & K1 & K2 & K3 & K4 & K5).
    rewrite H2 in G1. inversion G1; subst a2 n2 names2. rewrite G2 in K1. inversion K1; subst a3 n3 names3.
    assert (E : chain_final t (t' :: r) = chain_final t' r).
    { unfold chain_final. f_equal. destruct r as [|s r]; [reflexivity|]. change (last (t' :: s :: r) t) with (last (s :: r) t).
      apply last_nonempty_default. }
    rewrite E. exists x, b3, n, names. split; [exact H1|]. split; [exact K2|].
    split; [eapply req_trans; [exact K3|]; eapply req_trans; [apply req_sym; exact G3|exact H3]|].
    split; [exact K4|]. intros subject. rewrite K5, <- G4. apply H5.
Qed.

(* the driver of VisitExpr: at most two passes; [t2] = the parser's tree of the first pass's text, if any.
   Whatever rewrite the checker reports is the text of the tree below (the tie checks that the tree version of
   the walker prints the text version, and the text against the real checker, for every case). *)
Definition final_tree (t1 : sx) (t2 : option sx) : sx :=
  match t2 with
  | Some t => if String.eqb (simplify1 t) "" then simp_ast t1 else simp_ast t
  | None => simp_ast t1
  end.

Definition final_ok (t1 : sx) (t2 : option sx) : bool :=
  match t2 with
  | Some t => if String.eqb (simplify1 t) "" then pass_ok t1 else chain_ok t1 [t]
  | None => pass_ok t1
  end.

Theorem final_sound t1 t2 : final_ok t1 t2 = true ->
  exists a b n names, den_top t1 = Some (a, n, names) /\ den_top (final_tree t1 t2) = Some (b, n, names) /\ b ≈ a /\
                      model_exact (final_tree t1 t2) = true /\
                      forall subject, find_go (final_tree t1 t2) subject = find_go t1 subject.
Proof.
  unfold final_ok, final_tree. destruct t2 as [t|]; [destruct (String.eqb (simplify1 t) "")|]; intros H.
  - apply (chain_sound [] t1). cbn [chain_ok]. rewrite H. reflexivity.
  - exact (chain_sound [t] t1 H).
  - apply (chain_sound [] t1). cbn [chain_ok]. rewrite H. reflexivity.
Qed.

From GC Require Import Proofs_RegexPrint.
Local Open Scope string_scope.

(* the rewrite the checker reports (two-pass driver) is the text of [final_tree] *)
Theorem final_text pat t1 t2f final :
  simplify2 pat t1 t2f = Some final -> final = print (final_tree t1 (t2f (simplify1 t1))).
Proof.
  unfold simplify2, simplify2_g. destruct (Nat.ltb 60 (String.length pat)); [discriminate|].
  fold simplify1. set (c1 := simplify1 t1).
  destruct (String.eqb_spec c1 "") as [|N1]; [discriminate|].
  destruct (simplify1_print t1) as [E|E]; [contradiction|]. fold c1 in E.
  unfold final_tree. destruct (t2f c1) as [t2|].
  - destruct (String.eqb_spec (simplify1 t2) "") as [E2|N2].
    + destruct (_ || _); [discriminate|]. intros H. inversion H. congruence.
    + destruct (simplify1_print t2) as [F|F]; [contradiction|].
      destruct (_ || _); [discriminate|]. intros H. inversion H. congruence.
  - destruct (_ || _); [discriminate|]. intros H. inversion H. congruence.
Qed.

Local Open Scope nat_scope.

(* satisfiable: a capture group with a factored alternation, a named group, a flag group, a dropped {1} *)
Definition ex_capture_factor : sx :=
  X OpConcat "(foo|fo)(?P<n>[a])x{1}"
    [X OpCapture "(foo|fo)"
       [X OpAlt "foo|fo" [X OpConcat "foo" [X OpChar "f" []; X OpChar "o" []; X OpChar "o" []];
                          X OpConcat "fo" [X OpChar "f" []; X OpChar "o" []]]];
     X OpNamedCapture "(?P<n>[a])" [X OpCharClass "[a]" [X OpChar "a" []]; X OpString "n" []];
     X OpRepeat "x{1}" [X OpChar "x" []; X OpString "{1}" []]].
Definition ex_flag_group : sx :=
  X OpConcat "(?i:[k]b{1,})(c)   "
    [X OpGroupWithFlags "(?i:[k]b{1,})"
       [X OpConcat "[k]b{1,}" [X OpCharClass "[k]" [X OpChar "k" []]; X OpRepeat "b{1,}" [X OpChar "b" []; X OpString "{1,}" []]];
        X OpString "i" []];
     X OpCapture "(c)" [X OpChar "c" []]; X OpChar " " []; X OpChar " " []; X OpChar " " []].
Example examples_S :
  pass_ok ex_capture_factor = true /\ simp_text ex_capture_factor = "(foo?)(?P<n>a)x" /\
  pass_ok ex_flag_group = true /\ simp_text ex_flag_group = "(?i:kb+)(c) {3}".
Proof. repeat split; vm_compute; reflexivity. Qed.

(* x|hx => h?x under (?i): the two literals overlap although their texts differ; no longer rewritten since the fix
   (the second conjunct is about the routine before the fixes) *)
Definition t_suffix_fold :=
  X OpGroupWithFlags "(?i:aA|aaA)"
    [X OpAlt "aA|aaA" [X OpConcat "aA" [X OpChar "a" []; X OpChar "A" []];
                       X OpConcat "aaA" [X OpChar "a" []; X OpChar "a" []; X OpChar "A" []]];
     X OpString "i" []].
Lemma suffix_factoring_under_fold_fixed :
  simp_score t_suffix_fold = 0 /\ differ t_suffix_fold (simp_ast_prefix t_suffix_fold) "aaa".
Proof. split; [vm_compute; reflexivity|vm_compute; discriminate]. Qed.
