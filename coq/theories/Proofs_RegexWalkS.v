(* Proofs_RegexWalkS.v — C11: soundness of one pass of the simplifier (walk_a true) by induction over the
   walker, carried out against the FULL elaboration Model_Regex.den with its state (flags i m s U in effect,
   next capture index, capture names): capture groups, named groups, flag groups (?i:..) and flag-only
   groups (?i) are inside the induction, and so is prefix/suffix factoring of two literals.

   walkS_sound : guardsS ff e = true -> (ff = false -> flag_free e /\ flags are the defaults) ->
                 den e st = Some (x, st') ->
                 exists ys, the nodes emitted for e elaborate FROM THE SAME STATE to ys, leave THE SAME
                 STATE st' (same number, numbering and names of groups, same flags) and cat_list ys ≃ x.

   [ff] = "flags may be in effect": factoring is only claimed where no flag group occurs in the tree
   (under (?U) the emitted `?` is non-greedy, under (?i) two literals can overlap: both refuted).
   Factoring instances, precisely (leftmost-first semantics, positions and captures):
     y|x  with y = x t  (longer first)   => x t?    sound            (factor_prefix_longer_first)
     x|y  with y = x t  (shorter first)  => x t?    UNSOUND, always  (prefix_shorter_first_refuted_all)
     h x|x              (longer first)   => h? x    sound            (factor_suffix_longer_first)
     x|h x             (shorter first)  => h? x    sound when x does not start with h (proved here);
                                                     when x starts with h and no folding is in effect it is
                                                     sound as well but left to the certificate; under (?i)
                                                     it is unsound: (?i:aA|aaA) => (?i:a?aA) on "aaa". *)
From GC Require Import Base Model_Regex Model_RegexSimplify Proofs_Regex Proofs_RegexRules Proofs_RegexWalk.
Local Open Scope nat_scope.

Lemma rel_group n a a' : a ≃ a' -> RGroup n a ≃ RGroup n a'.
Proof. intros (H1 & H2 & H3). split; [apply req_group; assumption|split; simpl; congruence]. Qed.

(* ---------- how den changes the elaboration state ---------- *)
Fixpoint anyb {A} (f : A -> bool) (l : list A) : bool := match l with [] => false | x :: r => f x || anyb f r end.

Lemma anyb_false {A} (f : A -> bool) l : anyb f l = false -> forall x, In x l -> f x = false.
Proof.
  induction l as [|y r IH]; simpl; [tauto|]. intros H x [->|Hx]; apply orb_false_iff in H as [H1 H2]; auto.
Qed.

Definition cap_op (o : op) : bool := match o with OpCapture | OpNamedCapture => true | _ => false end.

Lemma hasCapture_X o v args : hasCapture (X o v args) = cap_op o || anyb hasCapture args.
Proof.
  simpl. unfold cap_op. f_equal. induction args as [|x r IH]; simpl; [reflexivity|]. rewrite IH. reflexivity.
Qed.

Definition flag_op (o : op) : bool := match o with OpGroupWithFlags | OpFlagOnlyGroup => true | _ => false end.

Fixpoint has_flag (e : sx) : bool :=
  match e with
  | X o _ args => flag_op o || (fix any (l : list sx) : bool := match l with [] => false | x :: r => has_flag x || any r end) args
  end.
Definition flag_free (e : sx) : bool := negb (has_flag e).

Lemma has_flag_X o v args : has_flag (X o v args) = flag_op o || anyb has_flag args.
Proof. simpl. f_equal. induction args as [|x r IH]; simpl; [reflexivity|]. rewrite IH. reflexivity. Qed.

(* a flag-only group whose effect reaches past the node *)
Definition leak_through (o : op) : bool :=
  match o with OpConcat | OpAlt | OpStar | OpPlus | OpQuestion | OpRepeat | OpNonGreedy => true | _ => false end.

Fixpoint leaks (e : sx) : bool :=
  match e with
  | X o _ args =>
      match o with OpFlagOnlyGroup => true | _ => false end
      || (leak_through o && (fix any (l : list sx) : bool := match l with [] => false | x :: r => leaks x || any r end) args)
  end.

Lemma leaks_X o v args :
  leaks (X o v args) = match o with OpFlagOnlyGroup => true | _ => false end || (leak_through o && anyb leaks args).
Proof. simpl. f_equal. f_equal. induction args as [|x r IH]; simpl; [reflexivity|]. rewrite IH. reflexivity. Qed.

Lemma flag_free_leaks e : has_flag e = false -> leaks e = false.
Proof.
  induction e as [e IH] using sx_ind_size. destruct e as [o v args]. rewrite has_flag_X, leaks_X. intros H.
  apply orb_false_iff in H as [Ho Ha].
  assert (E : anyb leaks args = false).
  { assert (G : forall y, In y args -> leaks y = false).
    { intros y Hy. apply IH; [rewrite sx_size_X; pose proof (sizes_in y args Hy); lia|]. exact (anyb_false _ _ Ha y Hy). }
    clear -G. induction args as [|y r IHr]; simpl; [reflexivity|]. rewrite (G y (or_introl eq_refl)). simpl.
    apply IHr. intros z Hz. apply G. right. exact Hz. }
  rewrite E, andb_false_r, orb_false_r. destruct o; try reflexivity; discriminate Ho.
Qed.

Definition st_fl_same (a b : dst) : Prop := d_fl b = d_fl a.
Definition st_cnt_same (a b : dst) : Prop := d_next b = d_next a /\ d_names b = d_names a.

Definition state_law (e : sx) : Prop :=
  forall st x st', den e st = Some (x, st') ->
    (leaks e = false -> st_fl_same st st') /\ (hasCapture e = false -> st_cnt_same st st').

Lemma denL_state l :
  (forall y, In y l -> state_law y) ->
  forall st xs st', denL l st = Some (xs, st') ->
    (anyb leaks l = false -> st_fl_same st st') /\ (anyb hasCapture l = false -> st_cnt_same st st').
Proof.
  induction l as [|y r IH]; intros HP st xs st' H; simpl in H.
  - inversion H; subst. split; intros _; [reflexivity|split; reflexivity].
  - destruct (den y st) as [[y' st1]|] eqn:Ey; [|discriminate].
    destruct (denL r st1) as [[r' st2]|] eqn:Er; [|discriminate]. inversion H; subst. clear H.
    destruct (HP y (or_introl eq_refl) st y' st1 Ey) as [A1 A2].
    destruct (IH (fun z Hz => HP z (or_intror Hz)) st1 r' st' Er) as [B1 B2].
    split; simpl; intros E; apply orb_false_iff in E as [E1 E2].
    + unfold st_fl_same in *. rewrite (B1 E2). apply A1. exact E1.
    + unfold st_cnt_same in *. destruct (A2 E1) as [a1 a2]. destruct (B2 E2) as [b1 b2]. split; congruence.
Qed.

Lemma om_st {A} (f : A -> rx) (st : dst) (o : option A) x st' :
  option_map (fun r => (f r, st)) o = Some (x, st') -> st' = st.
Proof. destruct o; simpl; intros H; [inversion H; reflexivity|discriminate]. Qed.

Lemma om_st2 (st1 : dst) (o : option rx) x st' :
  option_map (fun q => (q, st1)) o = Some (x, st') -> st' = st1 /\ o = Some x.
Proof. destruct o; simpl; intros H; [inversion H; split; reflexivity|discriminate]. Qed.

Ltac st1_of H := first [apply om_st2 in H as [-> _] | (inversion H; subst; clear H)].
Ltac orb_split := repeat match goal with H : (_ || _) = false |- _ => apply orb_false_iff in H; destruct H end.
Ltac same_state := split; intros _; [reflexivity|split; reflexivity].

Theorem den_state e : state_law e.
Proof.
  induction e as [e IH] using sx_ind_size. destruct e as [o v args].
  assert (IHin : forall y, In y args -> state_law y).
  { intros y Hy. apply IH. rewrite sx_size_X. pose proof (sizes_in y args Hy). lia. }
  intros st x st' H. rewrite leaks_X, hasCapture_X.
  destruct o; try (simpl in H; discriminate H).
  - (* Concat *) rewrite den_concat in H. destruct (denL args st) as [[l st1]|] eqn:E; [|discriminate].
    inversion H; subst. exact (denL_state args IHin st l st' E).
  - (* Dot *) simpl in H. inversion H; subst. same_state.
  - (* Alt *) rewrite den_alt in H. destruct (denL args st) as [[l st1]|] eqn:E; [|discriminate].
    inversion H; subst. exact (denL_state args IHin st l st' E).
  - (* Star *) destruct args as [|y [|? ?]]; try (simpl in H; discriminate H). simpl in H.
    destruct (op_eqb (sx_op y) OpFlagOnlyGroup); [discriminate|].
    destruct (den y st) as [[y' st1]|] eqn:Ey; [|discriminate].
    destruct (IHin y (or_introl eq_refl) st y' st1 Ey) as [A1 A2]. st1_of H. simpl. rewrite !orb_false_r. split; assumption.
  - (* Plus *) destruct args as [|y [|? ?]]; try (simpl in H; discriminate H). simpl in H.
    destruct (op_eqb (sx_op y) OpFlagOnlyGroup); [discriminate|].
    destruct (den y st) as [[y' st1]|] eqn:Ey; [|discriminate].
    destruct (IHin y (or_introl eq_refl) st y' st1 Ey) as [A1 A2]. st1_of H. simpl. rewrite !orb_false_r. split; assumption.
  - (* Question *) destruct args as [|y [|? ?]]; try (simpl in H; discriminate H). simpl in H.
    destruct (op_eqb (sx_op y) OpFlagOnlyGroup); [discriminate|].
    destruct (den y st) as [[y' st1]|] eqn:Ey; [|discriminate].
    destruct (IHin y (or_introl eq_refl) st y' st1 Ey) as [A1 A2]. st1_of H. simpl. rewrite !orb_false_r. split; assumption.
  - (* NonGreedy *)
    destruct args as [|[qo qv [|y qr]] [|? ?]]; try (simpl in H; discriminate H). simpl in H.
    destruct (is_quant qo && negb (op_eqb (sx_op y) OpFlagOnlyGroup)) eqn:Eq; [|discriminate].
    destruct (den y st) as [[y' st1]|] eqn:Ey; [|discriminate].
    assert (Hy : state_law y).
    { apply IH. rewrite !sx_size_X. cbn [sizes]. rewrite sx_size_X. cbn [sizes]. lia. }
    destruct (Hy st y' st1 Ey) as [A1 A2]. st1_of H. cbn [anyb]. rewrite !orb_false_r, leaks_X, hasCapture_X. cbn [anyb].
    split; intros E.
    + apply A1. apply andb_true_iff in Eq as [Eq _]. destruct qo; try discriminate Eq; simpl in E; orb_split; assumption.
    + apply A2. simpl in E. orb_split; assumption.
  - (* Caret *) simpl in H. inversion H; subst. same_state.
  - (* Dollar *) simpl in H. inversion H; subst. same_state.
  - (* Char *) simpl in H. apply om_st in H. subst. same_state.
  - (* Quote *)
    destruct args as [|[[] lit ?] [|? ?]]; try (simpl in H; discriminate H). simpl in H. inversion H; subst. same_state.
  - (* EscapeChar *) simpl in H. destruct (perl_item v); [inversion H; subst; same_state|].
    destruct (assertion_of v); [inversion H; subst; same_state|]. apply om_st in H. subst. same_state.
  - (* EscapeMeta *) simpl in H. apply om_st in H. subst. same_state.
  - (* EscapeOctal *) simpl in H. apply om_st in H. subst. same_state.
  - (* EscapeHex *) simpl in H. apply om_st in H. subst. same_state.
  - (* CharClass *) simpl in H. destruct (class_items args); simpl in H; [|discriminate]. inversion H; subst. same_state.
  - (* NegCharClass *) simpl in H. destruct (class_items args); simpl in H; [|discriminate]. inversion H; subst. same_state.
  - (* Repeat *) destruct args as [|y [|r [|? ?]]]; try (simpl in H; discriminate H). simpl in H.
    destruct (op_eqb (sx_op y) OpFlagOnlyGroup); [discriminate|].
    destruct (den y st) as [[y' st1]|] eqn:Ey; [|discriminate].
    destruct (IHin y (or_introl eq_refl) st y' st1 Ey) as [A1 A2]. st1_of H.
    split; intros E; simpl in E; orb_split; auto.
  - (* Capture *) destruct args as [|y [|? ?]]; try (simpl in H; discriminate H). simpl in H.
    destruct (den y _) as [[y' st1]|] eqn:Ey; [|discriminate]. inversion H; subst.
    split; [intros _; reflexivity|intros E; discriminate E].
  - (* NamedCapture *) destruct args as [|y [|nm [|? ?]]]; try (simpl in H; discriminate H). simpl in H.
    destruct (den y _) as [[y' st1]|] eqn:Ey; [|discriminate]. inversion H; subst.
    split; [intros _; reflexivity|intros E; discriminate E].
  - (* Group *) destruct args as [|y [|? ?]]; try (simpl in H; discriminate H). simpl in H.
    destruct (den y st) as [[y' st1]|] eqn:Ey; [|discriminate].
    destruct (IHin y (or_introl eq_refl) st y' st1 Ey) as [A1 A2]. inversion H; subst.
    split; [intros _; reflexivity|]. intros E. simpl in E. orb_split. exact (A2 ltac:(assumption)).
  - (* GroupWithFlags *) destruct args as [|y [|fl [|? ?]]]; try (simpl in H; discriminate H). simpl in H.
    destruct (apply_flags (sx_val fl) true (d_fl st)) as [f'|]; [|discriminate].
    destruct (den y (with_flags st f')) as [[y' st1]|] eqn:Ey; [|discriminate].
    destruct (IHin y (or_introl eq_refl) _ y' st1 Ey) as [A1 A2]. inversion H; subst.
    split; [intros _; reflexivity|]. intros E. simpl in E. orb_split. exact (A2 ltac:(assumption)).
  - (* FlagOnlyGroup *) destruct args as [|fl [|? ?]]; try (simpl in H; discriminate H). simpl in H.
    destruct (apply_flags (sx_val fl) true (d_fl st)) as [f'|]; [|discriminate]. inversion H; subst.
    split; [intros E; discriminate E|intros _; split; reflexivity].
Qed.

Lemma dst_eta (a b : dst) : d_fl b = d_fl a -> d_next b = d_next a -> d_names b = d_names a -> b = a.
Proof. destruct a, b; simpl; intros -> -> ->; reflexivity. Qed.

(* an expression that declares no group and lets no flag escape leaves the state as it found it *)
Corollary den_neutral e st x st' :
  hasCapture e = false -> leaks e = false -> den e st = Some (x, st') -> st' = st.
Proof.
  intros Hc Hl H. destruct (den_state e st x st' H) as [A B]. destruct (B Hc) as [B1 B2].
  apply dst_eta; [exact (A Hl)|exact B1|exact B2].
Qed.

Corollary den_flag_free_fl e st x st' : has_flag e = false -> den e st = Some (x, st') -> d_fl st' = d_fl st.
Proof. intros Hf H. destruct (den_state e st x st' H) as [A _]. apply A. apply flag_free_leaks. exact Hf. Qed.

(* ---------- lists of nodes ---------- *)
Lemma denL_app a b st :
  denL (a ++ b) st =
  match denL a st with
  | Some (xs, st1) => match denL b st1 with Some (ys, st2) => Some ((xs ++ ys)%list, st2) | None => None end
  | None => None
  end.
Proof.
  revert st. induction a as [|x a IH]; intros st; simpl.
  - destruct (denL b st) as [[ys st2]|]; reflexivity.
  - destruct (den x st) as [[x' st1]|]; [|reflexivity]. rewrite IH.
    destruct (denL a st1) as [[xs st2]|]; [|reflexivity]. destruct (denL b st2) as [[ys st3]|]; reflexivity.
Qed.

Lemma denL_one x st : denL [x] st = match den x st with Some (x', st1) => Some ([x'], st1) | None => None end.
Proof. simpl. destruct (den x st) as [[x' st1]|]; reflexivity. Qed.

Lemma den_seq_node xs st ys st1 : denL xs st = Some (ys, st1) -> den (seq_node xs) st = Some (cat_list ys, st1).
Proof.
  intros H. destruct xs as [|x1 [|x2 r]].
  - simpl in H. inversion H. reflexivity.
  - rewrite denL_one in H. simpl. destruct (den x1 st) as [[x' s']|]; [|discriminate]. inversion H. reflexivity.
  - unfold seq_node. rewrite den_concat, H. reflexivity.
Qed.

(* ---------- quantifier nodes with the greediness imposed from outside ---------- *)
Definition denq (g : bool) (q : sx) (st : dst) : option (rx * dst) :=
  match q with
  | X qo _ (x :: qr) =>
      if op_eqb (sx_op x) OpFlagOnlyGroup then None else
      match den x st with
      | Some (x', st1) => option_map (fun y => (y, st1)) (quant_build st g qo (rep_text (x :: qr)) x')
      | None => None
      end
  | _ => None
  end.

Lemma den_quant q st : quant_node q = true -> den q st = denq true q st.
Proof.
  destruct q as [qo qv qa]. intros Hq. destruct qo; try discriminate Hq.
  - destruct qa as [|x [|? ?]]; try discriminate Hq. reflexivity.
  - destruct qa as [|x [|? ?]]; try discriminate Hq. reflexivity.
  - destruct qa as [|x [|? ?]]; try discriminate Hq. reflexivity.
  - destruct qa as [|x [|r [|? ?]]]; try discriminate Hq. reflexivity.
Qed.

Lemma den_nongreedy v q st : quant_node q = true -> den (X OpNonGreedy v [q]) st = denq false q st.
Proof.
  destruct q as [qo qv qa]. intros Hq. destruct qo; try discriminate Hq.
  - destruct qa as [|x [|? ?]]; try discriminate Hq. simpl. destruct (op_eqb (sx_op x) OpFlagOnlyGroup); reflexivity.
  - destruct qa as [|x [|? ?]]; try discriminate Hq. simpl. destruct (op_eqb (sx_op x) OpFlagOnlyGroup); reflexivity.
  - destruct qa as [|x [|? ?]]; try discriminate Hq. simpl. destruct (op_eqb (sx_op x) OpFlagOnlyGroup); reflexivity.
  - destruct qa as [|x [|r [|? ?]]]; try discriminate Hq. simpl. destruct (op_eqb (sx_op x) OpFlagOnlyGroup); reflexivity.
Qed.

Lemma quant_build_congrS st g qo rep a b qa : a ≃ b ->
  quant_build st g qo rep a = Some qa -> exists qb, quant_build st g qo rep b = Some qb /\ qb ≃ qa.
Proof.
  intros H. unfold quant_build. destruct qo; try discriminate.
  - intros E. inversion E. eexists. split; [reflexivity|]. apply rel_star, rel_sym, H.
  - intros E. inversion E. eexists. split; [reflexivity|]. apply rel_plus, rel_sym, H.
  - intros E. inversion E. eexists. split; [reflexivity|]. apply rel_quest, rel_sym, H.
  - destruct (parse_repeat rep) as [[mn mx]|]; [|discriminate].
    destruct (_ || _); [discriminate|]. intros E. inversion E. eexists. split; [reflexivity|].
    apply build_repeat_congr, rel_sym, H.
Qed.

Lemma fold_repeat_textS st k c : 2 <= k -> k <= 64 ->
  quant_build st true OpRepeat ("{" ++ itoa k ++ "}") c = Some (cat_list (ncopies k c)).
Proof.
  intros H2 H64.
  do 65 (destruct k as [|k]; [try lia; reflexivity|]). lia.
Qed.

(* ---------- syntactic "always consumes a rune" ---------- *)
Fixpoint consumes_s (e : sx) : bool :=
  match e with
  | X o v args =>
      match o with
      | OpChar | OpDot | OpEscapeMeta | OpEscapeOctal | OpEscapeHex | OpCharClass | OpNegCharClass => true
      | OpEscapeChar =>
          match perl_item v with
          | Some _ => true
          | None => match assertion_of v with Some _ => false | None => true end
          end
      | OpGroup | OpCapture => match args with [x] => consumes_s x | _ => false end
      | OpNamedCapture | OpGroupWithFlags => match args with [x; _] => consumes_s x | _ => false end
      | OpConcat => (fix any (l : list sx) : bool := match l with [] => false | x :: r => consumes_s x || any r end) args
      | _ => false
      end
  end.

Lemma consumes_s_concat v args : consumes_s (X OpConcat v args) = anyb consumes_s args.
Proof. simpl. induction args as [|x r IH]; simpl; [reflexivity|]. rewrite IH. reflexivity. Qed.

Lemma consumes_cat_list_cons x l : consumes (cat_list (x :: l)) = consumes x || consumes (cat_list l).
Proof. destruct l; simpl; [rewrite orb_false_r|]; reflexivity. Qed.

Lemma om_set {A} (f : A -> rx) (st : dst) (o : option A) x st' :
  (forall r, consumes (f r) = true) -> option_map (fun r => (f r, st)) o = Some (x, st') -> consumes x = true.
Proof. intros Hf. destruct o; simpl; intros H; [inversion H; apply Hf|discriminate]. Qed.

Lemma denL_consumes_any l :
  (forall y, In y l -> forall st x st', consumes_s y = true -> den y st = Some (x, st') -> consumes x = true) ->
  anyb consumes_s l = true -> forall st xs st', denL l st = Some (xs, st') -> consumes (cat_list xs) = true.
Proof.
  induction l as [|y r IHr]; intros HP Hc st xs st' E; [discriminate Hc|].
  simpl in E. destruct (den y st) as [[y' s1]|] eqn:Ey; [|discriminate].
  destruct (denL r s1) as [[r' s2]|] eqn:Er; [|discriminate]. inversion E; subst.
  rewrite consumes_cat_list_cons. simpl in Hc. apply orb_true_iff in Hc as [Hc|Hc].
  - rewrite (HP y (or_introl eq_refl) st y' s1 Hc Ey). reflexivity.
  - rewrite (IHr (fun z Hz => HP z (or_intror Hz)) Hc s1 r' st' Er). apply orb_true_r.
Qed.

Theorem consumes_s_sound e : forall st x st', consumes_s e = true -> den e st = Some (x, st') -> consumes x = true.
Proof.
  induction e as [e IH] using sx_ind_size. destruct e as [o v args]. intros st x st' Hc H.
  assert (IHin : forall y, In y args -> forall st x st', consumes_s y = true -> den y st = Some (x, st') -> consumes x = true).
  { intros y Hy. apply IH. rewrite sx_size_X. pose proof (sizes_in y args Hy). lia. }
  destruct o; try discriminate Hc.
  - (* Concat *) rewrite consumes_s_concat in Hc. rewrite den_concat in H.
    destruct (denL args st) as [[l st1]|] eqn:E; [|discriminate]. inversion H; subst. clear H.
    exact (denL_consumes_any args IHin Hc st l st' E).
  - (* Dot *) simpl in H. inversion H. reflexivity.
  - (* Char *) simpl in H. eapply om_set; [|exact H]. reflexivity.
  - (* EscapeChar *) simpl in H, Hc. destruct (perl_item v); [inversion H; reflexivity|].
    destruct (assertion_of v); [discriminate|]. eapply om_set; [|exact H]. reflexivity.
  - (* EscapeMeta *) simpl in H. eapply om_set; [|exact H]. reflexivity.
  - (* EscapeOctal *) simpl in H. eapply om_set; [|exact H]. reflexivity.
  - (* EscapeHex *) simpl in H. eapply om_set; [|exact H]. reflexivity.
  - (* CharClass *) simpl in H. destruct (class_items args); simpl in H; [|discriminate]. inversion H. reflexivity.
  - (* NegCharClass *) simpl in H. destruct (class_items args); simpl in H; [|discriminate]. inversion H. reflexivity.
  - (* Capture *) destruct args as [|y [|? ?]]; try discriminate Hc. simpl in H, Hc.
    destruct (den y _) as [[y' st1]|] eqn:Ey; [|discriminate]. inversion H; subst. simpl.
    exact (IHin y (or_introl eq_refl) _ _ _ Hc Ey).
  - (* NamedCapture *) destruct args as [|y [|nm [|? ?]]]; try discriminate Hc. simpl in H, Hc.
    destruct (den y _) as [[y' st1]|] eqn:Ey; [|discriminate]. inversion H; subst. simpl.
    exact (IHin y (or_introl eq_refl) _ _ _ Hc Ey).
  - (* Group *) destruct args as [|y [|? ?]]; try discriminate Hc. simpl in H, Hc.
    destruct (den y st) as [[y' st1]|] eqn:Ey; [|discriminate]. inversion H; subst.
    exact (IHin y (or_introl eq_refl) _ _ _ Hc Ey).
  - (* GroupWithFlags *) destruct args as [|y [|fl [|? ?]]]; try discriminate Hc. simpl in H, Hc.
    destruct (apply_flags (sx_val fl) true (d_fl st)) as [f'|]; [|discriminate].
    destruct (den y (with_flags st f')) as [[y' st1]|] eqn:Ey; [|discriminate]. inversion H; subst.
    exact (IHin y (or_introl eq_refl) _ _ _ Hc Ey).
Qed.

(* ---------- prefix / suffix factoring of two literals, with the two syntactic side facts ---------- *)
Lemma loops_ok_cat_list l : loops_ok (cat_list l) = forallb loops_ok l.
Proof.
  induction l as [|x l IH]; [reflexivity|]. destruct l as [|y l]; [simpl; rewrite andb_true_r; reflexivity|].
  change (cat_list (x :: y :: l)) with (RCat x (cat_list (y :: l))). cbn [loops_ok forallb]. rewrite IH. reflexivity.
Qed.

Lemma loops_ok_sets cs : forallb loops_ok (map RSet cs) = true.
Proof. induction cs; simpl; auto. Qed.

Lemma consumes_sets c cs l : consumes (cat_list (map RSet (c :: cs) ++ l)) = true.
Proof. cbn [map app]. rewrite consumes_cat_list_cons. reflexivity. Qed.

Lemma rel_factor_prefix c cs ct :
  RAlt (cat_list (map RSet (c :: cs) ++ [RSet ct])) (cat_list (map RSet (c :: cs))) ≃
  cat_list (map RSet (c :: cs) ++ [RQuest true (RSet ct)]).
Proof.
  split; [apply factor_prefix_longer_first|]. split.
  - cbn [consumes]. rewrite !consumes_sets. rewrite <- (app_nil_r (map RSet (c :: cs))) at 1. rewrite consumes_sets. reflexivity.
  - cbn [loops_ok]. rewrite !loops_ok_cat_list, !forallb_app, !loops_ok_sets. reflexivity.
Qed.

Lemma rel_factor_suffix_long ch c cs :
  RAlt (cat_list (RSet ch :: map RSet (c :: cs))) (cat_list (map RSet (c :: cs))) ≃
  cat_list (RQuest true (RSet ch) :: map RSet (c :: cs)).
Proof.
  split; [|split].
  - eapply req_trans; [apply req_alt; [apply cat_list_cons|apply req_refl]|].
    eapply req_trans; [apply factor_suffix_longer_first|]. apply req_sym, cat_list_cons.
  - cbn [consumes]. rewrite !consumes_cat_list_cons.
    rewrite <- (app_nil_r (map RSet (c :: cs))). rewrite consumes_sets. reflexivity.
  - cbn [loops_ok]. rewrite !loops_ok_cat_list. cbn [forallb loops_ok]. rewrite !loops_ok_sets. reflexivity.
Qed.

Lemma rel_factor_suffix_short ch cf cs : (forall r, in_cls ch r && in_cls cf r = false) ->
  RAlt (cat_list (map RSet (cf :: cs))) (cat_list (RSet ch :: map RSet (cf :: cs))) ≃
  cat_list (RQuest true (RSet ch) :: map RSet (cf :: cs)).
Proof.
  intros Hd. split; [|split].
  - cbn [map].
    eapply req_trans; [apply req_alt; [apply cat_list_cons|]|].
    { eapply req_trans; [apply cat_list_cons|]. apply req_cat; [apply req_refl|apply cat_list_cons]. }
    eapply req_trans; [apply (factor_suffix_shorter_first ch cf _ Hd)|].
    apply req_sym. eapply req_trans; [apply cat_list_cons|]. apply req_cat; [apply req_refl|apply cat_list_cons].
  - cbn [consumes]. rewrite !consumes_cat_list_cons.
    rewrite <- (app_nil_r (map RSet (cf :: cs))). rewrite consumes_sets. reflexivity.
  - cbn [loops_ok]. rewrite !loops_ok_cat_list. cbn [forallb loops_ok]. rewrite !loops_ok_sets. reflexivity.
Qed.

Definition cls1 (fold : bool) (r : rune) : cls := {| c_neg := false; c_fold := fold; c_items := [CI false [(r, r)]] |}.

Lemma cls1_disjoint a b : N.eqb a b = false -> forall r, in_cls (cls1 false a) r && in_cls (cls1 false b) r = false.
Proof.
  intros Hab r. unfold in_cls, cls1, in_item, orbit, in_ranges. cbn [c_neg c_fold c_items existsb fst snd xorb].
  apply N.eqb_neq in Hab.
  destruct (N.leb_spec a r), (N.leb_spec r a), (N.leb_spec b r), (N.leb_spec r b); simpl; try reflexivity; lia.
Qed.

(* a list of OpChar nodes elaborates to one-rune sets and leaves the state alone *)
Fixpoint charsets (fold : bool) (vs : list string) : option (list cls) :=
  match vs with
  | [] => Some []
  | v :: r => match rune_of v, charsets fold r with Some a, Some b => Some (cls1 fold a :: b) | _, _ => None end
  end.

Lemma denL_chars vs st :
  denL (map mk_char vs) st =
  match charsets (f_i (d_fl st)) vs with Some cs => Some (map RSet cs, st) | None => None end.
Proof.
  induction vs as [|v r IH]; [reflexivity|]. cbn [map denL charsets]. unfold mk_char at 1. cbn [den].
  destruct (rune_of v) as [a|]; cbn [option_map]; [|reflexivity]. rewrite IH.
  destruct (charsets (f_i (d_fl st)) r); reflexivity.
Qed.

Lemma chars_of_map x : chars_of x = map mk_char (utf8_chunks (String.length x) x).
Proof. reflexivity. Qed.

Definition chars_eqb (a b : list sx) : bool := list_eqb sx_eqb a b.
Lemma chars_eqb_eq a b : chars_eqb a b = true -> a = b.
Proof. apply (list_eqb_in sx_eqb). intros x _ y. apply sx_eqb_eq. Qed.

(* mirrors the factoring branch of walk_a: the two literals' Values are the texts of their characters
   (true of every tree the parser builds; checked, not assumed), and the instance is one of the sound ones *)
Definition factor_ok (alt : sx) : bool :=
  match sx_args alt with
  | [X OpConcat v0 cs0; X OpConcat v1 cs1] =>
      let x0 := concatLiteral true (X OpConcat v0 cs0) in
      let y0 := concatLiteral true (X OpConcat v1 cs1) in
      let swap := Nat.ltb (String.length y0) (String.length x0) in
      let x := if swap then y0 else x0 in
      let y := if swap then x0 else y0 in
      let cx := if swap then cs1 else cs0 in
      let cy := if swap then cs0 else cs1 in
      let tail := trim_prefix y x in
      match utf8_chunks (String.length x) x with
      | [] => false
      | v1 :: _ =>
          chars_eqb cx (chars_of x) &&
          if Nat.leb (String.length tail) 4 && Nat.eqb (rune_count tail) 1 then
            swap && chars_eqb cy (chars_of x ++ [mk_char tail])
          else
            let head := trim_suffix y x in
            chars_eqb cy (mk_char head :: chars_of x) &&
            (swap || match rune_of head, rune_of v1 with Some a, Some b => negb (N.eqb a b) | _, _ => false end)
      end
  | _ => false
  end.

(* ---------- guards ---------- *)
Definition merge_okS (x : sx) (rest : list sx) : bool :=
  match rest with
  | X OpStar _ [y0] :: _ => sx_eqb x y0 && consumes_s x && negb (hasCapture x) && negb (leaks x)
  | _ => false
  end.

Definition fold_okS (x : sx) (rest : list sx) (n : nat) : bool :=
  fold_ok x rest n && negb (hasCapture x) && negb (leaks x).

(* what walk_a emits for the operand of a quantifier can stand as an operand *)
Definition emits_operand (x : sx) : bool :=
  negb (op_eqb (sx_op (seq_node (fst (walk_a true x)))) OpFlagOnlyGroup).

Fixpoint guardsS (ff : bool) (e : sx) {struct e} : bool :=
  match e with
  | X OpConcat _ args =>
      (fix gc (l : list sx) (skip : nat) {struct l} : bool :=
         match l with
         | [] => true
         | x :: rest =>
             match skip with
             | S k => gc rest k
             | O => guardsS ff x &&
                 match concat_step true x rest with
                 | CNone => gc rest O
                 | CMerge => merge_okS x rest && emits_operand x && gc rest 1
                 | CFold n => fold_okS x rest n && emits_operand x && gc rest n
                 end
             end
         end) args O
  | X OpAlt _ args =>
      if allChars e && negb (true && hasClassMeta e) then negb (match args with [] => true | _ => false end)
      else match factorPrefixSuffix true e with
           | Some _ => negb ff && factor_ok e
           | None => (fix ga (l : list sx) : bool := match l with [] => true | x :: r => guardsS ff x && ga r end) args
           end
  | X OpGroup _ [x] | X OpCapture _ [x] | X OpNamedCapture _ [x; _] | X OpGroupWithFlags _ [x; _] => guardsS ff x
  | X OpStar _ [x] | X OpPlus _ [x] | X OpQuestion _ [x] => guardsS ff x && emits_operand x
  | X OpNonGreedy _ [q] => quant_node q && guardsS ff q
  | X OpRepeat _ [x; r] =>
      guardsS ff x && emits_operand x &&
      (if String.eqb (sx_val r) "{0}" then hasCapture x || negb (leaks x) else true)
  | X OpCharClass v _ =>
      match simplifyCharClass true e with
      | Some _ =>
          match lookup_s v class_table with
          | Some _ => existsb (fun p => sx_eqb e (fst p)) class_table_sound_entries
          | None => true
          end
      | None => items_ok e
      end
  | X OpNegCharClass v _ =>
      match simplifyNegCharClass e with
      | Some _ => existsb (fun p => sx_eqb e (fst p)) neg_class_table_sound_entries
      | None => items_ok e
      end
  | _ => true
  end.

Section GS.
Variable ff : bool.
Fixpoint gcS (l : list sx) (skip : nat) {struct l} : bool :=
  match l with
  | [] => true
  | x :: rest =>
      match skip with
      | S k => gcS rest k
      | O => guardsS ff x &&
          match concat_step true x rest with
          | CNone => gcS rest O
          | CMerge => merge_okS x rest && emits_operand x && gcS rest 1
          | CFold n => fold_okS x rest n && emits_operand x && gcS rest n
          end
      end
  end.
Fixpoint gaS (l : list sx) : bool := match l with [] => true | x :: r => guardsS ff x && gaS r end.
End GS.
Lemma guardsS_concat ff v args : guardsS ff (X OpConcat v args) = gcS ff args O.
Proof. reflexivity. Qed.


(* ---------- the statement proved by induction ---------- *)
Definition flags_dflt (ff : bool) (e : sx) (st : dst) : Prop := ff = false -> has_flag e = false /\ d_fl st = flags0.

Definition PS (e : sx) : Prop :=
  forall ff, guardsS ff e = true -> forall st x st', flags_dflt ff e st -> den e st = Some (x, st') ->
  exists ys, denL (fst (walk_a true e)) st = Some (ys, st') /\ cat_list ys ≃ x.
