(* Review_State.v — the hand-maintained review of every scratch field that is written after construction
   (C03). Each entry pins the EXACT write sites (method, kind, count) that were reviewed, says whether the
   discipline is modelled concretely in Model_History.v ("modelled") or argued by the stated analogy
   ("reviewed"), and why the field cannot carry information from one file to the next.
   The obligation C03_state_inventory_covered (Properties_C03.v) compares this table with the inventory
   regenerated from the source on every run: a new scratch field, a new write site, a moved or deleted
   reset breaks it. *)
From GC Require Import Base Model_Inventory.

Definition reviewed_state : list reviewed_field := [
  {| r_struct := "package-level variables"; r_field := "collection";
     r_sites := [W "InitEmbeddedRules" "ptr-method:AddChecker" 1%N];
     r_status := "reviewed"; r_why := "package-level variable of checkers/: registration only. InitEmbeddedRules is called once by every front-end before the registry is read (C08's snapshot-order fix); no Check path reaches it. Any OTHER package-level variable written outside init / new* is state shared by all checker instances and all goroutines of a run and must be listed here" |};
  {| r_struct := "badRegexpChecker"; r_field := "parser";
     r_sites := [W "badRegexpChecker.checkPattern" "via-pointer:Parse" 1%N];
     r_status := "reviewed"; r_why := "syntax.Parser.Parse re-initialises the parser for every pattern (third-party; covered by the reused-vs-fresh oracle on corpus/framework/regex)" |};
  {| r_struct := "badRegexpChecker"; r_field := "cause";
     r_sites := [W "badRegexpChecker.VisitExpr" "assign" 1%N];
     r_status := "reviewed"; r_why := "assigned in VisitExpr before checkPattern reads it (same discipline as ifElseChain.cause, Model_History.iec_head)" |};
  {| r_struct := "badRegexpChecker"; r_field := "flagStates";
     r_sites := [W "badRegexpChecker.checkPattern" "append" 1%N; W "badRegexpChecker.checkPattern" "reset-truncate" 1%N; W "badRegexpChecker.currentFlagState" "address-taken" 1%N; W "badRegexpChecker.walk" "append" 2%N; W "badRegexpChecker.walk" "assign" 2%N];
     r_status := "reviewed"; r_why := "truncated at the start of checkPattern; pushes and pops are balanced inside walk (same discipline as AstSet.Clear per statement, Model_History.dc_visit)" |};
  {| r_struct := "badRegexpChecker"; r_field := "goodAnchors";
     r_sites := [W "badRegexpChecker.addGoodAnchor" "append" 1%N; W "badRegexpChecker.checkPattern" "reset-truncate" 1%N];
     r_status := "reviewed"; r_why := "truncated at the start of checkPattern before any append" |};
  {| r_struct := "boolExprSimplifyChecker"; r_field := "hasFloats";
     r_sites := [W "boolExprSimplifyChecker.VisitExpr" "assign" 1%N];
     r_status := "reviewed"; r_why := "assigned at the start of VisitExpr before every read (overwrite-before-read, as typeSwitchVar.count)" |};
  {| r_struct := "commentedOutCodeChecker"; r_field := "fn";
     r_sites := [W "commentedOutCodeChecker.EnterFunc" "assign" 1%N];
     r_status := "modelled"; r_why := "Model_History.coc_on_decl: assigned in EnterFunc before any VisitLocalComment" |};
  {| r_struct := "dupCaseChecker"; r_field := "astSet";
     r_sites := [W "dupCaseChecker.checkSelect" "ptr-method:Clear" 1%N; W "dupCaseChecker.checkSelect" "ptr-method:Insert" 1%N; W "dupCaseChecker.checkSwitch" "ptr-method:Clear" 1%N; W "dupCaseChecker.checkSwitch" "ptr-method:Insert" 1%N];
     r_status := "modelled"; r_why := "Model_History.dc_visit: Clear at the start of checkSwitch/checkSelect" |};
  {| r_struct := "ifElseChainChecker"; r_field := "cause";
     r_sites := [W "ifElseChainChecker.VisitStmt" "assign" 1%N];
     r_status := "modelled"; r_why := "Model_History.iec_head: assigned before warn reads it" |};
  {| r_struct := "ifElseChainChecker"; r_field := "visited";
     r_sites := [W "ifElseChainChecker.EnterFunc" "reset-make" 1%N; W "ifElseChainChecker.countIfelseLen" "elem-write" 1%N];
     r_status := "modelled"; r_why := "Model_History.iec_enter: fresh map in EnterFunc; keys are node identities" |};
  {| r_struct := "mapKeyChecker"; r_field := "astSet";
     r_sites := [W "mapKeyChecker.checkDuplicates" "ptr-method:Clear" 1%N; W "mapKeyChecker.checkDuplicates" "ptr-method:Insert" 1%N];
     r_status := "modelled"; r_why := "Model_History.mk_visit: Clear at the start of checkDuplicates" |};
  {| r_struct := "regexpSimplifyChecker"; r_field := "parser";
     r_sites := [W "regexpSimplifyChecker.simplify" "via-pointer:Parse" 1%N];
     r_status := "reviewed"; r_why := "syntax.Parser.Parse re-initialises the parser for every pattern (third-party; oracle only)" |};
  {| r_struct := "regexpSimplifyChecker"; r_field := "out";
     r_sites := [W "regexpSimplifyChecker.factorPrefixSuffix" "via-pointer:WriteString" 2%N; W "regexpSimplifyChecker.simplify" "via-pointer:Reset" 1%N; W "regexpSimplifyChecker.simplify" "via-pointer:String" 3%N; W "regexpSimplifyChecker.walk" "via-pointer:WriteString" 2%N; W "regexpSimplifyChecker.walkAlt" "via-pointer:WriteString" 4%N; W "regexpSimplifyChecker.walkConcat" "via-pointer:WriteString" 1%N; W "regexpSimplifyChecker.walkGroup" "via-pointer:WriteString" 2%N];
     r_status := "reviewed"; r_why := "Reset at the start of every simplify pass before any WriteString" |};
  {| r_struct := "regexpSimplifyChecker"; r_field := "score";
     r_sites := [W "regexpSimplifyChecker.factorPrefixSuffix" "incdec" 2%N; W "regexpSimplifyChecker.simplify" "assign" 1%N; W "regexpSimplifyChecker.walk" "incdec" 9%N; W "regexpSimplifyChecker.walkAlt" "incdec" 1%N; W "regexpSimplifyChecker.walkConcat" "incdec" 2%N; W "regexpSimplifyChecker.walkGroup" "incdec" 1%N];
     r_status := "reviewed"; r_why := "assigned 0 at the start of every simplify pass before any increment" |};
  {| r_struct := "typeAssertChainChecker"; r_field := "cause";
     r_sites := [W "typeAssertChainChecker.VisitStmt" "assign" 1%N];
     r_status := "modelled"; r_why := "Model_History.tac_head" |};
  {| r_struct := "typeAssertChainChecker"; r_field := "visited";
     r_sites := [W "typeAssertChainChecker.EnterFunc" "reset-make" 1%N; W "typeAssertChainChecker.countTypeAssertions" "elem-write" 1%N];
     r_status := "modelled"; r_why := "Model_History.tac_enter" |};
  {| r_struct := "typeAssertChainChecker"; r_field := "typeSet";
     r_sites := [W "typeAssertChainChecker.countTypeAssertions" "ptr-method:Clear" 1%N; W "typeAssertChainChecker.countTypeAssertions" "ptr-method:Insert" 2%N];
     r_status := "modelled"; r_why := "Model_History.tac_head: Clear at the start of countTypeAssertions" |};
  {| r_struct := "typeDefFirstChecker"; r_field := "trackedTypes";
     r_sites := [W "typeDefFirstChecker.WalkFile" "reset-make" 1%N; W "typeDefFirstChecker.walkDecl" "elem-write" 1%N];
     r_status := "modelled"; r_why := "Model_History.tdf_run: fresh map at the start of WalkFile" |};
  {| r_struct := "typeSwitchVarChecker"; r_field := "count";
     r_sites := [W "typeSwitchVarChecker.VisitStmt" "assign" 1%N; W "typeSwitchVarChecker.checkTypeSwitch" "incdec" 1%N];
     r_status := "modelled"; r_why := "Model_History.tsv_visit: assigned 0 when a type switch is entered" |};
  {| r_struct := "unnecessaryDeferChecker"; r_field := "isFunc";
     r_sites := [W "unnecessaryDeferChecker.Visit" "assign" 2%N; W "unnecessaryDeferChecker.VisitFuncDecl" "assign" 1%N];
     r_status := "reviewed"; r_why := "assigned true at the start of VisitFuncDecl; Visit assigns it for every node before checkDeferBeforeReturn reads it" |};
  {| r_struct := "WalkHandler"; r_field := "SkipChilds";
     r_sites := [W "WalkHandler.skipChilds" "assign" 1%N; W "boolExprSimplifyChecker.warn" "assign" 1%N; W "typeUnparenChecker.checkType" "assign" 1%N];
     r_status := "modelled"; r_why := "Model_History.walk_tree: set by a visit, returned and cleared by skipChilds() right after that visit (invariant: false between visits)" |};
  {| r_struct := "AstSet"; r_field := "items";
     r_sites := [W "AstSet.Clear" "reset-truncate" 1%N; W "AstSet.Insert" "append" 1%N];
     r_status := "modelled"; r_why := "Model_History.dup_scan: Clear truncates, Insert appends" |};
  {| r_struct := "CheckerContext"; r_field := "printer";
     r_sites := [W "CheckerContext.WarnFixableWithPos" "via-pointer:Sprintf" 1%N; W "CheckerContext.WarnWithPos" "via-pointer:Sprintf" 1%N];
     r_status := "reviewed"; r_why := "astfmt.Printer.Sprintf keeps no state between calls (third-party; oracle only)" |};
  {| r_struct := "CheckerContext"; r_field := "warnings";
     r_sites := [W "Checker.Check" "reset-truncate" 1%N; W "CheckerContext.WarnFixableWithPos" "append" 1%N; W "CheckerContext.WarnWithPos" "append" 1%N];
     r_status := "modelled"; r_why := "Model_History.check: truncated at the start of Checker.Check, appended by Warn*" |};
  {| r_struct := "Context"; r_field := "TypesInfo";
     r_sites := [W "Context.SetPackageInfo" "assign" 1%N];
     r_status := "reviewed"; r_why := "written only by the integrating application (SetPackageInfo, in place so that walkers which captured the pointer see the new package); the C argument of run" |};
  {| r_struct := "Context"; r_field := "GoVersion";
     r_sites := [W "Context.SetGoVersion" "assign" 1%N];
     r_status := "reviewed"; r_why := "written only by SetGoVersion (integrator, before the run)" |};
  {| r_struct := "Context"; r_field := "Pkg";
     r_sites := [W "Context.SetPackageInfo" "assign" 1%N];
     r_status := "reviewed"; r_why := "written only by SetPackageInfo (integrator); the C argument of run" |};
  {| r_struct := "Context"; r_field := "Filename";
     r_sites := [W "Context.SetFileInfo" "assign" 1%N];
     r_status := "reviewed"; r_why := "written only by SetFileInfo (integrator); the C argument of run" |};
  {| r_struct := "Context"; r_field := "PkgObjects";
     r_sites := [W "resolvePkgObjects" "elem-write" 2%N; W "resolvePkgObjects" "reset-make" 1%N];
     r_status := "reviewed"; r_why := "rebuilt from scratch by SetFileInfo for every file (make, then fill)" |};
  {| r_struct := "Context"; r_field := "PkgRenames";
     r_sites := [W "resolvePkgRenames" "elem-write" 1%N; W "resolvePkgRenames" "reset-make" 1%N];
     r_status := "reviewed"; r_why := "rebuilt from scratch by SetFileInfo for every file (make, then fill)" |}
].
