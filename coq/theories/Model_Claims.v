(* Model_Claims.v — the claim-producing matchers of property C12, transliterated over Model_Expr,
   each next to the run-time fact its diagnostic asserts (as a semantic predicate).
     sloppyLen   rules.go: len($_) >= 0 "always true", len($_) < 0 "always false"
     badCond     badCond_checker.go: lessAndGreater  "x < a && x > b  condition is always false"
     offBy1      rules.go: $x[len($x)] with Pure + slice filter "index expr always panics"
     dupSubExpr  dupSubExpr_checker.go "suspicious identical LHS and RHS" (same value)
     caseOrder   caseOrder_checker.go "case T must go before the I case" (T cannot be reached)
   No proofs here. *)
From GC Require Import Base Model_Expr Model_BoolSimp Model_Rewrites.
Open Scope string_scope.

(* ---------- the claims ---------- *)
(* whenever e yields a value, the value is b *)
Definition always (b : bool) (e : expr) : Prop :=
  forall en h v h', env_ok en -> evalS en e h = Some (RVal v, h') -> v = VBool b.
(* e never yields a value *)
Definition always_panics (e : expr) : Prop :=
  forall en h v h', env_ok en -> evalS en e h <> Some (RVal v, h').
(* two operands always evaluate to the same outcome, without events *)
Definition same_value (x y : expr) : Prop :=
  forall en h, env_ok en -> evalS en x h = evalS en y h /\ (forall o h', evalS en x h = Some (o, h') -> h' = h).

(* ---------- constants as go/types computes them (TypesInfo.Types[e].Value) on the fragment ---------- *)
Fixpoint const_val (e : expr) : option value :=
  match e with
  | ELit k s t => lit_value k s t
  | EParen x => const_val x
  | EUnary UNeg x =>
      match const_val x with
      | Some (VInt z) => Some (VInt (- z))
      | Some (VFloat f) => Some (VFloat (fl_neg f))
      | _ => None
      end
  | EBinary o a b =>
      match o, const_val a, const_val b with
      | OAdd, Some (VInt x), Some (VInt y) => Some (VInt (x + y))
      | OSub, Some (VInt x), Some (VInt y) => Some (VInt (x - y))
      | OMul, Some (VInt x), Some (VInt y) => Some (VInt (x * y))
      | OAdd, Some (VFloat x), Some (VFloat y) => Some (VFloat (fl_add x y))
      | OSub, Some (VFloat x), Some (VFloat y) => Some (VFloat (fl_add x (fl_neg y)))
      | _, _, _ => None
      end
  | EConst _ v => Some v      (* a named constant: TypesInfo.Types[e].Value is its declared value *)
  | _ => None
  end.

(* ---------- what go/types says about the type of an operand beyond the underlying model type ---------- *)
Fixpoint kind_of (e : expr) : vkind :=
  match e with
  | EVarK _ k _ | ESel _ _ k _ => k
  | EParen x | EUnary UNeg x => kind_of x
  | EBinary o l r =>
      if is_cmp o then KPlain
      else match o with
           | OLAnd | OLOr => KPlain
           | OShl | OShr => kind_of l
           | _ => match kind_of l with KPlain => kind_of r | k => k end   (* the other operand may be an untyped constant *)
           end
  | ESliceAll x => match kind_of x with KArr => KPlain | k => k end
  | _ => KPlain
  end.
Definition is_plain (k : vkind) : bool := match k with KPlain => true | _ => false end.

(* ---------- badCond.lessAndGreater ---------- *)
(* typep.SideEffectFree on the original, typed AST: conversions are the only accepted calls *)
Fixpoint sef_typed (e : expr) : bool :=
  match e with
  | EIdent _ _ | ELit _ _ _ | EVarK _ _ _ | ESel _ _ _ _ | EConst _ _ => true
  | EParen x | EUnary _ x | ESliceAll x | EDeref x => sef_typed x
  | EBinary _ l r => sef_typed l && sef_typed r
  | EIndex a i => sef_typed a && sef_typed i
  | ECall (FPrim p) args =>
      match p with
      | PStringOfBytes | PBytesOfString =>
          (fix go (l : list expr) : bool := match l with [] => true | x :: r => sef_typed x && go r end) args
      | _ => false
      end
  | ECall (FOpaque _ _) _ => false
  end.
Definition const_less (a b : expr) : bool :=
  match const_val a, const_val b with
  | Some va, Some vb => match cmp_val OLt va vb with Some true => true | _ => false end
  | _, _ => false
  end.

(* before commit 408944d: no purity gate on x *)
Definition bad_cond_less_and_greater_prefix (e : expr) : bool :=
  match e with
  | EBinary OLAnd l r =>
      match unparen l, unparen r with
      | EBinary OLt x a, EBinary OGt x' b => expr_eqb x x' && const_less a b
      | _, _ => false
      end
  | _ => false
  end.
(* current: typep.SideEffectFree(info, lhs.X) is required as well *)
Definition bad_cond_less_and_greater (e : expr) : bool :=
  match e with
  | EBinary OLAnd l r =>
      match unparen l, unparen r with
      | EBinary OLt x a, EBinary OGt x' b => expr_eqb x x' && sef_typed x && const_less a b
      | _, _ => false
      end
  | _ => false
  end.
Definition bad_cond_message (e : expr) : string := "`" ++ print_expr e ++ "` condition is always false".

(* ---------- sloppyLen ---------- *)
(* gogrep matches the pattern literal 0 by value: 0, 00, 0x0, 0b0 ... *)
Definition is_zero_lit (e : expr) : bool :=
  match e with
  | ELit LInt s _ => match go_int_lit s with Some 0%Z => true | _ => false end
  | _ => false
  end.
(* Some true / Some false: the claimed constant outcome *)
Definition sloppy_len_claim (e : expr) : option bool :=
  match e with
  | EBinary OGe (ECall (FPrim PLen) [_]) z => if is_zero_lit z then Some true else None
  | EBinary OLt (ECall (FPrim PLen) [_]) z => if is_zero_lit z then Some false else None
  | _ => None
  end.

(* ---------- offBy1: $x[len($x)] where x is Pure and of slice type ---------- *)
Definition off_by1 (e : expr) : bool :=
  match e with
  | EIndex x (ECall (FPrim PLen) [x']) =>
      expr_eqb x x' && rg_pure x && (match typeof x with Some TInts | Some TBytes => true | _ => false end && is_plain (kind_of x))
  | _ => false
  end.

(* ---------- dupSubExpr ---------- *)
Definition dup_op (o : binop) : bool :=
  match o with OLOr | OLAnd | OLt | OGt | ORem | OEq | ONe | OLe | OGe | OQuo | OSub | OOr | OAnd | OXor | OAndNot => true | _ => false end.
Definition dup_float_op (o : binop) : bool :=
  match o with OEq | ONe | OLe | OGe | OQuo | OSub => true | _ => false end.
Definition dup_sub_expr (e : expr) : bool :=
  match e with
  | EBinary o x y =>
      (* resultIsFloat: the operand's type is a *types.Basic float (a defined float type is not) *)
      dup_op o && negb (is_float_ty (typeof x) && is_plain (kind_of x) && dup_float_op o) && sef_typed e && expr_eqb x y
  | _ => false
  end.

(* ---------- dupArg (rules.go): `strings.Contains($x, $x)` ... with the .Pure filter; the functions of
   the rule's list that the fragment models ---------- *)
Definition dup_arg_prim (p : prim) : bool :=
  match p with
  | PStrIndex | PStrContains | PStrCompare | PBytesEqual
  | PStrHasPrefix | PStrHasSuffix | PStrLastIndex | PStrEqualFold
  | PBytesIndex | PBytesContains | PBytesCompare | PBytesHasPrefix | PBytesHasSuffix | PBytesLastIndex | PBytesEqualFold => true
  | _ => false
  end.
(* `strings.Replace($_, $x, $x, $_)`, `strings.ReplaceAll($_, $x, $x)` and the bytes forms: the duplicated pair (old, new) *)
Definition dup_arg_pair (e : expr) : option (expr * expr) :=
  match e with
  | ECall (FPrim p) [x; y] => if dup_arg_prim p then Some (x, y) else None
  | ECall (FPrim PStrReplace) [_; x; y; _] | ECall (FPrim PBytesReplace) [_; x; y; _]
  | ECall (FPrim PStrReplaceAll) [_; x; y] | ECall (FPrim PBytesReplaceAll) [_; x; y] => Some (x, y)
  | _ => None
  end.
Definition dup_arg (e : expr) : bool :=
  match dup_arg_pair e with
  | Some (x, y) => expr_eqb x y && rg_pure x
  | None => false
  end.

(* ---------- nilValReturn (nilValReturn_checker.go): `if x == nil { return .., x, .. }` ----------
   The statement shape is input data (the fragment has no statements and no nil): whether the if body is a
   single return, the condition's operator is ==, its right operand is the predeclared nil; the left operand and the
   returned expressions as terms (None: outside the fragment, e.g. `nil`, `false`). *)
Record nvr_shape := {
  nvr_single_return : bool; nvr_op_is_eq : bool; nvr_y_is_nil : bool;
  nvr_x : expr; nvr_results : list (option expr) }.
Definition nil_val_return (s : nvr_shape) : bool :=
  nvr_single_return s && nvr_op_is_eq s && sef_typed (nvr_x s) && nvr_y_is_nil s &&
  existsb (fun r => match r with Some e => expr_eqb (nvr_x s) e | None => false end) (nvr_results s).
Definition nil_val_return_msgs (s : nvr_shape) : list string :=
  if nil_val_return s then ["returned expr is always nil; replace " ++ print_expr (nvr_x s) ++ " with nil"] else [].

(* ---------- caseOrder on type switches ---------- *)
(* The type lattice is input data: every case entry is (type id, kind); [impl t i] is what
   types.Implements answers for (type t, interface i), also for t = the untyped nil type. *)
Inductive tkind := KNil | KConcrete | KIface.
Definition entry := (N * tkind)%type.
(* dynamic content of the switched interface value: nil, or a value of a concrete type *)
Inductive dyn := DNil | DType (t : N).

Definition entry_matches (impl : N -> N -> bool) (e : entry) (v : dyn) : bool :=
  match snd e, v with
  | KNil, DNil => true
  | KConcrete, DType t => N.eqb t (fst e)
  | KIface, DType t => impl t (fst e)
  | _, _ => false
  end.

(* Go: the first case (in source order, left to right inside a clause) whose type matches *)
Fixpoint first_match (impl : N -> N -> bool) (es : list entry) (v : dyn) (i : nat) : option nat :=
  match es with
  | [] => None
  | e :: r => if entry_matches impl e v then Some i else first_match impl r v (S i)
  end.

(* checkTypeSwitch: ifaces = interfaces seen so far (entry index, type id), oldest first;
   result: (flagged entry index, index of the interface entry named in the message) *)
Fixpoint find_iface (impl : N -> N -> bool) (t : N) (ifaces : list (nat * N)) : option nat :=
  match ifaces with
  | [] => None
  | (j, i) :: r => if impl t i then Some j else find_iface impl t r
  end.
(* before commit e000017: the untyped nil is treated like any other case type *)
Fixpoint case_order_from_prefix (impl : N -> N -> bool) (es : list entry) (ifaces : list (nat * N)) (i : nat) : list (nat * nat) :=
  match es with
  | [] => []
  | (t, k) :: r =>
      let w := match find_iface impl t ifaces with Some j => [(i, j)] | None => [] end in
      let ifaces' := match k with KIface => (ifaces ++ [(i, t)])%list | _ => ifaces end in
      (w ++ case_order_from_prefix impl r ifaces' (S i))%list
  end.
Definition case_order_prefix (impl : N -> N -> bool) (es : list entry) : list (nat * nat) :=
  case_order_from_prefix impl es [] 0.

(* current: `case nil` is skipped *)
Fixpoint case_order_from (impl : N -> N -> bool) (es : list entry) (ifaces : list (nat * N)) (i : nat) : list (nat * nat) :=
  match es with
  | [] => []
  | (t, KNil) :: r => case_order_from impl r ifaces (S i)
  | (t, k) :: r =>
      let w := match find_iface impl t ifaces with Some j => [(i, j)] | None => [] end in
      let ifaces' := match k with KIface => (ifaces ++ [(i, t)])%list | _ => ifaces end in
      (w ++ case_order_from impl r ifaces' (S i))%list
  end.
Definition case_order (impl : N -> N -> bool) (es : list entry) : list (nat * nat) :=
  case_order_from impl es [] 0.

(* "case T can never be reached where it stands" *)
Definition unreachable_entry (impl : N -> N -> bool) (es : list entry) (i : nat) : Prop :=
  forall v, first_match impl es v 0 <> Some i.

(* what go/types guarantees about Implements (checked on every converted lattice by the tie):
   a concrete type implementing an interface J that implements I implements I *)
Definition impl_trans_on (impl : N -> N -> bool) (es : list entry) : Prop :=
  forall t j i, In (j, KIface) es -> In (i, KIface) es -> impl t j = true -> impl j i = true -> impl t i = true.

(* ---------- diagnostics as the checkers print them, in traversal (pre-order) order ---------- *)
Fixpoint walk_claims (f : expr -> list string) (e : expr) {struct e} : list string :=
  (f e ++
   match e with
   | EIdent _ _ | ELit _ _ _ | EVarK _ _ _ | ESel _ _ _ _ | EConst _ _ => []
   | EParen x | EUnary _ x | ESliceAll x | EDeref x => walk_claims f x
   | EBinary _ l r => walk_claims f l ++ walk_claims f r
   | ECall _ args => flat_map (walk_claims f) args
   | EIndex a i => walk_claims f a ++ walk_claims f i
   end)%list.

Definition sloppy_len_msgs (e : expr) : list string :=
  match sloppy_len_claim e with
  | Some true => [print_expr e ++ " is always true"]
  | Some false => [print_expr e ++ " is always false"]
  | None => []
  end.
Definition bad_cond_msgs (e : expr) : list string :=
  if bad_cond_less_and_greater e then [bad_cond_message e] else [].
Definition off_by1_msgs (e : expr) : list string :=
  match e with
  | EIndex x _ =>
      if off_by1 e then ["index expr always panics; maybe you wanted " ++ print_expr x ++ "[len(" ++ print_expr x ++ ")-1]?"] else []
  | _ => []
  end.
Definition dup_sub_expr_msgs (e : expr) : list string :=
  match e with
  | EBinary o _ _ => if dup_sub_expr e then ["suspicious identical LHS and RHS for `" ++ binop_str o ++ "` operator"] else []
  | _ => []
  end.

Definition dup_arg_msgs (e : expr) : list string :=
  if dup_arg e then ["suspicious duplicated args in " ++ print_expr e] else [].

Fixpoint strip_spaces (s : string) : string :=
  match s with
  | EmptyString => EmptyString
  | String a r => if Ascii.eqb a " " then strip_spaces r else String a (strip_spaces r)
  end.

(* boolean form of impl_trans_on over an explicit universe of type ids *)
Definition impl_trans_okb (impl : N -> N -> bool) (universe : list N) (ifaces : list N) : bool :=
  forallb (fun t => forallb (fun j => forallb (fun i => negb (impl t j && impl j i) || impl t i) ifaces) ifaces) universe.

(* ---------- the claim-producing rule groups as the binary executes them (rulesdata.PrecompiledRules) ---------- *)
Definition claim_rules : list rule := [
{| r_group := "sloppyLen"; r_patterns := ["len($_) >= 0"]; r_where := ""; r_suggest := ""; r_report := "$$ is always true" |};
{| r_group := "sloppyLen"; r_patterns := ["len($_) < 0"]; r_where := ""; r_suggest := ""; r_report := "$$ is always false" |};
{| r_group := "sloppyLen"; r_patterns := ["len($x) <= 0"]; r_where := ""; r_suggest := ""; r_report := "$$ can be len($x) == 0" |};
{| r_group := "dupArg"; r_patterns := ["$x.Equal($x)"; "$x.Equals($x)"; "$x.Compare($x)"; "$x.Cmp($x)"]; r_where := "m[""x""].Pure"; r_suggest := ""; r_report := "suspicious method call with the same argument and receiver" |};
{| r_group := "dupArg"; r_patterns := ["copy($x, $x)"; "cmp.Compare($x, $x)"; "maps.Equal($x, $x)"; "math.Dim($x, $x)"; "math.Max($x, $x)"; "math.Min($x, $x)"; "reflect.Copy($x, $x)"; "reflect.DeepEqual($x, $x)"; "slices.Compare($x, $x)"; "slices.Equal($x, $x)"; "strings.Contains($x, $x)"; "strings.Compare($x, $x)"; "strings.EqualFold($x, $x)"; "strings.HasPrefix($x, $x)"; "strings.HasSuffix($x, $x)"; "strings.Index($x, $x)"; "strings.LastIndex($x, $x)"; "strings.Split($x, $x)"; "strings.SplitAfter($x, $x)"; "strings.SplitAfterN($x, $x, $_)"; "strings.SplitN($x, $x, $_)"; "strings.Replace($_, $x, $x, $_)"; "strings.ReplaceAll($_, $x, $x)"; "bytes.Contains($x, $x)"; "bytes.Compare($x, $x)"; "bytes.Equal($x, $x)"; "bytes.EqualFold($x, $x)"; "bytes.HasPrefix($x, $x)"; "bytes.HasSuffix($x, $x)"; "bytes.Index($x, $x)"; "bytes.LastIndex($x, $x)"; "bytes.Split($x, $x)"; "bytes.SplitAfter($x, $x)"; "bytes.SplitAfterN($x, $x, $_)"; "bytes.SplitN($x, $x, $_)"; "bytes.Replace($_, $x, $x, $_)"; "bytes.ReplaceAll($_, $x, $x)"; "types.Identical($x, $x)"; "types.IdenticalIgnoreTags($x, $x)"; "draw.Draw($x, $_, $x, $_, $_)"]; r_where := "m[""x""].Pure"; r_suggest := ""; r_report := "suspicious duplicated args in $$" |};
{| r_group := "offBy1"; r_patterns := ["$x[len($x)]"]; r_where := "m[""x""].Pure && m[""x""].Type.Is(`[]$_`)"; r_suggest := "$x[len($x)-1]"; r_report := "index expr always panics; maybe you wanted $x[len($x)-1]?" |};
{| r_group := "offBy1"; r_patterns := ["$i := strings.Index($s, $_); $_ := $slicing[$i:]"; "$i := strings.Index($s, $_); $_ = $slicing[$i:]"; "$i := bytes.Index($s, $_); $_ := $slicing[$i:]"; "$i := bytes.Index($s, $_); $_ = $slicing[$i:]"]; r_where := "m[""s""].Text == m[""slicing""].Text @At(m[""slicing""])"; r_suggest := ""; r_report := "Index() can return -1; maybe you wanted to do $s[$i+1:]" |};
{| r_group := "offBy1"; r_patterns := ["$i := strings.Index($s, $_); $_ := $slicing[:$i]"; "$i := strings.Index($s, $_); $_ = $slicing[:$i]"; "$i := bytes.Index($s, $_); $_ := $slicing[:$i]"; "$i := bytes.Index($s, $_); $_ = $slicing[:$i]"]; r_where := "m[""s""].Text == m[""slicing""].Text @At(m[""slicing""])"; r_suggest := ""; r_report := "Index() can return -1; maybe you wanted to do $s[:$i+1]" |};
{| r_group := "offBy1"; r_patterns := ["$s[strings.Index($s, $_):]"; "$s[:strings.Index($s, $_)]"; "$s[bytes.Index($s, $_):]"; "$s[:bytes.Index($s, $_)]"]; r_where := ""; r_suggest := ""; r_report := "Index() can return -1; maybe you wanted to do Index()+1" |}
].

(* ---------- what the rules match: a callee SPELLED len (gogrep patterns are syntactic) ----------
   [sloppy_len_claim] / [off_by1] above are the matchers on programs whose `len` is the builtin (the
   converter resolves the callee through go/types).  The rules themselves also fire when `len` is a user
   function: *)
Definition spelled_len (e : expr) : option expr :=
  match e with
  | ECall (FPrim PLen) [x] => Some x
  | ECall (FOpaque "len" _) [x] => Some x
  | _ => None
  end.
Definition sloppy_len_claim_by_name (e : expr) : option bool :=
  match e with
  | EBinary OGe c z => match spelled_len c with Some _ => if is_zero_lit z then Some true else None | None => None end
  | EBinary OLt c z => match spelled_len c with Some _ => if is_zero_lit z then Some false else None | None => None end
  | _ => None
  end.
Definition off_by1_by_name (e : expr) : bool :=
  match e with
  | EIndex x c =>
      match spelled_len c with
      | Some x' => expr_eqb x x' && rg_pure x && (match typeof x with Some TInts | Some TBytes => true | _ => false end && is_plain (kind_of x))
      | None => false
      end
  | _ => false
  end.
