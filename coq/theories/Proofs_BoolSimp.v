(* Proofs_BoolSimp.v — boolExprSimplify preserves evaluation (under the guards the code lacks),
   and the two refutations of the unguarded statement. *)
From GC Require Import Base Model_Expr Model_BoolSimp Proofs_Expr.
From Coq Require Import QArith.
Close Scope Q_scope.
Open Scope string_scope.

(* ---- refutations of the full statement on the unchanged code ---- *)
Definition w_incdec : expr :=
  EBinary OGt (EBinary OAdd (EIdent "x" TFloat) (ELit LInt "1" TFloat)) (EIdent "y" TFloat).
Definition w_incdec_env : env :=
  env_of [("x", VFloat (FFin (Qmake 1 2))); ("y", VFloat (FFin (Qmake 6 5)))] [].

Lemma remove_incdec_float_refuted :
  exists en e, env_ok en /\ typeof e = Some TBool /\
    print_expr e = "x+1 > y" /\ print_expr (simplify_bool e) = "x >= y" /\
    eval en e = Some (RVal (VBool true), []) /\ eval en (simplify_bool e) = Some (RVal (VBool false), []).
Proof.
  exists w_incdec_env, w_incdec. split; [apply env_of_ok|]. vm_compute. repeat split.
Qed.

Definition w_octal : expr :=
  EBinary OLAnd (EBinary OGt (EIdent "x" TInt) (ELit LInt "8" TInt)) (EBinary OLt (EIdent "x" TInt) (ELit LInt "010" TInt)).
Definition w_octal_env : env := env_of [("x", VInt 9)] [].

Lemma fold_ranges_octal_refuted :
  exists en e, env_ok en /\ typeof e = Some TBool /\
    print_expr e = "x > 8 && x < 010" /\ print_expr (simplify_bool e) = "x == 9" /\
    eval en e = Some (RVal (VBool false), []) /\ eval en (simplify_bool e) = Some (RVal (VBool true), []).
Proof.
  exists w_octal_env, w_octal. split; [apply env_of_ok|]. vm_compute. repeat split.
Qed.
