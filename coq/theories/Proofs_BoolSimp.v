(* Proofs_BoolSimp.v — boolExprSimplify preserves evaluation (under the guards the code lacks),
   and the two refutations of the unguarded statement. *)
From GC Require Import Base Model_Expr Model_BoolSimp Proofs_Expr.
From Coq Require Import QArith.
Close Scope Q_scope.
Open Scope string_scope.

(* ---- refutations of the full statement on the unchanged code ---- *)
Definition w_incdec : expr :=
  EBinary OGt (EBinary OAdd (EIdent "x" TFloat) (ELit LInt "1" TFloat)) (EIdent "y" TFloat).
Definition w_incdec_env : env :=
  env_of [("x", VFloat (FFin (Qmake 1 2))); ("y", VFloat (FFin (Qmake 6 5)))] [].

Lemma prefix_remove_incdec_float_refuted :
  exists en e, env_ok en /\ typeof e = Some TBool /\
    print_expr e = "x+1 > y" /\ print_expr (simplify_bool_prefix e) = "x >= y" /\
    eval en e = Some (RVal (VBool true), []) /\ eval en (simplify_bool_prefix e) = Some (RVal (VBool false), []).
Proof.
  exists w_incdec_env, w_incdec. split; [apply env_of_ok|]. vm_compute. repeat split.
Qed.

Definition w_octal : expr :=
  EBinary OLAnd (EBinary OGt (EIdent "x" TInt) (ELit LInt "8" TInt)) (EBinary OLt (EIdent "x" TInt) (ELit LInt "010" TInt)).
Definition w_octal_env : env := env_of [("x", VInt 9)] [].

Lemma prefix_fold_ranges_octal_refuted :
  exists en e, env_ok en /\ typeof e = Some TBool /\
    print_expr e = "x > 8 && x < 010" /\ print_expr (simplify_bool_prefix e) = "x == 9" /\
    eval en e = Some (RVal (VBool false), []) /\ eval en (simplify_bool_prefix e) = Some (RVal (VBool true), []).
Proof.
  exists w_octal_env, w_octal. split; [apply env_of_ok|]. vm_compute. repeat split.
Qed.

(* ================= preservation under the guards ================= *)
Definition equiv (en : env) (e1 e2 : expr) : Prop := forall h, evalS en e1 h = evalS en e2 h.

Lemma evalS_unparen en e h : evalS en (unparen e) h = evalS en e h.
Proof. induction e; simpl; auto. Qed.
Lemma typeof_unparen e : typeof (unparen e) = typeof e.
Proof. induction e; simpl; auto. Qed.
Lemma has_floats_unparen e : has_floats (unparen e) = has_floats e.
Proof. induction e; simpl; auto. Qed.

Lemma typeof_not x t : typeof (EUnary UNot x) = Some t -> t = TBool /\ typeof x = Some TBool.
Proof. simpl. destruct (typeof x) as [[]|]; try discriminate. intros H; inversion H; auto. Qed.

(* ---- comparison facts ---- *)
Lemma cmp_ord_negate o o' c : negate_cmp o = Some o' -> cmp_ord o' c = negb (cmp_ord o c).
Proof. destruct o; simpl; intros H; inversion H; destruct c; reflexivity. Qed.

(* invertComparison is sound for every operand type except float (NaN) *)
Lemma cmp_val_negate o o' v1 v2 :
  negate_cmp o = Some o' -> vty v1 <> TFloat -> cmp_val o' v1 v2 = option_map negb (cmp_val o v1 v2).
Proof.
  intros N F. destruct v1, v2; simpl; try reflexivity;
    try (rewrite (cmp_ord_negate _ _ _ N); reflexivity).
  - exfalso; apply F; reflexivity.
  - destruct o; inversion N; simpl; rewrite ?negb_involutive; reflexivity.
Qed.

Lemma cmp_val_nan_refutes_negate :
  cmp_val OGe (VFloat FNaN) (VFloat FNaN) <> option_map negb (cmp_val OLt (VFloat FNaN) (VFloat FNaN)).
Proof. vm_compute. discriminate. Qed.

Lemma cmp_ord_comb o1 o2 o c : comb_table o1 o2 = Some o -> cmp_ord o c = cmp_ord o1 c || cmp_ord o2 c.
Proof. destruct o1, o2; simpl; intros H; inversion H; destruct c; reflexivity. Qed.

(* combineChecks holds for every ordered type, NaN included *)
Lemma cmp_val_comb o1 o2 o v1 v2 :
  comb_table o1 o2 = Some o -> vty v1 <> TBool ->
  cmp_val o v1 v2 =
  match cmp_val o1 v1 v2, cmp_val o2 v1 v2 with Some x, Some y => Some (x || y) | _, _ => None end.
Proof.
  intros C B. destruct v1, v2; simpl; try reflexivity;
    try (rewrite (cmp_ord_comb _ _ _ _ C); reflexivity).
  - unfold fl_cmp. destruct (fl_compare f f0).
    + rewrite (cmp_ord_comb _ _ _ _ C); reflexivity.
    + destruct o1, o2; simpl in C; inversion C; reflexivity.
  - exfalso; apply B; reflexivity.
Qed.

Definition cmp_Z (o : binop) (a b : Z) : bool := cmp_ord o (a ?= b)%Z.
Ltac zcmp := unfold cmp_Z; repeat match goal with |- context [(?a ?= ?b)%Z] => destruct (Z.compare_spec a b) end; simpl; try reflexivity; exfalso; lia.

Lemma incdec_Z_facts a b :
  cmp_Z OGt (a + 1) b = cmp_Z OGe a b /\ cmp_Z OGt a (b - 1) = cmp_Z OGe a b /\
  cmp_Z OGe (a - 1) b = cmp_Z OGt a b /\ cmp_Z OGe a (b + 1) = cmp_Z OGt a b /\
  cmp_Z OLt (a - 1) b = cmp_Z OLe a b /\ cmp_Z OLt a (b + 1) = cmp_Z OLe a b /\
  cmp_Z OLe (a + 1) b = cmp_Z OLt a b /\ cmp_Z OLe a (b - 1) = cmp_Z OLt a b.
Proof. repeat split; zcmp. Qed.

(* foldRanges tables on integers *)
Lemma and_table_sound lo ro d delta z c1 c2 :
  table_find and_table lo ro d = Some delta -> (c2 - c1 = d)%Z ->
  cmp_Z lo z c1 && cmp_Z ro z c2 = cmp_Z OEq z (c1 + delta).
Proof.
  unfold and_table; simpl. intros H E.
  destruct lo, ro; simpl in H; try discriminate;
    repeat match type of H with
           | (if (?x =? ?y)%Z then _ else _) = _ => destruct (Z.eqb_spec x y)
           end; try discriminate; inversion H; subst; zcmp.
Qed.
Lemma or_table_sound lo ro d delta z c1 c2 :
  table_find or_table lo ro d = Some delta -> (c2 - c1 = d)%Z ->
  cmp_Z lo z c1 || cmp_Z ro z c2 = cmp_Z ONe z (c1 + delta).
Proof.
  unfold or_table; simpl. intros H E.
  destruct lo, ro; simpl in H; try discriminate;
    repeat match type of H with
           | (if (?x =? ?y)%Z then _ else _) = _ => destruct (Z.eqb_spec x y)
           end; try discriminate; inversion H; subst; zcmp.
Qed.

(* ---- per-rule soundness: type, float flag and evaluation are preserved ---- *)
Definition rule_ok (en : env) (e e' : expr) (t : ty) : Prop :=
  typeof e' = Some t /\ (has_floats e' = true -> has_floats e = true) /\ equiv en e' e.

Ltac kill_bools :=
  repeat match goal with
         | |- context [has_floats ?x] => destruct (has_floats x)
         | |- context [is_float_ty ?x] => destruct (is_float_ty x)
         end; simpl; intros; try reflexivity; try discriminate.

Section Rules.
  Variable en : env.
  Hypothesis Hen : env_ok en.

  Lemma eval_bool_inv e h v h' : typeof e = Some TBool -> evalS en e h = Some (RVal v, h') -> exists b, v = VBool b.
  Proof.
    intros T E. pose proof (preservation en Hen _ _ _ _ _ T E) as P.
    destruct v; try discriminate. eauto.
  Qed.

  Lemma double_negation_sound e e' t :
    double_negation e = Some e' -> typeof e = Some t -> rule_ok en e e' t.
  Proof.
    unfold double_negation. destruct e as [| | |[] x| | | | | | | |]; try discriminate.
    destruct (unparen x) as [| | |[] y| | | | | | | |] eqn:U; try discriminate.
    intros H T; inversion H; subst e'; clear H.
    apply typeof_not in T as [-> Tx].
    rewrite <- typeof_unparen, U in Tx. apply typeof_not in Tx as [_ Ty].
    split; [|split].
    - rewrite typeof_unparen. exact Ty.
    - rewrite has_floats_unparen. simpl. rewrite <- (has_floats_unparen x), U. simpl. auto.
    - intros h. rewrite evalS_unparen. simpl. rewrite <- (evalS_unparen en x), U. simpl.
      destruct (evalS en y h) as [[[v|] h1]|] eqn:E; simpl; auto.
      destruct (eval_bool_inv _ _ _ _ Ty E) as [b ->]. simpl. rewrite negb_involutive. reflexivity.
  Qed.

  Lemma negated_equals_sound e e' t :
    negated_equals e = Some e' -> typeof e = Some t -> rule_ok en e e' t.
  Proof.
    unfold negated_equals. destruct e as [| | | |[] l r| | | | | | |]; try discriminate.
    destruct l as [| | |[] a| | | | | | | |]; try discriminate.
    destruct r as [| | |[] b| | | | | | | |]; try discriminate.
    intros H T; inversion H; subst e'; clear H.
    simpl in T. destruct (typeof a) as [[]|] eqn:Ta; try discriminate.
    destruct (typeof b) as [[]|] eqn:Tb; try discriminate.
    split; [|split].
    - simpl. rewrite Ta, Tb. exact T.
    - simpl. rewrite Ta, Tb. simpl. auto.
    - intros h. simpl.
      destruct (evalS en a h) as [[[va|] h1]|] eqn:Ea; simpl; auto.
      destruct (eval_bool_inv _ _ _ _ Ta Ea) as [x ->]. simpl.
      destruct (evalS en b h1) as [[[vb|] h2]|] eqn:Eb; simpl; auto.
      destruct (eval_bool_inv _ _ _ _ Tb Eb) as [y ->]. simpl.
      destruct x, y; reflexivity.
  Qed.

  Lemma typeof_binary o a b t : typeof (EBinary o a b) = Some t ->
    exists ta tb, typeof a = Some ta /\ typeof b = Some tb /\ binop_type o ta tb = Some t.
  Proof. simpl. destruct (typeof a), (typeof b); try discriminate. eauto. Qed.

  Lemma binop_type_same o ta tb t : binop_type o ta tb = Some t -> ta = tb.
  Proof. unfold binop_type. destruct (ty_eqb ta tb) eqn:E; simpl; [|discriminate]. intros _. apply ty_eqb_eq; auto. Qed.

  Lemma eval_cmp_generic o a b h : is_cmp o = true ->
    evalS en (EBinary o a b) h =
    bind (evalS en a h) (fun v1 h1 => bind (evalS en b h1) (fun v2 h2 => lift (option_map (fun x => RVal (VBool x)) (cmp_val o v1 v2)) h2)).
  Proof. destruct o; try discriminate; reflexivity. Qed.

  (* invertComparison, with the guard the code has: no float-typed comparison operand *)
  Lemma invert_comparison_sound hf e e' t :
    invert_comparison hf e = Some e' -> typeof e = Some t -> (has_floats e = true -> hf = true) ->
    rule_ok en e e' t.
  Proof.
    unfold invert_comparison. destruct hf; [discriminate|].
    destruct e as [| | |[] x| | | | | | | |]; try discriminate.
    destruct (unparen x) as [| | | |o a b| | | | | | |] eqn:U; try discriminate.
    destruct (negate_cmp o) as [o'|] eqn:N; [|discriminate].
    intros H T HF; inversion H; subst e'; clear H.
    apply typeof_not in T as [-> Tx]. rewrite <- typeof_unparen, U in Tx.
    destruct (typeof_binary _ _ _ _ Tx) as (ta & tb & Ta & Tb & Bt).
    assert (NF : has_floats (EBinary o a b) = false).
    { destruct (has_floats (EBinary o a b)) eqn:E; auto. rewrite <- U, has_floats_unparen in E. discriminate (HF E). }
    pose proof NF as NF0.
    change (is_float_ty (typeof a) || is_float_ty (typeof b) || has_floats a || has_floats b = false) in NF.
    rewrite Ta in NF.
    assert (Co : is_cmp o = true) by (destruct o; try discriminate; reflexivity).
    assert (Co' : is_cmp o' = true) by (destruct o; inversion N; reflexivity).
    split; [|split].
    - simpl. rewrite Ta, Tb. clear - Bt N. unfold binop_type in *. destruct (negb (ty_eqb ta tb)); [discriminate|].
      destruct o; inversion N; subst; destruct ta; try discriminate; auto.
    - intros H. change (has_floats (EBinary o a b) = true) in H. rewrite H in NF0. discriminate.
    - intros h. rewrite (eval_cmp_generic o' a b h Co').
      change (evalS en (EUnary UNot x) h) with (bind (evalS en x h) (fun v h1 => lift (unop_apply UNot v) h1)).
      rewrite <- (evalS_unparen en x), U, (eval_cmp_generic o a b h Co).
      destruct (evalS en a h) as [[[va|] h1]|] eqn:Ea; simpl; auto.
      destruct (evalS en b h1) as [[[vb|] h2]|] eqn:Eb; simpl; auto.
      assert (Fa : vty va <> TFloat).
      { rewrite (preservation en Hen _ _ _ _ _ Ta Ea). intros ->. discriminate NF. }
      rewrite (cmp_val_negate _ _ va vb N Fa). destruct (cmp_val o va vb); reflexivity.
  Qed.

  Lemma eval_lor x y h :
    evalS en (EBinary OLOr x y) h =
    bind (evalS en x h) (fun v h1 =>
      match v with
      | VBool true => Some (RVal (VBool true), h1)
      | VBool false => bind (evalS en y h1) as_bool
      | _ => None
      end).
  Proof. reflexivity. Qed.
  Lemma eval_land x y h :
    evalS en (EBinary OLAnd x y) h =
    bind (evalS en x h) (fun v h1 =>
      match v with
      | VBool false => Some (RVal (VBool false), h1)
      | VBool true => bind (evalS en y h1) as_bool
      | _ => None
      end).
  Proof. reflexivity. Qed.

  Lemma comb_types o1 o2 o ta tb :
    comb_table o1 o2 = Some o -> binop_type o1 ta tb = Some TBool -> binop_type o2 ta tb = Some TBool ->
    ta = tb /\ (ta = TInt \/ ta = TFloat \/ ta = TString) /\ binop_type o ta tb = Some TBool /\ is_cmp o = true /\ is_cmp o1 = true /\ is_cmp o2 = true.
  Proof.
    intros C B1 B2. pose proof (binop_type_same _ _ _ _ B1) as <-.
    unfold binop_type in *. rewrite ty_eqb_refl in *. simpl in *.
    destruct o1, o2; simpl in C; inversion C; subst; destruct ta; try discriminate; repeat split; auto.
  Qed.

  Lemma cmp_val_some o v1 v2 : is_cmp o = true -> vty v1 = vty v2 ->
    (vty v1 = TInt \/ vty v1 = TFloat \/ vty v1 = TString) -> exists c, cmp_val o v1 v2 = Some c.
  Proof.
    intros C E T. destruct v1, v2; simpl in *; try discriminate; eauto;
      destruct T as [T|[T|T]]; discriminate.
  Qed.

  (* combineChecks: `x > y || x == y` => `x >= y` for side-effect-free x, y — holds with NaN *)
  Lemma combine_checks_sound e e' t :
    combine_checks e = Some e' -> typeof e = Some t -> rule_ok en e e' t.
  Proof.
    unfold combine_checks. destruct e as [| | | |[] x y| | | | | | |]; try discriminate.
    destruct (unparen x) as [| | | |o1 a1 b1| | | | | | |] eqn:Ux; try discriminate.
    destruct (unparen y) as [| | | |o2 a2 b2| | | | | | |] eqn:Uy; try discriminate.
    destruct (expr_eqb a1 a2 && expr_eqb b1 b2 && side_effect_free a1 && side_effect_free b1) eqn:C; [|discriminate].
    apply andb_true_iff in C as [C S2]. apply andb_true_iff in C as [C S1]. apply andb_true_iff in C as [Ea Eb].
    apply expr_eqb_eq in Ea, Eb. subst a2 b2.
    destruct (comb_table o1 o2) as [o|] eqn:CT; [|discriminate].
    intros H T; inversion H; subst e'; clear H.
    destruct (typeof_binary _ _ _ _ T) as (tx & ty0 & Tx & Ty & Bt).
    assert (tx = TBool /\ ty0 = TBool /\ t = TBool) as (-> & -> & ->).
    { unfold binop_type in Bt. destruct (ty_eqb tx ty0) eqn:E; simpl in Bt; [|discriminate]. apply ty_eqb_eq in E. subst.
      destruct ty0; try discriminate. inversion Bt; auto. }
    rewrite <- typeof_unparen, Ux in Tx. rewrite <- typeof_unparen, Uy in Ty.
    destruct (typeof_binary _ _ _ _ Tx) as (ta & tb & Ta & Tb & B1).
    destruct (typeof_binary _ _ _ _ Ty) as (ta' & tb' & Ta' & Tb' & B2).
    rewrite Ta in Ta'; rewrite Tb in Tb'; inversion Ta'; inversion Tb'; subst ta' tb'.
    destruct (comb_types _ _ _ _ _ CT B1 B2) as (<- & Tk & B & Co & Co1 & Co2).
    split; [|split].
    - simpl. rewrite Ta, Tb. exact B.
    - intros H. change (has_floats (EBinary o1 a1 b1) = true) in H. rewrite <- Ux, has_floats_unparen in H.
      simpl. rewrite H. rewrite !orb_true_r. reflexivity.
    - intros h. rewrite (eval_cmp_generic o a1 b1 h Co), eval_lor.
      rewrite <- (evalS_unparen en x), Ux, (eval_cmp_generic o1 a1 b1 h Co1).
      destruct (side_effect_free_pure en a1 S1) as [ra Ha], (side_effect_free_pure en b1 S2) as [rb Hb].
      rewrite (Ha h).
      destruct ra as [[v1|]|]; simpl; auto.
      rewrite (Hb h).
      destruct rb as [[v2|]|]; simpl; auto.
      assert (P1 : vty v1 = ta) by (eapply (preservation en Hen a1 ta []); [exact Ta|rewrite Ha; reflexivity]).
      assert (P2 : vty v2 = ta) by (eapply (preservation en Hen b1 ta []); [exact Tb|rewrite Hb; reflexivity]).
      assert (NB : vty v1 <> TBool) by (rewrite P1; destruct Tk as [->|[->| ->]]; discriminate).
      rewrite (cmp_val_comb _ _ _ v1 v2 CT NB).
      assert (Tk' : vty v1 = TInt \/ vty v1 = TFloat \/ vty v1 = TString) by (rewrite P1; exact Tk).
      assert (EQ : vty v1 = vty v2) by congruence.
      destruct (cmp_val_some o1 v1 v2 Co1 EQ Tk') as [c1 ->].
      destruct (cmp_val_some o2 v1 v2 Co2 EQ Tk') as [c2 E2].
      rewrite E2. simpl. destruct c1; simpl; auto.
      rewrite <- (evalS_unparen en y), Uy, (eval_cmp_generic o2 a1 b1 h Co2), (Ha h). simpl. rewrite (Hb h). simpl.
      rewrite E2. reflexivity.
  Qed.

  (* ---- removeIncDec on integers ---- *)
  Definition zop (o : binop) (a : Z) : Z := match o with OAdd => a + 1 | OSub => a - 1 | _ => a end%Z.

  Lemma is_incdec_inv o e : is_incdec o e = true -> exists x0 k t1, e = EBinary o x0 (ELit k "1" t1).
  Proof.
    destruct e as [| | | |o' l r| | | | | | |]; try discriminate. destruct r; try discriminate. simpl.
    intros H. apply andb_true_iff in H as [H1 H2]. apply binop_eqb_eq in H1. apply String.eqb_eq in H2. subst. eauto.
  Qed.

  Lemma one_lit_typed k t1 : lit_type_ok k "1" t1 = true -> t1 <> TFloat -> k = LInt /\ t1 = TInt.
  Proof. destruct k, t1; vm_compute; intros H F; try discriminate; auto; exfalso; apply F; reflexivity. Qed.

  Lemma ordering_types o ta tb t : (o = OGt \/ o = OGe \/ o = OLt \/ o = OLe) -> binop_type o ta tb = Some t ->
    t = TBool /\ ta = tb /\ (ta = TInt \/ ta = TFloat \/ ta = TString).
  Proof.
    intros O B. pose proof (binop_type_same _ _ _ _ B) as <-. unfold binop_type in B. rewrite ty_eqb_refl in B. simpl in B.
    destruct O as [->|[->|[->| ->]]]; destruct ta; try discriminate; inversion B; auto.
  Qed.

  Lemma eval_incdec_operand lop x0 h (HL : lop = OAdd \/ lop = OSub) :
    typeof x0 = Some TInt ->
    evalS en (EBinary lop x0 (ELit LInt "1" TInt)) h =
    bind (evalS en x0 h) (fun v h1 => match v with VInt z => Some (RVal (VInt (zop lop z)), h1) | _ => None end).
  Proof.
    intros T. destruct HL as [-> | ->]; simpl;
      destruct (evalS en x0 h) as [[[v|] h1]|] eqn:E; simpl; auto;
      pose proof (preservation en Hen _ _ _ _ _ T E) as P; destruct v; try discriminate; reflexivity.
  Qed.

  Lemma typeof_incdec_operand lop x0 k t1 tX (HL : lop = OAdd \/ lop = OSub) :
    typeof (EBinary lop x0 (ELit k "1" t1)) = Some tX -> tX <> TFloat ->
    k = LInt /\ t1 = TInt /\ tX = TInt /\ typeof x0 = Some TInt.
  Proof.
    intros T F. destruct (typeof_binary _ _ _ _ T) as (ta & tb & Ta & Tb & B).
    simpl in Tb. destruct (lit_type_ok k "1" t1) eqn:L; [|discriminate]. inversion Tb; subst tb.
    pose proof (binop_type_same _ _ _ _ B) as ->.
    assert (tX = t1).
    { unfold binop_type in B. rewrite ty_eqb_refl in B. simpl in B. destruct HL as [-> | ->]; destruct t1; try discriminate; inversion B; auto. }
    subst tX. destruct (one_lit_typed _ _ L F) as [-> ->]. auto.
  Qed.

  Lemma has_floats_binary o l r :
    has_floats (EBinary o l r) = is_float_ty (typeof l) || is_float_ty (typeof r) || has_floats l || has_floats r.
  Proof. reflexivity. Qed.

  Lemma incdec_replace_sound cmp lop rop repl X Y e' t :
    (cmp = OGt \/ cmp = OGe \/ cmp = OLt \/ cmp = OLe) -> (repl = OGt \/ repl = OGe \/ repl = OLt \/ repl = OLe) ->
    (lop = OAdd \/ lop = OSub) -> (rop = OAdd \/ rop = OSub) ->
    (forall a b, cmp_Z cmp (zop lop a) b = cmp_Z repl a b) ->
    (forall a b, cmp_Z cmp a (zop rop b) = cmp_Z repl a b) ->
    incdec_replace lop rop repl X Y = Some e' ->
    typeof (EBinary cmp X Y) = Some t -> is_float_ty (typeof X) = false ->
    rule_ok en (EBinary cmp X Y) e' t.
  Proof.
    intros Oc Or HL HR F1 F2 H T NF.
    destruct (typeof_binary _ _ _ _ T) as (tX & tY & TX & TY & B).
    destruct (ordering_types _ _ _ _ Oc B) as (-> & <- & Tk).
    assert (NFt : tX <> TFloat) by (intros ->; rewrite TX in NF; discriminate).
    assert (Cc : is_cmp cmp = true) by (destruct Oc as [->|[->|[->| ->]]]; reflexivity).
    assert (Cr : is_cmp repl = true) by (destruct Or as [->|[->|[->| ->]]]; reflexivity).
    assert (Br : binop_type repl TInt TInt = Some TBool) by (destruct Or as [->|[->|[->| ->]]]; reflexivity).
    unfold incdec_replace in H.
    destruct (match_one_way lop X Y) eqn:M1.
    - inversion H; subst e'; clear H. unfold match_one_way in M1. apply andb_true_iff in M1 as [M1 _].
      destruct (is_incdec_inv _ _ M1) as (x0 & k & t1 & ->). simpl bin_left.
      destruct (typeof_incdec_operand _ _ _ _ _ HL TX NFt) as (-> & -> & -> & Tx0).
      split; [|split].
      + simpl. rewrite Tx0, TY. exact Br.
      + clear. simpl. kill_bools.
      + intros h. rewrite (eval_cmp_generic repl _ _ h Cr), (eval_cmp_generic cmp _ _ h Cc).
        rewrite (eval_incdec_operand lop x0 h HL Tx0).
        destruct (evalS en x0 h) as [[[v1|] h1]|] eqn:E1; simpl; auto.
        pose proof (preservation en Hen _ _ _ _ _ Tx0 E1) as P1. destruct v1; try discriminate. simpl.
        destruct (evalS en Y h1) as [[[v2|] h2]|] eqn:E2; simpl; auto.
        pose proof (preservation en Hen _ _ _ _ _ TY E2) as P2. destruct v2; try discriminate. simpl.
        fold (cmp_Z repl z z0). fold (cmp_Z cmp (zop lop z) z0). rewrite F1. reflexivity.
    - destruct (match_one_way rop Y X) eqn:M2; [|discriminate].
      inversion H; subst e'; clear H. unfold match_one_way in M2. apply andb_true_iff in M2 as [M2 _].
      destruct (is_incdec_inv _ _ M2) as (y0 & k & t1 & ->). simpl bin_left.
      destruct (typeof_incdec_operand _ _ _ _ _ HR TY NFt) as (-> & -> & -> & Ty0).
      split; [|split].
      + simpl typeof. rewrite TX, Ty0. exact Br.
      + clear. simpl. kill_bools.
      + intros h. rewrite (eval_cmp_generic repl _ _ h Cr), (eval_cmp_generic cmp _ _ h Cc).
        destruct (evalS en X h) as [[[v1|] h1]|] eqn:E1; cbv beta iota delta [bind]; auto.
        pose proof (preservation en Hen _ _ _ _ _ TX E1) as P1. destruct v1; try discriminate.
        rewrite (eval_incdec_operand rop y0 h1 HR Ty0).
        destruct (evalS en y0 h1) as [[[v2|] h2]|] eqn:E2; simpl; auto.
        pose proof (preservation en Hen _ _ _ _ _ Ty0 E2) as P2. destruct v2; try discriminate. simpl.
        fold (cmp_Z repl z z0). fold (cmp_Z cmp z (zop rop z0)). rewrite F2. reflexivity.
  Qed.

  Lemma remove_incdec_prefix_sound e e' t :
    remove_incdec_prefix e = Some e' -> typeof e = Some t -> incdec_guard e = true -> rule_ok en e e' t.
  Proof.
    intros H T G. unfold incdec_guard in G. rewrite H in G.
    destruct e as [| | | |o X Y| | | | | | |]; try discriminate.
    apply negb_true_iff in G.
    destruct o; try discriminate; simpl in H;
      (eapply incdec_replace_sound; [| | | | | |exact H|exact T|exact G]; auto;
       intros a b; destruct (incdec_Z_facts a b) as (F1 & F2 & F3 & F4 & F5 & F6 & F7 & F8); simpl; assumption).
  Qed.

  (* ---- foldRanges on integers with decimal bounds ---- *)
  Lemma eval_int_lit s c h : go_int_lit s = Some c -> evalS en (ELit LInt s TInt) h = Some (RVal (VInt c), h).
  Proof. intros H. simpl. rewrite H. reflexivity. Qed.

  Lemma decimal_lit_inv e : decimal_lit e = true ->
    exists s t c, e = ELit LInt s t /\ parse_int_base10 s = Some c /\ go_int_lit s = Some c.
  Proof.
    destruct e as [|k s t| | | | | | | | | |]; simpl; try discriminate. destruct k; try discriminate.
    destruct (parse_int_base10 s) as [a|] eqn:PA; [|discriminate]. destruct (go_int_lit s) as [b|] eqn:GB; [|discriminate].
    intros H. apply Z.eqb_eq in H. subst a. exists s, t, b. auto.
  Qed.

  Lemma eval_cmp_pure_lit o lx s c r h :
    is_cmp o = true -> (forall h, evalS en lx h = lift r h) -> go_int_lit s = Some c ->
    evalS en (EBinary o lx (ELit LInt s TInt)) h =
    match r with
    | None => None
    | Some RPanic => Some (RPanic, h)
    | Some (RVal (VInt z)) => Some (RVal (VBool (cmp_Z o z c)), h)
    | Some (RVal _) => None
    end.
  Proof.
    intros C P G. rewrite (eval_cmp_generic o _ _ h C), (P h).
    destruct r as [[v|]|]; simpl; auto. rewrite G. simpl. destruct v; reflexivity.
  Qed.

  Lemma table_delta_nonneg tbl lo ro d delta :
    (tbl = and_table \/ tbl = or_table) -> table_find tbl lo ro d = Some delta -> (0 <= delta)%Z /\ is_cmp lo = true /\ is_cmp ro = true
      /\ (lo = OGt \/ lo = OGe \/ lo = OLt \/ lo = OLe).
  Proof.
    intros [-> | ->]; unfold and_table, or_table; simpl; intros H;
      destruct lo, ro; simpl in H; try discriminate;
      repeat match type of H with
             | (if (?x =? ?y)%Z then _ else _) = _ => destruct (Z.eqb_spec x y)
             end; try discriminate; inversion H; subst; repeat split; auto; lia.
  Qed.

  (* the part of foldRanges' correctness that does not depend on how the bounds were read *)
  Lemma fold_core eo lo ro lx s1 t1 s2 t2 c1 c2 e' t :
    side_effect_free lx = true -> go_int_lit s1 = Some c1 -> go_int_lit s2 = Some c2 -> (0 <= c1)%Z ->
    match eo with
    | OLAnd =>
        match table_find and_table lo ro (c2 - c1) with
        | Some delta => Some (EBinary OEq lx (set_lit_text (ELit LInt s1 t1) (dec_of_Z (c1 + delta))))
        | None => None
        end
    | OLOr =>
        match table_find or_table lo ro (c2 - c1) with
        | Some delta => Some (EBinary ONe lx (set_lit_text (ELit LInt s1 t1) (dec_of_Z (c1 + delta))))
        | None => None
        end
    | _ => None
    end = Some e' ->
    typeof (EBinary eo (EBinary lo lx (ELit LInt s1 t1)) (EBinary ro lx (ELit LInt s2 t2))) = Some t ->
    (has_floats (EBinary eo (EBinary lo lx (ELit LInt s1 t1)) (EBinary ro lx (ELit LInt s2 t2))) = true -> false = true) ->
    rule_ok en (EBinary eo (EBinary lo lx (ELit LInt s1 t1)) (EBinary ro lx (ELit LInt s2 t2))) e' t.
  Proof.
    intros S I1 I2 N1 H T HF.
    assert (NF : has_floats (EBinary eo (EBinary lo lx (ELit LInt s1 t1)) (EBinary ro lx (ELit LInt s2 t2))) = false).
    { match goal with |- ?x = false => destruct x eqn:Hx; auto; discriminate (HF eq_refl) end. }
    destruct (side_effect_free_pure en lx S) as [r Hr].
    (* typing *)
    destruct (typeof_binary _ _ _ _ T) as (tL & tR & TL & TR & Bt).
    destruct (typeof_binary _ _ _ _ TL) as (ta & tb & Ta & Tb & BL).
    destruct (typeof_binary _ _ _ _ TR) as (ta' & tb' & Ta' & Tb' & BR).
    rewrite Ta in Ta'. inversion Ta'; subst ta'.
    simpl in Tb, Tb'. destruct (lit_type_ok LInt s1 t1) eqn:L1; [|discriminate]. destruct (lit_type_ok LInt s2 t2) eqn:L2; [|discriminate].
    inversion Tb; inversion Tb'; subst tb tb'.
    pose proof (binop_type_same _ _ _ _ BL) as ->. pose proof (binop_type_same _ _ _ _ BR) as <-.
    rewrite has_floats_binary in NF.
    apply orb_false_iff in NF as [NF _]. apply orb_false_iff in NF as [_ NFL].
    rewrite has_floats_binary in NFL.
    apply orb_false_iff in NFL as [NFL _]. apply orb_false_iff in NFL as [NFL NFx]. apply orb_false_iff in NFL as [NFa _].
    rewrite Ta in NFa.
    assert (t1 = TInt) as ->.
    { destruct t1; simpl in L1, NFa; try discriminate; auto. }
    assert (forall tbl delta o', (tbl = and_table \/ tbl = or_table) -> (o' = OEq \/ o' = ONe) ->
              table_find tbl lo ro (c2 - c1) = Some delta ->
              (eo = OLAnd \/ eo = OLOr) ->
              (forall z, (match eo with OLAnd => cmp_Z lo z c1 && cmp_Z ro z c2 | _ => cmp_Z lo z c1 || cmp_Z ro z c2 end) = cmp_Z o' z (c1 + delta)) ->
              rule_ok en (EBinary eo (EBinary lo lx (ELit LInt s1 TInt)) (EBinary ro lx (ELit LInt s2 TInt)))
                (EBinary o' lx (ELit LInt (dec_of_Z (c1 + delta)) TInt)) t) as Main.
    { intros tbl delta o' Htbl Ho' TF Heo Hsem.
      destruct (table_delta_nonneg _ _ _ _ _ Htbl TF) as (D0 & Clo & Cro & Olo).
      assert (I3 : go_int_lit (dec_of_Z (c1 + delta)) = Some (c1 + delta)%Z) by (apply go_int_lit_dec_of_Z; lia).
      assert (t = TBool) as ->.
      { unfold binop_type in Bt. destruct (negb (ty_eqb tL tR)); [discriminate|].
        destruct Heo as [-> | ->]; destruct tL; try discriminate; inversion Bt; auto. }
      assert (Co' : is_cmp o' = true) by (destruct Ho' as [-> | ->]; reflexivity).
      split; [|split].
      - simpl. rewrite Ta. unfold lit_type_ok. simpl. rewrite I3. simpl. destruct Ho' as [-> | ->]; reflexivity.
      - intros Hx. exfalso. rewrite has_floats_binary, Ta in Hx.
        simpl in Hx. unfold lit_type_ok in Hx. simpl in Hx. rewrite I3 in Hx. simpl in Hx.
        rewrite NFx in Hx. discriminate.
      - intros h. rewrite (eval_cmp_pure_lit o' lx _ _ r h Co' Hr I3).
        destruct Heo as [-> | ->].
        + rewrite eval_land, (eval_cmp_pure_lit lo lx _ _ r h Clo Hr I1).
          destruct r as [[v|]|]; cbv beta iota delta [bind]; auto. destruct v; auto.
          rewrite <- (Hsem z). cbv beta iota.
          destruct (cmp_Z lo z c1); cbv beta iota delta [andb]; auto.
          rewrite (eval_cmp_pure_lit ro lx _ _ _ h Cro Hr I2). reflexivity.
        + rewrite eval_lor, (eval_cmp_pure_lit lo lx _ _ r h Clo Hr I1).
          destruct r as [[v|]|]; cbv beta iota delta [bind]; auto. destruct v; auto.
          rewrite <- (Hsem z). cbv beta iota.
          destruct (cmp_Z lo z c1); cbv beta iota delta [orb]; auto.
          rewrite (eval_cmp_pure_lit ro lx _ _ _ h Cro Hr I2). reflexivity. }
    destruct eo; try discriminate.
    - destruct (table_find and_table lo ro (c2 - c1)) as [delta|] eqn:TF; [|discriminate].
      inversion H; subst e'. simpl set_lit_text.
      apply (Main and_table delta OEq); auto. intros z. simpl. eapply and_table_sound; eauto.
    - destruct (table_find or_table lo ro (c2 - c1)) as [delta|] eqn:TF; [|discriminate].
      inversion H; subst e'. simpl set_lit_text.
      apply (Main or_table delta ONe); auto. intros z. simpl. eapply or_table_sound; eauto.
  Qed.

  Lemma fold_ranges_prefix_sound hf e e' t :
    fold_ranges_prefix hf e = Some e' -> typeof e = Some t -> (has_floats e = true -> hf = true) ->
    fold_guard hf e = true -> rule_ok en e e' t.
  Proof.
    intros H T HF G. unfold fold_guard in G. rewrite H in G.
    unfold fold_ranges_prefix, fold_ranges_v in H. destruct hf; [discriminate|].
    destruct e as [| | | |eo L Rr| | | | | | |]; try discriminate.
    destruct L as [| | | |lo lx ly| | | | | | |]; try discriminate.
    destruct Rr as [| | | |ro rx ry| | | | | | |]; try discriminate.
    apply andb_true_iff in G as [G1 G2].
    destruct (decimal_lit_inv _ G1) as (s1 & t1 & c1 & -> & P1 & I1).
    destruct (decimal_lit_inv _ G2) as (s2 & t2 & c2 & -> & P2 & I2).
    destruct (side_effect_free lx && side_effect_free rx && expr_eqb lx rx) eqn:C; [|discriminate].
    apply andb_true_iff in C as [C E]. apply andb_true_iff in C as [S _]. apply expr_eqb_eq in E. subst rx.
    simpl int64val_prefix in H. rewrite P1, P2 in H.
    eapply fold_core; eauto. eapply parse_int_base10_nonneg; eauto.
  Qed.

  (* ---- the current routines (after the fixes): no guard is needed ---- *)
  Lemma remove_incdec_sound hf e e' t :
    remove_incdec hf e = Some e' -> typeof e = Some t -> (has_floats e = true -> hf = true) -> rule_ok en e e' t.
  Proof.
    unfold remove_incdec. destruct hf; [discriminate|]. intros H T HF.
    apply remove_incdec_prefix_sound; auto. unfold incdec_guard. rewrite H.
    destruct e as [| | | |o X Y| | | | | | |]; try reflexivity.
    destruct (is_float_ty (typeof X)) eqn:F; auto.
    assert (false = true) by (apply HF; rewrite has_floats_binary, F; reflexivity). discriminate.
  Qed.

  Lemma int64val_inv e c : int64val e = Some c ->
    exists s t, e = ELit LInt s t /\ go_int_lit s = Some c /\ (0 <= c)%Z.
  Proof.
    destruct e as [|k s t| | | | | | | | | |]; simpl; try discriminate. destruct k; try discriminate.
    destruct (go_int_lit s) as [z|] eqn:G; [|discriminate].
    destruct (z <=? int64_max)%Z; [|discriminate]. intros H; inversion H; subst.
    exists s, t. repeat split; auto.
    unfold go_int_lit in G. destruct (match strip_us s with EmptyString => _ | String _ _ => _ end); simpl in G; [|discriminate].
    inversion G. apply N2Z.is_nonneg.
  Qed.

  Lemma fold_ranges_sound hf e e' t :
    fold_ranges hf e = Some e' -> typeof e = Some t -> (has_floats e = true -> hf = true) -> rule_ok en e e' t.
  Proof.
    intros H T HF. unfold fold_ranges, fold_ranges_v in H. destruct hf; [discriminate|].
    destruct e as [| | | |eo L Rr| | | | | | |]; try discriminate.
    destruct L as [| | | |lo lx ly| | | | | | |]; try discriminate.
    destruct Rr as [| | | |ro rx ry| | | | | | |]; try discriminate.
    destruct (side_effect_free lx && side_effect_free rx && expr_eqb lx rx) eqn:C; [|discriminate].
    apply andb_true_iff in C as [C E]. apply andb_true_iff in C as [S _]. apply expr_eqb_eq in E. subst rx.
    destruct (int64val ly) as [c1|] eqn:V1; [|discriminate].
    destruct (int64val ry) as [c2|] eqn:V2; [|discriminate].
    destruct (int64val_inv _ _ V1) as (s1 & t1 & -> & I1 & N1).
    destruct (int64val_inv _ _ V2) as (s2 & t2 & -> & I2 & N2).
    eapply fold_core; eauto.
  Qed.
End Rules.

(* ---- one post-order step, then the whole traversal ---- *)
Lemma rule_ok_refl en e t : typeof e = Some t -> rule_ok en e e t.
Proof. intros T. split; [exact T|split; [auto|intros h; reflexivity]]. Qed.

Lemma rule_ok_trans en e0 e1 e2 t : rule_ok en e0 e1 t -> rule_ok en e1 e2 t -> rule_ok en e0 e2 t.
Proof.
  intros (T1 & F1 & E1) (T2 & F2 & E2). split; [exact T2|split; [auto|]].
  intros h. rewrite (E2 h). apply E1.
Qed.

Fixpoint has_floats_list (l : list expr) : bool :=
  match l with [] => false | x :: r => has_floats x || has_floats_list r end.

(* The traversal proof is written once, for any pair of (removeIncDec, int64val) routines whose rewrites are
   sound at a node under node-level guards [g1], [g2]. *)
Section Generic.
  Variable en : env.
  Hypothesis Hen : env_ok en.
  Variable incdec : bool -> expr -> option expr.
  Variable i64 : expr -> option Z.
  Variables g1 g2 : bool -> expr -> bool.
  Hypothesis incdec_ok : forall hf e e' t,
    incdec hf e = Some e' -> typeof e = Some t -> (has_floats e = true -> hf = true) -> g1 hf e = true -> rule_ok en e e' t.
  Hypothesis fold_ok : forall hf e e' t,
    fold_ranges_v i64 hf e = Some e' -> typeof e = Some t -> (has_floats e = true -> hf = true) -> g2 hf e = true -> rule_ok en e e' t.

Lemma rewrite1_sound hf e t :
  typeof e = Some t -> (has_floats e = true -> hf = true) ->
  g1 hf e = true -> g2 hf e = true -> rule_ok en e (rewrite1_v incdec i64 hf e) t.
Proof.
  intros T HF G1 G2. unfold rewrite1_v, rewrite_first_v, or_else.
  destruct (double_negation e) eqn:R1; [eapply double_negation_sound; eauto|].
  destruct (negated_equals e) eqn:R2; [eapply negated_equals_sound; eauto|].
  destruct (invert_comparison hf e) eqn:R3; [eapply invert_comparison_sound; eauto|].
  destruct (combine_checks e) eqn:R4; [eapply combine_checks_sound; eauto|].
  destruct (incdec hf e) eqn:R5; [eapply incdec_ok; eauto|].
  destruct (fold_ranges_v i64 hf e) eqn:R6; [eapply fold_ok; eauto|].
  apply rule_ok_refl; exact T.
Qed.

Fixpoint all_nodes_list (g : expr -> bool) (hf : bool) (l : list expr) : bool :=
  match l with [] => true | x :: r => all_nodes_v incdec i64 g hf x && all_nodes_list g hf r end.

Lemma equiv_binary o l l' r r' : equiv en l' l -> equiv en r' r -> equiv en (EBinary o l' r') (EBinary o l r).
Proof.
  intros El Er h. destruct o; simpl; rewrite (El h); destruct (evalS en l h) as [[[v|] h1]|]; simpl; auto;
    try (rewrite (Er h1); reflexivity); destruct v as [| | | |[]| | | |]; auto; rewrite (Er h1); reflexivity.
Qed.

Lemma has_floats_binary_eq o l r :
  has_floats (EBinary o l r) = is_float_ty (typeof l) || is_float_ty (typeof r) || has_floats l || has_floats r.
Proof. reflexivity. Qed.

Lemma simp_unfold hf e : simp_v incdec i64 hf e = rewrite1_v incdec i64 hf (rebuild_v incdec i64 hf e).
Proof. destruct e; reflexivity. Qed.

Lemma all_nodes_unfold g hf e :
  all_nodes_v incdec i64 g hf e =
  g (rebuild_v incdec i64 hf e) &&
  match e with
  | EIdent _ _ | ELit _ _ _ | EVarK _ _ _ | ESel _ _ _ _ | EConst _ _ => true
  | EParen x | EUnary _ x | ESliceAll x | EDeref x => all_nodes_v incdec i64 g hf x
  | EBinary _ l r => all_nodes_v incdec i64 g hf l && all_nodes_v incdec i64 g hf r
  | ECall _ args => all_nodes_list g hf args
  | EIndex a i => all_nodes_v incdec i64 g hf a && all_nodes_v incdec i64 g hf i
  end.
Proof.
  destruct e; try reflexivity.
  change (all_nodes_v incdec i64 g hf (ECall f args)) with
    (g (rebuild_v incdec i64 hf (ECall f args)) &&
     (fix go (l : list expr) : bool := match l with [] => true | x :: r => all_nodes_v incdec i64 g hf x && go r end) args).
  f_equal. induction args as [|x r IH]; simpl; auto. rewrite <- IH. reflexivity.
Qed.

Definition node_ih (hf : bool) (e : expr) : Prop :=
  forall t, typeof e = Some t -> (has_floats e = true -> hf = true) ->
    all_nodes_v incdec i64 (g1 hf) hf e = true -> all_nodes_v incdec i64 (g2 hf) hf e = true ->
    rule_ok en e (simp_v incdec i64 hf e) t.

Lemma typeof_list_map_typed l ts : typeof_list l = Some ts -> Forall (fun x => exists t, typeof x = Some t) l.
Proof.
  revert ts; induction l as [|x r IH]; intros ts H; constructor; simpl in H;
    destruct (typeof x) eqn:Tx; try discriminate; destruct (typeof_list r) eqn:Tr; try discriminate; eauto.
Qed.

Lemma rebuild_call_ok hf f args t :
  Forall (node_ih hf) args ->
  typeof (ECall f args) = Some t -> (has_floats (ECall f args) = true -> hf = true) ->
  all_nodes_list (g1 hf) hf args = true -> all_nodes_list (g2 hf) hf args = true ->
  rule_ok en (ECall f args) (ECall f (map (simp_v incdec i64 hf) args)) t.
Proof.
  intros IH T HF A1 A2.
  change (has_floats (ECall f args)) with (has_floats_list args) in HF.
  rewrite typeof_call in T. destruct (typeof_list args) as [ts|] eqn:TL; [|discriminate].
  assert (L : typeof_list (map (simp_v incdec i64 hf) args) = Some ts /\
              (has_floats_list (map (simp_v incdec i64 hf) args) = true -> has_floats_list args = true) /\
              (forall h, evalS_list en (map (simp_v incdec i64 hf) args) h = evalS_list en args h)).
  { clear T. revert ts TL HF A1 A2. induction IH as [|x r Hx Hr IHr]; intros ts TL HF A1 A2.
    - simpl. auto.
    - simpl in TL, A1, A2, HF. destruct (typeof x) as [tx|] eqn:Tx; [|discriminate].
      destruct (typeof_list r) as [tr|] eqn:Tr; [|discriminate]. inversion TL; subst ts.
      apply andb_true_iff in A1 as [A1x A1r]. apply andb_true_iff in A2 as [A2x A2r].
      assert (HFx : has_floats x = true -> hf = true) by (intros H; apply HF; rewrite H; reflexivity).
      assert (HFr : has_floats_list r = true -> hf = true) by (intros H; apply HF; rewrite H; apply orb_true_r).
      destruct (Hx tx Tx HFx A1x A2x) as (T' & F' & E').
      destruct (IHr tr eq_refl HFr A1r A2r) as (TL' & FL' & EL').
      split; [|split].
      + simpl. rewrite T', TL'. reflexivity.
      + simpl. intros H. apply orb_true_iff in H as [H|H]; [rewrite (F' H); reflexivity|rewrite (FL' H); apply orb_true_r].
      + intros h. simpl. rewrite (E' h). destruct (evalS en x h) as [[[v|] h1]|]; auto. rewrite (EL' h1). reflexivity. }
  destruct L as (TL' & FL' & EL').
  split; [|split].
  - rewrite typeof_call, TL'. exact T.
  - exact FL'.
  - intros h. rewrite !evalS_call, (EL' h). reflexivity.
Qed.

Lemma simp_v_sound hf :
  forall e t, typeof e = Some t -> (has_floats e = true -> hf = true) ->
    all_nodes_v incdec i64 (g1 hf) hf e = true -> all_nodes_v incdec i64 (g2 hf) hf e = true ->
    rule_ok en e (simp_v incdec i64 hf e) t.
Proof.
  induction e using expr_ind'; intros t0 T HF A1 A2;
    rewrite simp_unfold; rewrite all_nodes_unfold in A1, A2;
    apply andb_true_iff in A1 as [G1 A1]; apply andb_true_iff in A2 as [G2 A2];
    (eapply rule_ok_trans; [|apply rewrite1_sound; [ | |exact G1|exact G2]]).
  (* each constructor leaves: rule_ok e (rebuild e); typeof (rebuild e); float flag of (rebuild e) *)
  all: try (match goal with |- rule_ok _ _ _ _ => idtac end).
  - apply rule_ok_refl; exact T.
  - exact T.
  - exact HF.
  - apply rule_ok_refl; exact T.
  - exact T.
  - exact HF.
  - (* EParen *) destruct (IHe t0 T HF A1 A2) as (T' & F' & E'). split; [exact T'|split; [exact F'|exact E']].
  - destruct (IHe t0 T HF A1 A2) as (T' & F' & E'). exact T'.
  - destruct (IHe t0 T HF A1 A2) as (T' & F' & E'). intros H. apply HF. apply F'. exact H.
  - (* EUnary *)
    assert (exists tx, typeof e = Some tx) as [tx Tx] by (simpl in T; destruct (typeof e); [eauto|destruct o; discriminate]).
    destruct (IHe tx Tx HF A1 A2) as (T' & F' & E').
    split; [|split].
    + simpl. rewrite T'. simpl in T. rewrite Tx in T. exact T.
    + exact F'.
    + intros h. simpl. rewrite (E' h). reflexivity.
  - assert (exists tx, typeof e = Some tx) as [tx Tx] by (simpl in T; destruct (typeof e); [eauto|destruct o; discriminate]).
    destruct (IHe tx Tx HF A1 A2) as (T' & F' & E'). simpl. rewrite T'. simpl in T. rewrite Tx in T. exact T.
  - assert (exists tx, typeof e = Some tx) as [tx Tx] by (simpl in T; destruct (typeof e); [eauto|destruct o; discriminate]).
    destruct (IHe tx Tx HF A1 A2) as (T' & F' & E'). intros H. apply HF. apply F'. exact H.
  - (* EBinary *)
    destruct (typeof_binary _ _ _ _ T) as (ta & tb & Ta & Tb & B).
    apply andb_true_iff in A1 as [A1l A1r]. apply andb_true_iff in A2 as [A2l A2r].
    assert (HFl : has_floats e1 = true -> hf = true) by (intros H; apply HF; simpl; rewrite H; rewrite !orb_true_r; reflexivity).
    assert (HFr : has_floats e2 = true -> hf = true) by (intros H; apply HF; simpl; rewrite H; rewrite !orb_true_r; reflexivity).
    destruct (IHe1 ta Ta HFl A1l A2l) as (T1 & F1 & E1). destruct (IHe2 tb Tb HFr A1r A2r) as (T2 & F2 & E2).
    split; [|split].
    + simpl. rewrite T1, T2. exact B.
    + change (rebuild_v incdec i64 hf (EBinary o e1 e2)) with (EBinary o (simp_v incdec i64 hf e1) (simp_v incdec i64 hf e2)).
      rewrite (has_floats_binary_eq o (simp_v incdec i64 hf e1)), (has_floats_binary_eq o e1). rewrite T1, T2, Ta, Tb. intros H.
      apply orb_true_iff in H as [H|H]; [apply orb_true_iff in H as [H|H]|].
      * rewrite H. reflexivity.
      * rewrite (F1 H). rewrite orb_true_r. reflexivity.
      * rewrite (F2 H). apply orb_true_r.
    + apply equiv_binary; assumption.
  - destruct (typeof_binary _ _ _ _ T) as (ta & tb & Ta & Tb & B).
    apply andb_true_iff in A1 as [A1l A1r]. apply andb_true_iff in A2 as [A2l A2r].
    assert (HFl : has_floats e1 = true -> hf = true) by (intros H; apply HF; simpl; rewrite H; rewrite !orb_true_r; reflexivity).
    assert (HFr : has_floats e2 = true -> hf = true) by (intros H; apply HF; simpl; rewrite H; rewrite !orb_true_r; reflexivity).
    destruct (IHe1 ta Ta HFl A1l A2l) as (T1 & F1 & E1). destruct (IHe2 tb Tb HFr A1r A2r) as (T2 & F2 & E2).
    simpl. rewrite T1, T2. exact B.
  - destruct (typeof_binary _ _ _ _ T) as (ta & tb & Ta & Tb & B).
    apply andb_true_iff in A1 as [A1l A1r]. apply andb_true_iff in A2 as [A2l A2r].
    assert (HFl : has_floats e1 = true -> hf = true) by (intros H; apply HF; simpl; rewrite H; rewrite !orb_true_r; reflexivity).
    assert (HFr : has_floats e2 = true -> hf = true) by (intros H; apply HF; simpl; rewrite H; rewrite !orb_true_r; reflexivity).
    destruct (IHe1 ta Ta HFl A1l A2l) as (T1 & F1 & E1). destruct (IHe2 tb Tb HFr A1r A2r) as (T2 & F2 & E2).
    change (rebuild_v incdec i64 hf (EBinary o e1 e2)) with (EBinary o (simp_v incdec i64 hf e1) (simp_v incdec i64 hf e2)).
    rewrite has_floats_binary_eq. rewrite T1, T2. intros H. apply HF. rewrite has_floats_binary_eq. rewrite Ta, Tb.
    apply orb_true_iff in H as [H|H]; [apply orb_true_iff in H as [H|H]|].
    * rewrite H. reflexivity.
    * rewrite (F1 H). rewrite orb_true_r. reflexivity.
    * rewrite (F2 H). apply orb_true_r.
  - (* ECall *)
    assert (IH : Forall (node_ih hf) args) by exact H.
    exact (rebuild_call_ok hf f args t0 IH T HF A1 A2).
  - assert (IH : Forall (node_ih hf) args) by exact H.
    destruct (rebuild_call_ok hf f args t0 IH T HF A1 A2) as (T' & F' & E'). exact T'.
  - assert (IH : Forall (node_ih hf) args) by exact H.
    destruct (rebuild_call_ok hf f args t0 IH T HF A1 A2) as (T' & F' & E'). intros Hx. apply HF. apply F'. exact Hx.
  - (* EIndex *)
    assert (exists ta tb, typeof e1 = Some ta /\ typeof e2 = Some tb) as (ta & tb & Ta & Tb)
      by (simpl in T; destruct (typeof e1) as [[]|], (typeof e2) as [[]|]; try discriminate; eauto).
    apply andb_true_iff in A1 as [A1l A1r]. apply andb_true_iff in A2 as [A2l A2r].
    assert (HFl : has_floats e1 = true -> hf = true) by (intros Hx; apply HF; simpl; rewrite Hx; reflexivity).
    assert (HFr : has_floats e2 = true -> hf = true) by (intros Hx; apply HF; simpl; rewrite Hx; apply orb_true_r).
    destruct (IHe1 ta Ta HFl A1l A2l) as (T1 & F1 & E1). destruct (IHe2 tb Tb HFr A1r A2r) as (T2 & F2 & E2).
    split; [|split].
    + simpl. rewrite T1, T2. simpl in T. rewrite Ta, Tb in T. exact T.
    + simpl. intros Hx. apply orb_true_iff in Hx as [Hx|Hx]; [rewrite (F1 Hx); reflexivity|rewrite (F2 Hx); apply orb_true_r].
    + intros h. simpl. rewrite (E1 h). destruct (evalS en e1 h) as [[[v|] h1]|]; simpl; auto. rewrite (E2 h1). reflexivity.
  - assert (exists ta tb, typeof e1 = Some ta /\ typeof e2 = Some tb) as (ta & tb & Ta & Tb)
      by (simpl in T; destruct (typeof e1) as [[]|], (typeof e2) as [[]|]; try discriminate; eauto).
    apply andb_true_iff in A1 as [A1l A1r]. apply andb_true_iff in A2 as [A2l A2r].
    assert (HFl : has_floats e1 = true -> hf = true) by (intros Hx; apply HF; simpl; rewrite Hx; reflexivity).
    assert (HFr : has_floats e2 = true -> hf = true) by (intros Hx; apply HF; simpl; rewrite Hx; apply orb_true_r).
    destruct (IHe1 ta Ta HFl A1l A2l) as (T1 & F1 & E1). destruct (IHe2 tb Tb HFr A1r A2r) as (T2 & F2 & E2).
    simpl. rewrite T1, T2. simpl in T. rewrite Ta, Tb in T. exact T.
  - assert (exists ta tb, typeof e1 = Some ta /\ typeof e2 = Some tb) as (ta & tb & Ta & Tb)
      by (simpl in T; destruct (typeof e1) as [[]|], (typeof e2) as [[]|]; try discriminate; eauto).
    apply andb_true_iff in A1 as [A1l A1r]. apply andb_true_iff in A2 as [A2l A2r].
    assert (HFl : has_floats e1 = true -> hf = true) by (intros Hx; apply HF; simpl; rewrite Hx; reflexivity).
    assert (HFr : has_floats e2 = true -> hf = true) by (intros Hx; apply HF; simpl; rewrite Hx; apply orb_true_r).
    destruct (IHe1 ta Ta HFl A1l A2l) as (T1 & F1 & E1). destruct (IHe2 tb Tb HFr A1r A2r) as (T2 & F2 & E2).
    simpl. intros Hx. apply HF. simpl. apply orb_true_iff in Hx as [Hx|Hx]; [rewrite (F1 Hx); reflexivity|rewrite (F2 Hx); apply orb_true_r].
  - (* ESliceAll *)
    assert (exists tx, typeof e = Some tx) as [tx Tx] by (simpl in T; destruct (typeof e) as [[]|]; try discriminate; eauto).
    destruct (IHe tx Tx HF A1 A2) as (T' & F' & E').
    split; [|split].
    + simpl. rewrite T'. simpl in T. rewrite Tx in T. exact T.
    + exact F'.
    + intros h. simpl. rewrite (E' h). reflexivity.
  - assert (exists tx, typeof e = Some tx) as [tx Tx] by (simpl in T; destruct (typeof e) as [[]|]; try discriminate; eauto).
    destruct (IHe tx Tx HF A1 A2) as (T' & F' & E'). simpl. rewrite T'. simpl in T. rewrite Tx in T. exact T.
  - assert (exists tx, typeof e = Some tx) as [tx Tx] by (simpl in T; destruct (typeof e) as [[]|]; try discriminate; eauto).
    destruct (IHe tx Tx HF A1 A2) as (T' & F' & E'). intros Hx. apply HF. apply F'. exact Hx.
  - apply rule_ok_refl; exact T.
  - exact T.
  - exact HF.
  - apply rule_ok_refl; exact T.
  - exact T.
  - exact HF.
  - apply rule_ok_refl; exact T.
  - exact T.
  - exact HF.
  - (* EDeref *)
    assert (exists tx, typeof e = Some tx) as [tx Tx] by (simpl in T; destruct (typeof e) as [[]|]; try discriminate; eauto).
    destruct (IHe tx Tx HF A1 A2) as (T' & F' & E').
    split; [|split].
    + simpl. rewrite T'. simpl in T. rewrite Tx in T. exact T.
    + exact F'.
    + intros h. simpl. rewrite (E' h). reflexivity.
  - assert (exists tx, typeof e = Some tx) as [tx Tx] by (simpl in T; destruct (typeof e) as [[]|]; try discriminate; eauto).
    destruct (IHe tx Tx HF A1 A2) as (T' & F' & E'). simpl. rewrite T'. simpl in T. rewrite Tx in T. exact T.
  - assert (exists tx, typeof e = Some tx) as [tx Tx] by (simpl in T; destruct (typeof e) as [[]|]; try discriminate; eauto).
    destruct (IHe tx Tx HF A1 A2) as (T' & F' & E'). intros Hx. apply HF. apply F'. exact Hx.
Qed.

End Generic.

(* ---- instances: the current checker (no guards) and the pre-fix checker (guards) ---- *)
Definition g_true (_ : bool) (_ : expr) : bool := true.

Lemma all_nodes_true incdec i64 hf : forall e, all_nodes_v incdec i64 (g_true hf) hf e = true.
Proof.
  induction e using expr_ind'; simpl; auto.
  - rewrite IHe1, IHe2. reflexivity.
  - induction H as [|x r Hx Hr IH]; simpl; auto. rewrite Hx. exact IH.
  - rewrite IHe1, IHe2. reflexivity.
Qed.

Lemma simp_sound en (Hen : env_ok en) hf e t :
  typeof e = Some t -> (has_floats e = true -> hf = true) -> rule_ok en e (simp hf e) t.
Proof.
  intros T HF. unfold simp.
  apply (simp_v_sound en Hen remove_incdec int64val g_true g_true); auto.
  - intros hf0 e0 e' t0 H T0 HF0 _. eapply remove_incdec_sound; eauto.
  - intros hf0 e0 e' t0 H T0 HF0 _. eapply fold_ranges_sound; eauto.
  - apply all_nodes_true.
  - apply all_nodes_true.
Qed.

Lemma simp_prefix_sound en (Hen : env_ok en) hf e t :
  typeof e = Some t -> (has_floats e = true -> hf = true) ->
  all_nodes_prefix incdec_guard hf e = true -> all_nodes_prefix (fold_guard hf) hf e = true ->
  rule_ok en e (simp_prefix hf e) t.
Proof.
  intros T HF A1 A2. unfold simp_prefix.
  apply (simp_v_sound en Hen incdec_prefix int64val_prefix (fun _ => incdec_guard) fold_guard); auto.
  - intros hf0 e0 e' t0 H T0 HF0 G. eapply remove_incdec_prefix_sound; eauto.
  - intros hf0 e0 e' t0 H T0 HF0 G. eapply fold_ranges_prefix_sound; eauto.
Qed.

(* ---- the theorems ---- *)
(* the current checker: the full statement *)
Theorem bool_simplify_preserves_S en e :
  env_ok en -> well_typed e -> forall h, evalS en (simplify_bool e) h = evalS en e h.
Proof.
  intros Hen [t T]. unfold simplify_bool.
  destruct (simp_sound en Hen (has_floats e) e t T (fun H => H)) as (_ & _ & E). exact E.
Qed.

Theorem bool_simplify_preserves en e :
  env_ok en -> well_typed e -> eval en (simplify_bool e) = eval en e.
Proof.
  intros Hen W. unfold eval. rewrite (bool_simplify_preserves_S en e Hen W []). reflexivity.
Qed.

Theorem bool_simplify_keeps_type e t : typeof e = Some t -> typeof (simplify_bool e) = Some t.
Proof.
  intros T. unfold simplify_bool.
  destruct (simp_sound (env_of [] []) (env_of_ok [] []) (has_floats e) e t T (fun H => H)) as (T' & _ & _). exact T'.
Qed.

(* the checker before the fixes: only under the two guards it lacked *)
Theorem bool_simplify_prefix_preserves_partial_S en e :
  env_ok en -> well_typed e -> no_float_incdec e = true -> decimal_bounds e = true ->
  forall h, evalS en (simplify_bool_prefix e) h = evalS en e h.
Proof.
  intros Hen [t T] G1 G2. unfold simplify_bool_prefix.
  destruct (simp_prefix_sound en Hen (has_floats e) e t T (fun H => H) G1 G2) as (_ & _ & E). exact E.
Qed.

Theorem bool_simplify_prefix_preserves_partial en e :
  env_ok en -> well_typed e -> no_float_incdec e = true -> decimal_bounds e = true ->
  eval en (simplify_bool_prefix e) = eval en e.
Proof.
  intros Hen W G1 G2. unfold eval. rewrite (bool_simplify_prefix_preserves_partial_S en e Hen W G1 G2 []). reflexivity.
Qed.

Theorem bool_simplify_prefix_preserves_refuted :
  ~ (forall en e, env_ok en -> well_typed e -> eval en (simplify_bool_prefix e) = eval en e).
Proof.
  intros H. specialize (H w_octal_env w_octal (env_of_ok _ _)).
  assert (W : well_typed w_octal) by (exists TBool; reflexivity).
  specialize (H W). vm_compute in H. discriminate.
Qed.

(* the two refuting expressions are left alone by the current checker *)
Example fixed_witnesses_unchanged :
  simplify_bool w_incdec = w_incdec /\ check_expr w_incdec = None /\
  simplify_bool w_octal = w_octal /\ check_expr w_octal = None /\
  print_expr (simplify_bool (EBinary OLAnd (EBinary OGt (EIdent "x" TInt) (ELit LInt "010" TInt)) (EBinary OLt (EIdent "x" TInt) (ELit LInt "0xA" TInt)))) = "x == 9".
Proof. vm_compute. repeat split. Qed.

(* the guards are satisfiable on an expression every part of which is rewritten *)
Definition w_all_rules : expr :=
  let x := EIdent "x" TInt in let y := EIdent "y" TInt in let l s := ELit LInt s TInt in
  EBinary OLOr
    (EBinary OLAnd (EUnary UNot (EParen (EBinary OLt x (l "3")))) (EBinary OGt (EBinary OAdd x (l "1")) y))
    (EBinary OLOr (EBinary OLAnd (EBinary OGt x (l "1")) (EBinary OLt x (l "3")))
       (EBinary OLOr (EParen (EBinary OLOr (EBinary OGt x y) (EBinary OEq x y)))
          (EBinary OEq (EUnary UNot (EUnary UNot (EParen (EUnary UNot (EIdent "k" TBool))))) (EUnary UNot (EIdent "l" TBool))))).

Example guards_satisfiable :
  typeof w_all_rules = Some TBool /\ no_float_incdec w_all_rules = true /\ decimal_bounds w_all_rules = true /\
  print_expr w_all_rules = "!(x < 3) && x+1 > y || (x > 1 && x < 3 || ((x > y || x == y) || !!(!k) == !l))" /\
  print_expr (simplify_bool_prefix w_all_rules) = "x >= 3 && x >= y || (x == 2 || ((x >= y) || k == l))" /\
  print_expr (simplify_bool w_all_rules) = "x >= 3 && x >= y || (x == 2 || ((x >= y) || k == l))".
Proof. vm_compute. repeat split. Qed.

(* when the hasFloats flag is NOT raised for float-typed operands (what happens for operands whose type is a
   type parameter with a float constraint: typep.HasFloatProp looks for *types.Basic), the rewriting is unsound *)
Definition w_nan_env : env := env_of [("x", VFloat FNaN); ("y", VFloat (FFin (Qmake 1 1)))] [].
Definition w_not_lt : expr := EUnary UNot (EParen (EBinary OLt (EIdent "x" TFloat) (EIdent "y" TFloat))).
Theorem float_flag_missed_refuted :
  exists en e, env_ok en /\ typeof e = Some TBool /\ has_floats e = true /\
    print_expr (simp false e) = "x >= y" /\
    eval en e = Some (RVal (VBool true), []) /\ eval en (simp false e) = Some (RVal (VBool false), []).
Proof. exists w_nan_env, w_not_lt. split; [apply env_of_ok|]. vm_compute. repeat split. Qed.
