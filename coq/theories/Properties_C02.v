(* Properties_C02.v — property C02: determinism. Statements only; each is closed by [exact]. *)
From GC Require Import Base Model_Inventory Model_Walk Model_Determ Proofs_Determ Review_MapSites.
From GCgen Require Import MapRangeSites StateInventory.
From GC Require Import Review_State.
From Coq Require Import Permutation.

(* the checker list handed to every front-end does not depend on the iteration order of the registry map:
   sorting by a key that is unique (checker names are: addChecker panics on a duplicate) is permutation invariant *)
Theorem C02_get_checkers_info_det : forall (A : Type) (key : A -> N) (reg order order' : list A),
  NoDup (map key reg) -> Permutation order reg -> Permutation order' reg ->
  get_checkers_info key order = get_checkers_info key order'.
Proof. exact @get_checkers_info_det. Qed.
Print Assumptions C02_get_checkers_info_det.

(* the pre-fix dupImport loop (kept as the model of what was repaired): the SET of warnings was deterministic ... *)
Theorem C02_dup_import_set_det : forall order order', Permutation order order' ->
  Permutation (dup_import_run order) (dup_import_run order').
Proof. exact dup_import_set_det. Qed.
Print Assumptions C02_dup_import_set_det.

(* ... their ORDER is not: two duplicate groups, two iteration orders, two different outputs *)
Theorem C02_dup_import_det_refuted :
  exists imps order order', Permutation order (dup_groups imps) /\ Permutation order' (dup_groups imps)
    /\ dup_import_run order <> dup_import_run order'.
Proof. exact dup_import_det_refuted. Qed.
Print Assumptions C02_dup_import_det_refuted.

(* the exact guard under which the unchanged checker is deterministic: at most one group emits *)
Theorem C02_dup_import_det_partial : forall order order', Permutation order order' ->
  length (filter (emits dup_block) order) <= 1 -> dup_import_run order = dup_import_run order'.
Proof. exact dup_import_det_partial. Qed.
Print Assumptions C02_dup_import_det_partial.

Theorem C02_import_shadow_det : forall id order order', Permutation order order' ->
  length (filter (fun e => String.eqb (snd e) id) order) <= 1 ->
  shadow_run id order = shadow_run id order'.
Proof. exact shadow_det. Qed.
Print Assumptions C02_import_shadow_det.

Theorem C02_fail_on_det : forall (P : Type) (holds : P -> bool) order order', Permutation order order' ->
  fail_on holds order = fail_on holds order'.
Proof. exact @fail_on_det. Qed.
Print Assumptions C02_fail_on_det.

(* any loop that emits while ranging and in which at most one entry emits is order independent *)
Theorem C02_range_emit_le1 : forall (E : Type) (body : E -> list warning) order order',
  Permutation order order' -> length (filter (emits body) order) <= 1 ->
  range_emit body order = range_emit body order'.
Proof. exact @range_emit_le1. Qed.
Print Assumptions C02_range_emit_le1.

(* ---- the sites that were only reviewed so far, as instances ---- *)
(* generic: ANY loop that appends while ranging and sorts the result by a key that is unique among the collected items *)
Theorem C02_collect_sort_det : forall (E A : Type) (key : A -> N) (f : E -> list A) order order',
  Permutation order order' -> NoDup (map key (flat_map f order)) ->
  collect_sort key f order = collect_sort key f order'.
Proof. exact @collect_sort_det. Qed.
Print Assumptions C02_collect_sort_det.

(* newErrorHandler: the supported-values text of the init error (map keys are distinct by construction) *)
Theorem C02_supported_values_det : forall order order', Permutation order order' -> NoDup order ->
  supported_values order = supported_values order'.
Proof. exact supported_values_det. Qed.
Print Assumptions C02_supported_values_det.

(* analyzer.go init / bindCheckerParams: the observable (sorted) flag listing *)
Theorem C02_register_flags_det : forall (V : Type) (order order' : list (N * V)), Permutation order order' -> NoDup (map fst order) ->
  register_flags order = register_flags order'.
Proof. exact @register_flags_det. Qed.
Print Assumptions C02_register_flags_det.

(* assignCheckerParams / newGocritic: every parameter cell ends up with the same value whatever the visiting order *)
Theorem C02_bind_params_det : forall (V : Type) (order order' : list (N * V)) m, Permutation order order' -> NoDup (map fst order) ->
  forall k, bind_params order m k = bind_params order' m k.
Proof. exact @bind_params_det. Qed.
Print Assumptions C02_bind_params_det.

(* addChecker: whether registration panics *)
Theorem C02_validate_params_det : forall (P : Type) (unsupported : P -> bool) order order', Permutation order order' ->
  validate_params unsupported order = validate_params unsupported order'.
Proof. intros P u o o' H. exact (fail_on_det u o o' H). Qed.
Print Assumptions C02_validate_params_det.

(* ---- obligations re-proved on every run over the regenerated inventory ---- *)
(* every order-sensitive site of the regenerated inventory is MODELLED (an instance above), not only reviewed ... *)
Eval vm_compute in (map m_key (filter (fun m => m_sensitive m && negb (let '(f, fn, _) := m_key m in
   existsb (fun e => let '(f', fn', _) := e in String.eqb f f' && String.eqb fn fn') modelled_map_sites)) map_range_sites)).
Theorem C02_map_sites_modelled :
  forallb (fun m => negb (m_sensitive m) || (let '(f, fn, _) := m_key m in
             existsb (fun e => let '(f', fn', _) := e in String.eqb f f' && String.eqb fn fn') modelled_map_sites)) map_range_sites = true.
Proof. vm_compute. reflexivity. Qed.
Print Assumptions C02_map_sites_modelled.
(* ... and every site whose loop body APPENDS is one of the append-then-sort sites for which C02_collect_sort_det is instantiated
   (getCheckersInfo: C02_get_checkers_info_det; newErrorHandler: C02_supported_values_det): a new append-in-range loop breaks this *)
Theorem C02_append_sites_sorted :
  forallb (fun m => let 'M _ f fn _ _ a _ _ _ := m in negb a || existsb (fun e => String.eqb f (fst e) && String.eqb fn (snd e)) sorted_after_range)
          map_range_sites = true.
Proof. vm_compute. reflexivity. Qed.
Print Assumptions C02_append_sites_sorted.

(* diagnostics for a broken obligation: order-sensitive map ranges that are not (exactly) reviewed *)
Eval vm_compute in (map m_key (filter (fun m => m_sensitive m && negb (site_reviewed reviewed_map_sites m)) map_range_sites)).
Theorem C02_map_sites_covered :
  forallb (fun m => negb (m_sensitive m) || site_reviewed reviewed_map_sites m) map_range_sites = true.
Proof. vm_compute. reflexivity. Qed.
Print Assumptions C02_map_sites_covered.

(* after repo_patches/c02-fix-dupImport.diff: the checker no longer ranges over the map while emitting
   (it visits the groups in order of first occurrence), so the emitting site is gone from the inventory ... *)
Theorem C02_dup_import_site_absent :
  existsb (fun m => let 'M _ f _ _ _ _ _ _ _ := m in String.eqb f "dupImports_checker.go") map_range_sites = false.
Proof. vm_compute. reflexivity. Qed.
Print Assumptions C02_dup_import_site_absent.

(* ... and the repaired checker takes no iteration-order oracle at all: its output is a function of the import list.
   It equals the unchanged checker's output under the source-order permutation, so the set of warnings is unchanged. *)
Theorem C02_dup_import_fixed_det : forall imps, dup_import_run_fixed imps = dup_import_run (dup_groups imps).
Proof. intros. exact eq_refl. Qed.
Print Assumptions C02_dup_import_fixed_det.

(* package-level variables of checkers/, checkers/internal/*, linter/ that function bodies write outside constructors are shared by
   every checker instance and every goroutine of a run (the CLI runs the checkers of a file in parallel): message texts built in
   such a variable differ from run to run. Every one must be reviewed (Review_State.v, pseudo-struct "package-level variables");
   the harness additionally enables the checkers that reach such a write together on a dense file (C02/cli/shared-package-variable) *)
Eval vm_compute in (unreviewed reviewed_state (filter (fun s => String.eqb (s_name s) "package-level variables") state_inventory)).
Theorem C02_package_level_state_reviewed :
  forallb (fun s => negb (String.eqb (s_name s) "package-level variables") || struct_reviewed reviewed_state s) state_inventory = true.
Proof. vm_compute. reflexivity. Qed.
Print Assumptions C02_package_level_state_reviewed.

Theorem C02_inventory_sane :
  (8 <=? N.of_nat (length map_range_sites))%N = true
  /\ existsb (fun m => let 'M _ f fn _ _ _ _ _ _ := m in String.eqb f "helpers.go" && String.eqb fn "getCheckersInfo") map_range_sites = true.
Proof. vm_compute. auto. Qed.
Print Assumptions C02_inventory_sane.

(* non-vacuity: the model reproduces the suite's own expectation for its 3-fold import, and explains both orders of two groups *)
Example C02_example_dup_import :
  dup_import_run (dup_groups [("""fmt""", 4); ("""fmt""", 8); ("""fmt""", 10)]%N)
  = [(4, "package is imported 3 times under different aliases on lines 4, 8 and 10");
     (8, "package is imported 3 times under different aliases on lines 4, 8 and 10");
     (10, "package is imported 3 times under different aliases on lines 4, 8 and 10")]%N
  /\ dup_import_explains refute_imports (dup_import_run (dup_groups refute_imports)) = true
  /\ dup_import_explains refute_imports (dup_import_run (rev (dup_groups refute_imports))) = true
  /\ dup_import_explains refute_imports (tl (dup_import_run (dup_groups refute_imports))) = false.
Proof. vm_compute. auto. Qed.
