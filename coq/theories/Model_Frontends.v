(* Model_Frontends.v — how the three front-ends obtain their checker set and render diagnostics:
   process start-up order (checkers/checkers.go init, checkers/embedded_rules.go InitEmbeddedRules,
   checkers/analyzer/analyzer.go registry snapshot), diagnostic conversion (analyzer/run.go:57-78,
   cmd/go-critic/check.go:175-184), package unit selection (pkgload.LoadPackages) versus the
   go/analysis driver's de-duplication. No proofs here. *)
From GC Require Export Base Model_IR.

(* ---- start-up as an event list ---- *)
Inductive event := InitHandwritten | InitEmbedded | Snapshot | BindFlags | RunIt.
Record proc := { registered : list string; snapshot : option (list string) }.
Definition p0 : proc := {| registered := []; snapshot := None |}.
Definition step (hw emb : list string) (p : proc) (e : event) : proc :=
  match e with
  | InitHandwritten => {| registered := (registered p ++ hw)%list; snapshot := snapshot p |}
  | InitEmbedded => {| registered := (registered p ++ emb)%list; snapshot := snapshot p |}
  | Snapshot => {| registered := registered p; snapshot := Some (registered p) |}
  | _ => p
  end.
Definition run_events (hw emb : list string) (es : list event) : proc := fold_left (step hw emb) es p0.
(* the CLI reads the registry when the check command runs; the analyzer uses its snapshot *)
Definition cli_main : list event := [InitHandwritten; InitEmbedded; BindFlags; RunIt].
Definition analysis_main : list event := [InitHandwritten; InitEmbedded; Snapshot; BindFlags; RunIt].
(* before the repair the snapshot was a package-level variable initialiser, evaluated before any
   explicit InitEmbeddedRules call could happen — and the analysis mains never made that call *)
Definition analysis_main_prefix : list event := [InitHandwritten; Snapshot; BindFlags; RunIt].
Definition offered_cli (hw emb : list string) : list string := registered (run_events hw emb cli_main).
Definition offered_analysis (hw emb : list string) (es : list event) : list string :=
  match snapshot (run_events hw emb es) with Some l => l | None => [] end.

(* ---- rendering ---- *)
Definition cli_line (loc checker text : string) : string := loc ++ ": " ++ checker ++ ": " ++ text.
Definition as_diag_msg (checker text : string) : string := checker ++ ": " ++ text.
Definition analysis_line (loc msg : string) : string := loc ++ ": " ++ msg.

Record quick_fix := { qf_from : Z; qf_to : Z; qf_text : string }.
Record text_edit := { te_pos : Z; te_end : Z; te_new : string }.
Definition as_edit (q : quick_fix) : text_edit := {| te_pos := qf_from q; te_end := qf_to q; te_new := qf_text q |}.

(* ---- which files are analysed, and how often ---- *)
(* a package unit as go/packages returns it with Tests: true *)
Record unit_pkgs := { u_base : list string;            (* files of p *)
                      u_test : option (list string);   (* files of p [p.test]: base files + in-package tests *)
                      u_xtest : option (list string) } (* files of p_test *).
(* pkgload.LoadPackages: external test, then the test variant if present, else the base package *)
Definition cli_selected_files (u : unit_pkgs) : list string :=
  (match u_xtest u with Some x => x | None => [] end ++
   match u_test u with Some t => t | None => u_base u end)%list.
(* the go/analysis driver analyses every variant and prints each distinct diagnostic once *)
Definition driver_files (u : unit_pkgs) : list string :=
  (u_base u ++ match u_test u with Some t => t | None => [] end ++
   match u_xtest u with Some x => x | None => [] end)%list.
Fixpoint dedup (l : list string) : list string :=
  match l with [] => [] | x :: r => if mem x r then dedup r else x :: dedup r end.

Definition wf_unit (u : unit_pkgs) : bool :=
  nodupb (u_base u)
  && match u_test u with Some t => nodupb t && forallb (fun f => mem f t) (u_base u) | None => true end
  && match u_xtest u with
     | Some x => nodupb x && forallb (fun f => negb (mem f (u_base u)) && negb (match u_test u with Some t => mem f t | None => false end)) x
     | None => true end.
