(* Properties_C15.v — property C15: the configured Go version bounds what is suggested. *)
From GC Require Import Base Model_Version Proofs_Version.
From GCgen Require Import RuleTable.
Open Scope Z_scope.

(* The gate table regenerated from the shipped rules and GOROOT/api is consistent: every std API a
   rule recommends is either older than Go 1.13 or covered by that rule's version gate. *)
Theorem C15_rule_table_ok : forallb entry_ok rule_table = true.
Proof. vm_compute. reflexivity. Qed.
Print Assumptions C15_rule_table_ok.

(* Hence, for EVERY definite target version V >= 1.13 and every rule that may fire at V, every API the
   rule recommends already exists in V.  (Unbounded in V.) *)
Theorem C15_no_future_api : forall r V,
  In r rule_table -> fst V <> 0 -> lex_le floor_version V = true -> gate_ok r V = true ->
  forall a, In a (r_recommends r) -> lex_le (snd a) V = true.
Proof. intros r V. apply (no_future_api rule_table r V C15_rule_table_ok). Qed.
Print Assumptions C15_no_future_api.

(* No version configured behaves like the newest version. *)
Theorem C15_gates_not_beyond_newest :
  forallb (fun r => match r_gate r with Some g => lex_le g newest_version | None => true end) rule_table = true.
Proof. vm_compute. reflexivity. Qed.
Print Assumptions C15_gates_not_beyond_newest.

(* every hand-written checker whose source reads the configured version has its gate in the regenerated table
   (a version read the translator cannot turn into a gate breaks this obligation instead of silently dropping the checker) *)
Eval vm_compute in filter (fun n => negb (existsb (fun e => String.eqb (r_group e) n) rule_table)) handwritten_version_readers.
Theorem C15_handwritten_gates_covered :
  forallb (fun n => existsb (fun e => String.eqb (r_group e) n && match r_gate e with Some _ => true | None => false end) rule_table)
          handwritten_version_readers = true.
Proof. vm_compute. reflexivity. Qed.
Print Assumptions C15_handwritten_gates_covered.

Theorem C15_unset_is_newest : forall r m, In r rule_table -> gate_ok r (0, m) = gate_ok r newest_version.
Proof.
  intros r m Hr. apply unset_is_newest; [vm_compute; discriminate|].
  exact (proj1 (forallb_forall _ _) C15_gates_not_beyond_newest r Hr).
Qed.
Print Assumptions C15_unset_is_newest.

(* Versions are compared numerically (lexicographically on major, minor), identically by the
   linter's own comparator and by the rule engine's. *)
Theorem C15_ge_is_lex : forall v w, fst v <> 0 -> ge v w = lex_le w v.
Proof. exact ge_is_lex. Qed.
Print Assumptions C15_ge_is_lex.
Theorem C15_engines_agree : forall v w, rg_ge v w = ge v w.
Proof. exact rg_ge_is_ge. Qed.
Print Assumptions C15_engines_agree.

(* Parsing: 'go' prefix is optional; an accepted string is exactly '<int>.<int>' (or empty). *)
Theorem C15_parse_go_prefix : forall s, has_prefix "go" s = false ->
  parse_go_version ("go" ++ s) = parse_go_version s.
Proof. exact parse_go_prefix. Qed.
Print Assumptions C15_parse_go_prefix.
Theorem C15_parse_shape : forall s v, parse_go_version s = Some v ->
  trim_prefix "go" s = "" /\ v = (0, 0)
  \/ exists a b, split_on "."%char (trim_prefix "go" s) = [a; b] /\ version_part a = Some (fst v) /\ version_part b = Some (snd v).
Proof. exact parse_shape. Qed.
Print Assumptions C15_parse_shape.
(* ... whose parts are unsigned decimal numbers: an accepted version has non-negative components and every
   part starts with a digit (no sign).  Before repository commit 43195e2 "1.-5" and "+1.+5" were accepted. *)
(* a version given on the command line never denotes "no constraint": only the empty request yields major 0, so a value such as
   0.7 cannot be taken for the latest version (repair of the parser; the routine before it is refuted below) *)
Theorem C15_named_version_is_a_constraint : forall s v, parse_go_version s = Some v -> fst v = 0 ->
  trim_prefix "go" s = "" /\ v = (0, 0).
Proof. exact parse_major_zero_only_unset. Qed.
Print Assumptions C15_named_version_is_a_constraint.
Theorem C15_zero_major_prefix_refuted :
  parse_go_version_zero_major_prefix "0.7" = Some (0, 7) /\ parse_go_version "0.7" = None /\ parse_go_version "go0.0" = None.
Proof. exact parse_zero_major_prefix_refuted. Qed.
Print Assumptions C15_zero_major_prefix_refuted.

Theorem C15_parse_nonneg : forall s v, parse_go_version s = Some v -> 0 <= fst v /\ 0 <= snd v.
Proof. exact parse_nonneg. Qed.
Print Assumptions C15_parse_nonneg.
Theorem C15_version_part_first_digit : forall a r n, version_part (String a r) = Some n -> exists d, digit_val a = Some d.
Proof. exact version_part_first_digit. Qed.
Print Assumptions C15_version_part_first_digit.
Theorem C15_parse_prefix_accepts_signs_refuted :
  parse_go_version_prefix "1.-5" = Some (1, -5) /\ parse_go_version_prefix "+1.+5" = Some (1, 5)
  /\ parse_go_version "1.-5" = None /\ parse_go_version "+1.+5" = None.
Proof. exact parse_prefix_accepts_signs_refuted. Qed.
Print Assumptions C15_parse_prefix_accepts_signs_refuted.

(* Plumbing: all three kinds of checkers consult the configured version ... *)
Theorem C15_plumbing : forall k v, run_version k v = v.
Proof. exact plumbing_all. Qed.
Print Assumptions C15_plumbing.
(* ... which was false of the dynamic-rules checker before the repair. *)
Theorem C15_plumbing_dynamic_prefix_refuted :
  exists v gate, run_version_prefix Dynamic v <> v /\ rg_ge (run_version_prefix Dynamic v) gate = true /\ rg_ge v gate = false.
Proof. exact plumbing_dynamic_prefix_refuted. Qed.
Print Assumptions C15_plumbing_dynamic_prefix_refuted.

Example C15_example_parse :
  parse_go_version "go1.17" = Some (1, 17) /\ parse_go_version "1.9" = Some (1, 9)
  /\ parse_go_version "1.x" = None /\ parse_go_version "" = Some (0, 0)
  /\ ge (1, 9) (1, 13) = false /\ ge (1, 21) (1, 13) = true.
Proof. vm_compute. auto 10. Qed.
