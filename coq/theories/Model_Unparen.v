(* Model_Unparen.v — typeUnparen's rewrite, concretely, on the node heap of Model_Heap.v (C05):
   checkType(e) = noParens := removeRedundantParens(astcopy.Expr(e)); warn iff !astequal(e, noParens).
   Node kinds are tags; children are laid out as the converter harness/internal/c05/unparen.go lays them out.
   This is what is EXECUTED on converted real type expressions and compared cell by cell with the real trees. No proofs here. *)
From GC Require Import Base Model_Walk Model_Heap.

Definition K_PAREN := 1%N.      (* kids [X] *)
Definition K_ARRAY := 2%N.      (* kids [Elt; Len?] *)
Definition K_STAR := 3%N.       (* kids [X] *)
Definition K_TASSERT := 4%N.    (* kids [Type; X] *)
Definition K_FUNC := 5%N.       (* kids [Params; Results?] — field lists *)
Definition K_FLIST := 6%N.      (* kids = fields *)
Definition K_FIELD := 7%N.      (* kids [Type; names...] *)
Definition K_MAP := 8%N.        (* kids [Key; Value] *)
Definition K_CHAN := 9%N.       (* chan T (both directions); 10 = chan<- T, 11 = <-chan T; kids [Value] *)
Definition is_chan (t : N) : bool := N.eqb t 9 || N.eqb t 10 || N.eqb t 11.
(* every other expression kind is a leaf for this checker: tag = 100 + its astequal class *)

Section Fields.
  Variable up : heap -> N -> heap * N.          (* removeRedundantParens on a sub-expression *)
  (* for _, field := range list.List { field.Type = up(field.Type) } *)
  Fixpoint up_fields (h : heap) (fs : list N) : heap :=
    match fs with
    | [] => h
    | fd :: r =>
        let h1 := match cells h fd with
                  | Some n => match kids n with
                              | t :: names => let '(h', t') := up h t in set_kids h' fd (t' :: names)
                              | [] => h
                              end
                  | None => h
                  end in
        up_fields h1 r
    end.
  Fixpoint up_lists (h : heap) (ls : list N) : heap :=
    match ls with
    | [] => h
    | fl :: r => up_lists (match cells h fl with Some n => up_fields h (kids n) | None => h end) r
    end.
End Fields.

Fixpoint unparen (fuel : nat) (h : heap) (id : N) : heap * N :=
  match fuel with
  | O => (h, id)
  | S f =>
      match cells h id with
      | None => (h, id)
      | Some n =>
          let t := tag n in
          if N.eqb t K_PAREN then
            match kids n with x :: _ => unparen f h x | [] => (h, id) end               (* return c.removeRedundantParens(e.X) *)
          else if N.eqb t K_ARRAY || N.eqb t K_STAR || N.eqb t K_TASSERT then
            match kids n with
            | x :: r => let '(h1, x') := unparen f h x in (set_kids h1 id (x' :: r), id)  (* e.Elt / e.X / e.Type = ... *)
            | [] => (h, id)
            end
          else if N.eqb t K_MAP then
            match kids n with
            | k :: v :: r => let '(h1, k') := unparen f h k in
                             let '(h2, v') := unparen f h1 v in (set_kids h2 id (k' :: v' :: r), id)
            | _ => (h, id)
            end
          else if N.eqb t K_FUNC then (up_lists (unparen f) h (kids n), id)
          else if is_chan t then
            match kids n with
            | v :: r =>
                let dflt := let '(h1, v') := unparen f h v in (set_kids h1 id (v' :: r), id) in
                match cells h v with
                | Some vn =>
                    if N.eqb (tag vn) K_PAREN then
                      match kids vn with
                      | x :: xr =>
                          match cells h x with
                          | Some xn =>
                              if is_chan (tag xn) && (negb (N.eqb (tag xn) K_CHAN) || negb (N.eqb t K_CHAN))
                              then let '(h1, x') := unparen f h x in (set_kids h1 v (x' :: xr), id)   (* valueWithParens.X = ...; return e *)
                              else dflt
                          | None => dflt
                          end
                      | [] => dflt
                      end
                    else dflt
                | None => dflt
                end
            | [] => (h, id)
            end
          else (h, id)
      end
  end.

(* checkType: the copy, the rewrite of the copy, and the root of the result *)
Definition run_unparen (fuel : nat) (h : heap) (root : N) : heap * N :=
  let '(h1, c) := copy fuel h root in unparen fuel h1 c.

(* ---- evaluation against a converted real expression ---- *)
Fixpoint vt_eqb (a b : vt) {struct a} : bool :=
  match a, b with
  | VNone, VNone => true
  | V t ks, V t' ks' =>
      N.eqb t t' && (fix go (l l' : list vt) : bool :=
                       match l, l' with [], [] => true | x :: r, y :: r' => vt_eqb x y && go r r' | _, _ => false end) ks ks'
  | _, _ => false
  end.
Definition node_eqb (a b : node) : bool := N.eqb (tag a) (tag b) && list_eqb N.eqb (kids a) (kids b).
Definition onode_eqb (a b : option node) : bool :=
  match a, b with Some x, Some y => node_eqb x y | None, None => true | _, _ => false end.
Definition heap_of (cs : list (N * node)) : heap :=
  {| cells := fun j => match find (fun c => N.eqb (fst c) j) cs with Some c => Some (snd c) | None => None end;
     next := N.of_nat (length cs) |}.

Record ucase := {
  u_before : list (N * node);      (* the real expression before Check: cell i = node i (pre-order ids 0..n-1), root = 0 *)
  u_after : list (N * node);       (* the SAME real expression converted again after the real Check *)
  u_warn : bool;                   (* the real checker reported at this expression *)
  u_sugg : option vt               (* the real suggestion (parsed back from the message), as a tree of kinds *)
}.
Definition ucase_ok (fuel : nat) (c : ucase) : bool :=
  let h := heap_of (u_before c) in
  let '(h2, r) := run_unparen fuel h 0 in
  (* the model's frame, evaluated: every original cell is unchanged after copy + rewrite *)
  forallb (fun p => onode_eqb (cells h2 (fst p)) (Some (snd p))) (u_before c)
  (* the real tree is unchanged cell by cell *)
  && list_eqb (fun a b => N.eqb (fst a) (fst b) && node_eqb (snd a) (snd b)) (u_before c) (u_after c)
  (* same decision ... *)
  && Bool.eqb (negb (vt_eqb (view fuel h2 r) (view fuel h 0))) (u_warn c)
  (* ... and the same rewritten structure *)
  && match u_sugg c with Some t => vt_eqb (view fuel h2 r) t | None => true end.
