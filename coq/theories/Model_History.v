(* Model_History.v — long-lived checker instances and their scratch-state discipline (C03).
   A checker is created once per run and then fed every file of every package. Each concrete
   model below mirrors WHERE the real checker resets / overwrites its scratch fields
   (see gen/StateInventory.v for the regenerated list of fields and write sites). No proofs here. *)
From GC Require Import Base Model_Walk.
From Coq Require Import DecimalString.

(* ---- the run of a long-lived checker over a history ---- *)
Section LongLived.
  Context {C F S : Type}.
  Variable scratch0 : S.                               (* state right after NewChecker *)
  Variable run : C -> S -> F -> S * list warning.      (* SetPackageInfo/SetFileInfo (the C) + Check *)

  Definition after_history (h : list (C * F)) : S :=
    fold_left (fun s cf => fst (run (fst cf) s (snd cf))) h scratch0.
  Definition result_after (h : list (C * F)) (c : C) (f : F) : list warning := snd (run c (after_history h) f).
  Definition result_fresh (c : C) (f : F) : list warning := snd (run c scratch0 f).

  (* what the CLI prints for a whole history with ONE instance *)
  Fixpoint cli_from (s : S) (h : list (C * F)) : list warning :=
    match h with
    | [] => []
    | cf :: r => let (s1, w) := run (fst cf) s (snd cf) in (w ++ cli_from s1 r)%list
    end.
  Definition cli_run (h : list (C * F)) : list warning := cli_from scratch0 h.

  (* the same run, visit by visit: what ONE instance returns from each Check of the history *)
  Fixpoint visits_from (s : S) (h : list (C * F)) : list (list warning) :=
    match h with
    | [] => []
    | cf :: r => let (s1, w) := run (fst cf) s (snd cf) in w :: visits_from s1 r
    end.
  Definition visits (h : list (C * F)) : list (list warning) := visits_from scratch0 h.
End LongLived.

(* ---- 1. linter.Checker: the warning buffer is truncated at the start of every Check ---- *)
Section Wrapper.
  Context {C F S : Type}.
  Variable walk_file : C -> S -> F -> S * list warning.
  Definition check (c : C) (bs : list warning * S) (f : F) : (list warning * S) * list warning :=
    let buf := @nil warning in                        (* c.ctx.warnings = c.ctx.warnings[:0] *)
    let (s', ws) := walk_file c (snd bs) f in
    let buf' := (buf ++ ws)%list in ((buf', s'), buf').
  (* the seeded defect: truncation deleted *)
  Definition check_no_truncate (c : C) (bs : list warning * S) (f : F) : (list warning * S) * list warning :=
    let buf := fst bs in
    let (s', ws) := walk_file c (snd bs) f in
    let buf' := (buf ++ ws)%list in ((buf', s'), buf').
End Wrapper.

(* ---- 2. WalkHandler.SkipChilds: one-shot flag, consumed by the walker right after each visit ---- *)
(* state = the flag. VisitExpr sets it on a hit; skipChilds() returns it and clears it. *)
Definition walk_kids (wt : bool -> tree -> bool * list warning) : bool -> list tree -> bool * list warning :=
  fix go (fl : bool) (l : list tree) : bool * list warning :=
    match l with
    | [] => (fl, [])
    | k :: r => let (f1, w1) := wt fl k in let (f2, w2) := go f1 r in (f2, (w1 ++ w2)%list)
    end.
Fixpoint walk_tree (flag : bool) (t : tree) {struct t} : bool * list warning :=
  match t with
  | T p hit kids =>
      let ws := if hit then [(p, "can simplify")] else [] in
      if flag || hit then (false, ws)                      (* v := SkipChilds; SkipChilds = false; return !v *)
      else let '(f, w) := walk_kids walk_tree false kids in (f, (ws ++ w)%list)
  end.
(* the seeded defect: skipChilds() no longer clears the flag *)
Fixpoint walk_tree_noreset (flag : bool) (t : tree) {struct t} : bool * list warning :=
  match t with
  | T p hit kids =>
      let ws := if hit then [(p, "can simplify")] else [] in
      if flag || hit then (true, ws)
      else let '(f, w) := walk_kids walk_tree_noreset false kids in (f, (ws ++ w)%list)
  end.
Definition sk_visit (wt : bool -> tree -> bool * list warning) (fl : bool) (s : stmt) : bool * list warning :=
  match s with SExpr t => wt fl t | _ => (fl, []) end.
Definition sk_on_decl := stmt_on_decl (fun fl : bool => fl) (sk_visit walk_tree).
Definition sk_on_decl_noreset := stmt_on_decl (fun fl : bool => fl) (sk_visit walk_tree_noreset).
Definition sk_run (_ : unit) (fl : bool) (f : file) := walk sk_on_decl fl f.

(* ---- 3. ifElseChain: visited (reset in EnterFunc), cause (assigned before use) ---- *)
Fixpoint memN (x : N) (l : list N) : bool := match l with [] => false | y :: r => N.eqb x y || memN x r end.
Record iec := { iec_cause : N; iec_visited : list N }.
Fixpoint count_ifelse (cur : link) (rest : list link) (eb : bool) (vis : list N) (count : N) : N * list N :=
  if l_init cur then (0%N, vis) else
  match rest with
  | e :: rest' => count_ifelse e rest' eb (l_id e :: vis) (count + 1)
  | [] => if eb then ((count + 1)%N, vis) else (count, vis)
  end.
(* VisitStmt(stmt): if c.visited[stmt] { return }; c.cause = stmt; c.checkIfStmt(stmt) -- for the IfStmt at the head of [ls] *)
Definition iec_head (thr : N) (s : iec) (ls : list link) (eb : bool) : iec * list warning :=
  match ls with
  | [] => (s, [])
  | cur :: rest =>
      if memN (l_id cur) (iec_visited s) then (s, [])
      else let '(n, vis) := count_ifelse cur rest eb (iec_visited s) 0 in
           let s' := {| iec_cause := l_pos cur; iec_visited := vis |} in
           (s', if (thr <=? n)%N then [(iec_cause s', "rewrite if-else to switch statement")] else [])
  end.
Definition iec_visit (thr : N) (s : iec) (x : stmt) : iec * list warning :=
  match x with SIfChain ls eb => iec_head thr s ls eb | _ => (s, []) end.
Definition iec_enter (s : iec) : iec := {| iec_cause := iec_cause s; iec_visited := [] |}.   (* c.visited = make(...) *)
Definition iec_on_decl (thr : N) := stmt_on_decl iec_enter (iec_visit thr).
Definition iec_run (thr : N) (s : iec) (f : file) := walk (iec_on_decl thr) s f.

(* ---- 4. typeAssertChain: visited (EnterFunc), typeSet (Clear in countTypeAssertions), cause ---- *)
Record tac := { tac_cause : N; tac_visited : list N; tac_types : list shape }.
(* countTypeAssertions after the first link: 0 on a duplicated type AND on a mixed chain (different asserted operand) *)
Fixpoint count_asserts (x : shape) (rest : list link) (vis : list N) (types : list shape) (count : N) : N * list N * list shape :=
  match rest with
  | [] => (count, vis, types)
  | e :: rest' =>
      match l_assert e with
      | None => (count, vis, types)
      | Some (x', ty) =>
          if memN ty types then (0%N, vis, types)
          else if negb (N.eqb x x') then (0%N, vis, (types ++ [ty])%list)
          else count_asserts x rest' (l_id e :: vis) (types ++ [ty])%list (count + 1)
      end
  end.
(* VisitStmt for the IfStmt at the head of [ls]; l_assert = getTypeAssert(ifstmt) (Some only when Init is `v, ok := x.(T)` and Cond is ok) *)
Definition tac_head (s : tac) (ls : list link) : tac * list warning :=
  match ls with
  | [] => (s, [])
  | cur :: rest =>
      if memN (l_id cur) (tac_visited s) || negb (l_init cur) then (s, [])
      else match l_assert cur with
           | None => (s, [])
           | Some (x, ty) =>
               let '(n, vis, tys) := count_asserts x rest (tac_visited s) [ty] 1 in   (* typeSet.Clear(); Insert(first) *)
               let s' := {| tac_cause := l_pos cur; tac_visited := vis; tac_types := tys |} in
               (s', if (2 <=? n)%N then [(tac_cause s', "rewrite if-else to type switch statement")] else [])
           end
  end.
Definition tac_visit (s : tac) (x : stmt) : tac * list warning :=
  match x with SIfChain ls _ => tac_head s ls | _ => (s, []) end.
Definition tac_enter (s : tac) : tac := {| tac_cause := tac_cause s; tac_visited := []; tac_types := tac_types s |}.
Definition tac_on_decl := stmt_on_decl tac_enter tac_visit.
Definition tac_run (_ : unit) (s : tac) (f : file) := walk tac_on_decl s f.

(* ---- 5. dupCase / mapKey: astSet cleared at the start of every inspected statement ---- *)
Fixpoint dup_scan (text : string) (set : list shape) (cs : list (N * shape)) : list shape * list warning :=
  match cs with
  | [] => (set, [])
  | (p, e) :: r =>
      if memN e set then let '(s2, w2) := dup_scan text set r in (s2, (p, text) :: w2)
      else dup_scan text (set ++ [e])%list r
  end.
Definition dc_visit (set : list shape) (x : stmt) : list shape * list warning :=
  match x with SSwitch _ cs => dup_scan "case is duplicated" [] cs | _ => (set, []) end.       (* c.astSet.Clear() *)
Definition dc_visit_noclear (set : list shape) (x : stmt) : list shape * list warning :=
  match x with SSwitch _ cs => dup_scan "case is duplicated" set cs | _ => (set, []) end.      (* seeded defect *)
(* checkWhitespace (stateless, at most one warning) then checkDuplicates (astSet.Clear() first) *)
Definition mk_visit (set : list shape) (x : stmt) : list shape * list warning :=
  match x with
  | SLit _ ws ks =>
      let w0 := match ws with Some p => [(p, "suspicious whitespace key")] | None => [] end in
      let '(s1, w1) := dup_scan "suspicious duplicate key" [] ks in (s1, (w0 ++ w1)%list)
  | _ => (set, [])
  end.
Definition dc_on_decl := stmt_on_decl (fun s : list shape => s) dc_visit.
Definition dc_on_decl_noclear := stmt_on_decl (fun s : list shape => s) dc_visit_noclear.
Definition mk_on_decl := expr_on_decl (fun s : list shape => s) mk_visit.      (* WalkerForExpr: every declaration *)
Definition dc_run (_ : unit) (s : list shape) (f : file) := walk dc_on_decl s f.
Definition mk_run (_ : unit) (s : list shape) (f : file) := walk mk_on_decl s f.

(* ---- 6. typeSwitchVar: count reset at every type switch ---- *)
Definition dec (n : N) : string := NilEmpty.string_of_uint (N.to_uint n).      (* %d *)
Definition count_true (l : list bool) : N := N.of_nat (length (filter (fun b => b) l)).
Definition tsv_visit (count : N) (x : stmt) : N * list warning :=
  match x with
  | STypeSwitch p guarded hits =>
      let c0 := 0%N in                                      (* c.count = 0 *)
      if guarded then (c0, [])
      else let c1 := (c0 + count_true hits)%N in
           (c1, if (0 <? c1)%N then [(p, dec c1 ++ (if (1 <? c1)%N then " cases can benefit from type switch with assignment"
                                                     else " case can benefit from type switch with assignment"))] else [])
  | _ => (count, [])
  end.
Definition tsv_on_decl := stmt_on_decl (fun c : N => c) tsv_visit.
Definition tsv_run (_ : unit) (s : N) (f : file) := walk tsv_on_decl s f.

(* ---- 7. typeDefFirst: trackedTypes reset once per FILE (file-level subject: exempt from C13) ---- *)
Definition tdf_decl (tracked : list string) (d : decl) : list string * list warning :=
  match d with
  | DFunc _ _ (Some r) _ _ => (r :: tracked, [])
  | DType p ns => (tracked, flat_map (fun n => if mem n tracked then [(p, "definition of type '" ++ n ++ "' should appear before its methods")] else []) ns)
  | _ => (tracked, [])
  end.
Definition tdf_run (_ : unit) (tracked : list string) (f : file) : list string * list warning :=
  match f with
  | [] => (tracked, [])                                     (* len(f.Decls) == 0: return *)
  | _ => walk tdf_decl [] f                                 (* c.trackedTypes = make(map[string]bool) *)
  end.

(* ---- 8. commentedOutCode: fn assigned in EnterFunc before any local comment is visited ---- *)
Definition coc_on_decl (fn_is_example : bool) (d : decl) : bool * list warning :=
  match d with
  | DFunc _ ex _ body cs =>
      let fn := ex in                                       (* c.fn = fn *)
      match body with
      | None => (fn, [])                                    (* EnterFunc returns fn.Body != nil *)
      | Some _ => (fn, flat_map (fun c => if c_code c && negb (fn && c_output c)
                                          then [(c_pos c, "may want to remove commented-out code")] else []) cs)
      end
  | _ => (fn_is_example, [])
  end.
Definition coc_run (_ : unit) (s : bool) (f : file) := walk coc_on_decl s f.
