(* Model_Heap.v — syntax trees as a node heap (C05). Nodes have identities; a checker may read everything,
   allocate fresh nodes, deep-copy (the astcopy package) and write fields. "Read-only input" = every cell that was
   allocated before the checker ran is unchanged afterwards (frame law). No proofs here. *)
From GC Require Import Base Model_Walk.

Record node := { tag : N; kids : list N }.      (* tag: kind + token/operator/literal; kids: child pointers *)
Record heap := { cells : N -> option node; next : N }.    (* ids < next are allocated *)

Definition upd (c : N -> option node) (id : N) (n : node) : N -> option node :=
  fun j => if N.eqb j id then Some n else c j.

Definition alloc (h : heap) (n : node) : heap * N :=
  ({| cells := upd (cells h) (next h) n; next := next h + 1 |}, next h).
Definition write (h : heap) (id : N) (n : node) : heap := {| cells := upd (cells h) id n; next := next h |}.
Definition set_tag (h : heap) (id : N) (t : N) : heap :=
  match cells h id with Some n => write h id {| tag := t; kids := kids n |} | None => h end.
Definition set_kids (h : heap) (id : N) (ks : list N) : heap :=
  match cells h id with Some n => write h id {| tag := tag n; kids := ks |} | None => h end.

(* astcopy.X: a deep copy into fresh ids (the root is always fresh; fuel bounds the depth that is copied,
   deeper levels are shared — astcopy copies everything, fuel = tree height gives that) *)
Fixpoint copy (fuel : nat) (h : heap) (id : N) : heap * N :=
  match cells h id with
  | None => (h, id)
  | Some n =>
      match fuel with
      | O => alloc h n
      | S f =>
          let '(h1, ks) :=
            (fix go (h : heap) (l : list N) : heap * list N :=
               match l with
               | [] => (h, [])
               | k :: r => let '(h1, k') := copy f h k in let '(h2, r') := go h1 r in (h2, k' :: r')
               end) h (kids n) in
          alloc h1 {| tag := tag n; kids := ks |}
      end
  end.

(* frame: everything allocated in h is unchanged in h' *)
Definition frame (h h' : heap) : Prop :=
  (next h <= next h')%N /\ forall id, (id < next h)%N -> cells h' id = cells h id.

(* well-formed: allocated cells point to allocated cells, nothing lives beyond next *)
Definition wf_heap (h : heap) : Prop :=
  (forall id, (next h <= id)%N -> cells h id = None) /\
  (forall id n, cells h id = Some n -> Forall (fun k => (k < next h)%N) (kids n)).

(* what a read-only observer can see from a root *)
Inductive vt := VNone | V (t : N) (ks : list vt).
Fixpoint view (fuel : nat) (h : heap) (id : N) : vt :=
  match fuel with
  | O => VNone
  | S f => match cells h id with None => VNone | Some n => V (tag n) (map (view f h) (kids n)) end
  end.

(* ---- the rewriting checkers, at the granularity of "where they copy, where they write" ---- *)
Definition flip (t : N) : N := (t + 1)%N.

(* boolExprSimplify: y := simplify(astcopy.Expr(x)) — cursor.Replace and Op writes hit the copy *)
Definition run_boolExprSimplify (fuel : nat) (h : heap) (root : N) : heap * list warning :=
  let '(h1, c) := copy fuel h root in
  let h2 := set_tag h1 c (flip (match cells h1 c with Some n => tag n | None => 0%N end)) in
  (h2, [(root, "can simplify")]).
(* seeded defect: the copy is dropped *)
Definition run_boolExprSimplify_nocopy (h : heap) (root : N) : heap * list warning :=
  (set_tag h root (flip (match cells h root with Some n => tag n | None => 0%N end)), [(root, "can simplify")]).

(* typeUnparen: noParens := removeRedundantParens(astcopy.Expr(e)) — field writes re-point the copy's children *)
Definition run_typeUnparen (fuel : nat) (h : heap) (root : N) : heap * list warning :=
  let '(h1, c) := copy fuel h root in
  let grand := match cells h1 c with
               | Some n => flat_map (fun k => match cells h1 k with Some kn => kids kn | None => [k] end) (kids n)
               | None => [] end in
  (set_kids h1 c grand, [(root, "could simplify")]).

(* badCond: suggest := astcopy.BinaryExpr(cond); suggest.Op = ... *)
Definition run_badCond (fuel : nat) (h : heap) (root : N) : heap * list warning :=
  let '(h1, c) := copy fuel h root in (set_tag h1 c 7, [(root, "suspicious condition")]).

(* sloppyReassign: suggest := astcopy.AssignStmt(assign); suggest.Tok = token.DEFINE *)
Definition run_sloppyReassign (fuel : nat) (h : heap) (root : N) : heap * list warning :=
  let '(h1, c) := copy fuel h root in (set_tag h1 c 47, [(root, "re-assignment can be replaced with :=")]).

(* methodExprCall: selector := astcopy.SelectorExpr(s); selector.X = <an ORIGINAL argument node> (aliasing, no write to it) *)
Definition run_methodExprCall (fuel : nat) (h : heap) (root arg : N) : heap * list warning :=
  let '(h1, c) := copy fuel h root in (set_kids h1 c [arg], [(root, "consider to change to method call")]).

(* evalOrder / paramTypeCombine: fresh nodes whose children alias originals, then writes to the fresh nodes *)
Definition run_freshAlias (h : heap) (root : N) : heap * list warning :=
  let '(h1, u) := alloc h {| tag := 3; kids := [] |} in
  (set_kids h1 u [root], [(root, "may want to evaluate first")]).

(* shallow copy: `x := *node; x.Op = ..; use &x` — a fresh cell with the SAME child pointers, then a top-level field write *)
Definition run_shallowCopy (h : heap) (root : N) : heap * list warning :=
  match cells h root with
  | Some n => let '(h1, c) := alloc h n in (set_tag h1 c 7, [(root, "suggestion built on a shallow copy")])
  | None => (h, [])
  end.
(* ... and a top-level re-pointing of a child of the copy (selector := *s; selector.X = arg) *)
Definition run_shallowCopy_repoint (h : heap) (root arg : N) : heap * list warning :=
  match cells h root with
  | Some n => let '(h1, c) := alloc h n in (set_kids h1 c [arg], [(root, "suggestion built on a shallow copy")])
  | None => (h, [])
  end.
(* the unsound variant: a write THROUGH a shared child pointer of the shallow copy (x.X.( *ast.Ident).Name = .., x.List[0] = ..) *)
Definition run_shallowCopy_through (h : heap) (root : N) : heap * list warning :=
  match cells h root with
  | Some n => let '(h1, c) := alloc h n in
              (match kids n with k :: _ => set_tag h1 k 7 | [] => h1 end, [(root, "suggestion built on a shallow copy")])
  | None => (h, [])
  end.

(* a read-only checker: its diagnostics are a function of what it can see from the root *)
Definition run_readonly (g : vt -> list warning) (fuel : nat) (h : heap) (root : N) : heap * list warning :=
  (h, g (view fuel h root)).
