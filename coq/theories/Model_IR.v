(* Model_IR.v — generic trees for whole-artefact equalities (the ruleguard IR), documentation
   records, and their decidable equalities. *)
From GC Require Export Base.

Inductive sx := SA (s : string) | SL (l : list sx).

Fixpoint sx_eqb (a b : sx) : bool :=
  match a, b with
  | SA x, SA y => String.eqb x y
  | SL l, SL m =>
      (fix go (l m : list sx) : bool :=
         match l, m with
         | [], [] => true
         | x :: l', y :: m' => sx_eqb x y && go l' m'
         | _, _ => false
         end) l m
  | _, _ => false
  end.

Fixpoint sx_size (a : sx) : N :=
  match a with
  | SA _ => 1
  | SL l => N.succ (fold_right (fun x n => (sx_size x + n)%N) 0%N l)
  end.

Record doc_entry := { d_name : string; d_tags : list string; d_summary : string;
                      d_before : string; d_after : string; d_note : string }.

(* AddChecker trims the documentation fields of every registered info (linter/helpers.go) *)
Definition trim_docs (d : doc_entry) : doc_entry :=
  {| d_name := d_name d; d_tags := d_tags d; d_summary := trim_space (d_summary d);
     d_before := trim_space (d_before d); d_after := trim_space (d_after d); d_note := trim_space (d_note d) |}.

Definition doc_eqb (a b : doc_entry) : bool :=
  String.eqb (d_name a) (d_name b) && list_eqb String.eqb (d_tags a) (d_tags b)
  && String.eqb (d_summary a) (d_summary b) && String.eqb (d_before a) (d_before b)
  && String.eqb (d_after a) (d_after b) && String.eqb (d_note a) (d_note b).

Fixpoint find_doc (n : string) (l : list doc_entry) : option doc_entry :=
  match l with [] => None | d :: r => if String.eqb (d_name d) n then Some d else find_doc n r end.

Fixpoint nodupb (l : list string) : bool :=
  match l with [] => true | x :: r => negb (mem x r) && nodupb r end.

(* embedded_rules.go: every group becomes one checker with the group's name, tags and docs *)
Definition groups_are_checkers (groups registry : list doc_entry) (embedded : list string) : bool :=
  nodupb (map d_name groups)
  && forallb (fun g => match find_doc (d_name g) registry with
                       | Some c => doc_eqb (trim_docs g) c && mem (d_name g) embedded
                       | None => false end) groups
  && forallb (fun n => mem n (map d_name groups)) embedded.

Fixpoint sorted_strict (l : list string) : bool :=
  match l with
  | x :: ((y :: _) as r) => String.ltb x y && sorted_strict r
  | _ => true
  end.

Fixpoint ins_s (x : string) (l : list string) : list string :=
  match l with [] => [x] | y :: r => if String.leb x y then x :: l else y :: ins_s x r end.
Definition sort_strs (l : list string) : list string := fold_right ins_s [] l.
