(* Model_Edit.v — what applying a quick fix does to a file (analysis.TextEdit semantics used by
   editors and by checkers/analyzer/run.go:63-76), the commentFormatting decision and fix
   (checkers/commentFormatting_checker.go:60-122), and the table of Suggest templates. No proofs. *)
From GC Require Export Base Model_Cli.

Fixpoint take (n : nat) (s : string) : string :=
  match n with
  | O => EmptyString
  | S n' => match s with EmptyString => EmptyString | String a r => String a (take n' r) end
  end.

(* replace bytes [from, to) of src by repl *)
Definition apply_edit (src : string) (from to : nat) (repl : string) : string :=
  take from src ++ repl ++ drop to src.

(* where byte offset p of the original file lands in the edited file: offsets before the range stay,
   offsets at or behind its end move by the length difference, offsets inside have no image *)
Definition map_pos (from to repl_len p : nat) : option nat :=
  if Nat.ltb p from then Some p
  else if Nat.leb to p then Some (from + repl_len + (p - to))
  else None.

(* ---- commentFormatting on one line comment (ASCII case folding) ---- *)
Definition lower (a : ascii) : ascii :=
  let n := N_of_ascii a in if (N.leb 65 n && N.leb n 90)%bool then ascii_of_N (n + 32) else a.
Fixpoint fold_prefix (p s : string) : bool :=   (* strings.EqualFold(s[:len(p)], p) *)
  match p with
  | EmptyString => true
  | String a p' => match s with
                   | EmptyString => false
                   | String b s' => Ascii.eqb (lower a) (lower b) && fold_prefix p' s'
                   end
  end.
Definition fold_equal (p s : string) : bool := fold_prefix p s && Nat.eqb (String.length p) (String.length s).

Definition part_patterns : list string :=
  ["//go:generate "; "//line /"; "//nolint "; "//noinspection "; "//region"; "//endregion";
   "//<editor-fold"; "//</editor-fold>"; "//export "; "///"; "//+"; "//#"; "//-"; "//!"].

Definition is_word (a : ascii) : bool :=
  let n := N_of_ascii a in
  ((N.leb 48 n && N.leb n 57) || (N.leb 65 n && N.leb n 90) || (N.leb 97 n && N.leb n 122) || N.eqb n 95)%bool.
(* ^//[\w-]+:.*$ on a one-line text *)
Fixpoint key_colon (s : string) (seen : bool) : bool :=
  match s with
  | EmptyString => false
  | String a r => if (is_word a || Ascii.eqb a "-")%bool then key_colon r true
                  else if Ascii.eqb a ":" then seen else false
  end.
Definition pragma_like (text : string) : bool := has_prefix "//" text && key_colon (drop 2 text) false.

Definition cf_skipped (text : string) : bool :=
  Nat.leb (String.length text) 3
  || existsb (fun p => Nat.leb (String.length p) (String.length text) && fold_prefix p text) part_patterns
  || fold_equal "//nolint" text
  || pragma_like text.

Definition special_char (a : ascii) : bool :=
  (Ascii.eqb a "+" || Ascii.eqb a "-" || Ascii.eqb a "#" || Ascii.eqb a "!")%bool.

(* does the checker report this comment (it then stops looking at the rest of the group) *)
Definition cf_reports (text : string) : bool :=
  negb (cf_skipped text) &&
  match drop 2 text with
  | EmptyString => false
  | String a _ => negb (special_char a) && negb (is_space a)
  end.

(* the fix: strings.Replace(text, "//", "// ", 1) over the comment's extent *)
Definition cf_fix (text : string) : string := replace_first "//" "// " text.

(* ---- Suggest templates (instantiated by gen/SuggestTable.v) ---- *)
Record suggest_entry := {
  s_group : string; s_line : Z;
  s_template : string;
  s_dropped_wildcards : list string;   (* $*name runs that occur in a pattern but not in the template *)
  s_has_placeholder : bool              (* the template contains a literal "..." *)
}.
Definition suggest_ok (e : suggest_entry) : bool :=
  match s_dropped_wildcards e with [] => negb (s_has_placeholder e) | _ => false end.
