(* Proofs_Witnesses.v — refutations on the current tree: well-formed model files (converted from
   corpus/stress/w_* and ns_*, see Witnesses.v) on which a modelled checker panics, prints a broken message,
   or reports a namesake. Evaluated by vm_compute. *)
From GC Require Import Base GoAst Model_Checkers Witnesses.

Ltac refute_panic w := exists w; split; [vm_compute; reflexivity|eexists; vm_compute; reflexivity].

Lemma appendCombine_refuted : exists f, wf f = true /\ exists s, run_appendCombine f = Panic s.
Proof. refute_panic w_append_zero. Qed.
Lemma appendAssign_refuted : exists f, wf f = true /\ exists s, run_appendAssign f = Panic s.
Proof. refute_panic w_append_zero. Qed.
Lemma newDeref_refuted : exists f, wf f = true /\ exists s, run_newDeref f = Panic s.
Proof. refute_panic w_new_zero. Qed.
Lemma typeDefFirst_refuted : exists f, wf f = true /\ exists s, run_typeDefFirst f = Panic s.
Proof. refute_panic w_paren_recv. Qed.
Lemma sortSlice_refuted : exists f, wf f = true /\ exists s, run_sortSlice f = Panic s.
Proof. refute_panic w_bare_return. Qed.
Lemma evalOrder_refuted : exists f, wf f = true /\ exists s, run_evalOrder f = Panic s.
Proof. refute_panic w_funcfield. Qed.
Lemma dupOption_refuted : exists f, wf f = true /\ exists s, run_dupOption f = Panic s.
Proof. refute_panic w_forward_variadic. Qed.
Lemma flagName_refuted : exists f, wf f = true /\ exists s, run_flagName f = Panic s.
Proof. refute_panic w_flag_forward. Qed.
Lemma badRegexp_refuted : exists f, wf f = true /\ exists s, run_badRegexp_entry f = Panic s.
Proof. refute_panic w_regexp_zero. Qed.
Lemma regexpPattern_refuted : exists f, wf f = true /\ exists s, run_regexpPattern_entry f = Panic s.
Proof. refute_panic w_regexp_zero. Qed.
Lemma regexpSimplify_refuted : exists f, wf f = true /\ exists s, run_regexpSimplify_entry f = Panic s.
Proof. refute_panic w_regexp_zero. Qed.

(* the crashes rooted in a namesake: the witness violates "no identifier spelled like the builtin denotes something else" *)
Lemma append_crash_witness_is_namesake : forallb (g_no_namesake_bare "append") (all_nodes w_append_zero) = false.
Proof. vm_compute. reflexivity. Qed.
Lemma new_crash_witness_is_namesake : forallb (g_no_namesake_bare "new") (all_nodes w_new_zero) = false.
Proof. vm_compute. reflexivity. Qed.
Lemma regexp_crash_witness_is_namesake : forallb (g_no_namesake_qual "regexp" "regexp") (all_nodes w_regexp_zero) = false.
Proof. vm_compute. reflexivity. Qed.

(* C07: message with a nil node argument *)
Lemma newDeref_render_refuted :
  exists f, wf f = true /\ exists w, In w (warnings (run_newDeref f)) /\ w_render_ok w = false.
Proof. exists w_new_nolit. split; [vm_compute; reflexivity|]. eexists. split; [vm_compute; left; reflexivity|reflexivity]. Qed.

(* C20: diagnostics about namesakes *)
Ltac refute_real w := exists w; split; [vm_compute; reflexivity|]; eexists; split; [vm_compute; left; reflexivity|vm_compute; reflexivity].

Lemma newDeref_real_refuted : exists f, wf f = true /\ exists w, In w (warnings (run_newDeref f)) /\ is_real w = false.
Proof. refute_real ns_new_pkgfunc_same. Qed.
Lemma appendAssign_real_refuted : exists f, wf f = true /\ exists w, In w (warnings (run_appendAssign f)) /\ is_real w = false.
Proof. refute_real ns_append_pkgfunc_same. Qed.
Lemma appendCombine_real_refuted : exists f, wf f = true /\ exists w, In w (warnings (run_appendCombine f)) /\ is_real w = false.
Proof. refute_real ns_append_pkgfunc_same. Qed.
Lemma rangeAppendAll_real_refuted : exists f, wf f = true /\ exists w, In w (warnings (run_rangeAppendAll f)) /\ is_real w = false.
Proof. refute_real ns_append_pkgfunc_same. Qed.
Lemma sortSlice_real_refuted : exists f, wf f = true /\ exists w, In w (warnings (run_sortSlice f)) /\ is_real w = false.
Proof. refute_real ns_sort_local. Qed.
Lemma filepathJoin_real_refuted : exists f, wf f = true /\ exists w, In w (warnings (run_filepathJoin f)) /\ is_real w = false.
Proof. refute_real ns_filepath_alias. Qed.

(* flagName consults the object: on a file full of `flag` namesakes it reports nothing *)
Lemma flagName_silent_on_namesakes : wf ns_flag_pkgvar = true /\ run_flagName ns_flag_pkgvar = Ok [].
Proof. split; vm_compute; reflexivity. Qed.

(* hypotheses of the partial theorems are satisfiable: a well-formed file on which every guard holds and warnings are produced *)
Lemma guards_satisfiable :
  wf ns_filepath_alias = true /\
  forallb g_append_args (all_nodes ns_filepath_alias) = true /\
  forallb g_new_args (all_nodes ns_filepath_alias) = true /\
  forallb g_variadic_fixed_args (all_nodes ns_filepath_alias) = true /\
  forallb g_flagvar_two_args (all_nodes ns_filepath_alias) = true /\
  forallb g_lit_returns_value (all_nodes ns_filepath_alias) = true /\
  forallb g_return_calls_methods (all_nodes ns_filepath_alias) = true /\
  forallb g_recv_plain (decls ns_filepath_alias) = true.
Proof. repeat split; vm_compute; reflexivity. Qed.
