(* Proofs_Witnesses.v — evaluations on converted real files (Witnesses.v, from the w_ and ns_ packages of corpus/stress):
   (a) documentation of the fixed crashes: the explicitly named PRE-FIX definitions (Model_Checkers_Prefix.v)
       panic on well-formed witnesses, the current definitions return Ok on the same files;
   (b) C20: well-formed namesake witnesses on which spelling-based checkers still report. *)
From GC Require Import Base GoAst Model_Checkers Model_Checkers_Prefix Model_Checkers2 Witnesses.

Ltac refute_panic w := exists w; split; [vm_compute; reflexivity|eexists; vm_compute; reflexivity].

Lemma appendCombine_prefix_refuted : exists f, wf f = true /\ exists s, run_appendCombine_prefix f = Prefix.Panic s.
Proof. refute_panic w_append_zero. Qed.
Lemma appendAssign_prefix_refuted : exists f, wf f = true /\ exists s, run_appendAssign_prefix f = Prefix.Panic s.
Proof. refute_panic w_append_zero. Qed.
Lemma newDeref_prefix_refuted : exists f, wf f = true /\ exists s, run_newDeref_prefix f = Prefix.Panic s.
Proof. refute_panic w_new_zero. Qed.
Lemma typeDefFirst_prefix_refuted : exists f, wf f = true /\ exists s, run_typeDefFirst_prefix f = Prefix.Panic s.
Proof. refute_panic w_paren_recv. Qed.
Lemma sortSlice_prefix_refuted : exists f, wf f = true /\ exists s, run_sortSlice_prefix f = Prefix.Panic s.
Proof. refute_panic w_bare_return. Qed.
Lemma evalOrder_prefix_refuted : exists f, wf f = true /\ exists s, run_evalOrder_prefix f = Prefix.Panic s.
Proof. refute_panic w_funcfield. Qed.
Lemma dupOption_prefix_refuted : exists f, wf f = true /\ exists s, run_dupOption_prefix f = Prefix.Panic s.
Proof. refute_panic w_forward_variadic. Qed.
Lemma flagName_prefix_refuted : exists f, wf f = true /\ exists s, run_flagName_prefix f = Prefix.Panic s.
Proof. refute_panic w_flag_forward. Qed.
Lemma badRegexp_prefix_refuted : exists f, wf f = true /\ exists s, run_badRegexp_entry_prefix f = Prefix.Panic s.
Proof. refute_panic w_regexp_zero. Qed.
Lemma regexpPattern_prefix_refuted : exists f, wf f = true /\ exists s, run_regexpPattern_entry_prefix f = Prefix.Panic s.
Proof. refute_panic w_regexp_zero. Qed.
Lemma regexpSimplify_prefix_refuted : exists f, wf f = true /\ exists s, run_regexpSimplify_entry_prefix f = Prefix.Panic s.
Proof. refute_panic w_regexp_zero. Qed.

(* pre-fix ZeroValueOf: a message argument that is a nil node *)
Lemma newDeref_prefix_render_refuted :
  exists f, wf f = true /\ exists w, In w (Prefix.warnings (run_newDeref_prefix f)) /\ Prefix.w_render_ok w = false.
Proof. exists w_new_nolit. split; [vm_compute; reflexivity|]. eexists. split; [vm_compute; left; reflexivity|reflexivity]. Qed.

(* the same witnesses under the current definitions: no panic, and no suggestion for *new(complex128) *)
Lemma witnesses_regress :
  run_appendCombine w_append_zero = Ok [] /\ run_appendAssign w_append_zero = Ok [] /\ run_newDeref w_new_zero = Ok [] /\
  run_typeDefFirst w_paren_recv = Ok [] /\ run_sortSlice w_bare_return = Ok [] /\ run_evalOrder w_funcfield = Ok [] /\
  run_dupOption w_forward_variadic = Ok [] /\ run_flagName w_flag_forward = Ok [] /\
  run_badRegexp_entry w_regexp_zero = Ok [] /\ run_regexpPattern_entry w_regexp_zero = Ok [] /\
  run_regexpSimplify_entry w_regexp_zero = Ok [] /\ run_newDeref w_new_nolit = Ok [].
Proof. repeat split; vm_compute; reflexivity. Qed.

(* C20: diagnostics about namesakes (current definitions) *)
Ltac refute_real w := exists w; split; [vm_compute; reflexivity|]; eexists; split; [vm_compute; left; reflexivity|vm_compute; reflexivity].

Lemma newDeref_real_refuted : exists f, wf f = true /\ exists w, In w (warnings (run_newDeref f)) /\ is_real w = false.
Proof. refute_real ns_new_pkgfunc_same. Qed.
Lemma appendAssign_real_refuted : exists f, wf f = true /\ exists w, In w (warnings (run_appendAssign f)) /\ is_real w = false.
Proof. refute_real ns_append_pkgfunc_same. Qed.
Lemma appendCombine_real_refuted : exists f, wf f = true /\ exists w, In w (warnings (run_appendCombine f)) /\ is_real w = false.
Proof. refute_real ns_append_pkgfunc_same. Qed.
Lemma rangeAppendAll_real_refuted : exists f, wf f = true /\ exists w, In w (warnings (run_rangeAppendAll f)) /\ is_real w = false.
Proof. refute_real ns_append_pkgfunc_same. Qed.
Lemma sortSlice_real_refuted : exists f, wf f = true /\ exists w, In w (warnings (run_sortSlice f)) /\ is_real w = false.
Proof. refute_real ns_sort_local. Qed.
Lemma filepathJoin_real_refuted : exists f, wf f = true /\ exists w, In w (warnings (run_filepathJoin f)) /\ is_real w = false.
Proof. refute_real ns_filepath_alias. Qed.

(* flagName consults the object: on a file full of `flag` namesakes it reports nothing *)
Lemma flagName_silent_on_namesakes : wf ns_flag_pkgvar = true /\ run_flagName ns_flag_pkgvar = Ok [].
Proof. split; vm_compute; reflexivity. Qed.

(* the hypothesis of C20_newDeref_real_partial is satisfiable on a file with warnings of other checkers *)
Lemma no_namesake_satisfiable :
  wf ns_filepath_alias = true /\ forallb (g_no_namesake_bare "new") (all_nodes ns_filepath_alias) = true.
Proof. split; vm_compute; reflexivity. Qed.

Lemma truncateCmp_real_refuted :
  exists f, wf f = true /\ exists w, In w (warnings (run_truncateCmp true f)) /\ is_real w = false.
Proof. refute_real ns_cast_pkgfunc. Qed.
Lemma nilValReturn_prefix_real_refuted :
  exists f, wf f = true /\ exists w, In w (warnings (run_nilValReturn_prefix f)) /\ is_real w = false.
Proof. refute_real ns_nil_local. Qed.

(* exitAfterDefer recognises log.Fatal* / os.Exit by spelling: a local variable `os` with an Exit field is reported *)
Lemma exitAfterDefer_real_refuted :
  exists f, wf f = true /\ exists w, In w (warnings (run_exitAfterDefer f)) /\ is_real w = false.
Proof. refute_real ns_exit_local. Qed.

(* the hypothesis of C20_exitAfterDefer_real_partial is satisfiable *)
Lemma no_exit_namesake_satisfiable :
  wf ns_filepath_alias = true /\ forallb g_no_namesake_exit (all_nodes ns_filepath_alias) = true.
Proof. split; vm_compute; reflexivity. Qed.

(* the hypothesis of C01_unlambda_total_partial holds on a converted real file *)
Lemma unlambda_hypothesis_satisfiable :
  wf w_bare_return = true /\ forallb g_unlambda_arity (all_nodes w_bare_return) = true.
Proof. split; vm_compute; reflexivity. Qed.

(* the fixed nilValReturn says nothing about a variable named nil *)
Lemma nilValReturn_silent_on_namesake : wf ns_nil_local = true /\ run_nilValReturn ns_nil_local = Ok [].
Proof. split; vm_compute; reflexivity. Qed.
