From GC Require Import Base Model_Version.
From Coq Require Import ZifyBool.
Open Scope Z_scope.

Lemma rg_ge_is_ge v w : rg_ge v w = ge v w.
Proof. unfold rg_ge, ge. destruct v as [a b], w as [c d]; simpl.
  destruct (a =? 0) eqn:E0; [reflexivity|]. destruct (a =? c) eqn:E1; lia. Qed.

Lemma ge_zero_all m w : ge (0, m) w = true.
Proof. reflexivity. Qed.

Lemma ge_is_lex v w : fst v <> 0 -> ge v w = lex_le w v.
Proof. unfold ge, lex_le. destruct v as [a b], w as [c d]; simpl. intros H.
  destruct (a =? 0) eqn:E0; [lia|]. destruct (a =? c) eqn:E1; lia. Qed.

Lemma lex_le_trans a b c : lex_le a b = true -> lex_le b c = true -> lex_le a c = true.
Proof. unfold lex_le. destruct a, b, c; simpl. lia. Qed.

Lemma lex_le_refl a : lex_le a a = true.
Proof. unfold lex_le. destruct a; simpl. lia. Qed.

(* a rule that fires at target V (>= 1.13, a definite version) recommends only APIs that exist in V *)
Lemma no_future_api_entry r V :
  entry_ok r = true -> fst V <> 0 -> lex_le floor_version V = true -> gate_ok r V = true ->
  forall a, In a (r_recommends r) -> lex_le (snd a) V = true.
Proof.
  intros Hok Hv Hfloor Hgate a Ha. unfold entry_ok in Hok. rewrite forallb_forall in Hok.
  specialize (Hok a Ha). apply orb_true_iff in Hok as [H|H].
  - eapply lex_le_trans; eauto.
  - unfold gate_ok in Hgate. destruct (r_gate r) as [g|]; [|discriminate].
    rewrite rg_ge_is_ge, ge_is_lex in Hgate by exact Hv. eapply lex_le_trans; eauto.
Qed.

Lemma no_future_api table r V :
  forallb entry_ok table = true -> In r table ->
  fst V <> 0 -> lex_le floor_version V = true -> gate_ok r V = true ->
  forall a, In a (r_recommends r) -> lex_le (snd a) V = true.
Proof.
  intros Ht Hr. rewrite forallb_forall in Ht. apply no_future_api_entry. auto.
Qed.

(* no version configured: every gate is open, exactly as for any version at or above all gates *)
Lemma unset_is_newest r m newest :
  fst newest <> 0 ->
  (match r_gate r with Some g => lex_le g newest | None => true end) = true ->
  gate_ok r (0, m) = gate_ok r newest.
Proof.
  intros Hn Hg. unfold gate_ok. destruct (r_gate r) as [g|]; [|reflexivity].
  rewrite !rg_ge_is_ge. rewrite (ge_is_lex newest g Hn), Hg. reflexivity.
Qed.

Lemma plumbing_all k v : run_version k v = v.
Proof. destruct k; reflexivity. Qed.

Lemma plumbing_dynamic_prefix_refuted :
  exists v gate, run_version_prefix Dynamic v <> v /\ rg_ge (run_version_prefix Dynamic v) gate = true /\ rg_ge v gate = false.
Proof. exists (1, 16), (1, 17). vm_compute. split; [discriminate|auto]. Qed.

(* ---- parsing ---- *)
Lemma trim_prefix_go s : has_prefix "go" s = false -> trim_prefix "go" ("go" ++ s) = s.
Proof. intros _. reflexivity. Qed.

Lemma parse_go_prefix s : has_prefix "go" s = false ->
  parse_go_version ("go" ++ s) = parse_go_version s.
Proof.
  intros H. unfold parse_go_version. rewrite trim_prefix_go by exact H.
  unfold trim_prefix. rewrite H. reflexivity.
Qed.

Lemma parse_shape s v : parse_go_version s = Some v ->
  trim_prefix "go" s = "" /\ v = (0, 0)
  \/ exists a b, split_on "."%char (trim_prefix "go" s) = [a; b] /\ version_part a = Some (fst v) /\ version_part b = Some (snd v).
Proof.
  unfold parse_go_version. destruct (String.eqb (trim_prefix "go" s) "") eqn:E.
  - intros H; injection H as <-. left. apply String.eqb_eq in E. auto.
  - destruct (split_on "."%char (trim_prefix "go" s)) as [|a [|b [|c l]]]; try discriminate.
    destruct (version_part a) as [x|] eqn:Ea; [|discriminate].
    destruct (version_part b) as [y|] eqn:Eb; [|discriminate].
    destruct (Z.eqb x 0); [discriminate|].
    intros H; injection H as <-. right. exists a, b. auto.
Qed.

(* a version named on the command line is never the internal "no constraint" value: major 0 only comes from the empty request *)
Lemma parse_major_zero_only_unset s v : parse_go_version s = Some v -> fst v = 0 -> trim_prefix "go" s = "" /\ v = (0, 0).
Proof.
  unfold parse_go_version. destruct (String.eqb (trim_prefix "go" s) "") eqn:E.
  - intros H _; injection H as <-. apply String.eqb_eq in E. auto.
  - destruct (split_on "."%char (trim_prefix "go" s)) as [|a [|b [|c l]]]; try discriminate.
    destruct (version_part a) as [x|]; [|discriminate].
    destruct (version_part b) as [y|]; [|discriminate].
    destruct (Z.eqb_spec x 0); [discriminate|].
    intros H; injection H as <-. cbn [fst]. intros ->. contradiction.
Qed.

Lemma parse_zero_major_prefix_refuted :
  parse_go_version_zero_major_prefix "0.7" = Some (0, 7) /\ parse_go_version "0.7" = None /\ parse_go_version "go0.0" = None.
Proof. vm_compute. auto. Qed.

(* digits is the positional decimal value *)
Lemma digits_acc_snoc s acc d a : digit_val a = Some d ->
  forall n, digits_acc s acc = Some n -> digits_acc (s ++ String a "") acc = Some (10 * n + d).
Proof.
  intros Hd. revert acc. induction s as [|c r IH]; intros acc n; cbn [digits_acc append].
  - intros H; injection H as <-. rewrite Hd. reflexivity.
  - destruct (digit_val c); [|discriminate]. apply IH.
Qed.

Lemma atoi_range s n : atoi s = Some n -> - (int_max + 1) <= n <= int_max.
Proof.
  unfold atoi. destruct s as [|a r]; [discriminate|].
  assert (Hnn : forall t m, digits t = Some m -> 0 <= m).
  { intros t m. unfold digits. destruct t as [|c t']; [discriminate|].
    assert (G : forall u acc m', 0 <= acc -> digits_acc u acc = Some m' -> 0 <= m').
    { induction u as [|x u IHu]; intros acc m' Hacc; cbn [digits_acc].
      - intros H; injection H as <-; exact Hacc.
      - destruct (digit_val x) as [d|] eqn:Ed; [|discriminate].
        apply IHu. unfold digit_val in Ed.
        destruct ((48 <=? Z.of_N (N_of_ascii x)) && (Z.of_N (N_of_ascii x) <=? 57)) eqn:E; [|discriminate].
        injection Ed as <-. apply andb_true_iff in E as [E1 E2]. apply Z.leb_le in E1, E2. lia. }
    apply G. lia. }
  destruct (Ascii.eqb a "-").
  - destruct (digits r) as [m|] eqn:E; [|discriminate].
    destruct (m <=? int_max + 1) eqn:Em; [|discriminate]. intros H; injection H as <-.
    pose proof (Hnn _ _ E). unfold int_max in *. lia.
  - destruct (Ascii.eqb a "+").
    + destruct (digits r) as [m|] eqn:E; [|discriminate].
      destruct (m <=? int_max) eqn:Em; [|discriminate]. intros H; injection H as <-.
      pose proof (Hnn _ _ E). unfold int_max in *. lia.
    + destruct (digits (String a r)) as [m|] eqn:E; [|discriminate].
      destruct (m <=? int_max) eqn:Em; [|discriminate]. intros H; injection H as <-.
      pose proof (Hnn _ _ E). unfold int_max in *. lia.
Qed.

(* ---- accepted version parts are unsigned decimal numbers ---- *)
Lemma digits_acc_nonneg u : forall acc m, 0 <= acc -> digits_acc u acc = Some m -> 0 <= m.
Proof.
  induction u as [|x u IHu]; intros acc m Hacc; cbn [digits_acc].
  - intros H; injection H as <-; exact Hacc.
  - destruct (digit_val x) as [d|] eqn:Ed; [|discriminate].
    apply IHu. unfold digit_val in Ed.
    destruct ((48 <=? Z.of_N (N_of_ascii x)) && (Z.of_N (N_of_ascii x) <=? 57)) eqn:E; [|discriminate].
    injection Ed as <-. apply andb_true_iff in E as [E1 E2]. apply Z.leb_le in E1, E2. lia.
Qed.

Lemma version_part_range s n : version_part s = Some n -> 0 <= n <= int_max.
Proof.
  unfold version_part. destruct (digits s) as [m|] eqn:E; [|discriminate].
  destruct (m <=? int_max) eqn:Em; [|discriminate]. intros H; injection H as <-.
  split; [|apply Z.leb_le; exact Em].
  unfold digits in E. destruct s as [|c t]; [discriminate|]. eapply digits_acc_nonneg; [|exact E]. lia.
Qed.

(* the first byte of an accepted part is a digit: no sign, no blank *)
Lemma version_part_first_digit a r n : version_part (String a r) = Some n -> exists d, digit_val a = Some d.
Proof.
  unfold version_part, digits. cbn [digits_acc]. destruct (digit_val a) as [d|]; [eauto|discriminate].
Qed.

Lemma parse_nonneg s v : parse_go_version s = Some v -> 0 <= fst v /\ 0 <= snd v.
Proof.
  intros H. destruct (parse_shape s v H) as [[_ ->]|(a & b & _ & Ha & Hb)]; [cbn; lia|].
  apply version_part_range in Ha, Hb. lia.
Qed.

Lemma parse_prefix_accepts_signs_refuted :
  parse_go_version_prefix "1.-5" = Some (1, -5) /\ parse_go_version_prefix "+1.+5" = Some (1, 5)
  /\ parse_go_version "1.-5" = None /\ parse_go_version "+1.+5" = None.
Proof. vm_compute. auto. Qed.
