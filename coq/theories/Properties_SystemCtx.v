(* Properties_SystemCtx.v — the composed front-end models with the Go-version step and the parameter cells
   (obligations of C16 and C08; C16's correspondence evaluates system_run_ctx / analysis_run_ctx against the four binaries). *)
From GC Require Import Base Model_Select Proofs_Select Model_Cli Model_System Model_SystemCtx Proofs_SystemCtx.

(* Both kinds of front-end print the same lines for the same -go text and the same -@checker.param flags whenever
   their selection flags select the same checkers and the CLI filters no file; a malformed version or a flag that
   names no registered parameter is an error on both sides. *)
Theorem SYS_frontends_agree_ctx : forall reg defaults fl af cfg go pargs files,
  forallb valid_checker reg = true ->
  (forall c, In c reg -> an_selected af c = cli_selected reg fl c) ->
  (forall f, In f files -> file_checked cfg {| fname := cx_name f; fgroups := cx_groups f; fwarn := [] |} = true) ->
  match system_run_ctx reg defaults fl cfg go pargs files, analysis_run_ctx reg defaults af go pargs files with
  | SysFatal _, AnError => True
  | SysExit c1 l1, AnExit c2 l2 => l1 = l2 /\ (c2 = 0%Z <-> l1 = []) /\ (l1 = [] -> c1 = 0%Z)
  | _, _ => False
  end.
Proof. exact frontends_agree_ctx. Qed.
Print Assumptions SYS_frontends_agree_ctx.

Theorem SYS_bad_version_stops_both : forall reg defaults fl cfg go pargs files,
  pargs_known defaults pargs = true -> parse_go_version go = None ->
  system_run_ctx reg defaults fl cfg go pargs files = SysFatal "load program"
  /\ forall af, analysis_run_ctx reg defaults af go pargs files = AnError.
Proof. exact system_run_ctx_bad_version. Qed.
Print Assumptions SYS_bad_version_stops_both.

(* the parameter cells: one entry per registered parameter whatever the flags; no flags = the registered defaults;
   a flag for one parameter leaves every other cell alone *)
Theorem SYS_effective_keys : forall defaults pargs, map fst (effective defaults pargs) = map fst defaults.
Proof. exact effective_keys. Qed.
Print Assumptions SYS_effective_keys.
Theorem SYS_effective_defaults : forall defaults, effective defaults [] = defaults.
Proof. exact effective_no_args. Qed.
Print Assumptions SYS_effective_defaults.
Theorem SYS_effective_other_cells : forall defaults pargs k v k' d,
  k' <> k -> In (k', d) defaults ->
  In (k', match last_assoc k' pargs None with Some x => x | None => d end) (effective defaults ((k, v) :: pargs)).
Proof. exact effective_other_cells. Qed.
Print Assumptions SYS_effective_other_cells.

Example SYS_example_ctx :
  effective [("@hugeParam.sizeThreshold", "80"); ("@captLocal.paramsOnly", "true")]
            [("@hugeParam.sizeThreshold", "8"); ("@hugeParam.sizeThreshold", "100")]
  = [("@hugeParam.sizeThreshold", "100"); ("@captLocal.paramsOnly", "true")].
Proof. vm_compute. reflexivity. Qed.
