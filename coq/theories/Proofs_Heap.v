(* Proofs_Heap.v — frame laws of the copy-then-rewrite discipline (C05) *)
From GC Require Import Base Model_Walk Model_Heap.

Lemma frame_refl h : frame h h.
Proof. split; [lia|auto]. Qed.

Lemma frame_trans h1 h2 h3 : frame h1 h2 -> frame h2 h3 -> frame h1 h3.
Proof.
  intros [L1 F1] [L2 F2]. split; [lia|]. intros id Hid. rewrite F2 by lia. apply F1. exact Hid.
Qed.

Lemma alloc_frame h n : frame h (fst (alloc h n)).
Proof.
  split; simpl; [lia|]. intros id Hid. unfold upd. destruct (N.eqb_spec id (next h)); [lia|reflexivity].
Qed.

Lemma alloc_fresh h n : (next h <= snd (alloc h n))%N /\ (snd (alloc h n) < next (fst (alloc h n)))%N.
Proof. simpl. lia. Qed.

(* a write to a cell that did not exist in h0 preserves the frame relative to h0 *)
Lemma write_fresh_frame h0 h id n : frame h0 h -> (next h0 <= id)%N -> frame h0 (write h id n).
Proof.
  intros [L F] Hid. split; simpl; [exact L|]. intros j Hj. unfold upd.
  destruct (N.eqb_spec j id); [lia|]. apply F. exact Hj.
Qed.

Lemma set_tag_fresh_frame h0 h id t : frame h0 h -> (next h0 <= id)%N -> frame h0 (set_tag h id t).
Proof. intros. unfold set_tag. destruct (cells h id); auto. apply write_fresh_frame; auto. Qed.

Lemma set_kids_fresh_frame h0 h id ks : frame h0 h -> (next h0 <= id)%N -> frame h0 (set_kids h id ks).
Proof. intros. unfold set_kids. destruct (cells h id); auto. apply write_fresh_frame; auto. Qed.

(* astcopy never writes an existing cell, and its result root is fresh whenever the source exists *)
Lemma copy_frame : forall fuel h id, frame h (fst (copy fuel h id)).
Proof.
  induction fuel as [|f IH]; intros h id; simpl.
  - destruct (cells h id); [apply alloc_frame|apply frame_refl].
  - destruct (cells h id) as [n|]; [|apply frame_refl].
    assert (G : forall l h0, frame h0 (fst ((fix go (h : heap) (l : list N) : heap * list N :=
               match l with
               | [] => (h, [])
               | k :: r => let '(h1, k') := copy f h k in let '(h2, r') := go h1 r in (h2, k' :: r')
               end) h0 l))).
    { induction l as [|k r IHl]; intros h0; simpl; [apply frame_refl|].
      pose proof (IH h0 k) as Hk. destruct (copy f h0 k) as [h1 k'].
      pose proof (IHl h1) as Hr.
      destruct ((fix go (h : heap) (l : list N) : heap * list N :=
               match l with
               | [] => (h, [])
               | k :: r => let '(h1, k') := copy f h k in let '(h2, r') := go h1 r in (h2, k' :: r')
               end) h1 r) as [h2 r']. simpl in *. eapply frame_trans; eauto. }
    specialize (G (kids n) h).
    destruct ((fix go (h : heap) (l : list N) : heap * list N :=
               match l with
               | [] => (h, [])
               | k :: r => let '(h1, k') := copy f h k in let '(h2, r') := go h1 r in (h2, k' :: r')
               end) h (kids n)) as [h1 ks]. simpl in G.
    eapply frame_trans; [exact G|apply alloc_frame].
Qed.

Lemma copy_root_fresh : forall fuel h id n, cells h id = Some n -> (next h <= snd (copy fuel h id))%N.
Proof.
  intros fuel h id n Hn. destruct fuel as [|f]; simpl; rewrite Hn.
  - simpl. lia.
  - pose proof (copy_frame (S f) h id) as HF. simpl in HF. rewrite Hn in HF.
    destruct ((fix go (h : heap) (l : list N) : heap * list N :=
               match l with
               | [] => (h, [])
               | k :: r => let '(h1, k') := copy f h k in let '(h2, r') := go h1 r in (h2, k' :: r')
               end) h (kids n)) as [h1 ks] eqn:E.
    simpl.
    (* next h <= next h1 because go only allocates *)
    assert (G : forall l h0, (next h0 <= next (fst ((fix go (h : heap) (l : list N) : heap * list N :=
               match l with
               | [] => (h, [])
               | k :: r => let '(h1, k') := copy f h k in let '(h2, r') := go h1 r in (h2, k' :: r')
               end) h0 l)))%N).
    { induction l as [|k r IHl]; intros h0; simpl; [lia|].
      pose proof (proj1 (copy_frame f h0 k)) as Hk. destruct (copy f h0 k) as [h1' k'].
      pose proof (IHl h1') as Hr.
      destruct ((fix go (h : heap) (l : list N) : heap * list N :=
               match l with
               | [] => (h, [])
               | k :: r => let '(h1, k') := copy f h k in let '(h2, r') := go h1 r in (h2, k' :: r')
               end) h1' r) as [h2 r']. simpl in *. lia. }
    specialize (G (kids n) h). rewrite E in G. simpl in G. exact G.
Qed.

(* copy-then-write-the-copy: the shape shared by boolExprSimplify, badCond, sloppyReassign, typeUnparen, methodExprCall *)
Lemma copy_then_set_tag_frame fuel h root t :
  frame h (let '(h1, c) := copy fuel h root in set_tag h1 c t).
Proof.
  pose proof (copy_frame fuel h root) as HF.
  destruct (cells h root) as [n|] eqn:En.
  - pose proof (copy_root_fresh fuel h root n En) as HR.
    destruct (copy fuel h root) as [h1 c]. simpl in *. apply set_tag_fresh_frame; auto.
  - assert (E : copy fuel h root = (h, root)) by (destruct fuel; simpl; rewrite En; reflexivity).
    rewrite E. unfold set_tag. rewrite En. apply frame_refl.
Qed.

Lemma copy_then_set_kids_frame fuel h root (ks : heap -> N -> list N) :
  frame h (let '(h1, c) := copy fuel h root in set_kids h1 c (ks h1 c)).
Proof.
  pose proof (copy_frame fuel h root) as HF.
  destruct (cells h root) as [n|] eqn:En.
  - pose proof (copy_root_fresh fuel h root n En) as HR.
    destruct (copy fuel h root) as [h1 c]. simpl in *. apply set_kids_fresh_frame; auto.
  - assert (E : copy fuel h root = (h, root)) by (destruct fuel; simpl; rewrite En; reflexivity).
    rewrite E. unfold set_kids. rewrite En. apply frame_refl.
Qed.

Lemma boolExprSimplify_frame fuel h root : frame h (fst (run_boolExprSimplify fuel h root)).
Proof.
  unfold run_boolExprSimplify.
  pose proof (copy_frame fuel h root) as HF.
  destruct (cells h root) as [n|] eqn:En.
  - pose proof (copy_root_fresh fuel h root n En) as HR.
    destruct (copy fuel h root) as [h1 c]. simpl in *. apply set_tag_fresh_frame; auto.
  - assert (E : copy fuel h root = (h, root)) by (destruct fuel; simpl; rewrite En; reflexivity).
    rewrite E. simpl. unfold set_tag. rewrite En. apply frame_refl.
Qed.

Lemma badCond_frame fuel h root : frame h (fst (run_badCond fuel h root)).
Proof.
  unfold run_badCond. pose proof (copy_then_set_tag_frame fuel h root 7) as H.
  destruct (copy fuel h root). exact H.
Qed.

Lemma sloppyReassign_frame fuel h root : frame h (fst (run_sloppyReassign fuel h root)).
Proof.
  unfold run_sloppyReassign. pose proof (copy_then_set_tag_frame fuel h root 47) as H.
  destruct (copy fuel h root). exact H.
Qed.

Lemma typeUnparen_frame fuel h root : frame h (fst (run_typeUnparen fuel h root)).
Proof.
  unfold run_typeUnparen.
  pose proof (copy_then_set_kids_frame fuel h root
    (fun h1 c => match cells h1 c with
                 | Some n => flat_map (fun k => match cells h1 k with Some kn => kids kn | None => [k] end) (kids n)
                 | None => [] end)) as H.
  destruct (copy fuel h root). exact H.
Qed.

Lemma methodExprCall_frame fuel h root arg : frame h (fst (run_methodExprCall fuel h root arg)).
Proof.
  unfold run_methodExprCall. pose proof (copy_then_set_kids_frame fuel h root (fun _ _ => [arg])) as H.
  destruct (copy fuel h root). exact H.
Qed.

Lemma freshAlias_frame h root : frame h (fst (run_freshAlias h root)).
Proof.
  unfold run_freshAlias. simpl. apply set_kids_fresh_frame; [apply alloc_frame|simpl; lia].
Qed.

Lemma readonly_frame g fuel h root : frame h (fst (run_readonly g fuel h root)).
Proof. apply frame_refl. Qed.

(* dropping the copy breaks the frame *)
Definition h_example : heap :=
  {| cells := fun j => if N.eqb j 0 then Some {| tag := 41; kids := [] |} else None; next := 1 |}.
Lemma nocopy_breaks_frame : ~ frame h_example (fst (run_boolExprSimplify_nocopy h_example 0)).
Proof.
  intros [_ F]. specialize (F 0%N). assert (H : (0 < next h_example)%N) by (simpl; lia).
  specialize (F H). vm_compute in F. discriminate.
Qed.

(* ---- composition ---- *)
Definition frame_respecting (run : heap -> N -> heap * list warning) : Prop := forall h root, frame h (fst (run h root)).

Fixpoint run_all (cs : list (heap -> N -> heap * list warning)) (h : heap) (root : N) : heap * list (list warning) :=
  match cs with
  | [] => (h, [])
  | c :: r => let '(h1, w) := c h root in let '(h2, ws) := run_all r h1 root in (h2, w :: ws)
  end.

Lemma frame_compose : forall cs, Forall frame_respecting cs -> forall h root, frame h (fst (run_all cs h root)).
Proof.
  induction cs as [|c r IH]; intros HF h root; simpl; [apply frame_refl|].
  inversion HF as [|? ? Hc Hr]; subst.
  pose proof (Hc h root) as H1. destruct (c h root) as [h1 w].
  pose proof (IH Hr h1 root) as H2. destruct (run_all r h1 root) as [h2 ws]. simpl in *.
  eapply frame_trans; eauto.
Qed.

(* ---- what a later checker sees ---- *)
Lemma view_frame : forall fuel h h' id, wf_heap h -> frame h h' -> (id < next h)%N -> view fuel h' id = view fuel h id.
Proof.
  induction fuel as [|f IH]; intros h h' id WF FR Hid; simpl; auto.
  rewrite (proj2 FR id Hid). destruct (cells h id) as [n|] eqn:En; auto.
  f_equal. apply map_ext_in. intros k Hk. apply IH; auto.
  pose proof (proj2 WF id n En) as HK. rewrite Forall_forall in HK. apply HK. exact Hk.
Qed.

(* diagnostics of a read-only checker B are the same on the heap left by ANY frame-respecting checkers A1..An *)
Lemma order_of_checkers_irrelevant : forall cs g fuel h root,
  wf_heap h -> (root < next h)%N -> Forall frame_respecting cs ->
  snd (run_readonly g fuel (fst (run_all cs h root)) root) = snd (run_readonly g fuel h root).
Proof.
  intros cs g fuel h root WF Hroot HF. unfold run_readonly. simpl.
  rewrite (view_frame fuel h _ root WF (frame_compose cs HF h root) Hroot). reflexivity.
Qed.

(* without the copy, the later checker does see something else *)
Lemma nocopy_changes_view :
  view 1 (fst (run_boolExprSimplify_nocopy h_example 0)) 0 <> view 1 h_example 0.
Proof. vm_compute. discriminate. Qed.

(* ---- shallow copies ---- *)
Lemma shallowCopy_frame h root : frame h (fst (run_shallowCopy h root)).
Proof.
  unfold run_shallowCopy. destruct (cells h root) as [n|]; [|apply frame_refl].
  pose proof (alloc_frame h n) as HF. pose proof (alloc_fresh h n) as [HA _].
  destruct (alloc h n) as [h1 c]. simpl in *. apply set_tag_fresh_frame; assumption.
Qed.
Lemma shallowCopy_repoint_frame h root arg : frame h (fst (run_shallowCopy_repoint h root arg)).
Proof.
  unfold run_shallowCopy_repoint. destruct (cells h root) as [n|]; [|apply frame_refl].
  pose proof (alloc_frame h n) as HF. pose proof (alloc_fresh h n) as [HA _].
  destruct (alloc h n) as [h1 c]. simpl in *. apply set_kids_fresh_frame; assumption.
Qed.
Definition h_example2 : heap :=
  {| cells := fun j => if N.eqb j 0 then Some {| tag := 41; kids := [1%N] |}
                       else if N.eqb j 1 then Some {| tag := 5; kids := [] |} else None; next := 2 |}.
Lemma shallowCopy_through_breaks_frame : ~ frame h_example2 (fst (run_shallowCopy_through h_example2 0)).
Proof.
  intros [_ F]. specialize (F 1%N). assert (H : (1 < next h_example2)%N) by (simpl; lia).
  specialize (F H). vm_compute in F. discriminate.
Qed.
