(* Proofs_Determ.v — which map-ranging loops are order independent, and which are not (C02) *)
From GC Require Import Base Model_Walk Model_Determ.
From Coq Require Import Permutation.

Section SortProofs.
  Context {A : Type}.
  Variable key : A -> N.

  Lemma insert_comm : forall l x y, key x <> key y ->
    insert key x (insert key y l) = insert key y (insert key x l).
  Proof.
    induction l as [|h t IH]; intros x y Hne; simpl.
    - destruct (key x <=? key y)%N eqn:E1, (key y <=? key x)%N eqn:E2; auto;
        [apply N.leb_le in E1, E2|apply N.leb_gt in E1, E2]; lia.
    - destruct (key y <=? key h)%N eqn:Ey, (key x <=? key h)%N eqn:Ex;
        destruct (key x <=? key y)%N eqn:E1, (key y <=? key x)%N eqn:E2;
        simpl; rewrite ?Ex, ?Ey, ?E1, ?E2; simpl; rewrite ?Ex, ?Ey, ?E1, ?E2; try reflexivity;
        try (rewrite IH by exact Hne; reflexivity);
        exfalso;
        repeat match goal with
               | H : (_ <=? _)%N = true |- _ => apply N.leb_le in H
               | H : (_ <=? _)%N = false |- _ => apply N.leb_gt in H
               end; lia.
  Qed.

  Lemma isort_perm : forall l l', Permutation l l' -> NoDup (map key l) -> isort key l = isort key l'.
  Proof.
    intros l l' HP. induction HP; intros ND; simpl; auto.
    - inversion ND; subst. rewrite IHHP; auto.
    - inversion ND as [|? ? Hy ND1]; subst. inversion ND1; subst.
      apply insert_comm. intro E. apply Hy. simpl. left. auto.
    - rewrite IHHP1 by exact ND. apply IHHP2.
      eapply Permutation_NoDup; [|exact ND]. apply Permutation_map. exact HP1.
  Qed.

  Lemma get_checkers_info_det : forall reg order order',
    NoDup (map key reg) -> Permutation order reg -> Permutation order' reg ->
    get_checkers_info key order = get_checkers_info key order'.
  Proof.
    intros reg order order' ND P1 P2. unfold get_checkers_info.
    apply isort_perm.
    - eapply Permutation_trans; [exact P1|apply Permutation_sym; exact P2].
    - eapply Permutation_NoDup; [|exact ND]. apply Permutation_map. apply Permutation_sym. exact P1.
  Qed.
End SortProofs.

(* ---- emitting while ranging ---- *)
Lemma range_emit_perm {E} (body : E -> list warning) : forall order order',
  Permutation order order' -> Permutation (range_emit body order) (range_emit body order').
Proof.
  unfold range_emit. intros o o' HP. induction HP; simpl; auto.
  - apply Permutation_app_head. exact IHHP.
  - rewrite !app_assoc. apply Permutation_app_tail. apply Permutation_app_comm.
  - eapply Permutation_trans; eauto.
Qed.

Definition emits {E} (body : E -> list warning) (e : E) : bool := match body e with [] => false | _ => true end.

Lemma filter_perm {E} (p : E -> bool) : forall l l', Permutation l l' -> Permutation (filter p l) (filter p l').
Proof.
  intros l l' HP. induction HP; simpl; auto.
  - destruct (p x); auto.
  - destruct (p x), (p y); auto. apply perm_swap.
  - eapply Permutation_trans; eauto.
Qed.

Lemma range_emit_filter {E} (body : E -> list warning) : forall l,
  range_emit body l = range_emit body (filter (emits body) l).
Proof.
  unfold range_emit, emits. induction l as [|x r IH]; simpl; auto.
  destruct (body x) eqn:Ex; simpl.
  - exact IH.
  - rewrite Ex. simpl. rewrite IH. reflexivity.
Qed.

(* at most one emitting entry => the order of iteration is unobservable *)
Lemma range_emit_le1 {E} (body : E -> list warning) : forall order order',
  Permutation order order' -> length (filter (emits body) order) <= 1 ->
  range_emit body order = range_emit body order'.
Proof.
  intros o o' HP Hlen. rewrite (range_emit_filter body o), (range_emit_filter body o').
  pose proof (filter_perm (emits body) _ _ HP) as HF.
  destruct (filter (emits body) o) as [|a [|b r]] eqn:Eo.
  - apply Permutation_nil in HF. rewrite HF. reflexivity.
  - apply Permutation_length_1_inv in HF. rewrite HF. reflexivity.
  - simpl in Hlen. lia.
Qed.

(* ---- dupImport ---- *)
Lemma dup_import_set_det : forall order order', Permutation order order' ->
  Permutation (dup_import_run order) (dup_import_run order').
Proof. intros. apply range_emit_perm. assumption. Qed.

Lemma emits_dup_block g : emits dup_block g = true -> is_dup g = true.
Proof. unfold emits, dup_block. destruct (is_dup g); auto. Qed.

Lemma dup_import_det_partial : forall order order', Permutation order order' ->
  length (filter (emits dup_block) order) <= 1 -> dup_import_run order = dup_import_run order'.
Proof. intros. apply range_emit_le1; assumption. Qed.

Definition refute_imports : list import_spec := [("""fmt""", 4); ("""fmt""", 5); ("""os""", 6); ("""os""", 7)]%N.
Lemma dup_import_det_refuted :
  exists imps order order', Permutation order (dup_groups imps) /\ Permutation order' (dup_groups imps)
    /\ dup_import_run order <> dup_import_run order'.
Proof.
  exists refute_imports, (dup_groups refute_imports), (rev (dup_groups refute_imports)).
  split; [apply Permutation_refl|]. split; [apply Permutation_sym, Permutation_rev|].
  vm_compute. discriminate.
Qed.

(* ---- importShadow / failOnParseError ---- *)
Lemma fail_on_det {P} (holds : P -> bool) : forall order order', Permutation order order' ->
  fail_on holds order = fail_on holds order'.
Proof.
  unfold fail_on. intros o o' HP. induction HP; simpl; auto.
  - rewrite IHHP. reflexivity.
  - destruct (holds x), (holds y); reflexivity.
  - congruence.
Qed.

Lemma shadow_det : forall id order order', Permutation order order' ->
  length (filter (fun e => String.eqb (snd e) id) order) <= 1 ->
  shadow_run id order = shadow_run id order'.
Proof.
  intros id o o' HP Hlen. unfold shadow_run. apply range_emit_le1; auto.
  eapply Nat.le_trans; [|exact Hlen]. clear. induction o as [|e r IH]; simpl; auto.
  unfold emits at 1. destruct (String.eqb (snd e) id); simpl.
  - destruct (negb (snd e =? "_")%string); simpl; lia.
  - exact IH.
Qed.

(* ---- append while ranging, then sort by a unique key: permutation invariant (generic) ---- *)
Lemma flat_map_perm {E A} (f : E -> list A) : forall l l', Permutation l l' -> Permutation (flat_map f l) (flat_map f l').
Proof.
  intros l l' HP. induction HP; simpl; auto.
  - apply Permutation_app_head. exact IHHP.
  - rewrite !app_assoc. apply Permutation_app_tail. apply Permutation_app_comm.
  - eapply Permutation_trans; eauto.
Qed.

Lemma collect_sort_det {E A} (key : A -> N) (f : E -> list A) : forall order order',
  Permutation order order' -> NoDup (map key (flat_map f order)) ->
  collect_sort key f order = collect_sort key f order'.
Proof. intros order order' HP ND. unfold collect_sort. apply isort_perm; [apply flat_map_perm; exact HP|exact ND]. Qed.

Lemma flat_map_single {A} : forall l : list A, flat_map (fun k => [k]) l = l.
Proof. induction l; simpl; congruence. Qed.

Lemma supported_values_det : forall order order', Permutation order order' -> NoDup order ->
  supported_values order = supported_values order'.
Proof.
  intros order order' HP ND. apply collect_sort_det; [exact HP|]. rewrite flat_map_single, map_id. exact ND.
Qed.

Lemma register_flags_det {V} : forall order order' : list (N * V), Permutation order order' -> NoDup (map fst order) ->
  register_flags order = register_flags order'.
Proof. intros order order' HP ND. apply collect_sort_det; [exact HP|]. rewrite flat_map_single. exact ND. Qed.

(* writes to the cells named by distinct keys commute *)
Lemma bind_params_lookup {V} : forall (order : list (N * V)) m k,
  NoDup (map fst order) ->
  bind_params order m k = match find (fun kv => N.eqb k (fst kv)) order with Some kv => Some (snd kv) | None => m k end.
Proof.
  induction order as [|[k0 v0] r IH]; intros m k ND; simpl; auto.
  inversion ND as [|? ? Hn ND']; subst. unfold bind_params in *. simpl. rewrite IH by exact ND'.
  destruct (find (fun kv => (k =? fst kv)%N) r) as [kv|] eqn:F.
  - destruct (N.eqb k k0) eqn:E; auto. exfalso. apply N.eqb_eq in E. subst.
    apply find_some in F. destruct F as [Hin Hk]. apply N.eqb_eq in Hk. apply Hn. rewrite Hk. apply in_map. exact Hin.
  - simpl. destruct (N.eqb k k0); reflexivity.
Qed.

Lemma find_perm_nodup {V} : forall (l l' : list (N * V)) k, Permutation l l' -> NoDup (map fst l) ->
  find (fun kv => N.eqb k (fst kv)) l = find (fun kv => N.eqb k (fst kv)) l'.
Proof.
  intros l l' k HP. induction HP; intros ND; simpl; auto.
  - inversion ND; subst. destruct (N.eqb k (fst x)); auto.
  - inversion ND as [|? ? Hy ND1]; subst. inversion ND1; subst.
    destruct (N.eqb k (fst y)) eqn:Ey, (N.eqb k (fst x)) eqn:Ex; auto.
    exfalso. apply N.eqb_eq in Ey, Ex. apply Hy. simpl. left. congruence.
  - rewrite IHHP1 by exact ND. apply IHHP2. eapply Permutation_NoDup; [|exact ND]. apply Permutation_map. exact HP1.
Qed.

Lemma bind_params_det {V} : forall (order order' : list (N * V)) m, Permutation order order' -> NoDup (map fst order) ->
  forall k, bind_params order m k = bind_params order' m k.
Proof.
  intros order order' m HP ND k. rewrite !bind_params_lookup; auto.
  - rewrite (find_perm_nodup order order' k HP ND). reflexivity.
  - eapply Permutation_NoDup; [|exact ND]. apply Permutation_map. exact HP.
Qed.
