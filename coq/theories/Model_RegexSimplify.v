(* Model_RegexSimplify.v — C11: transliteration of /repo/checkers/regexpSimplify_checker.go.

   [walk]      : one pass over the parse tree; returns the text written to c.out and the score
                 (number of applied simplifications) — byte-exact, used by the tie.
   [walk_a]    : the same traversal producing a tree (list of nodes, because `{0}` emits nothing and a
                 small char range emits several class items); [print] renders a tree.
   [simplify1] : simplify(pass, pat) given the parse tree of pat ("" when score = 0).
   [simplify2] : the two-pass driver of VisitExpr, given the tree of the pattern and a function that
                 supplies the parse tree of pass 1's output (the third-party parser is an input).
   Every routine takes [fx : bool]: true = the code after the seven "fix:" commits a464c9c..44c3358 of /repo
   (what the tie compares with), false = the routine before them (kept as *_prefix definitions so that the
   refutation lemmas remain true statements about the pre-fix simplifier).
   No proofs here. *)
From GC Require Import Base Model_Regex.
Local Open Scope string_scope.

(* ---------- small string helpers (Go stdlib functions used by the checker) ---------- *)

Definition trim_prefix (y x : string) : string :=
  if has_prefix x y then drop (String.length x) y else y.

Definition rev_str (s : string) : string := rev_s s "".

Definition trim_suffix (y x : string) : string :=
  if has_prefix (rev_str x) (rev_str y) then rev_str (drop (String.length x) (rev_str y)) else y.

(* utf8.RuneCountInString for well-formed UTF-8: bytes that are not continuation bytes *)
Fixpoint rune_count (s : string) : nat :=
  match s with
  | EmptyString => O
  | String a r =>
      let b := N_of_ascii a in
      ((if ((128 <=? b) && (b <? 192))%N then 0 else 1) + rune_count r)%nat
  end.

Definition byte_str (b : N) : string := String (ascii_of_N b) EmptyString.

(* Go's string(byte) conversion: the UTF-8 encoding of the code point *)
Definition string_of_byte (b : N) : string :=
  if (b <? 128)%N then byte_str b
  else String (ascii_of_N (192 + b / 64)) (byte_str (128 + b mod 64)).

Fixpoint nat_digits (fuel n : nat) (acc : string) : string :=
  match fuel with
  | O => acc
  | S f =>
      let d := String (ascii_of_N (48 + N.of_nat (n mod 10))) acc in
      if Nat.ltb n 10 then d else nat_digits f (n / 10) d
  end.
Definition itoa (n : nat) : string := nat_digits (S n) n "".

Fixpoint str_bytes (s : string) : list N :=
  match s with EmptyString => [] | String a r => N_of_ascii a :: str_bytes r end.

Definition mem_s (x : string) (l : list string) : bool := mem x l.

(* ---------- tables ---------- *)

Definition removable_escapes : list string :=
  ["\&"; "\#"; "\!"; "\@"; "\%"; "\<"; "\>"; "\:"; "\;"; "\/"; "\,"; "\="; "\."].

Definition bare_exclusions (fx : bool) : list string :=
  ["|"; "*"; "+"; "?"; "."; "["; "^"; "$"; "("; ")"] ++ (if fx then ["{"; "}"; ","] else []).

(* hasCapture *)
Fixpoint hasCapture (e : sx) {struct e} : bool :=
  match e with
  | X o _ args =>
      match o with OpCapture | OpNamedCapture => true | _ => false end
      || (fix any (l : list sx) {struct l} : bool :=
            match l with [] => false | x :: r => hasCapture x || any r end) args
  end.

(* hasClassMeta *)
Definition hasClassMeta (e : sx) : bool :=
  existsb (fun a => mem (sx_val a) ["-"; "]"; "["; "^"]) (sx_args e).

Definition neg_class_table : list (string * string) :=
  [("[^0-9]", "\D"); ("[^\s]", "\S"); ("[^\S]", "\s"); ("[^\w]", "\W"); ("[^\W]", "\w");
   ("[^\d]", "\D"); ("[^\D]", "\d"); ("[^[:^space:]]", "\s"); ("[^[:space:]]", "\S");
   ("[^[:^word:]]", "\w"); ("[^[:word:]]", "\W"); ("[^[:^digit:]]", "\d"); ("[^[:digit:]]", "\D")].

Definition class_table : list (string * string) :=
  [("[0-9]", "\d"); ("[[:word:]]", "\w"); ("[[:^word:]]", "\W"); ("[[:digit:]]", "\d");
   ("[[:^digit:]]", "\D"); ("[[:space:]]", "\s"); ("[[:^space:]]", "\S"); ("[][]", "\]\["); ("[]]", "\]")].

Fixpoint lookup_s (k : string) (t : list (string * string)) : option string :=
  match t with
  | [] => None
  | (a, b) :: r => if String.eqb k a then Some b else lookup_s k r
  end.

(* ---------- the predicates of the checker ---------- *)

Definition simplifyNegCharClass (e : sx) : option string := lookup_s (sx_val e) neg_class_table.

Definition simplifyCharClass (fx : bool) (e : sx) : option string :=
  match lookup_s (sx_val e) class_table with
  | Some r => Some r
  | None =>
      match sx_args e with
      | [X OpChar v _] => if mem_s v (bare_exclusions fx) then None else Some v
      | [X OpEscapeChar v _] => Some v
      | _ => None
      end
  end.

Definition canMerge (fx : bool) (x y : sx) : bool :=
  op_eqb (sx_op x) (sx_op y) &&
  match sx_op x with
  | OpChar | OpCharClass | OpEscapeMeta | OpEscapeChar | OpNegCharClass => String.eqb (sx_val x) (sx_val y)
  | OpGroup => String.eqb (sx_val x) (sx_val y) && negb (fx && hasCapture x)
  | _ => false
  end.

Definition canCombine (fx : bool) (x y : sx) : option nat :=
  if negb (op_eqb (sx_op x) (sx_op y)) then None else
  match sx_op x with
  | OpDot => Some 3%nat
  | OpChar =>
      if negb (String.eqb (sx_val x) (sx_val y)) then None
      else if String.eqb (sx_val x) " " then Some 1%nat else Some 4%nat
  | OpEscapeMeta | OpEscapeChar => if String.eqb (sx_val x) (sx_val y) then Some 2%nat else None
  | OpCharClass | OpNegCharClass => if String.eqb (sx_val x) (sx_val y) then Some 1%nat else None
  | OpGroup => if String.eqb (sx_val x) (sx_val y) && negb (fx && hasCapture x) then Some 1%nat else None
  | _ => None
  end.

Definition allChars (e : sx) : bool := forallb (fun a => op_eqb (sx_op a) OpChar) (sx_args e).

Definition concatLiteral (fx : bool) (e : sx) : string :=
  if op_eqb (sx_op e) OpConcat && negb (fx && match sx_args e with [] => true | _ => false end) && allChars e
  then sx_val e else "".

(* simplifyCharRange: the replacement text, or None *)
Definition simplifyCharRange (fx : bool) (rng : sx) : option string :=
  match sx_args rng with
  | X OpChar lo _ :: X OpChar hi _ :: _ =>
      match lo, hi with
      | String l EmptyString, String h EmptyString =>
          let lb := N_of_ascii l in
          let hb := N_of_ascii h in
          let d := ((hb + 256 - lb) mod 256)%N in
          if fx && ((lb =? 45)%N || (hb =? 45)%N || ((d =? 2)%N && ((lb + 1) mod 256 =? 45)%N)) then None
          else if (d =? 0)%N then Some lo
          else if (d =? 1)%N then Some (lo ++ hi)
          else if (d =? 2)%N then Some (lo ++ string_of_byte ((lb + 1) mod 256)%N ++ hi)
          else None
      | _, _ => None
      end
  | _ => None
  end.

(* factorPrefixSuffix: Some text when it fires *)
Definition factorPrefixSuffix (fx : bool) (alt : sx) : option string :=
  match sx_args alt with
  | [a0; a1] =>
      let x0 := concatLiteral fx a0 in
      let y0 := concatLiteral fx a1 in
      if String.eqb x0 y0 then None else
      let '(x, y) := if Nat.ltb (String.length y0) (String.length x0) then (y0, x0) else (x0, y0) in
      let tail := trim_prefix y x in
      if Nat.leb (String.length tail) 4 && Nat.eqb (rune_count tail) 1 then Some (x ++ tail ++ "?")
      else
        let head := trim_suffix y x in
        (* since the fix "factor a common suffix only when the longer alternative comes first": longerFirst && ... *)
        if (negb fx || Nat.ltb (String.length y0) (String.length x0)) &&
           (Nat.leb (String.length head) 4 && Nat.eqb (rune_count head) 1) then Some (head ++ "?" ++ x)
        else None
  | _ => None
  end.

(* how many leading elements of l can be combined with x *)
Fixpoint count_combinable (fx : bool) (x : sx) (l : list sx) : nat :=
  match l with
  | [] => O
  | y :: r => match canCombine fx x y with Some _ => S (count_combinable fx x r) | None => O end
  end.

(* decision taken in walkConcat after x has been written; `rest` is what follows x *)
Inductive cstep := CNone | CMerge | CFold (n : nat).
Definition concat_step (fx : bool) (x : sx) (rest : list sx) : cstep :=
  match rest with
  | [] => CNone
  | y :: rest' =>
      if op_eqb (sx_op y) OpStar && match sx_args y with y0 :: _ => canMerge fx x y0 | [] => false end then CMerge
      else match canCombine fx x y with
           | None => CNone
           | Some threshold =>
               let n := S (count_combinable fx x rest') in
               if Nat.leb threshold n then CFold n else CNone
           end
  end.

(* NonGreedy over a repeat that is not printed ({0} or {1}) *)
Definition dropped_repeat (x : sx) : bool :=
  match x with
  | X OpRepeat _ [_; r] => String.eqb (sx_val r) "{0}" || String.eqb (sx_val r) "{1}"
  | _ => false
  end.

(* ---------- walk: text and score ---------- *)

Definition out := (string * nat)%type.
Definition o_app (a b : out) : out := (fst a ++ fst b, (snd a + snd b)%nat).
Definition o_str (s : string) : out := (s, O).
Definition o_hit (s : string) : out := (s, 1%nat).

Fixpoint walk (fx : bool) (e : sx) {struct e} : out :=
  match e with
  | X OpConcat _ args =>
      (fix wc (l : list sx) (skip : nat) {struct l} : out :=
         match l with
         | [] => o_str ""
         | x :: rest =>
             match skip with
             | S k => wc rest k
             | O =>
                 match concat_step fx x rest with
                 | CNone => o_app (walk fx x) (wc rest O)
                 | CMerge => o_app (walk fx x) (o_app (o_hit "+") (wc rest 1%nat))
                 | CFold n => o_app (walk fx x) (o_app (o_hit ("{" ++ itoa (S n) ++ "}")) (wc rest n))
                 end
             end
         end) args O
  | X OpAlt _ args =>
      if allChars e && negb (fx && hasClassMeta e) then
        o_hit ("[" ++ String.concat "" (map sx_val args) ++ "]")
      else match factorPrefixSuffix fx e with
           | Some s => o_hit s
           | None =>
               (fix wa (l : list sx) {struct l} : out :=
                  match l with
                  | [] => o_str ""
                  | [x] => walk fx x
                  | x :: r => o_app (walk fx x) (o_app (o_str "|") (wa r))
                  end) args
           end
  | X OpCharRange v _ =>
      match simplifyCharRange fx e with Some s => o_hit s | None => o_str v end
  | X OpGroupWithFlags _ [x; fl] => o_app (o_str ((if fx then "(?" else "(") ++ sx_val fl ++ ":")) (o_app (walk fx x) (o_str ")"))
  | X OpGroup _ [x] =>
      match sx_op x with
      | OpChar | OpEscapeChar | OpEscapeMeta | OpCharClass => o_app (walk fx x) (o_hit "")
      | _ => o_app (o_str "(?:") (o_app (walk fx x) (o_str ")"))
      end
  | X OpCapture _ [x] => o_app (o_str "(") (o_app (walk fx x) (o_str ")"))
  | X OpNamedCapture _ [x; nm] => o_app (o_str ("(?P<" ++ sx_val nm ++ ">")) (o_app (walk fx x) (o_str ")"))
  | X OpRepeat _ [x; r] =>
      let rep := sx_val r in
      if String.eqb rep "{0,1}" then o_app (walk fx x) (o_hit "?")
      else if String.eqb rep "{1,}" then o_app (walk fx x) (o_hit "+")
      else if String.eqb rep "{0,}" then o_app (walk fx x) (o_hit "*")
      else if String.eqb rep "{0}" then (if fx && hasCapture x then o_app (walk fx x) (o_str rep) else o_hit "")
      else if String.eqb rep "{1}" then o_app (walk fx x) (o_hit "")
      else o_app (walk fx x) (o_str rep)
  | X OpPosixClass v _ => o_str v
  | X OpNegCharClass _ items =>
      match simplifyNegCharClass e with
      | Some s => o_hit s
      | None =>
          o_app (o_str "[^")
            (o_app ((fix wl (l : list sx) {struct l} : out :=
                       match l with [] => o_str "" | x :: r => o_app (walk fx x) (wl r) end) items)
                   (o_str "]"))
      end
  | X OpCharClass _ items =>
      match simplifyCharClass fx e with
      | Some s => o_hit s
      | None =>
          o_app (o_str "[")
            (o_app ((fix wl (l : list sx) {struct l} : out :=
                       match l with [] => o_str "" | x :: r => o_app (walk fx x) (wl r) end) items)
                   (o_str "]"))
      end
  | X OpEscapeChar v _ =>
      if mem_s v removable_escapes then o_hit (drop 1 v) else o_str v
  | X OpNonGreedy _ [x] => if fx && dropped_repeat x then walk fx x else o_app (walk fx x) (o_str "?")
  | X OpQuestion _ [x] => o_app (walk fx x) (o_str "?")
  | X OpStar _ [x] => o_app (walk fx x) (o_str "*")
  | X OpPlus _ [x] => o_app (walk fx x) (o_str "+")
  | X _ v _ => o_str v
  end.

(* simplify(pass, pat): "" when nothing was simplified *)
Definition simplify1_g (fx : bool) (tree : sx) : string :=
  let '(s, score) := walk fx tree in if Nat.ltb 0 score then s else "".

(* VisitExpr for a pattern of at most 60 bytes whose first parse succeeded.
   tree2 = Some (parse tree of pass 1's output) or None when the parser rejects it.
   Result: Some rewrite (a warning is issued) or None. *)
Definition simplify2_g (fx : bool) (pat : string) (tree1 : sx) (tree2 : string -> option sx) : option string :=
  if Nat.ltb 60 (String.length pat) then None else
  let c1 := simplify1_g fx tree1 in
  if String.eqb c1 "" then None else
  let final :=
    match tree2 c1 with
    | None => c1
    | Some t2 => let c2 := simplify1_g fx t2 in if String.eqb c2 "" then c1 else c2
    end in
  if String.eqb final "" || String.eqb final pat then None else Some final.

(* ---------- where the checker reacts (VisitExpr's switch on the callee name) ----------
   Every entry point of package regexp that takes a pattern, with the dialect its argument is compiled in.
   The property, the matcher model and all theorems are about the Perl dialect (regexp.Compile); POSIX
   call sites (other syntax, leftmost-longest) are outside the claim, so the checker must stay silent there. *)
Inductive dialect := Perl | Posix.

Definition pattern_calls : list (string * option dialect) :=
  [("regexp.Compile", Some Perl); ("regexp.MustCompile", Some Perl);
   ("regexp.CompilePOSIX", Some Posix); ("regexp.MustCompilePOSIX", Some Posix);
   ("regexp.Match", Some Perl); ("regexp.MatchString", Some Perl); ("regexp.MatchReader", Some Perl);
   ("regexp.QuoteMeta", None)].

Definition reacting_calls : list string := ["regexp.Compile"; "regexp.MustCompile"].
Definition reacts (call : string) : bool := mem call reacting_calls.

Fixpoint call_dialect_in (t : list (string * option dialect)) (call : string) : option dialect :=
  match t with
  | [] => None
  | (n, d) :: r => if String.eqb call n then d else call_dialect_in r call
  end.
Definition call_dialect := call_dialect_in pattern_calls.

(* ---------- walk_a: the same traversal producing trees ---------- *)

Definition mk (o : op) (v : string) (args : list sx) : sx := X o v args.
Definition mk_char (v : string) : sx := X OpChar v [].
Definition mk_esc (o : op) (v : string) : sx := X o v [X OpString (drop 1 v) []].

(* split a Value made of single-byte characters into OpChar nodes (used for the small tables) *)
Fixpoint chars_of_bytes (s : string) : list sx :=
  match s with EmptyString => [] | String a r => mk_char (String a EmptyString) :: chars_of_bytes r end.

(* split a well-formed UTF-8 string into OpChar nodes, one per rune *)
Fixpoint utf8_chunks (fuel : nat) (s : string) : list string :=
  match fuel with
  | O => []
  | S f =>
      match s with
      | EmptyString => []
      | String a r =>
          let b := N_of_ascii a in
          let n := if (b <? 128)%N then 1%nat else if (b <? 224)%N then 2%nat else if (b <? 240)%N then 3%nat else 4%nat in
          (String a (substring 0 (n - 1) r)) :: utf8_chunks f (drop (n - 1) r)
      end
  end.
Definition chars_of (s : string) : list sx := map mk_char (utf8_chunks (String.length s) s).

(* tree for a replacement text taken from the two tables / bare element *)
Definition table_tree (s : string) : list sx :=
  if String.eqb s "\]\[" then [mk_esc OpEscapeMeta "\]"; mk_esc OpEscapeMeta "\["]
  else if String.eqb s "\]" then [mk_esc OpEscapeMeta "\]"]
  else [mk_esc OpEscapeChar s].

Fixpoint print (e : sx) {struct e} : string :=
  let pl := fix pl (l : list sx) {struct l} : string :=
              match l with [] => "" | x :: r => print x ++ pl r end in
  match e with
  | X OpConcat _ args => pl args
  | X OpAlt _ args =>
      (fix pa (l : list sx) {struct l} : string :=
         match l with [] => "" | [x] => print x | x :: r => print x ++ "|" ++ pa r end) args
  | X OpGroupWithFlags _ [x; fl] => "(?" ++ sx_val fl ++ ":" ++ print x ++ ")"
  | X OpGroup _ [x] => "(?:" ++ print x ++ ")"
  | X OpCapture _ [x] => "(" ++ print x ++ ")"
  | X OpNamedCapture v [x; nm] =>
      (if has_prefix "(?<" v then "(?<" else "(?P<") ++ sx_val nm ++ ">" ++ print x ++ ")"
  | X OpRepeat _ [x; r] => print x ++ sx_val r
  | X OpNegCharClass _ items => "[^" ++ pl items ++ "]"
  | X OpCharClass _ items => "[" ++ pl items ++ "]"
  | X OpQuestion _ [x] | X OpNonGreedy _ [x] => print x ++ "?"
  | X OpStar _ [x] => print x ++ "*"
  | X OpPlus _ [x] => print x ++ "+"
  | X _ v _ => v
  end.

Definition pr_list (l : list sx) : string := String.concat "" (map print l).

(* a sequence of nodes as one node (what the text means when it stands where one node stood) *)
Definition seq_node (l : list sx) : sx :=
  match l with [x] => x | _ => X OpConcat (pr_list l) l end.

Definition aout := (list sx * nat)%type.
Definition a_app (a b : aout) : aout := ((fst a ++ fst b)%list, (snd a + snd b)%nat).

(* `q` applied to what walk emitted for x *)
Definition wrap1 (o : op) (suffix : string) (xs : list sx) : list sx :=
  let x := seq_node xs in [X o (print x ++ suffix) [x]].

Fixpoint walk_a (fx : bool) (e : sx) {struct e} : aout :=
  match e with
  | X OpConcat _ args =>
      let r := (fix wc (l : list sx) (skip : nat) {struct l} : aout :=
         match l with
         | [] => ([], O)
         | x :: rest =>
             match skip with
             | S k => wc rest k
             | O =>
                 match concat_step fx x rest with
                 | CNone => a_app (walk_a fx x) (wc rest O)
                 | CMerge =>
                     let '(xs, sc) := walk_a fx x in
                     a_app (wrap1 OpPlus "+" xs, S sc) (wc rest 1%nat)
                 | CFold n =>
                     let '(xs, sc) := walk_a fx x in
                     let x' := seq_node xs in
                     let rep := "{" ++ itoa (S n) ++ "}" in
                     a_app ([X OpRepeat (print x' ++ rep) [x'; X OpString rep []]], S sc) (wc rest n)
                 end
             end
         end) args O in
      ([X OpConcat (pr_list (fst r)) (fst r)], snd r)
  | X OpAlt _ args =>
      if allChars e && negb (fx && hasClassMeta e) then
        ([X OpCharClass ("[" ++ String.concat "" (map sx_val args) ++ "]") (map (fun a => mk_char (sx_val a)) args)], 1%nat)
      else match factorPrefixSuffix fx e with
           | Some s =>
               (* x ++ tail ++ "?"  or  head ++ "?" ++ x : rebuilt from the two literals *)
               match args with
               | [a0; a1] =>
                   let x0 := concatLiteral fx a0 in
                   let y0 := concatLiteral fx a1 in
                   let '(x, y) := if Nat.ltb (String.length y0) (String.length x0) then (y0, x0) else (x0, y0) in
                   let tail := trim_prefix y x in
                   if Nat.leb (String.length tail) 4 && Nat.eqb (rune_count tail) 1 then
                     let l := (chars_of x ++ [X OpQuestion (tail ++ "?") [mk_char tail]])%list in
                     ([X OpConcat s l], 1%nat)
                   else
                     let head := trim_suffix y x in
                     let l := (X OpQuestion (head ++ "?") [mk_char head] :: chars_of x)%list in
                     ([X OpConcat s l], 1%nat)
               | _ => ([e], O)
               end
           | None =>
               let r := (fix wa (l : list sx) {struct l} : list sx * nat :=
                  match l with
                  | [] => ([], O)
                  | x :: r => let '(xs, sc) := walk_a fx x in
                              let '(rs, sc') := wa r in (seq_node xs :: rs, (sc + sc')%nat)
                  end) args in
               ([X OpAlt (String.concat "|" (map print (fst r))) (fst r)], snd r)
           end
  | X OpCharRange v _ =>
      match simplifyCharRange fx e with Some s => (chars_of_bytes s, 1%nat) | None => ([e], O) end
  | X OpGroupWithFlags v [x; fl] =>
      (* the checker writes "(" flags ":" ... ")" — without the "?" — which is a capturing group
         whose body starts with the flag letters and a colon as literal characters *)
      let '(xs, sc) := walk_a fx x in
      if fx then ([X OpGroupWithFlags v [seq_node xs; fl]], sc)
      else ([X OpCapture v [seq_node (chars_of (sx_val fl ++ ":") ++ xs)%list]], sc)
  | X OpGroup v [x] =>
      match sx_op x with
      | OpChar | OpEscapeChar | OpEscapeMeta | OpCharClass => let '(xs, sc) := walk_a fx x in (xs, S sc)
      | _ => let '(xs, sc) := walk_a fx x in ([X OpGroup v [seq_node xs]], sc)
      end
  | X OpCapture v [x] => let '(xs, sc) := walk_a fx x in ([X OpCapture v [seq_node xs]], sc)
  | X OpNamedCapture v [x; nm] => let '(xs, sc) := walk_a fx x in ([X OpNamedCapture "(?P<" [seq_node xs; nm]], sc)
  | X OpRepeat v [x; r] =>
      let rep := sx_val r in
      let '(xs, sc) := walk_a fx x in
      if String.eqb rep "{0,1}" then (wrap1 OpQuestion "?" xs, S sc)
      else if String.eqb rep "{1,}" then (wrap1 OpPlus "+" xs, S sc)
      else if String.eqb rep "{0,}" then (wrap1 OpStar "*" xs, S sc)
      else if String.eqb rep "{0}" then (if fx && hasCapture x then ([X OpRepeat v [seq_node xs; r]], sc) else ([], 1%nat))
      else if String.eqb rep "{1}" then (xs, S sc)
      else ([X OpRepeat v [seq_node xs; r]], sc)
  | X OpNegCharClass v items =>
      match simplifyNegCharClass e with
      | Some s => (table_tree s, 1%nat)
      | None =>
          let r := (fix wl (l : list sx) {struct l} : aout :=
                      match l with [] => ([], O) | x :: r => a_app (walk_a fx x) (wl r) end) items in
          ([X OpNegCharClass v (fst r)], snd r)
      end
  | X OpCharClass v items =>
      match simplifyCharClass fx e with
      | Some s =>
          match lookup_s v class_table with
          | Some _ => (table_tree s, 1%nat)
          | None => (match items with [it] => [it] | _ => [e] end, 1%nat)
          end
      | None =>
          let r := (fix wl (l : list sx) {struct l} : aout :=
                      match l with [] => ([], O) | x :: r => a_app (walk_a fx x) (wl r) end) items in
          ([X OpCharClass v (fst r)], snd r)
      end
  | X OpEscapeChar v _ =>
      if mem_s v removable_escapes then ([mk_char (drop 1 v)], 1%nat) else ([e], O)
  | X OpQuestion v [x] => let '(xs, sc) := walk_a fx x in (wrap1 OpQuestion "?" xs, sc)
  | X OpNonGreedy v [x] =>
      let '(xs, sc) := walk_a fx x in
      if fx && dropped_repeat x then (xs, sc) else (wrap1 OpNonGreedy "?" xs, sc)
  | X OpStar v [x] => let '(xs, sc) := walk_a fx x in (wrap1 OpStar "*" xs, sc)
  | X OpPlus v [x] => let '(xs, sc) := walk_a fx x in (wrap1 OpPlus "+" xs, sc)
  | _ => ([e], O)
  end.

(* the current code *)
Definition simplify1 := simplify1_g true.
Definition simplify2 := simplify2_g true.
Definition simp_ast (e : sx) : sx := seq_node (fst (walk_a true e)).
Definition simp_text (e : sx) : string := fst (walk true e).
Definition simp_score (e : sx) : nat := snd (walk true e).

(* the routine before the fix commits *)
Definition simplify1_prefix := simplify1_g false.
Definition simp_ast_prefix (e : sx) : sx := seq_node (fst (walk_a false e)).
Definition simp_text_prefix (e : sx) : string := fst (walk false e).
