From GC Require Import Base Model_RuleFiles.

Definition file_listed (c : rg_config) (fo : fail_on) (f : string * file_kind) : bool :=
  match class_of c (snd f) with Some cls => fails fo cls | None => false end.
Definition groups_of (f : string * file_kind) : list group :=
  match snd f with Valid gs => gs | _ => [] end.
Definition is_valid (c : rg_config) (f : string * file_kind) : bool :=
  match class_of c (snd f) with None => true | Some _ => false end.
Definition count_valid (c : rg_config) (fs : list (string * file_kind)) : N := N.of_nat (List.length (filter (is_valid c) fs)).
Definition invalid_names (c : rg_config) (fs : list (string * file_kind)) : list string :=
  map fst (filter (fun f => negb (is_valid c f)) fs).

Lemma load_files_ok c fo fs n act sk :
  existsb (file_listed c fo) fs = false ->
  load_files c fo fs (n, act, sk) =
  inr ((n + count_valid c fs)%N,
       (act ++ filter (group_enabled c) (flat_map groups_of fs))%list,
       (sk ++ invalid_names c fs)%list).
Proof.
  revert n act sk; induction fs as [|[name k] r IH]; intros n act sk H.
  - simpl. unfold count_valid, invalid_names. simpl. rewrite N.add_0_r, !app_nil_r. reflexivity.
  - cbn [existsb] in H. apply orb_false_iff in H as [H1 H2].
    cbn [load_files]. unfold file_listed in H1. cbn [snd] in H1.
    destruct (class_of c k) as [cls|] eqn:Ec.
    + rewrite H1. rewrite (IH _ _ _ H2). unfold count_valid, invalid_names, is_valid. cbn [filter snd].
      rewrite Ec. cbn [negb map fst flat_map]. unfold groups_of at 2. cbn [snd].
      assert (Hg : match k with Valid gs => gs | _ => [] end = []) by (destruct k; try reflexivity; discriminate).
      rewrite Hg. cbn [app]. rewrite <- app_assoc. reflexivity.
    + rewrite (IH _ _ _ H2). unfold count_valid, invalid_names, is_valid. cbn [filter snd].
      rewrite Ec. cbn [negb List.length flat_map]. unfold groups_of at 2. cbn [snd].
      rewrite filter_app, <- app_assoc. rewrite Nat2N.inj_succ, N.add_succ_l, N.add_succ_r. reflexivity.
Qed.

Lemma load_files_err c fo fs st :
  existsb (file_listed c fo) fs = true -> exists name, load_files c fo fs st = inl (ErrParse name).
Proof.
  revert st; induction fs as [|[name k] r IH]; intros [[n act] sk] H; [discriminate|].
  cbn [existsb] in H. cbn [load_files]. unfold file_listed in H. cbn [snd] in H.
  destruct (class_of c k) as [cls|] eqn:Ec.
  - destruct (fails fo cls) eqn:Ef; [eauto|]. simpl in H. apply IH. exact H.
  - simpl in H. apply IH. exact H.
Qed.

Lemma load_patterns_cons_nonempty c fo fs r i st : fs <> [] ->
  load_patterns c fo (Matches fs :: r) i st =
  match load_files c fo fs st with inl e => inl e | inr st' => load_patterns c fo r (N.succ i) st' end.
Proof. destruct fs; [congruence|reflexivity]. Qed.

Lemma load_patterns_ok c fo ps i n act sk :
  has_no_match ps = false -> listed_failure c fo ps = false ->
  load_patterns c fo ps i (n, act, sk) =
  inr ((n + count_valid c (all_files ps))%N,
       (act ++ filter (group_enabled c) (flat_map groups_of (all_files ps)))%list,
       (sk ++ invalid_names c (all_files ps))%list).
Proof.
  revert i n act sk; induction ps as [|p r IH]; intros i n act sk Hn Hl.
  - simpl. unfold count_valid, invalid_names. simpl. rewrite N.add_0_r, !app_nil_r. reflexivity.
  - cbn [has_no_match existsb] in Hn. apply orb_false_iff in Hn as [Hn1 Hn2].
    unfold listed_failure in Hl. change (all_files (p :: r)) with ((match p with Matches fs => fs | BadPattern => [] end) ++ all_files r)%list in *.
    rewrite existsb_app in Hl. apply orb_false_iff in Hl as [Hl1 Hl2].
    destruct p as [|fs].
    + discriminate.
    + assert (Hne : fs <> []) by (destruct fs; [discriminate|discriminate]).
      rewrite (load_patterns_cons_nonempty c fo fs r i _ Hne).
      rewrite (load_files_ok c fo fs n act sk Hl1).
      rewrite (IH _ _ _ _ Hn2 Hl2).
      unfold count_valid, invalid_names. rewrite !filter_app, !app_length, !map_app, flat_map_app, filter_app.
      rewrite <- !app_assoc, Nat2N.inj_add, N.add_assoc. reflexivity.
Qed.

Lemma load_patterns_err c fo ps i st :
  has_no_match ps = true \/ listed_failure c fo ps = true -> exists e, load_patterns c fo ps i st = inl e.
Proof.
  revert i st; induction ps as [|p r IH]; intros i st H.
  - destruct H; discriminate.
  - destruct p as [|fs].
    + cbn [load_patterns]. eauto.
    + destruct fs as [|f fs']; [cbn; eauto|].
      cbn [load_patterns].
      destruct (existsb (file_listed c fo) (f :: fs')) eqn:E.
      * destruct (load_files_err c fo (f :: fs') st E) as [name ->]. eauto.
      * destruct st as [[n act] sk]. rewrite (load_files_ok c fo (f :: fs') n act sk E).
        apply IH. destruct H as [H|H]; [left; exact H|right].
        unfold listed_failure in *. cbn [all_files flat_map] in H. rewrite existsb_app in H.
        apply orb_true_iff in H as [H|H]; [|exact H].
        unfold file_listed in E. rewrite E in H. discriminate.
Qed.

(* ---- the property's statements ---- *)
Lemma unknown_fail_on_always_error c ps :
  parse_fail_on (c_fail_on c) (c_legacy c) = None -> init c ps = InitErr ErrUnknownFailOn.
Proof. intros H. unfold init. rewrite H. reflexivity. Qed.

Lemma init_fails_iff c ps fo :
  parse_fail_on (c_fail_on c) (c_legacy c) = Some fo -> String.eqb (c_rules c) "" = false ->
  ((exists e, init c ps = InitErr e) <-> has_no_match ps = true \/ listed_failure c fo ps = true).
Proof.
  intros Hfo Hr. unfold init. rewrite Hfo, Hr. split.
  - intros [e He].
    destruct (has_no_match ps) eqn:Hn; [auto|]. destruct (listed_failure c fo ps) eqn:Hl; [auto|].
    rewrite (load_patterns_ok c fo ps 0%N 0%N [] [] Hn Hl) in He.
    destruct (N.eqb _ 0); discriminate.
  - intros H. destruct (load_patterns_err c fo ps 0%N (0%N, [], []) H) as [e ->]. eauto.
Qed.

(* when initialisation succeeds, exactly the enabled groups of the valid files are active, in file
   order — independent of where the skipped files sit in the sequence *)
Lemma survivors_apply c ps st :
  init c ps = InitOk st ->
  active st = filter (group_enabled c) (valid_groups ps)
  /\ skipped st = invalid_names c (all_files ps).
Proof.
  unfold init. destruct (parse_fail_on (c_fail_on c) (c_legacy c)) as [fo|]; [|discriminate].
  destruct (String.eqb (c_rules c) ""); [discriminate|].
  destruct (has_no_match ps) eqn:Hn.
  { destruct (load_patterns_err c fo ps 0%N (0%N, [], []) (or_introl Hn)) as [e ->]. discriminate. }
  destruct (listed_failure c fo ps) eqn:Hl.
  { destruct (load_patterns_err c fo ps 0%N (0%N, [], []) (or_intror Hl)) as [e ->]. discriminate. }
  rewrite (load_patterns_ok c fo ps 0%N 0%N [] [] Hn Hl).
  destruct (N.eqb _ 0); [discriminate|]. intros H; injection H as <-. simpl. auto.
Qed.

(* all files skipped (none valid, none listed): the checker is a no-op *)
Lemma noop_when_nothing_loaded c ps fo :
  parse_fail_on (c_fail_on c) (c_legacy c) = Some fo ->
  has_no_match ps = false -> listed_failure c fo ps = false ->
  count_valid c (all_files ps) = 0%N -> init c ps = InitNoop.
Proof.
  intros Hfo Hn Hl Hc. unfold init. rewrite Hfo. destruct (String.eqb (c_rules c) ""); [reflexivity|].
  rewrite (load_patterns_ok c fo ps 0%N 0%N [] [] Hn Hl). rewrite Hc. reflexivity.
Qed.

Lemma noop_when_nothing_loaded_prefix_refuted :
  exists c ps, init_prefix c ps = PInitEmptyEngine.
Proof.
  exists {| c_rules := "r.go"; c_fail_on := ""; c_legacy := false; c_enable := "<all>"; c_disable := "" |},
         [Matches [("r.go", SyntaxErr)]].
  reflexivity.
Qed.

Lemma unknown_fail_on_prefix_refuted :
  exists c ps, parse_fail_on (c_fail_on c) (c_legacy c) = None /\ init_prefix c ps = PInitNoop.
Proof.
  exists {| c_rules := ""; c_fail_on := "bogus"; c_legacy := false; c_enable := "<all>"; c_disable := "" |}, [].
  split; reflexivity.
Qed.

(* group filter: the property's sentence *)
Definition spec_group_enabled (c : rg_config) (g : group) : bool :=
  (String.eqb (c_enable c) "<all>" || mem (g_name g) (enabled_names c)
   || existsb (fun t => mem t (enabled_tags c)) (g_tags g))
  && negb (mem (g_name g) (disabled_names c))
  && negb (existsb (fun t => mem t (disabled_tags c)) (g_tags g)).

Lemma group_enabled_spec c g : group_enabled c g = spec_group_enabled c g.
Proof.
  unfold group_enabled, spec_group_enabled.
  destruct (String.eqb (c_enable c) "<all>" || mem (g_name g) (enabled_names c)
            || existsb (fun t => mem t (enabled_tags c)) (g_tags g)),
           (mem (g_name g) (disabled_names c)); reflexivity.
Qed.

Lemma mem_app x a b : mem x (a ++ b)%list = mem x a || mem x b.
Proof. induction a as [|y r IH]; simpl; [reflexivity|]. rewrite IH, orb_assoc. reflexivity. Qed.

(* experimental groups run only when "#experimental" is asked for in enable *)
Lemma experimental_only_on_request c g :
  mem "experimental" (g_tags g) = true -> group_enabled c g = true ->
  mem "experimental" (enabled_tags c) = true.
Proof.
  intros Ht. rewrite group_enabled_spec. unfold spec_group_enabled. rewrite !andb_true_iff.
  intros [_ Hd]. apply negb_true_iff in Hd.
  destruct (mem "experimental" (enabled_tags c)) eqn:E; [reflexivity|exfalso].
  assert (Hx : existsb (fun t => mem t (disabled_tags c)) (g_tags g) = true).
  { apply existsb_exists. exists "experimental". split; [apply mem_In; exact Ht|].
    unfold disabled_tags. rewrite E, mem_app. simpl. rewrite orb_true_r. reflexivity. }
  congruence.
Qed.

(* a malformed pattern is an initialisation error whatever failOn says; before the repair it was skipped *)
Lemma bad_pattern_always_error c ps fo :
  parse_fail_on (c_fail_on c) (c_legacy c) = Some fo -> String.eqb (c_rules c) "" = false ->
  In BadPattern ps -> exists e, init c ps = InitErr e.
Proof.
  intros Hfo Hr Hin. apply (init_fails_iff c ps fo Hfo Hr). left.
  unfold has_no_match. apply existsb_exists. exists BadPattern. split; [exact Hin|reflexivity].
Qed.

Lemma bad_pattern_skipped_prefix_refuted :
  exists c ps, In BadPattern ps /\ c_fail_on c = "all" /\ exists st, init_prefix c ps = PInitOk st.
Proof.
  exists {| c_rules := "[bad,r.go"; c_fail_on := "all"; c_legacy := false; c_enable := "<all>"; c_disable := "" |},
         [BadPattern; Matches [("r.go", Valid [{| g_name := "g"; g_tags := [] |}])]].
  split; [left; reflexivity|]. split; [reflexivity|]. eexists. vm_compute. reflexivity.
Qed.
