(* Proofs_PrecParse.v — the precedence-climbing parser of Model_PrecParse reads the printed tokens of every
   well-precedenced closed tree back as that tree (with enough fuel), whatever follows, as long as what follows
   cannot continue the expression. *)
From GC Require Import Base Model_Prec Proofs_Prec Model_PrecParse.
From Coq Require Import Arith Lia.
Local Open Scope list_scope.

Definition g0 : hl := fun _ => 0.

(* ---- convergence with enough fuel ---- *)
Definition conv {A : Type} (F : nat -> option A) (r : A) : Prop :=
  exists f0, forall f, f0 <= f -> F f = Some r.

Lemma conv_step {A : Type} (F G : nat -> option A) r : (forall f, F (S f) = G f) -> conv G r -> conv F r.
Proof.
  intros HF [f0 H]. exists (S f0). intros f Hf. destruct f as [|f]; [lia|]. rewrite HF. apply H. lia.
Qed.

Lemma conv_ret {A : Type} (F : nat -> option A) r : (forall f, F (S f) = Some r) -> conv F r.
Proof. intros HF. exists 1. intros f Hf. destruct f as [|f]; [lia|]. apply HF. Qed.

Lemma conv_bind {A B : Type} (F : nat -> option B) (Ga : nat -> option A) (K : nat -> A -> option B) a r :
  (forall f, F (S f) = match Ga f with Some v => K f v | None => None end) ->
  conv Ga a -> conv (fun f => K f a) r -> conv F r.
Proof.
  intros HF [fa Ha] [fk Hk]. exists (S (Nat.max fa fk)). intros f Hf. destruct f as [|f]; [lia|].
  rewrite HF, Ha by lia. apply Hk. lia.
Qed.

(* ---- token classes ---- *)
Definition binops : list string :=
  ["||"; "&&"; "=="; "!="; "<"; "<="; ">"; ">="; "+"; "-"; "|"; "^"; "*"; "/"; "%"; "<<"; ">>"; "&"; "&^"].

Lemma binop_in s : binprec s <> 0 -> In s binops.
Proof.
  unfold binprec, binops. intros H.
  repeat match type of H with
         | context [if mem s ?l then _ else _] =>
             let E := fresh "E" in destruct (mem s l) eqn:E;
             [apply mem_In in E; cbn [In] in *; intuition auto|]
         end.
  congruence.
Qed.

Ltac by_cases_in H := cbn [In binops] in H; repeat (destruct H as [<-|H]; [vm_compute; auto|]); try contradiction.

Lemma binop_nosuffix s w : binprec s <> 0 -> nosuffix (T s :: w) = true.
Proof. intros H. apply binop_in in H. unfold nosuffix. by_cases_in H. Qed.

Lemma closer_cases o c : closer o = Some c -> c = ")" \/ c = "]" \/ c = "}".
Proof.
  unfold closer. repeat (destruct (String.eqb o _); [intros [= <-]; auto|]). discriminate.
Qed.

Lemma closer_not_dot o c : closer o = Some c -> String.eqb o "." = false.
Proof.
  unfold closer. destruct (String.eqb_spec o "."); [subst; vm_compute; discriminate|reflexivity].
Qed.

Lemma binprec_le5 s : binprec s <= 5.
Proof. unfold binprec. repeat (destruct (mem s _); [lia|]). lia. Qed.

(* the first token of a printed good tree *)
Definition head_ok (s : string) : bool := negb (is_punct s) || String.eqb s "(" || is_unop s.

Lemma good_level_le7 e : good e = true -> level g0 e <= 7.
Proof.
  destruct e; cbn [good level]; intros H; try lia; try discriminate.
  apply andb_true_iff in H as [H _]. apply andb_true_iff in H as [H _]. apply Nat.eqb_eq in H.
  pose proof (binprec_le5 op). lia.
Qed.

Lemma head_good e : good e = true -> wp g0 e = true -> exists s w, pp e = T s :: w /\ head_ok s = true
  /\ (level g0 e = 7 -> is_unop s = false).
Proof.
  induction e as [a|x|e IH|op e IH|p op l r IHl IHr|e f IH|h o c ks IHh IHks|ks IHks] using ex_ind'; cbn [good wp]; intros Hg Hw.
  - exists a, []. repeat split; [unfold head_ok; rewrite Hg; reflexivity|].
    intros _. unfold is_punct in Hg. apply negb_true_iff in Hg. apply orb_false_iff in Hg as [Hg _].
    apply orb_false_iff in Hg as [_ Hg]. exact Hg.
  - discriminate.
  - exists "(", (pp e ++ [T ")"]). repeat split; reflexivity.
  - apply andb_true_iff in Hg as [Hu _]. exists op, (pp e). repeat split; [unfold head_ok; rewrite Hu; apply orb_true_r|].
    cbn [level]. discriminate.
  - apply andb_true_iff in Hg as [Hg Hr]. apply andb_true_iff in Hg as [Hp Hl].
    repeat (apply andb_true_iff in Hw as [Hw ?]).
    destruct (IHl Hl ltac:(assumption)) as (s & w & E & Hs & _). exists s, (w ++ T op :: pp r).
    cbn [pp]. rewrite E. repeat split; [exact Hs|]. cbn [level]. intros ->.
    apply Nat.eqb_eq in Hp. pose proof (binprec_le5 op). lia.
  - apply andb_true_iff in Hg as [_ He]. apply andb_true_iff in Hw as [Hwe Hl]. apply Nat.leb_le in Hl.
    destruct (IH He Hwe) as (s & w & E & Hs & H7). exists s, (w ++ [T "."; T f]).
    cbn [pp]. rewrite E. repeat split; [exact Hs|]. intros _. apply H7.
    pose proof (good_level_le7 e He). lia.
  - apply andb_true_iff in Hg as [Hg _]. apply andb_true_iff in Hg as [_ Hh].
    apply andb_true_iff in Hw as [Hw _]. apply andb_true_iff in Hw as [Hwh Hl]. apply Nat.leb_le in Hl.
    destruct (IHh Hh Hwh) as (s & w & E & Hs & H7). exists s, (w ++ T o :: commas ks ++ [T c]).
    rewrite pp_app_eq, E. repeat split; [exact Hs|]. intros _. apply H7.
    pose proof (good_level_le7 h Hh). lia.
  - discriminate.
Qed.

(* consequences of head_ok for the tests the parser makes *)
Lemma head_ok_not_closer o c s : closer o = Some c -> head_ok s = true -> String.eqb s c = false.
Proof.
  intros Hc Hs. destruct (String.eqb_spec s c) as [->|]; [|reflexivity].
  apply closer_cases in Hc as [->|[->| ->]]; vm_compute in Hs; discriminate.
Qed.

Lemma closer_tok_facts o c w : closer o = Some c ->
  binprec c = 0 /\ nosuffix (T c :: w) = true /\ String.eqb c "," = false.
Proof. intros Hc. apply closer_cases in Hc as [->|[->| ->]]; vm_compute; auto. Qed.

Lemma level_pos e : good e = true -> wp g0 e = true -> 1 <= level g0 e.
Proof.
  destruct e; cbn [good wp level]; intros Hg Hw; try lia; try discriminate.
  repeat (apply andb_true_iff in Hw as [Hw ?]). apply Nat.leb_le in Hw. exact Hw.
Qed.

(* ---- one-step equations of the parser ---- *)
Lemma bin_loop_stop f q x w : bp_head w < q -> bin_loop (S f) q x w = Some (x, w).
Proof.
  intros H. cbn [bin_loop]. destruct w as [|[s|y] w]; try reflexivity.
  cbn [bp_head] in H. destruct (Nat.eqb (binprec s) 0) eqn:E0; cbn [negb andb]; [reflexivity|].
  destruct (Nat.leb q (binprec s)) eqn:E1; [apply Nat.leb_le in E1; lia|reflexivity].
Qed.

Lemma bin_loop_op f q x op w : binprec op <> 0 -> q <= binprec op ->
  bin_loop (S f) q x (T op :: w) =
  match parse_bin f (S (binprec op)) w with
  | Some (y, w'') => bin_loop f q (EBin (binprec op) op x y) w''
  | None => None
  end.
Proof.
  intros H0 Hq. cbn [bin_loop]. apply Nat.eqb_neq in H0. rewrite H0. apply Nat.leb_le in Hq. rewrite Hq. reflexivity.
Qed.

Lemma suffix_loop_stop f x w : nosuffix w = true -> suffix_loop (S f) x w = Some (x, w).
Proof.
  intros H. cbn [suffix_loop]. destruct w as [|[s|y] w]; try reflexivity.
  cbn [nosuffix] in H. apply andb_true_iff in H as [Hd Hc]. apply negb_true_iff in Hd. rewrite Hd.
  destruct (closer s); [discriminate|reflexivity].
Qed.

Lemma suffix_loop_sel f x fld w : is_punct fld = false ->
  suffix_loop (S f) x (T "." :: T fld :: w) = suffix_loop f (ESel x fld) w.
Proof. intros H. cbn [suffix_loop]. rewrite H. reflexivity. Qed.

Lemma suffix_loop_app f x o c w : closer o = Some c ->
  suffix_loop (S f) x (T o :: w) =
  match parse_args f c w with
  | Some (ks, w'') => suffix_loop f (EApp x o c ks) w''
  | None => None
  end.
Proof. intros H. cbn [suffix_loop]. rewrite (closer_not_dot o c H), H. reflexivity. Qed.

(* ---- the round trip ---- *)
Definition C1 (t : ex) : Prop := level g0 t = 7 -> forall rest r,
  conv (fun f => suffix_loop f t rest) r -> conv (fun f => parse_primary f (pp t ++ rest)) r.
Definition C2 (t : ex) : Prop := 6 <= level g0 t -> forall rest, nosuffix rest = true ->
  conv (fun f => parse_unary f (pp t ++ rest)) (t, rest).
Definition C3 (t : ex) : Prop := forall q rest r, 1 <= q -> q <= level g0 t -> nosuffix rest = true ->
  bp_head rest <= level g0 t ->
  conv (fun f => bin_loop f q t rest) r -> conv (fun f => parse_bin f q (pp t ++ rest)) r.

(* C1 gives C2 for primaries, C2 gives C3 for everything that is not a binary node *)
Lemma C1_C2 t : good t = true -> wp g0 t = true -> level g0 t = 7 -> C1 t ->
  forall rest, nosuffix rest = true -> conv (fun f => parse_unary f (pp t ++ rest)) (t, rest).
Proof.
  intros Hg Hw H7 H1 rest Hr.
  destruct (head_good t Hg Hw) as (s & w & E & _ & Hu). specialize (Hu H7).
  apply conv_step with (G := fun f => parse_primary f (pp t ++ rest)).
  - intros f. rewrite E. cbn [parse_unary app]. rewrite Hu. reflexivity.
  - apply H1; [exact H7|]. apply conv_ret. intros f. apply suffix_loop_stop, Hr.
Qed.

Lemma C2_C3 t : 6 <= level g0 t -> (forall rest, nosuffix rest = true -> conv (fun f => parse_unary f (pp t ++ rest)) (t, rest)) -> C3 t.
Proof.
  intros H6 H2 q rest r Hq1 Hq Hr Hb Hl.
  eapply conv_bind with (Ga := fun f => parse_unary f (pp t ++ rest)) (K := fun f v => bin_loop f q (fst v) (snd v)).
  - intros f. cbn [parse_bin]. destruct (parse_unary f (pp t ++ rest)) as [[x w']|]; reflexivity.
  - apply H2, Hr.
  - exact Hl.
Qed.

Lemma args_conv o c ks rest :
  closer o = Some c -> forallb good ks = true -> forallb (wp g0) ks = true -> Forall C3 ks ->
  conv (fun f => parse_args f c (commas ks ++ T c :: rest)) (ks, rest).
Proof.
  intros Hc Hg Hw HC.
  destruct (closer_tok_facts o c rest Hc) as (Hb0 & Hns & Hcomma).
  destruct ks as [|k ks].
  - apply conv_ret. intros f. cbn [commas app parse_args]. rewrite String.eqb_refl. reflexivity.
  - (* the first token is not the closing token: go to parse_args1 *)
    assert (H1 : conv (fun f => parse_args1 f c (commas (k :: ks) ++ T c :: rest)) (k :: ks, rest)).
    { clear - Hc Hg Hw HC Hb0 Hns Hcomma. revert k Hg Hw HC. induction ks as [|k' ks IH]; intros k Hg Hw HC.
      - cbn [forallb] in Hg, Hw. apply andb_true_iff in Hg as [Hgk _]. apply andb_true_iff in Hw as [Hwk _].
        inversion HC as [|? ? HCk _]; subst.
        cbn [commas]. rewrite app_nil_r.
        eapply conv_bind with (Ga := fun f => parse_bin f 1 (pp k ++ T c :: rest))
                              (K := fun f v => match snd v with
                                               | T t :: w' => if String.eqb t c then Some ([fst v], w')
                                                              else if String.eqb t "," then
                                                                match parse_args1 f c w' with Some (ks, w'') => Some (fst v :: ks, w'') | None => None end
                                                              else None
                                               | _ => None end).
        + intros f. cbn [parse_args1]. destruct (parse_bin f 1 (pp k ++ T c :: rest)) as [[x [|[t|y] w']]|]; reflexivity.
        + apply HCk; [lia|apply level_pos; assumption|exact Hns|cbn [bp_head]; lia|].
          apply conv_ret. intros f. apply bin_loop_stop. cbn [bp_head]. lia.
        + apply conv_ret. intros f. cbn [snd fst]. rewrite String.eqb_refl. reflexivity.
      - cbn [forallb] in Hg, Hw. apply andb_true_iff in Hg as [Hgk Hg']. apply andb_true_iff in Hw as [Hwk Hw'].
        inversion HC as [|? ? HCk HC']; subst.
        change (commas (k :: k' :: ks)) with (pp k ++ T "," :: commas (k' :: ks)). rewrite <- app_assoc, <- app_comm_cons.
        eapply conv_bind with (Ga := fun f => parse_bin f 1 (pp k ++ T "," :: commas (k' :: ks) ++ T c :: rest))
                              (K := fun f v => match snd v with
                                               | T t :: w' => if String.eqb t c then Some ([fst v], w')
                                                              else if String.eqb t "," then
                                                                match parse_args1 f c w' with Some (ks, w'') => Some (fst v :: ks, w'') | None => None end
                                                              else None
                                               | _ => None end).
        + intros f. cbn [parse_args1]. destruct (parse_bin f 1 _) as [[x [|[t|y] w']]|]; reflexivity.
        + apply HCk; [lia|apply level_pos; assumption|reflexivity|cbn [bp_head]; vm_compute; lia|].
          apply conv_ret. intros f. apply bin_loop_stop. vm_compute. lia.
        + cbn [snd fst]. rewrite String.eqb_sym, Hcomma.
          destruct (IH k' Hg' Hw' HC') as [f0 Hf0]. exists f0. intros f Hf.
          rewrite (Hf0 f Hf). reflexivity. }
    cbn [forallb] in Hg, Hw. apply andb_true_iff in Hg as [Hgk _]. apply andb_true_iff in Hw as [Hwk _].
    destruct (head_good k Hgk Hwk) as (s & w & E & Hs & _).
    apply conv_step with (G := fun f => parse_args1 f c (commas (k :: ks) ++ T c :: rest)); [|exact H1].
    intros f. cbn [parse_args]. 
    assert (Ec : exists w', commas (k :: ks) ++ T c :: rest = T s :: w').
    { cbn [commas]. rewrite E. eexists. rewrite <- !app_comm_cons. reflexivity. }
    destruct Ec as [w' Ew]. rewrite Ew. rewrite (head_ok_not_closer o c s Hc Hs). reflexivity.
Qed.

Lemma forall_C3 ks :
  Forall (fun t => good t = true -> wp g0 t = true -> C1 t /\ C2 t /\ C3 t) ks ->
  forallb good ks = true -> forallb (wp g0) ks = true -> Forall C3 ks.
Proof.
  induction 1 as [|k ks Hk _ IH]; [constructor|].
  cbn [forallb]. rewrite !andb_true_iff. intros [Hg Hg'] [Hw Hw']. constructor; [apply Hk; assumption|apply IH; assumption].
Qed.

Lemma roundtrip t : good t = true -> wp g0 t = true -> C1 t /\ C2 t /\ C3 t.
Proof.
  induction t as [a|x|e IH|op e IH|p op l r IHl IHr|e f IH|h o c ks IHh IHks|ks IHks] using ex_ind'; intros Hg Hw.
  - (* atom *)
    assert (H1 : C1 (EAtom a)).
    { intros _ rest r Hr. apply conv_step with (G := fun f => suffix_loop f (EAtom a) rest); [|exact Hr].
      intros f. cbn [pp app parse_primary]. cbn [good] in Hg. apply negb_true_iff in Hg.
      destruct (String.eqb_spec a "(") as [->|_]; [vm_compute in Hg; discriminate|]. rewrite Hg. reflexivity. }
    assert (H2 : forall rest, nosuffix rest = true -> conv (fun f => parse_unary f (pp (EAtom a) ++ rest)) (EAtom a, rest))
      by (apply C1_C2; auto).
    repeat split; [exact H1|intros _; exact H2|apply C2_C3; [cbn; lia|exact H2]].
  - discriminate.
  - (* parenthesised *)
    cbn [good wp] in Hg, Hw. destruct (IH Hg Hw) as (_ & _ & H3e).
    assert (H1 : C1 (EParen e)).
    { intros _ rest r Hr.
      eapply conv_bind with (Ga := fun f => parse_bin f 1 (pp e ++ T ")" :: rest))
                            (K := fun f v => match snd v with
                                             | T c :: w'' => if String.eqb c ")" then suffix_loop f (EParen (fst v)) w'' else None
                                             | _ => None end).
      - intros f. cbn [pp]. rewrite <- app_comm_cons, <- app_assoc. cbn [app parse_primary String.eqb Ascii.eqb Bool.eqb].
        destruct (parse_bin f 1 (pp e ++ T ")" :: rest)) as [[x [|[c|y] w'']]|]; reflexivity.
      - apply H3e; [lia|apply level_pos; assumption|reflexivity|cbn [bp_head]; vm_compute; lia|].
        apply conv_ret. intros f. apply bin_loop_stop. vm_compute. lia.
      - cbn [snd fst]. exact Hr. }
    assert (H2 : forall rest, nosuffix rest = true -> conv (fun f => parse_unary f (pp (EParen e) ++ rest)) (EParen e, rest))
      by (apply C1_C2; auto).
    repeat split; [exact H1|intros _; exact H2|apply C2_C3; [cbn; lia|exact H2]].
  - (* unary *)
    cbn [good wp] in Hg, Hw. apply andb_true_iff in Hg as [Hu Hge]. apply andb_true_iff in Hw as [Hwe Hl]. apply Nat.leb_le in Hl.
    destruct (IH Hge Hwe) as (_ & H2e & _).
    assert (H2 : forall rest, nosuffix rest = true -> conv (fun f => parse_unary f (pp (EUn op e) ++ rest)) (EUn op e, rest)).
    { intros rest Hr.
      eapply conv_bind with (Ga := fun f => parse_unary f (pp e ++ rest)) (K := fun f v => Some (EUn op (fst v), snd v)).
      - intros f. cbn [pp]. rewrite <- app_comm_cons. cbn [parse_unary]. rewrite Hu.
        destruct (parse_unary f (pp e ++ rest)) as [[x w'']|]; reflexivity.
      - apply H2e; assumption.
      - apply conv_ret. reflexivity. }
    repeat split; [intros H7; cbn in H7; discriminate|intros _; exact H2|apply C2_C3; [cbn; lia|exact H2]].
  - (* binary *)
    cbn [good wp] in Hg, Hw. apply andb_true_iff in Hg as [Hg Hgr]. apply andb_true_iff in Hg as [Hp Hgl]. apply Nat.eqb_eq in Hp.
    repeat (apply andb_true_iff in Hw as [Hw ?]).
    repeat match goal with Hx : Nat.leb _ _ = true |- _ => apply Nat.leb_le in Hx end.
    destruct (IHl Hgl ltac:(assumption)) as (_ & _ & H3l). destruct (IHr Hgr ltac:(assumption)) as (_ & _ & H3r).
    assert (Hp0 : binprec op <> 0) by lia.
    repeat split.
    + intros H7. cbn [level] in H7. pose proof (binprec_le5 op). lia.
    + intros H6. cbn [level] in H6. pose proof (binprec_le5 op). lia.
    + intros q rest res Hq1 Hq Hr Hb Hres. cbn [level] in Hq, Hb.
      cbn [pp]. rewrite <- app_assoc, <- app_comm_cons.
      apply H3l; [exact Hq1|lia|apply binop_nosuffix; exact Hp0|cbn [bp_head]; lia|].
      (* the loop takes the operator, parses the right operand one level tighter, and goes on with the folded tree *)
      eapply conv_bind with (Ga := fun f => parse_bin f (S (binprec op)) (pp r ++ rest))
                            (K := fun f v => bin_loop f q (EBin (binprec op) op l (fst v)) (snd v)).
      * intros f. rewrite bin_loop_op by lia.
        destruct (parse_bin f (S (binprec op)) (pp r ++ rest)) as [[y w'']|]; reflexivity.
      * apply H3r; [lia|lia|exact Hr|lia|]. apply conv_ret. intros f. apply bin_loop_stop. lia.
      * cbn [fst snd]. rewrite Hp. exact Hres.
  - (* selector *)
    cbn [good wp] in Hg, Hw. apply andb_true_iff in Hg as [Hf Hge]. apply negb_true_iff in Hf.
    apply andb_true_iff in Hw as [Hwe Hl]. apply Nat.leb_le in Hl.
    destruct (IH Hge Hwe) as (H1e & _ & _).
    assert (H7e : level g0 e = 7) by (pose proof (good_level_le7 e Hge); lia).
    assert (H1 : C1 (ESel e f)).
    { intros _ rest r Hr. cbn [pp]. rewrite <- app_assoc. apply H1e; [exact H7e|].
      apply conv_step with (G := fun k => suffix_loop k (ESel e f) rest); [|exact Hr].
      intros k. cbn [app]. apply suffix_loop_sel, Hf. }
    assert (H2 : forall rest, nosuffix rest = true -> conv (fun k => parse_unary k (pp (ESel e f) ++ rest)) (ESel e f, rest)).
    { apply C1_C2; auto. cbn [good]. rewrite Hf, Hge. reflexivity. cbn [wp]. rewrite Hwe. apply Nat.leb_le in Hl. rewrite Hl. reflexivity. }
    repeat split; [exact H1|intros _; exact H2|apply C2_C3; [cbn; lia|exact H2]].
  - (* application *)
    cbn [good wp] in Hg, Hw. apply andb_true_iff in Hg as [Hg Hgks]. apply andb_true_iff in Hg as [Hc Hgh].
    apply andb_true_iff in Hw as [Hw Hwks]. apply andb_true_iff in Hw as [Hwh Hl]. apply Nat.leb_le in Hl.
    destruct (closer o) as [c'|] eqn:Eo; [|discriminate]. apply String.eqb_eq in Hc. subst c'.
    destruct (IHh Hgh Hwh) as (H1h & _ & _).
    assert (H7h : level g0 h = 7) by (pose proof (good_level_le7 h Hgh); lia).
    pose proof (forall_C3 ks IHks Hgks Hwks) as HCks.
    assert (H1 : C1 (EApp h o c ks)).
    { intros _ rest r Hr. rewrite pp_app_eq, <- app_assoc, <- app_comm_cons, <- app_assoc. apply H1h; [exact H7h|].
      eapply conv_bind with (Ga := fun k => parse_args k c (commas ks ++ [T c] ++ rest))
                            (K := fun k v => suffix_loop k (EApp h o c (fst v)) (snd v)).
      - intros k. rewrite (suffix_loop_app k h o c _ Eo).
        destruct (parse_args k c (commas ks ++ [T c] ++ rest)) as [[ks' w'']|]; reflexivity.
      - cbn [app]. eapply args_conv; eassumption.
      - cbn [fst snd]. exact Hr. }
    assert (H2 : forall rest, nosuffix rest = true -> conv (fun k => parse_unary k (pp (EApp h o c ks) ++ rest)) (EApp h o c ks, rest)).
    { apply C1_C2; auto.
      - cbn [good]. rewrite Eo, String.eqb_refl, Hgh, Hgks. reflexivity.
      - cbn [wp]. rewrite Hwh, Hwks. apply Nat.leb_le in Hl. rewrite Hl. reflexivity. }
    repeat split; [exact H1|intros _; exact H2|apply C2_C3; [cbn; lia|exact H2]].
  - discriminate.
Qed.

(* the parser reads the printed tokens of a good, well-precedenced tree back as that tree, at every precedence the
   tree is tight enough for, whatever follows — provided what follows cannot continue the expression *)
Theorem parse_print t q rest : good t = true -> wp g0 t = true ->
  1 <= q -> q <= level g0 t -> nosuffix rest = true -> bp_head rest < q ->
  conv (fun f => parse_bin f q (pp t ++ rest)) (t, rest).
Proof.
  intros Hg Hw Hq1 Hq Hr Hb. destruct (roundtrip t Hg Hw) as (_ & _ & H3).
  apply H3; [exact Hq1|exact Hq|exact Hr|lia|]. apply conv_ret. intros f. apply bin_loop_stop. exact Hb.
Qed.

Corollary parse_expr_print t : good t = true -> wp g0 t = true ->
  exists f0, forall f, f0 <= f -> parse_expr f (pp t) = Some t.
Proof.
  intros Hg Hw. destruct (parse_print t 1 [] Hg Hw) as [f0 H]; [lia|apply level_pos; assumption|reflexivity|cbn; lia|].
  exists f0. intros f Hf. unfold parse_expr. rewrite <- (app_nil_r (pp t)), (H f Hf). reflexivity.
Qed.

(* what textual rendering of a fix yields: if the conditions of the precedence table hold (Proofs_Prec.fix_in_context_parses)
   and the substituted context is a good closed tree, go/parser's algorithm returns exactly the intended tree *)
Theorem fixed_text_parses_to_intended_tree g s pat tpl ctx :
  respects g g0 s -> wp g tpl = true -> level g pat <= level g tpl ->
  wp (fun y => if String.eqb y "@" then level g pat else 0) ctx = true ->
  good (subst (hole_sub "@" (subst s tpl)) ctx) = true ->
  exists f0, forall f, f0 <= f ->
    parse_expr f (tsubst (hole_sub "@" (subst s tpl)) (pp ctx)) = Some (subst (hole_sub "@" (subst s tpl)) ctx).
Proof.
  intros Hs Hwp Hlv Hctx Hgood.
  destruct (wp_subst g g0 s tpl Hs Hwp) as [W L].
  assert (Hresp : respects (fun y => if String.eqb y "@" then level g pat else 0) g0 (hole_sub "@" (subst s tpl))).
  { intros y. unfold hole_sub. destruct (String.eqb y "@"); [split; [exact W|lia]|unfold g0; lia]. }
  destruct (wp_subst _ g0 _ ctx Hresp Hctx) as [Wc _].
  rewrite <- pp_subst. apply parse_expr_print; assumption.
Qed.

(* ---- underef's suggestion ---- *)
Lemma underef_sel_primary x f : good x = true -> wp g0 x = true -> level g0 x = 7 -> is_punct f = false ->
  exists f0, forall k, f0 <= k -> parse_expr k (underef_sel_text x f) = Some (ESel x f).
Proof.
  intros Hg Hw H7 Hf.
  assert (E : underef_sel_text x f = pp (ESel x f)).
  { unfold underef_sel_text, underef_operand. destruct x; try reflexivity. cbn [level] in H7. discriminate. }
  rewrite E. apply parse_expr_print.
  - cbn [good]. rewrite Hf, Hg. reflexivity.
  - cbn [wp]. rewrite Hw, H7. reflexivity.
Qed.

Lemma underef_sel_star y f : good y = true -> wp g0 y = true -> 6 <= level g0 y -> is_punct f = false ->
  exists f0, forall k, f0 <= k -> parse_expr k (underef_sel_text (EUn "*" y) f) = Some (ESel (EParen (EUn "*" y)) f).
Proof.
  intros Hg Hw H6 Hf.
  change (underef_sel_text (EUn "*" y) f) with (pp (ESel (EParen (EUn "*" y)) f)).
  apply parse_expr_print.
  - cbn [good]. rewrite Hf, Hg. reflexivity.
  - cbn [wp level]. rewrite Hw. apply Nat.leb_le in H6. rewrite H6. reflexivity.
Qed.

(* for any other unary operand the printed suggestion is read as the operator applied to the selection *)
Lemma underef_sel_unary_regroups :
  parse_expr 20 (underef_sel_text (EUn "&" (EAtom "x")) "v") = Some (EUn "&" (ESel (EAtom "x") "v"))
  /\ parse_expr 20 (underef_sel_text (EUn "<-" (EAtom "ch")) "v") = Some (EUn "<-" (ESel (EAtom "ch") "v"))
  /\ underef_sel_tree (EUn "&" (EAtom "x")) "v" = ESel (EUn "&" (EAtom "x")) "v".
Proof. vm_compute. auto. Qed.
