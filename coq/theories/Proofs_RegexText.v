(* Proofs_RegexText.v — C11, text level: print-then-lex/parse round trips for the two sub-languages of
   Model_RegexText under syntactic guards ("no character that becomes a meta-character in its new context"),
   and the five open re-lexing defect classes as refutations: each is exactly a failure of one guard. *)
From GC Require Import Base Model_Regex Model_RegexSimplify Model_RegexText Proofs_RegexSimplify.
Local Open Scope string_scope.

(* ------------------------------------------------------------------ *)
(* 1. tokens -> class items (parseCharClass / parseMinus)                                                 *)

Definition is_minus (e : sx) : bool := match e with X OpChar v _ => String.eqb v "-" | _ => false end.

Definition leaf_wf (e : sx) : bool :=
  match e with
  | X OpChar _ [] | X OpPosixClass _ [] => true
  | X OpEscapeChar v [X OpString w []] | X OpEscapeMeta v [X OpString w []] | X OpEscapeOctal v [X OpString w []] =>
      String.eqb w (drop 1 v)
  | _ => false
  end.

Definition item_wf (e : sx) : bool :=
  match e with
  | X OpCharRange v [lo; hi] =>
      leaf_wf lo && leaf_wf hi && valid_operand lo && negb (is_minus lo) && String.eqb v (print lo ++ "-" ++ print hi)
  | _ => leaf_wf e
  end.

(* a `-` item that is not the last one must not follow something that can start a range *)
Fixpoint items_ok (prev : option sx) (items : list sx) : bool :=
  match items with
  | [] => true
  | e :: r =>
      item_wf e &&
      (if is_minus e then
         match r, prev with
         | _ :: _, Some l => negb (valid_operand l)
         | _, _ => true
         end
       else true) &&
      items_ok (Some e) r
  end.

Lemma leaf_tok_node e : leaf_wf e = true -> exists t, leaf_tok e = Some t /\ tok_node t = e /\ (t = TMinus <-> is_minus e = true).
Proof.
  destruct e as [o v a]. destruct o; try discriminate; simpl.
  - destruct a; [|discriminate]. intros _. destruct (String.eqb_spec v "-") as [->|N].
    + exists TMinus. repeat split; auto.
    + exists (TChar v). repeat split; try discriminate.
  - destruct a as [|[[] w []] []]; try discriminate. intros H. apply String.eqb_eq in H. subst w.
    eexists. repeat split; try discriminate.
  - destruct a as [|[[] w []] []]; try discriminate. intros H. apply String.eqb_eq in H. subst w.
    eexists. repeat split; try discriminate.
  - destruct a as [|[[] w []] []]; try discriminate. intros H. apply String.eqb_eq in H. subst w.
    eexists. repeat split; try discriminate.
  - destruct a; [|discriminate]. intros _. eexists. repeat split; try discriminate.
Qed.

Definition olist (p : option sx) : list sx := match p with Some l => [l] | None => [] end.

Theorem parse_items_roundtrip items : forall prev toks,
  items_ok prev items = true -> items_toks items = Some toks ->
  parse_items prev toks = (olist prev ++ items)%list.
Proof.
  induction items as [|e r IH]; intros prev toks Hok Ht.
  - simpl in Ht. inversion Ht. destruct prev; reflexivity.
  - cbn [items_ok] in Hok. apply andb_true_iff in Hok as [Hok Hr]. apply andb_true_iff in Hok as [Hwf Hctx].
    cbn [items_toks] in Ht. destruct (item_toks e) as [te|] eqn:Ee; [|discriminate].
    destruct (items_toks r) as [tr|] eqn:Er; [|discriminate]. inversion Ht; subst toks. clear Ht.
    specialize (IH (Some e) tr Hr eq_refl). cbn [olist app] in IH.
    assert (Hrange : (exists v lo hi, e = X OpCharRange v [lo; hi]) \/ leaf_wf e = true /\ item_toks e = option_map (fun t => [t]) (leaf_tok e)).
    { destruct e as [o v a]. destruct o; try (right; split; [exact Hwf|reflexivity]).
      destruct a as [|lo [|hi [|? ?]]]; try discriminate Hwf. left. eauto. }
    destruct Hrange as [(v & lo & hi & ->)|[Hleaf Hit]].
    + (* a range *)
      cbn [item_wf] in Hwf. apply andb_true_iff in Hwf as [Hwf Hv]. apply andb_true_iff in Hwf as [Hwf Hnm].
      apply andb_true_iff in Hwf as [Hwf Hval]. apply andb_true_iff in Hwf as [Hlo Hhi].
      apply String.eqb_eq in Hv. apply negb_true_iff in Hnm.
      destruct (leaf_tok_node lo Hlo) as (tl & El & Nl & Ml). destruct (leaf_tok_node hi Hhi) as (th & Eh & Nh & _).
      cbn [item_toks] in Ee. rewrite El, Eh in Ee. inversion Ee; subst te. clear Ee.
      assert (Htl : tl <> TMinus) by (intros E; apply Ml in E; congruence).
      cbn [app].
      assert (Step : forall p, parse_items p (tl :: TMinus :: th :: tr) = (olist p ++ parse_items (Some lo) (TMinus :: th :: tr))%list).
      { intros [l|]; cbn [parse_items olist app]; rewrite Nl; [|reflexivity]. destruct tl; try reflexivity. congruence. }
      rewrite Step. cbn [parse_items]. rewrite Hval, Nh, <- Hv, IH. reflexivity.
    + (* a single item *)
      destruct (leaf_tok_node e Hleaf) as (t & Et & Nt & Mt). rewrite Hit, Et in Ee. inversion Ee; subst te. clear Ee.
      cbn [app]. destruct prev as [l|]; cbn [parse_items olist app].
      * destruct (is_minus e) eqn:Em.
        -- assert (t = TMinus) by (apply Mt; reflexivity). subst t.
           destruct (valid_operand l) eqn:Ev.
           ++ destruct r as [|e2 r2]; [|discriminate Hctx]. simpl in Er. inversion Er; subst tr. rewrite <- Nt. reflexivity.
           ++ cbn [tok_node] in Nt. subst e. f_equal. exact IH.
        -- assert (Hne : t <> TMinus) by (intros E; apply Mt in E; congruence).
           destruct t; try congruence; rewrite Nt, IH; reflexivity.
      * rewrite Nt. exact IH.
Qed.

(* ------------------------------------------------------------------ *)
(* 2. text -> tokens inside a class (scanCharClass)                                                        *)

Lemma sapp_assoc (a b c : string) : (a ++ b) ++ c = a ++ (b ++ c).
Proof. induction a as [|x a IH]; simpl; [reflexivity|]. rewrite IH. reflexivity. Qed.
Lemma slen_app (a b : string) : String.length (a ++ b) = (String.length a + String.length b)%nat.
Proof. induction a as [|x a IH]; simpl; [reflexivity|]. rewrite IH. reflexivity. Qed.

Definition u8size (b : N) : nat :=
  if (b <? 192)%N then 0%nat else if (b <? 224)%N then 1%nat else if (b <? 240)%N then 2%nat else 3%nat.

Lemma substring_app_exact (w t : string) : substring 0 (String.length w) (w ++ t) = w.
Proof. induction w as [|a w IH]; simpl; [destruct t; reflexivity|]. rewrite IH. reflexivity. Qed.
Lemma drop_app_exact (w t : string) : drop (String.length w) (w ++ t) = t.
Proof. induction w as [|a w IH]; simpl; [destruct t; reflexivity|]. exact IH. Qed.

(* a multi-byte character: lead byte and exactly the continuation bytes it announces *)
Definition mb_char (a : ascii) (w : string) : bool :=
  (192 <=? b_of a)%N && Nat.eqb (String.length w) (u8size (b_of a)).

Lemma utf8_take_exact a w t : mb_char a w = true -> utf8_take a (w ++ t) = Some (String a w, t).
Proof.
  unfold mb_char, utf8_take. intros H. apply andb_true_iff in H as [H1 H2]. apply Nat.eqb_eq in H2.
  fold (u8size (b_of a)). rewrite <- H2.
  assert (E : Nat.eqb (String.length w) 0 = false).
  { rewrite H2. unfold u8size. apply N.leb_le in H1. destruct (N.ltb_spec (b_of a) 192); [lia|].
    destruct (b_of a <? 224)%N; [reflexivity|]. destruct (b_of a <? 240)%N; reflexivity. }
  rewrite E. rewrite slen_app. assert (L : Nat.ltb (String.length w + String.length t) (String.length w) = false) by (apply Nat.ltb_ge; lia).
  rewrite L, substring_app_exact, drop_app_exact. reflexivity.
Qed.

Definition first_b (s : string) : N := match s with String a _ => b_of a | EmptyString => 0%N end.

Lemma first_b_app (x y z : string) : y <> "" -> first_b (x ++ y ++ z) = first_b (x ++ y).
Proof. intros Hy. destruct x; simpl; [|reflexivity]. destruct y; [congruence|reflexivity]. Qed.

Definition name_char (b : N) : bool := (((97 <=? b) && (b <=? 122)) || (b =? 94))%N.

(* name ++ ":]" with a name made of lower-case letters and ^ *)
Fixpoint posix_tail (s : string) : bool :=
  match s with
  | String a r => if (b_of a =? 58)%N then String.eqb r "]" else name_char (b_of a) && posix_tail r
  | EmptyString => false
  end.

Lemma split_posix_tail s rest : posix_tail s = true ->
  exists name, s = name ++ ":]" /\ split_posix (s ++ rest) = Some (name, rest).
Proof.
  induction s as [|a r IH]; [discriminate|]. cbn [posix_tail]. destruct (b_of a =? 58)%N eqn:E58.
  - intros H. apply String.eqb_eq in H. subst r. exists "". split.
    + simpl. f_equal. apply N.eqb_eq in E58. unfold b_of in E58.
      rewrite <- (ascii_N_embedding a), E58. reflexivity.
    + simpl. rewrite E58. reflexivity.
  - intros H. apply andb_true_iff in H as [_ H]. destruct (IH H) as (n & -> & Hs). exists (String a n). split; [reflexivity|].
    change ((String a (n ++ ":]")) ++ rest) with (String a ((n ++ ":]") ++ rest)). cbn [split_posix].
    destruct ((n ++ ":]") ++ rest) as [|c r2] eqn:En; [destruct n; discriminate En|].
    rewrite E58. cbn [andb]. rewrite Hs. reflexivity.
Qed.

Definition ctok_ok (t : tok) (next : N) : bool :=
  match t with
  | TChar (String a w) =>
      let b := b_of a in
      if (b <? 128)%N then
        match w with EmptyString => true | _ => false end &&
        negb (b =? 92)%N && negb (b =? 45)%N && negb (b =? 93)%N && (negb (b =? 91)%N || negb (next =? 58)%N)
      else mb_char a w
  | TMinus => true
  | TPosix (String a0 (String a1 r)) => (b_of a0 =? 91)%N && (b_of a1 =? 58)%N && posix_tail r
  | TEsc o (String bs (String a EmptyString)) =>
      let b := b_of a in
      (b_of bs =? 92)%N && (b <? 128)%N && negb ((b =? 112) || (b =? 80) || (b =? 120) || (b =? 81))%N && negb (is_oct b) &&
      op_eqb o (if class_meta b then OpEscapeMeta else OpEscapeChar)
  | _ => false
  end.

Fixpoint ctoks_ok (ts : list tok) : bool :=
  match ts with
  | [] => true
  | t :: r => ctok_ok t (first_b (toks_text r ++ "]")) && ctoks_ok r
  end.

Lemma op_eqb_eq' a b : op_eqb a b = true -> a = b.
Proof. destruct a, b; intros H; try reflexivity; discriminate H. Qed.

Lemma ascii_of_b a n : b_of a = n -> a = ascii_of_N n.
Proof. unfold b_of. intros <-. symmetry. apply ascii_N_embedding. Qed.

Theorem lex_body_roundtrip ts : forall rest fuel,
  ctoks_ok ts = true -> (String.length (toks_text ts) < fuel)%nat ->
  lex_body fuel (toks_text ts ++ "]" ++ rest) = Some (ts, rest).
Proof.
  induction ts as [|t r IH]; intros rest fuel Hok Hf.
  - destruct fuel as [|f]; [inversion Hf|]. reflexivity.
  - cbn [ctoks_ok] in Hok. apply andb_true_iff in Hok as [Ht Hr].
    destruct fuel as [|f]; [inversion Hf|].
    cbn [toks_text] in Hf |- *. rewrite slen_app in Hf. rewrite sapp_assoc.
    set (tail := toks_text r ++ "]" ++ rest) in *.
    assert (Htail : forall f', (String.length (tok_text t) + String.length (toks_text r) < S f')%nat -> (0 < String.length (tok_text t))%nat ->
                    lex_body f' tail = Some (r, rest)).
    { intros f' H1 H2. apply IH; [exact Hr|lia]. }
    assert (Hnext : first_b tail = first_b (toks_text r ++ "]")) by (apply first_b_app; discriminate).
    destruct t as [v| |v|o v|v]; try discriminate Ht.
    + (* TChar *)
      destruct v as [|a w]; try discriminate Ht. cbn [ctok_ok] in Ht.
      destruct (b_of a <? 128)%N eqn:H128.
      * destruct w as [|? ?]; [|discriminate Ht]. cbn [andb] in Ht.
        apply andb_true_iff in Ht as [Ht Hcol]. apply andb_true_iff in Ht as [Ht H93]. apply andb_true_iff in Ht as [H92 H45].
        apply negb_true_iff in H92. apply negb_true_iff in H45. apply negb_true_iff in H93.
        assert (G128 : (128 <=? b_of a)%N = false) by (apply N.leb_gt; apply N.ltb_lt; exact H128).
        cbn [tok_text append lex_body]. rewrite G128, H92.
        specialize (Htail f ltac:(simpl in *; lia) ltac:(simpl; lia)).
        destruct (b_of a =? 91)%N eqn:E91.
        -- cbn [negb orb] in Hcol. apply negb_true_iff in Hcol. rewrite <- Hnext in Hcol.
           destruct tail as [|c r1] eqn:Etl; [unfold tail in Etl; destruct (toks_text r); discriminate Etl|].
           cbn [first_b] in Hcol. rewrite Hcol, Htail. reflexivity.
        -- rewrite H45, H93, Htail. reflexivity.
      * assert (G128 : (128 <=? b_of a)%N = true) by (apply N.leb_le; apply N.ltb_ge in H128; exact H128).
        cbn [tok_text append lex_body]. rewrite G128, (utf8_take_exact a w tail Ht).
        rewrite (Htail f ltac:(simpl in *; lia) ltac:(simpl; lia)). reflexivity.
    + (* TMinus *)
      cbn [tok_text append lex_body]. change (b_of "-") with 45%N. cbn [N.leb N.eqb Pos.eqb N.compare Pos.compare Pos.compare_cont].
      rewrite (Htail f ltac:(simpl in *; lia) ltac:(simpl; lia)). reflexivity.
    + (* TPosix *)
      destruct v as [|a0 [|a1 v]]; try discriminate Ht. cbn [ctok_ok] in Ht.
      apply andb_true_iff in Ht as [Ht Hp]. apply andb_true_iff in Ht as [E0 E1].
      destruct (split_posix_tail v tail Hp) as (name & Hv & Hsp).
      apply N.eqb_eq in E0. apply N.eqb_eq in E1.
      cbn [tok_text append lex_body]. rewrite E0. cbn [N.leb N.eqb Pos.eqb N.compare Pos.compare Pos.compare_cont].
      rewrite E1. cbn [N.eqb Pos.eqb]. rewrite Hsp.
      rewrite (Htail f ltac:(simpl in *; lia) ltac:(simpl; lia)).
      rewrite (ascii_of_b a0 _ E0), (ascii_of_b a1 _ E1), Hv. reflexivity.
    + (* TEsc *)
      destruct v as [|bs [|a [|? ?]]]; try discriminate Ht. cbn [ctok_ok] in Ht.
      apply andb_true_iff in Ht as [Ht Hop]. apply andb_true_iff in Ht as [Ht Hoct]. apply andb_true_iff in Ht as [Ht Hpx].
      apply andb_true_iff in Ht as [Ebs H128]. apply N.eqb_eq in Ebs. apply negb_true_iff in Hoct. apply negb_true_iff in Hpx.
      apply op_eqb_eq' in Hop.
      assert (G128 : (128 <=? b_of a)%N = false) by (apply N.leb_gt; apply N.ltb_lt; exact H128).
      cbn [tok_text append lex_body]. rewrite Ebs. cbn [N.leb N.eqb Pos.eqb N.compare Pos.compare Pos.compare_cont].
      cbn [lex_escape]. rewrite G128, Hpx, Hoct.
      rewrite (Htail f ltac:(simpl in *; lia) ltac:(simpl; lia)). subst o. reflexivity.
Qed.

(* ------------------------------------------------------------------ *)
(* 3. print-then-parse for a whole class                                                                   *)

Fixpoint ptext (l : list sx) : string := match l with [] => "" | x :: r => print x ++ ptext r end.

Lemma print_class (neg : bool) v items :
  print (X (if neg then OpNegCharClass else OpCharClass) v items) = (if neg then "[^" else "[") ++ ptext items ++ "]".
Proof.
  destruct neg; cbn [print]; f_equal; f_equal; induction items as [|x r IH]; simpl; try reflexivity; rewrite IH; reflexivity.
Qed.

Lemma leaf_print e t : leaf_wf e = true -> leaf_tok e = Some t -> print e = tok_text t.
Proof.
  destruct e as [o v a]. destruct o; try discriminate; simpl; intros _ H; inversion H; try reflexivity.
  destruct (String.eqb_spec v "-") as [->|_]; reflexivity.
Qed.

Lemma toks_text_app a b : toks_text (a ++ b) = toks_text a ++ toks_text b.
Proof. induction a as [|t a IH]; simpl; [reflexivity|]. rewrite IH, sapp_assoc. reflexivity. Qed.

Lemma sapp_nil_r (s : string) : s ++ "" = s.
Proof. induction s as [|a s IH]; simpl; [reflexivity|]. rewrite IH. reflexivity. Qed.

Lemma ptext_toks items : forall prev toks, items_ok prev items = true -> items_toks items = Some toks -> ptext items = toks_text toks.
Proof.
  induction items as [|e r IH]; intros prev toks Hok Ht.
  - simpl in Ht. inversion Ht. reflexivity.
  - cbn [items_ok] in Hok. apply andb_true_iff in Hok as [Hok Hr]. apply andb_true_iff in Hok as [Hwf _].
    cbn [items_toks] in Ht. destruct (item_toks e) as [te|] eqn:Ee; [|discriminate].
    destruct (items_toks r) as [tr|] eqn:Er; [|discriminate]. inversion Ht; subst toks.
    cbn [ptext]. rewrite toks_text_app, (IH (Some e) tr Hr eq_refl). f_equal.
    destruct e as [o v a]. destruct o; try (cbn [item_toks] in Ee; destruct (leaf_tok _) as [t|] eqn:El; [|discriminate];
      inversion Ee; cbn [toks_text]; rewrite sapp_nil_r; apply leaf_print; assumption).
    destruct a as [|lo [|hi [|? ?]]]; try discriminate Hwf. cbn [item_wf] in Hwf.
    apply andb_true_iff in Hwf as [Hwf Hv]. apply andb_true_iff in Hwf as [Hwf _]. apply andb_true_iff in Hwf as [Hwf _].
    apply andb_true_iff in Hwf as [Hlo Hhi]. apply String.eqb_eq in Hv.
    cbn [item_toks] in Ee. destruct (leaf_tok lo) as [tl|] eqn:El; [|discriminate]. destruct (leaf_tok hi) as [th|] eqn:Eh; [|discriminate].
    inversion Ee. cbn [print toks_text tok_text]. rewrite Hv, sapp_nil_r, (leaf_print lo tl Hlo El), (leaf_print hi th Hhi Eh). reflexivity.
Qed.

Lemma ctok_first t n : ctok_ok t n = true -> exists c x, tok_text t = String c x /\ b_of c <> 93%N.
Proof.
  destruct t as [v| |v|o v|v]; try discriminate.
  - destruct v as [|a w]; try discriminate. cbn [ctok_ok]. intros H. exists a, w. split; [reflexivity|].
    destruct (b_of a <? 128)%N eqn:E.
    + apply andb_true_iff in H as [H _]. apply andb_true_iff in H as [_ H]. apply negb_true_iff in H. apply N.eqb_neq in H. exact H.
    + apply N.ltb_ge in E. lia.
  - intros _. exists "-"%char, "". split; [reflexivity|discriminate].
  - destruct v as [|a0 [|a1 v]]; try discriminate. cbn [ctok_ok]. intros H.
    apply andb_true_iff in H as [H _]. apply andb_true_iff in H as [H _]. apply N.eqb_eq in H.
    eexists. eexists. split; [reflexivity|]. rewrite H. discriminate.
  - destruct v as [|bs [|a [|? ?]]]; try discriminate. cbn [ctok_ok]. intros H.
    repeat (apply andb_true_iff in H as [H _]). apply N.eqb_eq in H.
    eexists. eexists. split; [reflexivity|]. rewrite H. discriminate.
Qed.

(* THE ROUND TRIP for classes: the text printed for a class whose items satisfy the guards is read back, by the
   lexer and parser the checker uses, as the same items, and nothing of what follows is consumed *)
Theorem class_print_parse (neg : bool) v items toks rest :
  toks <> [] -> items_ok None items = true -> items_toks items = Some toks -> ctoks_ok toks = true ->
  (neg = false -> first_b (toks_text toks) <> 94%N) ->
  exists v', parse_class (print (X (if neg then OpNegCharClass else OpCharClass) v items) ++ rest) =
             Some (X (if neg then OpNegCharClass else OpCharClass) v' items, rest).
Proof.
  intros Hne Hio Hit Hct Hcaret.
  rewrite print_class, (ptext_toks items None toks Hio Hit).
  destruct toks as [|t0 tr]; [congruence|]. cbn [ctoks_ok] in Hct. apply andb_true_iff in Hct as [Ht0 Htr].
  destruct (ctok_first t0 _ Ht0) as (c & x & Etx & Hc93).
  assert (Hbody : forall f, (String.length (toks_text (t0 :: tr)) < f)%nat ->
                  lex_body f (toks_text (t0 :: tr) ++ "]" ++ rest) = Some (t0 :: tr, rest)).
  { intros f Hf. apply lex_body_roundtrip; [cbn [ctoks_ok]; rewrite Ht0, Htr; reflexivity|exact Hf]. }
  assert (Hshape : toks_text (t0 :: tr) = String c (x ++ toks_text tr)) by (cbn [toks_text]; rewrite Etx; reflexivity).
  pose proof (parse_items_roundtrip items None (t0 :: tr) Hio Hit) as Hpi. cbn [olist app] in Hpi.
  apply N.eqb_neq in Hc93.
  assert (Hc94 : neg = false -> (b_of c =? 94)%N = false).
  { intros E. specialize (Hcaret E). rewrite Hshape in Hcaret. cbn [first_b] in Hcaret. apply N.eqb_neq. exact Hcaret. }
  clear Hcaret.
  remember (toks_text (t0 :: tr) ++ "]" ++ rest) as body eqn:Eb.
  assert (Hb : exists y, body = String c y).
  { rewrite Eb, Hshape. eexists. reflexivity. }
  destruct Hb as (y & Hy).
  assert (Hlen : (String.length (toks_text (t0 :: tr)) < S (String.length body))%nat).
  { rewrite Eb, slen_app. lia. }
  specialize (Hbody (S (String.length body)) Hlen).
  unfold parse_class, lex_class. rewrite !sapp_assoc. fold (append "]" rest). rewrite <- Eb.
  destruct neg.
  - cbn [append]. change (b_of "[") with 91%N. change (b_of "^") with 94%N. cbn [N.eqb Pos.eqb negb].
    rewrite Hy. rewrite Hc93. rewrite <- Hy. rewrite Hbody. cbn [app]. rewrite Hpi. eexists. reflexivity.
  - cbn [append]. change (b_of "[") with 91%N. cbn [N.eqb Pos.eqb negb].
    rewrite Hy. rewrite (Hc94 eq_refl), Hc93. rewrite <- Hy. rewrite Hbody. cbn [app]. rewrite Hpi. eexists. reflexivity.
Qed.

(* ------------------------------------------------------------------ *)
(* 4. literal runs: characters, escapes, and the braces / octal digits that change meaning with their neighbours *)

Definition ltok_ok (t : tok) (next : N) : bool :=
  match t with
  | TChar (String a w) =>
      let b := b_of a in
      if (b <? 128)%N then
        match w with EmptyString => true | _ => false end &&
        negb (b =? 92)%N && negb (is_operator b) && (negb (b =? 123)%N || negb (is_dig next))
      else mb_char a w
  | TEsc o (String bs (String a EmptyString)) =>
      let b := b_of a in
      (b_of bs =? 92)%N && (b <? 128)%N && negb ((b =? 112) || (b =? 80) || (b =? 120) || (b =? 81))%N &&
      (if is_oct b then op_eqb o OpEscapeOctal && negb (is_oct next)
       else op_eqb o (if re_meta b then OpEscapeMeta else OpEscapeChar))
  | _ => false
  end.

(* [rest] = the text that follows the run (its first byte is what the last token is checked against) *)
Fixpoint ltoks_ok_in (ts : list tok) (rest : string) : bool :=
  match ts with
  | [] => true
  | t :: r => ltok_ok t (first_b (toks_text r ++ rest)) && ltoks_ok_in r rest
  end.
Definition ltoks_ok (ts : list tok) : bool := ltoks_ok_in ts "".

Lemma lex_repeat_no_digit s : is_dig (first_b s) = false -> lex_repeat s = None.
Proof.
  intros H. unfold lex_repeat. destruct s as [|a r]; [reflexivity|]. cbn [first_b] in H. cbn [span_digits]. rewrite H. reflexivity.
Qed.

(* a literal run followed by any text: the run is read back token by token and lexing continues with what follows *)
Theorem lex_lits_run ts rest : forall fuel,
  ltoks_ok_in ts rest = true -> (String.length (toks_text ts) + String.length rest < fuel)%nat ->
  lex_lits fuel (toks_text ts ++ rest) = option_map (app ts) (lex_lits (fuel - List.length ts) rest).
Proof.
  induction ts as [|t r IH]; intros fuel Hok Hf.
  - cbn [toks_text append List.length app]. rewrite Nat.sub_0_r. destruct (lex_lits fuel rest); reflexivity.
  - cbn [ltoks_ok_in] in Hok. apply andb_true_iff in Hok as [Ht Hr].
    destruct fuel as [|f]; [inversion Hf|].
    cbn [toks_text] in Hf |- *. rewrite slen_app in Hf. rewrite sapp_assoc.
    set (tail := toks_text r ++ rest) in *.
    assert (Htail : (0 < String.length (tok_text t))%nat ->
                    lex_lits f tail = option_map (app r) (lex_lits (S f - List.length (t :: r)) rest)).
    { intros H2. cbn [List.length Nat.sub]. apply IH; [exact Hr|lia]. }
    assert (Hcons : forall o : option (list tok),
              match option_map (app r) o with Some ts0 => Some (t :: ts0) | None => None end = option_map (app (t :: r)) o).
    { intros [l|]; reflexivity. }
    destruct t as [v| |v|o v|v]; try discriminate Ht.
    + destruct v as [|a w]; try discriminate Ht. cbn [ltok_ok] in Ht.
      destruct (b_of a <? 128)%N eqn:H128.
      * destruct w as [|? ?]; [|discriminate Ht]. cbn [andb] in Ht.
        apply andb_true_iff in Ht as [Ht Hbr]. apply andb_true_iff in Ht as [H92 Hop].
        apply negb_true_iff in H92. apply negb_true_iff in Hop.
        assert (G128 : (128 <=? b_of a)%N = false) by (apply N.leb_gt; apply N.ltb_lt; exact H128).
        cbn [tok_text append lex_lits]. rewrite G128, H92. specialize (Htail ltac:(simpl; lia)).
        destruct (b_of a =? 123)%N eqn:E123.
        -- cbn [negb orb] in Hbr. apply negb_true_iff in Hbr. rewrite (lex_repeat_no_digit tail Hbr), Htail. apply Hcons.
        -- rewrite Hop, Htail. apply Hcons.
      * assert (G128 : (128 <=? b_of a)%N = true) by (apply N.leb_le; apply N.ltb_ge in H128; exact H128).
        cbn [tok_text append lex_lits]. rewrite G128, (utf8_take_exact a w tail Ht).
        rewrite (Htail ltac:(simpl; lia)). apply Hcons.
    + destruct v as [|bs [|a [|? ?]]]; try discriminate Ht. cbn [ltok_ok] in Ht.
      apply andb_true_iff in Ht as [Ht Hop]. apply andb_true_iff in Ht as [Ht Hpx].
      apply andb_true_iff in Ht as [Ebs H128]. apply N.eqb_eq in Ebs. apply negb_true_iff in Hpx.
      assert (G128 : (128 <=? b_of a)%N = false) by (apply N.leb_gt; apply N.ltb_lt; exact H128).
      cbn [tok_text append lex_lits]. rewrite Ebs. cbn [N.leb N.eqb Pos.eqb N.compare Pos.compare Pos.compare_cont].
      cbn [lex_escape]. rewrite G128, Hpx. specialize (Htail ltac:(simpl; lia)).
      destruct (is_oct (b_of a)) eqn:Eoct.
      * apply andb_true_iff in Hop as [Hop Hnx]. apply op_eqb_eq' in Hop. apply negb_true_iff in Hnx. subst o.
        destruct tail as [|a2 r2] eqn:Etl; [rewrite Htail; apply Hcons|]. cbn [first_b] in Hnx. rewrite Hnx, Htail. apply Hcons.
      * apply op_eqb_eq' in Hop. subst o. rewrite Htail. apply Hcons.
Qed.

(* the whole text is one run *)
Theorem lex_lits_roundtrip ts : forall fuel,
  ltoks_ok ts = true -> (String.length (toks_text ts) < fuel)%nat -> lex_lits fuel (toks_text ts) = Some ts.
Proof.
  intros fuel Hok Hf. pose proof (lex_lits_run ts "" fuel Hok) as H. rewrite sapp_nil_r in H. rewrite H by (simpl; lia).
  destruct (fuel - List.length ts)%nat as [|f'] eqn:E.
  - exfalso. assert (List.length ts <= String.length (toks_text ts))%nat; [|lia].
    clear -Hok. unfold ltoks_ok in Hok. revert Hok. generalize "". induction ts as [|t r IH]; intros rest Hok; [simpl; lia|].
    cbn [ltoks_ok_in] in Hok. apply andb_true_iff in Hok as [Ht Hr]. cbn [toks_text List.length]. rewrite slen_app.
    specialize (IH rest Hr). assert (1 <= String.length (tok_text t))%nat; [|lia].
    destruct t as [v| |v|o v|v]; try discriminate Ht; destruct v as [|? ?]; try discriminate Ht; simpl; lia.
  - cbn [lex_lits option_map]. rewrite app_nil_r. reflexivity.
Qed.

(* ------------------------------------------------------------------ *)
(* 5. the five open re-lexing classes: each is a failure of exactly one guard, and the text really reads back
      as something else *)

(* [a-b-x] => [ab-x]: after enumerating a-b the item `b` (can start a range) is followed by `-` *)
Definition rl_range_items := [X OpChar "a" []; X OpChar "b" []; X OpChar "-" []; X OpChar "x" []].
Lemma relex_range_enumeration_refuted :
  items_ok None rl_range_items = false /\
  items_toks rl_range_items = Some [TChar "a"; TChar "b"; TMinus; TChar "x"] /\
  parse_items None [TChar "a"; TChar "b"; TMinus; TChar "x"] <> rl_range_items /\
  option_map fst (parse_class "[ab-x]") = Some t_rng2_after.
Proof. repeat split; try (vm_compute; reflexivity). vm_compute. discriminate. Qed.

(* [[\:alpha:]] => [[:alpha:]]: the bare `[` is now followed by `:` *)
Definition rl_posix_toks := [TChar "["; TChar ":"; TChar "a"; TChar "l"; TChar "p"; TChar "h"; TChar "a"; TChar ":"].
Lemma relex_escape_removal_posix_refuted :
  ctoks_ok rl_posix_toks = false /\
  lex_body 20 (toks_text rl_posix_toks ++ "]" ++ "]") <> Some (rl_posix_toks, "]") /\
  option_map fst (parse_class "[[:alpha:]]") = Some t_esc_posix_after.
Proof. repeat split; try (vm_compute; reflexivity). vm_compute. discriminate. Qed.

(* a{1\,2} => a{1,2}: the bare `{` is now followed by digits , digits } *)
Definition rl_repeat_toks := [TChar "a"; TChar "{"; TChar "1"; TChar ","; TChar "2"; TChar "}"].
Lemma relex_escape_removal_repeat_refuted :
  ltoks_ok rl_repeat_toks = false /\ lex_literals (toks_text rl_repeat_toks) = Some [TChar "a"; TRepeat "{1,2}"].
Proof. split; vm_compute; reflexivity. Qed.

(* a(?:{)2} => a{2}: the unwrapped `{` is now followed by a digit *)
Definition rl_unwrap_toks := [TChar "a"; TChar "{"; TChar "2"; TChar "}"].
Lemma relex_unwrap_repeat_refuted :
  ltoks_ok rl_unwrap_toks = false /\ lex_literals (toks_text rl_unwrap_toks) = Some [TChar "a"; TRepeat "{2}"].
Proof. split; vm_compute; reflexivity. Qed.

(* \0(?:1) => \01: the one-digit octal escape is now followed by an octal digit *)
Definition rl_octal_toks := [TEsc OpEscapeOctal "\0"; TChar "1"].
Lemma relex_unwrap_octal_refuted :
  ltoks_ok rl_octal_toks = false /\ lex_literals (toks_text rl_octal_toks) = Some [TEsc OpEscapeOctal "\01"].
Proof. split; vm_compute; reflexivity. Qed.

(* the guards are satisfiable *)
Example text_guards_satisfiable :
  ltoks_ok [TChar "a"; TChar "{"; TChar "x"; TEsc OpEscapeOctal "\0"; TChar "9"; TEsc OpEscapeMeta "\."; TEsc OpEscapeChar "\d"] = true /\
  ctoks_ok [TChar "a"; TMinus; TChar "c"; TChar "["; TChar "x"; TPosix "[:alpha:]"; TEsc OpEscapeMeta "\]"; TEsc OpEscapeChar "\d"; TMinus] = true /\
  items_ok None [X OpCharRange "a-c" [X OpChar "a" []; X OpChar "c" []]; X OpChar "-" []; X OpChar "x" []; X OpChar "-" []] = true.
Proof. repeat split; vm_compute; reflexivity. Qed.

(* multi-byte characters are inside both sub-languages *)
Example text_guards_multibyte :
  ctoks_ok [TChar "❤"; TMinus; TChar "❥"; TChar "a"] = true /\ ltoks_ok [TChar "a"; TChar "❤"; TChar "{"; TChar "é"] = true /\
  option_map (fun p => print (fst p)) (parse_class "[❤-❥a]x") = Some "[❤-❥a]".
Proof. repeat split; vm_compute; reflexivity. Qed.

(* ------------------------------------------------------------------ *)
(* 6. the guards, evaluated on a whole emitted tree (measured per rewrite by the harness):
      every class node satisfies the hypotheses of class_print_parse, every literal atom of every concatenation
      those of lex_lits_run with the text that follows it *)

Definition class_guard (e : sx) : bool :=
  match e with
  | X o _ items =>
      match items_toks items with
      | Some toks =>
          negb (match toks with [] => true | _ => false end) && items_ok None items && ctoks_ok toks &&
          (op_eqb o OpNegCharClass || negb (first_b (toks_text toks) =? 94)%N)
      | None => false
      end
  end.

Definition lit_leaf (e : sx) : option tok :=
  match leaf_tok e with
  | Some TMinus => Some (TChar "-")
  | Some (TPosix _) => None
  | o => o
  end.

Fixpoint run_guard (args : list sx) (after : string) : bool :=
  match args with
  | [] => true
  | a :: r =>
      let rest := ptext r ++ after in
      (match a with
       | X OpRepeat _ [x; X OpString rv _] =>
           match lit_leaf x with Some t => ltoks_ok_in [t] (rv ++ rest) | None => true end
       | _ => match lit_leaf a with Some t => ltoks_ok_in [t] rest | None => true end
       end) && run_guard r after
  end.

Fixpoint tree_text_guard (e : sx) (after : string) {struct e} : bool :=
  match e with
  | X OpCharClass _ _ | X OpNegCharClass _ _ => class_guard e
  | X OpConcat _ args =>
      run_guard args after &&
      (fix go (l : list sx) : bool :=
         match l with
         | [] => true
         | x :: r => tree_text_guard x (match sx_op x with OpConcat => "0" | _ => ")" end) && go r
         end) args
  | X _ _ args =>
      (fix go (l : list sx) : bool :=
         match l with [] => true | x :: r => tree_text_guard x ")" && go r end) args
  end.

Definition text_guards_ok (e : sx) : bool := tree_text_guard e "".

Example text_guards_examples :
  text_guards_ok t_unwrap_g_after = true /\                (* a{2} as a repeat node: fine *)
  text_guards_ok (simp_ast t_unwrap_g) = false /\          (* a { 2 } as four characters *)
  text_guards_ok (simp_ast t_oct) = false /\ text_guards_ok (simp_ast t_rng2) = false /\
  text_guards_ok (simp_ast t_esc_rep) = false /\ text_guards_ok (simp_ast t_esc_posix) = false.
Proof. repeat split; vm_compute; reflexivity. Qed.
