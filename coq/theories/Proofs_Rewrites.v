(* Proofs_Rewrites.v — the embedded rewrite rules as (pattern, filter, template) triples: preservation or refutation. *)
From GC Require Import Base Model_Expr Proofs_Expr.
