(* Proofs_Rewrites.v — the embedded rewrite rules as (pattern, filter, template) triples:
   R_preserves (for every environment, operand and history) or R_refuted (concrete witness). *)
From GC Require Import Base Model_Expr Model_BoolSimp Model_Claims Model_Rewrites Proofs_Expr Proofs_BoolSimp Proofs_Claims.
Open Scope string_scope.

Definition preserves (en : env) (r : rewrite) : Prop := forall h, evalS en (rw_rhs r) h = evalS en (rw_lhs r) h.

Section Rw.
  Variable en : env.
  Hypothesis Hen : env_ok en.

  Lemma eval_prim1 p x h : evalS en (call1 p x) h = bind (evalS en x h) (fun v h1 => lift (prim_apply p [v]) h1).
  Proof. unfold call1. rewrite evalS_call. simpl. destruct (evalS en x h) as [[[v|] h1]|]; reflexivity. Qed.

  Lemma eval_prim2 p x y h :
    evalS en (call2 p x y) h =
    bind (evalS en x h) (fun v1 h1 => bind (evalS en y h1) (fun v2 h2 => lift (prim_apply p [v1; v2]) h2)).
  Proof.
    unfold call2. rewrite evalS_call. simpl. destruct (evalS en x h) as [[[v|] h1]|]; auto.
    simpl. destruct (evalS en y h1) as [[[w|] h2]|]; reflexivity.
  Qed.

  Lemma eval_lit0 h : evalS en lit0 h = Some (RVal (VInt 0), h).
  Proof. reflexivity. Qed.

  (* sloppyLen: len(x) <= 0  =>  len(x) == 0, any operand (evaluated once on both sides) *)
  Theorem sloppy_len_preserves x : preserves en (rw_sloppy_len x).
  Proof.
    intros h. simpl rw_rhs; simpl rw_lhs.
    rewrite (eval_cmp_generic en OEq _ _ h eq_refl), (eval_cmp_generic en OLe _ _ h eq_refl), eval_prim1.
    destruct (evalS en x h) as [[[v|] h1]|]; cbv beta iota delta [bind lift]; auto.
    destruct (prim_apply PLen [v]) as [[w|]|] eqn:PA; cbv beta iota delta [bind lift]; auto.
    destruct (prim_len_nonneg _ _ PA) as (n & -> & Hn). simpl.
    destruct (Z.compare_spec n 0); simpl; auto. exfalso; lia.
  Qed.

  (* stringXbytes: len(string(b)) => len(b) *)
  Theorem xbytes_len_preserves b : typeof b = Some TBytes -> preserves en (rw_xbytes_len b).
  Proof.
    intros T h. simpl rw_rhs; simpl rw_lhs. rewrite !eval_prim1.
    destruct (evalS en b h) as [[[v|] h1]|] eqn:E; simpl; auto.
    pose proof (preservation en Hen _ _ _ _ _ T E) as P. destruct v; try discriminate. reflexivity.
  Qed.

  Lemma compare_empty s : String.compare s "" = match s with EmptyString => Eq | _ => Gt end.
  Proof. destruct s; reflexivity. Qed.

  (* stringXbytes: string(b) == "" => len(b) == 0, and the != form *)
  Theorem xbytes_eq_empty_preserves b : typeof b = Some TBytes -> preserves en (rw_xbytes_eq_empty b).
  Proof.
    intros T h. simpl rw_rhs; simpl rw_lhs.
    rewrite (eval_cmp_generic en OEq _ lit0 h eq_refl), (eval_cmp_generic en OEq _ empty_str h eq_refl), !eval_prim1.
    destruct (evalS en b h) as [[[v|] h1]|] eqn:E; simpl; auto.
    pose proof (preservation en Hen _ _ _ _ _ T E) as P. destruct v; try discriminate. simpl.
    rewrite compare_empty. destruct s; reflexivity.
  Qed.
  Theorem xbytes_ne_empty_preserves b : typeof b = Some TBytes -> preserves en (rw_xbytes_ne_empty b).
  Proof.
    intros T h. simpl rw_rhs; simpl rw_lhs.
    rewrite (eval_cmp_generic en ONe _ lit0 h eq_refl), (eval_cmp_generic en ONe _ empty_str h eq_refl), !eval_prim1.
    destruct (evalS en b h) as [[[v|] h1]|] eqn:E; simpl; auto.
    pose proof (preservation en Hen _ _ _ _ _ T E) as P. destruct v; try discriminate. simpl.
    rewrite compare_empty. destruct s; reflexivity.
  Qed.

  (* emptyStringTest, all four forms, under the rule's filter (operand of type string) *)
  Lemma empty_string_test o o' s :
    (forall n : nat, cmp_ord o (Z.of_nat n ?= 0)%Z = cmp_ord o' (match n with O => Eq | _ => Gt end)) ->
    is_cmp o = true -> is_cmp o' = true ->
    typeof s = Some TString -> forall h, evalS en (EBinary o' s empty_str) h = evalS en (EBinary o (call1 PLen s) lit0) h.
  Proof.
    intros F Co Co' T h.
    rewrite (eval_cmp_generic en o' _ _ h Co'), (eval_cmp_generic en o _ _ h Co), eval_prim1.
    destruct (evalS en s h) as [[[v|] h1]|] eqn:E; simpl; auto.
    pose proof (preservation en Hen _ _ _ _ _ T E) as P. destruct v; try discriminate. simpl.
    rewrite compare_empty. unfold slen. rewrite F. destruct s0; reflexivity.
  Qed.
  Theorem empty_string_test_preserves s : typeof s = Some TString ->
    preserves en (rw_empty_ne s) /\ preserves en (rw_empty_gt s) /\ preserves en (rw_empty_eq s) /\ preserves en (rw_empty_le s).
  Proof.
    intros T. repeat split; intros h; simpl rw_rhs; simpl rw_lhs; apply empty_string_test; auto; intros [|n]; reflexivity.
  Qed.

  (* wrapperFunc: strings.Index(s1, s2) >= 0  =>  strings.Contains(s1, s2) *)
  Theorem index_ge_preserves s1 s2 : preserves en (rw_index_ge s1 s2).
  Proof.
    intros h. simpl rw_rhs; simpl rw_lhs.
    rewrite (eval_cmp_generic en OGe _ lit0 h eq_refl), !eval_prim2.
    destruct (evalS en s1 h) as [[[v1|] h1]|]; simpl; auto.
    destruct (evalS en s2 h1) as [[[v2|] h2]|]; simpl; auto.
    destruct v1; simpl; auto; destruct v2; simpl; auto.
    unfold str_contains. destruct (Z.compare_spec (str_index s s0) 0), (Z.leb_spec 0 (str_index s s0)); simpl; auto; exfalso; lia.
  Qed.

  Lemma str_index_from_ge sub : forall s i, (0 <= i)%Z -> (str_index_from sub s i = -1 \/ i <= str_index_from sub s i)%Z.
  Proof.
    induction s as [|a r IH]; intros i Hi; simpl.
    - destruct (has_prefix sub ""); [right; lia|left; reflexivity].
    - destruct (has_prefix sub (String a r)); [right; lia|].
      destruct (IH (i + 1)%Z ltac:(lia)) as [E|E]; [left; exact E|right; lia].
  Qed.

  (* ... and the  != -1  form *)
  Theorem index_ne_preserves s1 s2 : preserves en (rw_index_ne s1 s2).
  Proof.
    intros h. simpl rw_rhs; simpl rw_lhs.
    rewrite (eval_cmp_generic en ONe _ litm1 h eq_refl), !eval_prim2.
    destruct (evalS en s1 h) as [[[v1|] h1]|]; simpl; auto.
    destruct (evalS en s2 h1) as [[[v2|] h2]|]; simpl; auto.
    destruct v1; simpl; auto; destruct v2; simpl; auto.
    unfold str_contains, str_index.
    destruct (str_index_from_ge s0 s 0 ltac:(lia)) as [E|E].
    - rewrite E. reflexivity.
    - destruct (Z.compare_spec (str_index_from s0 s 0) (-1)), (Z.leb_spec 0 (str_index_from s0 s 0)); simpl; auto; exfalso; lia.
  Qed.

  (* unslice: s[:] => s for strings and slices *)
  Theorem unslice_preserves s t : typeof s = Some t -> (t = TString \/ t = TInts \/ t = TBytes) -> preserves en (rw_unslice s).
  Proof.
    intros T Tk h. simpl rw_rhs; simpl rw_lhs. simpl.
    destruct (evalS en s h) as [[[v|] h1]|] eqn:E; simpl; auto.
    pose proof (preservation en Hen _ _ _ _ _ T E) as P.
    destruct Tk as [->|[->| ->]]; destruct v; try discriminate; reflexivity.
  Qed.
  (* stringsCompare: the five forms *)
  Definition compare_code (c : comparison) : Z := match c with Eq => 0 | Lt => -1 | Gt => 1 end.
  Lemma strings_compare_gen o k kz o' s1 s2 :
    is_cmp o = true -> is_cmp o' = true ->
    (forall h, evalS en k h = Some (RVal (VInt kz), h)) ->
    (forall c, cmp_ord o (compare_code c ?= kz)%Z = cmp_ord o' c) ->
    typeof s1 = Some TString -> typeof s2 = Some TString ->
    preserves en (rw_compare o k o' s1 s2).
  Proof.
    intros Co Co' Hk F T1 T2 h. simpl rw_rhs; simpl rw_lhs.
    rewrite (eval_cmp_generic en o' _ _ h Co'), (eval_cmp_generic en o _ _ h Co), eval_prim2.
    destruct (evalS en s1 h) as [[[v1|] h1]|] eqn:E1; simpl; auto.
    pose proof (preservation en Hen _ _ _ _ _ T1 E1) as P1. destruct v1; try discriminate.
    destruct (evalS en s2 h1) as [[[v2|] h2]|] eqn:E2; simpl; auto.
    pose proof (preservation en Hen _ _ _ _ _ T2 E2) as P2. destruct v2; try discriminate.
    simpl. rewrite (Hk h2). simpl. unfold str_compare. fold (compare_code (String.compare s s0)). rewrite F. reflexivity.
  Qed.

  Theorem strings_compare_preserves s1 s2 : typeof s1 = Some TString -> typeof s2 = Some TString ->
    preserves en (rw_compare OEq lit0 OEq s1 s2) /\ preserves en (rw_compare OEq litm1 OLt s1 s2) /\
    preserves en (rw_compare OLt lit0 OLt s1 s2) /\ preserves en (rw_compare OEq lit1 OGt s1 s2) /\
    preserves en (rw_compare OGt lit0 OGt s1 s2).
  Proof.
    intros T1 T2. repeat split.
    - apply (strings_compare_gen OEq lit0 0 OEq); auto. intros [| |]; reflexivity.
    - apply (strings_compare_gen OEq litm1 (-1) OLt); auto. intros [| |]; reflexivity.
    - apply (strings_compare_gen OLt lit0 0 OLt); auto. intros [| |]; reflexivity.
    - apply (strings_compare_gen OEq lit1 1 OGt); auto. intros [| |]; reflexivity.
    - apply (strings_compare_gen OGt lit0 0 OGt); auto. intros [| |]; reflexivity.
  Qed.

  (* yodaStyleExpr: == and != are symmetric (NaN included) and a literal has no effects *)
  Lemma cmp_ord_opp o c : (o = OEq \/ o = ONe) -> cmp_ord o (CompOpp c) = cmp_ord o c.
  Proof. intros [-> | ->]; destruct c; reflexivity. Qed.

  Lemma fl_compare_sym x y : fl_compare y x = option_map CompOpp (fl_compare x y).
  Proof.
    destruct x as [|[]|p], y as [|[]|q]; simpl; try reflexivity.
    rewrite <- QArith_base.Qcompare_antisym. reflexivity.
  Qed.

  Lemma cmp_val_sym o a b : (o = OEq \/ o = ONe) -> cmp_val o a b = cmp_val o b a.
  Proof.
    intros O. destruct a, b; simpl; try reflexivity.
    - rewrite (Z.compare_antisym z z0). rewrite cmp_ord_opp; auto.
    - unfold fl_cmp. rewrite (fl_compare_sym f f0). destruct (fl_compare f f0); simpl; [rewrite cmp_ord_opp; auto|].
      destruct O as [-> | ->]; reflexivity.
    - rewrite (String.compare_antisym s s0). rewrite cmp_ord_opp; auto.
    - destruct O as [-> | ->]; destruct b0, b; reflexivity.
  Qed.

  Theorem yoda_preserves o k s t x : (o = OEq \/ o = ONe) -> typeof (ELit k s t) <> None ->
    preserves en (rw_yoda o (ELit k s t) x).
  Proof.
    intros O T h. simpl rw_rhs; simpl rw_lhs.
    assert (Co : is_cmp o = true) by (destruct O as [-> | ->]; reflexivity).
    rewrite !(eval_cmp_generic en o _ _ h Co).
    simpl in T. unfold lit_type_ok in T. destruct (lit_value k s t) as [vc|] eqn:L; [|congruence].
    assert (Hc : forall h', evalS en (ELit k s t) h' = Some (RVal vc, h')) by (intros h'; simpl; rewrite L; reflexivity).
    rewrite (Hc h). simpl.
    destruct (evalS en x h) as [[[vx|] h1]|]; simpl; auto.
    rewrite ?L. simpl. rewrite (cmp_val_sym o vc vx O). reflexivity.
  Qed.

  (* ---------- round 5 ---------- *)
  (* wrapperFunc: bytes.Index(b1, b2) >= 0 | != -1  =>  bytes.Contains(b1, b2) *)
  Theorem bytes_index_ge_preserves b1 b2 : preserves en (rw_bytes_index_ge b1 b2).
  Proof.
    intros h. simpl rw_rhs; simpl rw_lhs.
    rewrite (eval_cmp_generic en OGe _ lit0 h eq_refl), !eval_prim2.
    destruct (evalS en b1 h) as [[[v1|] h1]|]; simpl; auto.
    destruct (evalS en b2 h1) as [[[v2|] h2]|]; simpl; auto.
    destruct v1; simpl; auto; destruct v2; simpl; auto.
    unfold str_contains. destruct (Z.compare_spec (str_index s s0) 0), (Z.leb_spec 0 (str_index s s0)); simpl; auto; exfalso; lia.
  Qed.
  Theorem bytes_index_ne_preserves b1 b2 : preserves en (rw_bytes_index_ne b1 b2).
  Proof.
    intros h. simpl rw_rhs; simpl rw_lhs.
    rewrite (eval_cmp_generic en ONe _ litm1 h eq_refl), !eval_prim2.
    destruct (evalS en b1 h) as [[[v1|] h1]|]; simpl; auto.
    destruct (evalS en b2 h1) as [[[v2|] h2]|]; simpl; auto.
    destruct v1; simpl; auto; destruct v2; simpl; auto.
    unfold str_contains, str_index.
    destruct (str_index_from_ge s0 s 0 ltac:(lia)) as [E|E].
    - rewrite E. reflexivity.
    - destruct (Z.compare_spec (str_index_from s0 s 0) (-1)), (Z.leb_spec 0 (str_index_from s0 s 0)); simpl; auto; exfalso; lia.
  Qed.

  Lemma str_index_any_from_ge chars : forall s i, (0 <= i)%Z -> (str_index_any_from s chars i = -1 \/ i <= str_index_any_from s chars i)%Z.
  Proof.
    induction s as [|a r IH]; intros i Hi; simpl; [left; reflexivity|].
    destruct (mem_byte a chars); [right; lia|].
    destruct (IH (i + 1)%Z ltac:(lia)) as [E|E]; [left; exact E|right; lia].
  Qed.

  (* wrapperFunc: strings.IndexAny(s1, s2) >= 0 | != -1  =>  strings.ContainsAny(s1, s2)  (ASCII operands) *)
  Theorem index_any_ge_preserves s1 s2 : preserves en (rw_index_any_ge s1 s2).
  Proof.
    intros h. simpl rw_rhs; simpl rw_lhs.
    rewrite (eval_cmp_generic en OGe _ lit0 h eq_refl), !eval_prim2.
    destruct (evalS en s1 h) as [[[v1|] h1]|]; simpl; auto.
    destruct (evalS en s2 h1) as [[[v2|] h2]|]; simpl; auto.
    destruct v1; simpl; auto; destruct v2; simpl; auto.
    destruct (is_ascii s && is_ascii s0); simpl; auto.
    destruct (Z.compare_spec (str_index_any s s0) 0), (Z.leb_spec 0 (str_index_any s s0)); simpl; auto; exfalso; lia.
  Qed.
  Theorem index_any_ne_preserves s1 s2 : preserves en (rw_index_any_ne s1 s2).
  Proof.
    intros h. simpl rw_rhs; simpl rw_lhs.
    rewrite (eval_cmp_generic en ONe _ litm1 h eq_refl), !eval_prim2.
    destruct (evalS en s1 h) as [[[v1|] h1]|]; simpl; auto.
    destruct (evalS en s2 h1) as [[[v2|] h2]|]; simpl; auto.
    destruct v1; simpl; auto; destruct v2; simpl; auto.
    destruct (is_ascii s && is_ascii s0); simpl; auto.
    unfold str_index_any.
    destruct (str_index_any_from_ge s0 s 0 ltac:(lia)) as [E|E].
    - rewrite E. reflexivity.
    - destruct (Z.compare_spec (str_index_any_from s s0 0) (-1)), (Z.leb_spec 0 (str_index_any_from s s0 0)); simpl; auto; exfalso; lia.
  Qed.

  (* wrapperFunc: strings.Replace(s, old, new, -1) => strings.ReplaceAll(s, old, new); bytes likewise: the operands
     are evaluated once, in the same order, and the literal -1 has no effects *)
  Theorem replace_all_preserves s o n : preserves en (rw_replace_all s o n).
  Proof.
    intros h. simpl rw_rhs; simpl rw_lhs. unfold call3. rewrite !evalS_call. simpl.
    destruct (evalS en s h) as [[[v1|] h1]|]; simpl; auto.
    destruct (evalS en o h1) as [[[v2|] h2]|]; simpl; auto.
    destruct (evalS en n h2) as [[[v3|] h3]|]; simpl; auto.
    all: try (destruct v1; simpl; auto; destruct v2; simpl; auto; destruct v3; simpl; auto).
  Qed.
  Theorem bytes_replace_all_preserves s o n : preserves en (rw_bytes_replace_all s o n).
  Proof.
    intros h. simpl rw_rhs; simpl rw_lhs. unfold call3. rewrite !evalS_call. simpl.
    destruct (evalS en s h) as [[[v1|] h1]|]; simpl; auto.
    destruct (evalS en o h1) as [[[v2|] h2]|]; simpl; auto.
    destruct (evalS en n h2) as [[[v3|] h3]|]; simpl; auto.
    all: try (destruct v1; simpl; auto; destruct v2; simpl; auto; destruct v3; simpl; auto).
  Qed.

  (* stringXbytes: string(x) == string(y) => bytes.Equal(x, y), and the != form *)
  Lemma string_compare_refl a : String.compare a a = Eq.
  Proof. pose proof (String.compare_antisym a a) as A. destruct (String.compare a a); simpl in A; try discriminate; reflexivity. Qed.
  Lemma string_compare_eqb a b : cmp_ord OEq (String.compare a b) = String.eqb a b.
  Proof.
    destruct (String.eqb a b) eqn:E.
    - apply String.eqb_eq in E. subst b. rewrite string_compare_refl. reflexivity.
    - destruct (String.compare a b) eqn:C; try reflexivity.
      apply String.compare_eq_iff in C. subst b. rewrite String.eqb_refl in E. discriminate.
  Qed.
  Theorem xbytes_equal_preserves x y : typeof x = Some TBytes -> typeof y = Some TBytes -> preserves en (rw_xbytes_equal x y).
  Proof.
    intros Tx Ty h. simpl rw_rhs; simpl rw_lhs.
    rewrite (eval_cmp_generic en OEq _ _ h eq_refl), eval_prim2, !eval_prim1.
    destruct (evalS en x h) as [[[v1|] h1]|] eqn:E1; simpl; auto.
    pose proof (preservation en Hen _ _ _ _ _ Tx E1) as P1. destruct v1; try discriminate. simpl.
    rewrite ?eval_prim1.
    destruct (evalS en y h1) as [[[v2|] h2]|] eqn:E2; simpl; auto.
    pose proof (preservation en Hen _ _ _ _ _ Ty E2) as P2. destruct v2; try discriminate. simpl.
    rewrite <- string_compare_eqb. reflexivity.
  Qed.
  Theorem xbytes_nequal_preserves x y : typeof x = Some TBytes -> typeof y = Some TBytes -> preserves en (rw_xbytes_nequal x y).
  Proof.
    intros Tx Ty h. simpl rw_rhs; simpl rw_lhs.
    rewrite (eval_cmp_generic en ONe _ _ h eq_refl), !eval_prim1.
    change (evalS en (EUnary UNot (call2 PBytesEqual x y)) h) with
      (bind (evalS en (call2 PBytesEqual x y) h) (fun v h1 => lift (unop_apply UNot v) h1)).
    rewrite eval_prim2.
    destruct (evalS en x h) as [[[v1|] h1]|] eqn:E1; simpl; auto.
    pose proof (preservation en Hen _ _ _ _ _ Tx E1) as P1. destruct v1; try discriminate. simpl.
    rewrite ?eval_prim1.
    destruct (evalS en y h1) as [[[v2|] h2]|] eqn:E2; simpl; auto.
    pose proof (preservation en Hen _ _ _ _ _ Ty E2) as P2. destruct v2; try discriminate. simpl.
    pose proof (string_compare_eqb s s0) as Q. destruct (String.compare s s0), (String.eqb s s0); simpl in *; try discriminate; reflexivity.
  Qed.

  (* stringConcatSimplify with the empty glue *)
  Theorem join2_empty_preserves x y : typeof x = Some TString -> typeof y = Some TString -> preserves en (rw_join2_empty x y).
  Proof.
    intros Tx Ty h. simpl rw_rhs; simpl rw_lhs. rewrite evalS_call. simpl.
    destruct (evalS en x h) as [[[v1|] h1]|] eqn:E1; simpl; auto.
    pose proof (preservation en Hen _ _ _ _ _ Tx E1) as P1. destruct v1; try discriminate.
    destruct (evalS en y h1) as [[[v2|] h2]|] eqn:E2; simpl; auto.
  Qed.
  Theorem join3_empty_preserves x y z : typeof x = Some TString -> typeof y = Some TString -> typeof z = Some TString ->
    preserves en (rw_join3_empty x y z).
  Proof.
    intros Tx Ty Tz h. simpl rw_rhs; simpl rw_lhs. rewrite evalS_call. simpl.
    destruct (evalS en x h) as [[[v1|] h1]|] eqn:E1; simpl; auto.
    pose proof (preservation en Hen _ _ _ _ _ Tx E1) as P1. destruct v1; try discriminate.
    destruct (evalS en y h1) as [[[v2|] h2]|] eqn:E2; simpl; auto.
    pose proof (preservation en Hen _ _ _ _ _ Ty E2) as P2. destruct v2; try discriminate. simpl.
    destruct (evalS en z h2) as [[[v3|] h3]|] eqn:E3; simpl; auto.
    pose proof (preservation en Hen _ _ _ _ _ Tz E3) as P3. destruct v3; try discriminate. simpl.
    rewrite app_assoc_s. reflexivity.
  Qed.

  (* equalFold, both sides lower-cased, ASCII operands: whenever the original is inside the fragment, the
     suggestion has the same outcome *)
  Theorem equal_fold_both_lower_preserves_partial x y : forall h o,
    evalS en (rw_lhs (rw_equal_fold_both x y)) h = Some o -> evalS en (rw_rhs (rw_equal_fold_both x y)) h = Some o.
  Proof.
    intros h o. simpl rw_rhs; simpl rw_lhs.
    rewrite (eval_cmp_generic en OEq _ _ h eq_refl), eval_prim2, !eval_prim1.
    destruct (evalS en x h) as [[[v1|] h1]|]; simpl; auto.
    destruct v1; simpl; try discriminate.
    destruct (is_ascii s) eqn:A1; simpl; try discriminate.
    rewrite ?eval_prim1.
    destruct (evalS en y h1) as [[[v2|] h2]|]; simpl; auto.
    destruct v2; simpl; try discriminate.
    destruct (is_ascii s0) eqn:A2; simpl; try discriminate.
    unfold str_equal_fold. rewrite <- string_compare_eqb. auto.
  Qed.
End Rw.

(* equalFold, one side only: `strings.ToLower(x) == y` is false for y = "A", EqualFold(x, y) is true *)
Theorem equal_fold_one_sided_refuted :
  exists en x y, env_ok en /\ equal_fold_filter x y = true /\
    eval en (rw_lhs (rw_equal_fold_left x y)) = Some (RVal (VBool false), []) /\
    eval en (rw_rhs (rw_equal_fold_left x y)) = Some (RVal (VBool true), []).
Proof.
  exists (env_of [("x", VStr "a"); ("y", VStr "A")] []), (EIdent "x" TString), (EIdent "y" TString).
  split; [apply env_of_ok|]. vm_compute. repeat split.
Qed.

(* ---- refutations ---- *)
(* timeExprSimplify: seconds/1000 is not milliseconds; nanoseconds*1000 is not microseconds *)
Theorem time_expr_simplify_refuted :
  exists en t, env_ok en /\ typeof t = Some TTime /\
    eval en (rw_lhs (rw_unix_milli t)) = Some (RVal (VInt 5), []) /\ eval en (rw_rhs (rw_unix_milli t)) = Some (RVal (VInt 5000000), []) /\
    eval en (rw_lhs (rw_unix_micro t)) = Some (RVal (VInt 5000000000000000), []) /\ eval en (rw_rhs (rw_unix_micro t)) = Some (RVal (VInt 5000000000), []).
Proof.
  exists (env_of [("t", VTime 5000000000000)] []), (EIdent "t" TTime).
  split; [apply env_of_ok|]. vm_compute. repeat split.
Qed.

(* stringConcatSimplify has no purity filter: the glue moves in front of the second element *)
Theorem string_concat_simplify_prefix_refuted :
  exists en x y g, env_ok en /\ typeof (rw_lhs (rw_join_glue x y g)) = Some TString /\
    eval en (rw_lhs (rw_join_glue x y g)) = Some (RVal (VStr "a-b"), [Ev "f" [] (VStr "a"); Ev "g" [] (VStr "b"); Ev "h" [] (VStr "-")]) /\
    eval en (rw_rhs (rw_join_glue x y g)) = Some (RVal (VStr "a-b"), [Ev "f" [] (VStr "a"); Ev "h" [] (VStr "-"); Ev "g" [] (VStr "b")]).
Proof.
  exists (env_of [] [("f", fun _ => VStr "a"); ("g", fun _ => VStr "b"); ("h", fun _ => VStr "-")]),
    (ECall (FOpaque "f" TString) []), (ECall (FOpaque "g" TString) []), (ECall (FOpaque "h" TString) []).
  split; [apply env_of_ok|]. vm_compute. repeat split.
Qed.

(* ... and it is an equivalence when the glue yields a value without events and independently of the history
   (a literal, a variable): this is what a `.Pure` filter on $glue buys, up to glue expressions that panic *)
Definition pure_total (en : env) (g : expr) : Prop := exists v, forall h, evalS en g h = Some (RVal v, h).

Lemma atom_pure_total en g : typeof g <> None ->
  (exists k s t, g = ELit k s t) \/ (exists n t, g = EIdent n t) -> pure_total en g.
Proof.
  intros T [(k & s & t & ->)|(n & t & ->)].
  - simpl in T. unfold lit_type_ok in T. destruct (lit_value k s t) as [v|] eqn:L; [|congruence].
    exists v. intros h. simpl. rewrite L. reflexivity.
  - eexists. reflexivity.
Qed.

Theorem string_concat_simplify_preserves_partial en x y g :
  env_ok en -> typeof (rw_lhs (rw_join_glue x y g)) = Some TString -> pure_total en g ->
  preserves en (rw_join_glue x y g).
Proof.
  intros Hen T [vg Hg] h. simpl rw_rhs; simpl rw_lhs. simpl rw_lhs in T.
  rewrite typeof_call in T. simpl in T.
  destruct (typeof x) as [tx|] eqn:Tx; [|discriminate]. destruct (typeof y) as [ty0|] eqn:Ty; [|discriminate].
  destruct (typeof g) as [tg|] eqn:Tg; [|discriminate].
  destruct tx; try discriminate; destruct ty0; try discriminate; destruct tg; try discriminate.
  pose proof (preservation en Hen _ _ _ _ _ Tg (Hg [])) as Pg. destruct vg; try discriminate.
  rewrite evalS_call. simpl.
  destruct (evalS en x h) as [[[vx|] h1]|] eqn:Ex; simpl; auto.
  pose proof (preservation en Hen _ _ _ _ _ Tx Ex) as Px. destruct vx; try discriminate.
  rewrite (Hg h1). simpl.
  destruct (evalS en y h1) as [[[vy|] h2]|] eqn:Ey; simpl; auto.
  pose proof (preservation en Hen _ _ _ _ _ Ty Ey) as Py. destruct vy; try discriminate.
  rewrite (Hg h2). simpl. rewrite app_assoc_s. reflexivity.
Qed.

(* offBy1's suggestion deliberately changes behaviour ("maybe you wanted"): for a non-empty slice the
   original panics and the suggestion yields the last element *)
Theorem off_by1_suggestion_differs :
  exists en x, env_ok en /\ off_by1 (rw_lhs (rw_off_by1 x)) = true /\
    eval en (rw_lhs (rw_off_by1 x)) = Some (RPanic, []) /\ eval en (rw_rhs (rw_off_by1 x)) = Some (RVal (VInt 7), []).
Proof.
  exists (env_of [("xs", VInts [3; 7]%Z)] []), (EIdent "xs" TInts). split; [apply env_of_ok|]. vm_compute. repeat split.
Qed.

(* newDeref: `*new(T)` is the zero value of T (Go spec: new allocates a zeroed variable); the literal suggested
   for int / float64 / string has the text ZeroValueOf produces and evaluates, without events, to a value equal
   to that zero value *)
Theorem new_deref_zero_literal en t e h :
  zero_lit t = Some e ->
  (exists k s, e = ELit k s t /\ zero_value_text "T" (match t with TInt => ZInt | TFloat => ZFloat | _ => ZString end) true = Some s) /\
  exists v, evalS en e h = Some (RVal v, h) /\ cmp_val OEq v (default_value t) = Some true.
Proof.
  destruct t; simpl; intros H; inversion H; subst e; (split; [eexists; eexists; split; reflexivity|]);
    eexists; (split; [vm_compute; reflexivity|vm_compute; reflexivity]).
Qed.

(* unlambda *)
Theorem unlambda_pkg_func_stable n : callee_stable (CPkgFunc n).
Proof. intros st1 st2. reflexivity. Qed.

Definition st_a : lstore := {| fvar := fun _ => "hi"; ffield := fun _ _ => "hi"; rstate := fun _ => 1%Z; rptr := fun _ => 0%N |}.
Definition st_b : lstore := {| fvar := fun _ => "hj"; ffield := fun _ _ => "hj"; rstate := fun _ => 2%Z; rptr := fun _ => 1%N |}.

(* every other callee form reads the state *)
Theorem unlambda_stable_only_pkg_func c : callee_stable c -> exists n, c = CPkgFunc n.
Proof.
  intros S. specialize (S st_a st_b). destruct c as [n|x|o p f|r [] m]; simpl in S; try discriminate. eauto.
Qed.

(* what the checker flags: declared functions, and method values of struct variables *)
Theorem unlambda_flags_shape c : unlambda_flags c = true -> (exists n, c = CPkgFunc n) \/ (exists r m, c = CMethod r false m).
Proof. destruct c as [n|x|o p f|r [] m]; simpl; try discriminate; eauto. Qed.

(* the second kind is not stable: the method value binds a copy of the receiver when it is evaluated *)
Theorem unlambda_method_value_refuted :
  exists c st1 st2, unlambda_flags c = true /\ callee_eval st1 c <> callee_eval st2 c.
Proof. exists (CMethod "sv" false "add"), st_a, st_b. split; [reflexivity|discriminate]. Qed.

(* func-typed fields and variables, and method values through a pointer, are unstable but never flagged *)
Theorem unlambda_unstable_forms_not_flagged c :
  unlambda_flags c = false -> ~ callee_stable c.
Proof.
  intros F S. destruct (unlambda_stable_only_pkg_func c S) as [n ->]. discriminate.
Qed.

(* redundantSprint's Stringer rule *)
Theorem redundant_sprint_preserves_partial o s :
  fo_format o = None -> fo_error o = None -> fo_string o = Some s -> fmt_sprint o = s.
Proof. unfold fmt_sprint. intros -> -> ->. reflexivity. Qed.

Theorem redundant_sprint_error_refuted :
  exists o s, fo_format o = None /\ fo_string o = Some s /\ fmt_sprint o <> s.
Proof.
  exists {| fo_raw := "b"; fo_format := None; fo_error := Some "E:b"; fo_string := Some "S:b" |}, "S:b".
  repeat split. vm_compute. discriminate.
Qed.

Theorem redundant_sprint_formatter_refuted :
  exists o s, fo_error o = None /\ fo_string o = Some s /\ fmt_sprint o <> s.
Proof.
  exists {| fo_raw := "b"; fo_format := Some "F:b"; fo_error := None; fo_string := Some "S:b" |}, "S:b".
  repeat split. vm_compute. discriminate.
Qed.

Theorem defer_unlambda_func_var_refuted :
  exists c st1 st2, defer_unlambda_flags c = true /\ callee_eval st1 c <> callee_eval st2 c.
Proof. exists (CFuncVar "cleanup"), st_a, st_b. split; [reflexivity|discriminate]. Qed.

(* unslice needs its type filter: for a pointer to an array `p[:]` is a slice of the array, `p` is the pointer;
   with a nil pointer the original panics and the replacement yields a value *)
Theorem unslice_pointer_to_array_refuted :
  exists en s, env_ok en /\ typeof s = Some TPArr /\ typeof (rw_lhs (rw_unslice s)) = Some TInts /\
    eval en (rw_lhs (rw_unslice s)) = Some (RVal (VInts [1; 2; 3]%Z), []) /\
    eval en (rw_rhs (rw_unslice s)) = Some (RVal (VPArr 3 (Some [1; 2; 3]%Z)), []).
Proof.
  exists (env_of [("pa", VPArr 3 (Some [1; 2; 3]%Z))] []), (EIdent "pa" TPArr).
  split; [apply env_of_ok|]. vm_compute. repeat split.
Qed.
Theorem unslice_nil_pointer_to_array_refuted :
  exists en s, env_ok en /\ typeof s = Some TPArr /\
    eval en (rw_lhs (rw_unslice s)) = Some (RPanic, []) /\ eval en (rw_rhs (rw_unslice s)) = Some (RVal (VPArr 3 None), []).
Proof.
  exists (env_of [("pa", VPArr 3 None)] []), (EIdent "pa" TPArr).
  split; [apply env_of_ok|]. vm_compute. repeat split.
Qed.

(* underef: dereference-then-index => `p[i]`.  With a non-nil pointer the two are the same for every index expression ... *)
Theorem underef_index_preserves_nonnil en p i h n l h1 :
  evalS en p h = Some (RVal (VPArr n (Some l)), h1) ->
  evalS en (rw_rhs (rw_underef_index p i)) h = evalS en (rw_lhs (rw_underef_index p i)) h.
Proof.
  intros E. simpl. rewrite E. simpl.
  destruct (evalS en i h1) as [[[vi|] h2]|]; simpl; auto.
Qed.

(* ... and for any pointer value (nil included: both panic, at the same history) when the index has no calls.
   Full statement (forall i) is false in the model's strict left-to-right order: with a nil pointer the original
   panics before an index call runs, the replacement after it (Go leaves that order to the compiler; the
   differential oracle counts two panicking runs as equal). *)
Theorem underef_index_preserves_partial en p i :
  env_ok en -> typeof p = Some TPArr -> no_opaque i = true -> forall h o,
  evalS en (rw_rhs (rw_underef_index p i)) h = Some o -> evalS en (rw_lhs (rw_underef_index p i)) h = Some o.
Proof.
  intros Hen Tp P h o. destruct (no_opaque_pure en i P) as [ri Hi]. simpl.
  destruct (evalS en p h) as [[[vp|] h1]|] eqn:Ep; simpl; auto.
  pose proof (preservation en Hen _ _ _ _ _ Tp Ep) as V.
  rewrite !(Hi h1).
  destruct vp as [| | | | | | |n [l|]|m]; try discriminate; destruct ri as [[[]|]|]; simpl; rewrite ?(Hi h1); simpl; auto; try discriminate.
Qed.

Theorem underef_nil_impure_index_order :
  exists en p i, env_ok en /\ typeof p = Some TPArr /\
    eval en (rw_lhs (rw_underef_index p i)) = Some (RPanic, []) /\
    eval en (rw_rhs (rw_underef_index p i)) = Some (RPanic, [Ev "fi" [] (VInt 0)]).
Proof.
  exists (env_of [("pa", VPArr 3 None)] [("fi", fun _ => VInt 0)]), (EIdent "pa" TPArr), (ECall (FOpaque "fi" TInt) []).
  split; [apply env_of_ok|]. vm_compute. repeat split.
Qed.
