From GC Require Import Base Model_Sched.

Section SchedProofs.
  Variable R : Type.
  Variable n cap : nat.
  Variable run : nat -> R.

  Notation st := (st R).
  Notation step := (step R run).
  Notation exec := (exec R n cap run).
  Notation enabled := (enabled R n cap).
  Notation tokens := (tokens R n).
  Notation terminal := (terminal R n).

  Lemma upd_same {A} (f : nat -> A) k v : upd f k v k = v.
  Proof. unfold upd. rewrite Nat.eqb_refl. reflexivity. Qed.
  Lemma upd_other {A} (f : nat -> A) k v j : j <> k -> upd f k v j = f j.
  Proof. intros H. unfold upd. destruct (Nat.eqb j k) eqn:E; [apply Nat.eqb_eq in E; contradiction|reflexivity]. Qed.

  Definition b2n (b : bool) : nat := if b then 1 else 0.

  Lemma busy_below_upd_ge f k v m : m <= k -> busy_below (upd f k v) m = busy_below f m.
  Proof.
    induction m as [|m IH]; intros H; [reflexivity|]. cbn [busy_below].
    rewrite upd_other by lia. rewrite IH by lia. reflexivity.
  Qed.

  Lemma busy_below_upd f k v m : k < m ->
    busy_below (upd f k v) m + b2n (is_busy (f k)) = busy_below f m + b2n (is_busy v).
  Proof.
    induction m as [|m IH]; intros H; [lia|]. cbn [busy_below].
    destruct (Nat.eq_dec k m) as [->|Hne].
    - rewrite upd_same, busy_below_upd_ge by lia. unfold b2n.
      destruct (is_busy v), (is_busy (f m)); lia.
    - rewrite upd_other by lia. assert (Hk : k < m) by lia. specialize (IH Hk). lia.
  Qed.

  Lemma busy_search f m : (exists k, k < m /\ is_busy (f k) = true) \/ busy_below f m = 0.
  Proof.
    induction m as [|m [[k [Hk Hb]]|IH]].
    - right. reflexivity.
    - left. exists k. split; [lia|exact Hb].
    - cbn [busy_below]. destruct (is_busy (f m)) eqn:E.
      + left. exists m. split; [lia|exact E].
      + right. rewrite IH. reflexivity.
  Qed.

  Record Inv (s : st) : Prop := {
    inv_next : next R s <= n;
    inv_started : forall k, status R s k = NotStarted <-> next R s <= k;
    inv_slots : forall k, match status R s k with
                          | NotStarted | Running => slots R s k = None
                          | Wrote | Finished => slots R s k = Some (run k)
                          end;
    inv_tokens : tokens s <= cap
  }.

  Lemma inv_init : Inv (init R).
  Proof.
    constructor; simpl.
    - lia.
    - intros k. split; [lia|reflexivity].
    - intros k. reflexivity.
    - unfold Model_Sched.tokens. simpl. assert (H : forall m, busy_below (fun _ => NotStarted) m = 0) by (induction m; simpl; auto).
      rewrite H. lia.
  Qed.

  Lemma inv_step s l : Inv s -> enabled s l = true -> Inv (step s l).
  Proof.
    intros [Hn Hs Hsl Ht] He. destruct l as [|k|k]; simpl in He.
    - (* spawn *)
      apply andb_true_iff in He as [H1 H2]. apply Nat.ltb_lt in H1, H2.
      assert (Hns : status R s (next R s) = NotStarted) by (apply Hs; lia).
      constructor; simpl.
      + lia.
      + intros k. destruct (Nat.eq_dec k (next R s)) as [->|Hne].
        * rewrite upd_same. split; [discriminate|lia].
        * rewrite upd_other by exact Hne. rewrite Hs. lia.
      + intros k. destruct (Nat.eq_dec k (next R s)) as [->|Hne].
        * rewrite upd_same. specialize (Hsl (next R s)). rewrite Hns in Hsl. exact Hsl.
        * rewrite upd_other by exact Hne. apply Hsl.
      + unfold Model_Sched.tokens in *. simpl.
        pose proof (busy_below_upd (status R s) (next R s) Running n H1) as Hb.
        rewrite Hns in Hb. simpl in Hb. lia.
    - (* work *)
      apply andb_true_iff in He as [H1 H2]. apply Nat.ltb_lt in H1.
      destruct (status R s k) eqn:Ek; try discriminate.
      constructor; simpl.
      + exact Hn.
      + intros j. destruct (Nat.eq_dec j k) as [->|Hne].
        * rewrite upd_same. split; [discriminate|]. intros Hle. apply Hs in Hle. congruence.
        * rewrite upd_other by exact Hne. apply Hs.
      + intros j. destruct (Nat.eq_dec j k) as [->|Hne].
        * rewrite !upd_same. reflexivity.
        * rewrite !upd_other by exact Hne. apply Hsl.
      + unfold Model_Sched.tokens in *. simpl.
        pose proof (busy_below_upd (status R s) k Wrote n H1) as Hb. rewrite Ek in Hb. simpl in Hb. lia.
    - (* finish *)
      apply andb_true_iff in He as [H1 H2]. apply Nat.ltb_lt in H1.
      destruct (status R s k) eqn:Ek; try discriminate.
      constructor; simpl.
      + exact Hn.
      + intros j. destruct (Nat.eq_dec j k) as [->|Hne].
        * rewrite upd_same. split; [discriminate|]. intros Hle. apply Hs in Hle. congruence.
        * rewrite upd_other by exact Hne. apply Hs.
      + intros j. destruct (Nat.eq_dec j k) as [->|Hne].
        * rewrite upd_same. specialize (Hsl k). rewrite Ek in Hsl. exact Hsl.
        * rewrite upd_other by exact Hne. apply Hsl.
      + unfold Model_Sched.tokens in *. simpl.
        pose proof (busy_below_upd (status R s) k Finished n H1) as Hb. rewrite Ek in Hb. simpl in Hb. lia.
  Qed.

  Lemma inv_exec sch : forall s s', Inv s -> exec s sch = Some s' -> Inv s'.
  Proof.
    induction sch as [|l r IH]; intros s s' Hi He; simpl in He.
    - injection He as <-. exact Hi.
    - destruct (enabled s l) eqn:E; [|discriminate]. eapply IH; [|exact He]. apply inv_step; assumption.
  Qed.

  (* after the barrier every slot holds exactly its checker's sequential result *)
  Lemma terminal_slots s : Inv s -> terminal s -> forall k, k < n -> slots R s k = Some (run k).
  Proof.
    intros Hi [_ Hf] k Hk. pose proof (inv_slots s Hi k) as H. rewrite (Hf k Hk) in H. exact H.
  Qed.

  (* at most cap workers hold a semaphore token at any time *)
  Lemma bounded_concurrency sch s' : exec (init R) sch = Some s' -> tokens s' <= cap.
  Proof. intros H. apply inv_tokens. eapply inv_exec; [apply inv_init|exact H]. Qed.

  (* no deadlock for any capacity >= 1 *)
  Lemma progress s : Inv s -> 1 <= cap -> ~ terminal s -> exists l, enabled s l = true.
  Proof.
    intros Hi Hc Hnt. destruct (busy_search (status R s) n) as [[k [Hk Hb]]|Hz].
    - destruct (status R s k) eqn:Ek; try discriminate.
      + exists (LWork k). simpl. rewrite Ek. apply andb_true_iff. split; [apply Nat.ltb_lt; exact Hk|reflexivity].
      + exists (LFinish k). simpl. rewrite Ek. apply andb_true_iff. split; [apply Nat.ltb_lt; exact Hk|reflexivity].
    - destruct (Nat.lt_ge_cases (next R s) n) as [Hlt|Hge].
      + exists LSpawn. simpl. apply andb_true_iff. split; [apply Nat.ltb_lt; exact Hlt|].
        apply Nat.ltb_lt. unfold Model_Sched.tokens. rewrite Hz. lia.
      + exfalso. apply Hnt. pose proof (inv_next s Hi) as Hle. split; [lia|].
        intros k Hk. destruct (status R s k) eqn:Ek; [| | |reflexivity].
        * apply (inv_started s Hi) in Ek. lia.
        * exfalso. clear - Hz Hk Ek. revert Hz. generalize (status R s) as f, Ek. clear Ek.
          induction n as [|m IH]; intros f Ek Hz; [lia|]. cbn [busy_below] in Hz.
          destruct (Nat.eq_dec k m) as [->|Hne]; [rewrite Ek in Hz; simpl in Hz; lia|].
          apply (IH ltac:(lia) f Ek). destruct (is_busy (f m)); simpl in Hz; lia.
        * exfalso. clear - Hz Hk Ek. revert Hz. generalize (status R s) as f, Ek. clear Ek.
          induction n as [|m IH]; intros f Ek Hz; [lia|]. cbn [busy_below] in Hz.
          destruct (Nat.eq_dec k m) as [->|Hne]; [rewrite Ek in Hz; simpl in Hz; lia|].
          apply (IH ltac:(lia) f Ek). destruct (is_busy (f m)); simpl in Hz; lia.
  Qed.

  Lemma zero_capacity_deadlocks : cap = 0 -> 0 < n -> forall l, enabled (init R) l = false.
  Proof.
    intros Hc Hn l. destruct l as [|k|k]; simpl.
    - rewrite Hc. rewrite andb_false_r. reflexivity.
    - rewrite andb_false_r. reflexivity.
    - rewrite andb_false_r. reflexivity.
  Qed.

  (* distinct steps never touch the same cell with a write: the model is race-free *)
  Lemma no_conflicting_access l1 l2 : l1 <> l2 -> conflict l1 l2 = false.
  Proof.
    intros Hne. destruct l1 as [|j|j], l2 as [|k|k]; try reflexivity; try congruence.
    unfold conflict. simpl. assert (j <> k) by congruence.
    destruct (Nat.eqb j k) eqn:E; [apply Nat.eqb_eq in E; contradiction|reflexivity].
  Qed.
End SchedProofs.

Lemma printed_sequential {R} (slots : nat -> option (list R)) run m :
  (forall k, k < m -> slots k = Some (run k)) -> printed slots m = sequential run m.
Proof.
  induction m as [|m IH]; intros H; [reflexivity|]. simpl.
  rewrite IH by (intros; apply H; lia). rewrite (H m) by lia. reflexivity.
Qed.

(* every complete schedule, for every capacity, prints exactly what the sequential run prints *)
Lemma sched_confluent {R} n cap (run : nat -> list R) sch s' :
  exec (list R) n cap run (init (list R)) sch = Some s' -> terminal (list R) n s' ->
  printed (slots (list R) s') n = sequential run n.
Proof.
  intros He Ht. apply printed_sequential. apply (terminal_slots (list R) n cap run s'); [|exact Ht].
  eapply inv_exec; [apply inv_init|exact He].
Qed.
