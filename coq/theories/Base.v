(* Base.v — shared, executable string/list vocabulary for all models.
   No proofs of properties here; only definitions and small characterising lemmas. *)
From Coq Require Export String Ascii List Bool NArith ZArith Lia.
Export ListNotations.
Open Scope string_scope.

(* strings given by the harness as byte lists when they are not printable *)
Fixpoint bs (l : list N) : string :=
  match l with
  | [] => EmptyString
  | n :: r => String (ascii_of_N n) (bs r)
  end.

Definition str_eqb := String.eqb.

Fixpoint mem (x : string) (l : list string) : bool :=
  match l with
  | [] => false
  | y :: r => String.eqb x y || mem x r
  end.

Lemma mem_In x l : mem x l = true <-> In x l.
Proof.
  induction l as [|y r IH]; simpl.
  - split; [discriminate|tauto].
  - rewrite orb_true_iff, IH, String.eqb_eq. split; intros [H|H]; auto.
Qed.

Lemma mem_false_In x l : mem x l = false <-> ~ In x l.
Proof. rewrite <- mem_In. destruct (mem x l); split; congruence. Qed.

(* strings.HasPrefix *)
Fixpoint has_prefix (p s : string) : bool :=
  match p with
  | EmptyString => true
  | String a p' =>
      match s with
      | EmptyString => false
      | String b s' => Ascii.eqb a b && has_prefix p' s'
      end
  end.

Lemma has_prefix_app p s : has_prefix p (p ++ s) = true.
Proof. induction p as [|a p IH]; simpl; auto. rewrite Ascii.eqb_refl. exact IH. Qed.

Lemma has_prefix_spec p s : has_prefix p s = true <-> exists r, s = p ++ r.
Proof.
  revert s; induction p as [|a p IH]; intros s; simpl.
  - split; eauto.
  - destruct s as [|b s]; [split; [discriminate|intros [r Hr]; discriminate]|].
    rewrite andb_true_iff, Ascii.eqb_eq, IH. split.
    + intros [-> [r ->]]. eauto.
    + intros [r Hr]. injection Hr as -> ->. eauto.
Qed.

(* s[n:] for n <= len s (total: returns "" beyond the end) *)
Fixpoint drop (n : nat) (s : string) : string :=
  match n with
  | O => s
  | S n' => match s with EmptyString => EmptyString | String _ s' => drop n' s' end
  end.

Lemma drop_app p s : drop (String.length p) (p ++ s) = s.
Proof. induction p; simpl; auto. Qed.

Lemma length_app (a b : string) : String.length (a ++ b) = String.length a + String.length b.
Proof. induction a; simpl; auto. Qed.

Lemma app_assoc_s (a b c : string) : (a ++ b) ++ c = a ++ (b ++ c).
Proof. induction a; simpl; congruence. Qed.

Lemma app_nil_r_s (a : string) : a ++ "" = a.
Proof. induction a; simpl; congruence. Qed.

(* strings.HasSuffix *)
Fixpoint rev_s (s acc : string) : string :=
  match s with EmptyString => acc | String a r => rev_s r (String a acc) end.
Definition has_suffix (suf s : string) : bool := has_prefix (rev_s suf "") (rev_s s "").

(* strings.Split(s, string(c)) for a one-byte separator *)
Fixpoint split_on (c : ascii) (s : string) : list string :=
  match s with
  | EmptyString => [EmptyString]
  | String a r =>
      if Ascii.eqb a c then EmptyString :: split_on c r
      else match split_on c r with
           | h :: t => String a h :: t
           | [] => [String a EmptyString]
           end
  end.

(* strings.Join(l, string(c)) *)
Fixpoint join_with (c : ascii) (l : list string) : string :=
  match l with
  | [] => EmptyString
  | [x] => x
  | x :: r => x ++ String c (join_with c r)
  end.

Fixpoint contains_char (c : ascii) (s : string) : bool :=
  match s with
  | EmptyString => false
  | String a r => Ascii.eqb a c || contains_char c r
  end.

Lemma split_on_nonempty c s : split_on c s <> [].
Proof. destruct s as [|a r]; simpl; [discriminate|]. destruct (Ascii.eqb a c); [discriminate|].
  destruct (split_on c r); discriminate. Qed.

Lemma split_on_nochar c s : contains_char c s = false -> split_on c s = [s].
Proof.
  induction s as [|a r IH]; simpl; auto.
  intros H. apply orb_false_iff in H as [Ha Hr]. rewrite Ha, (IH Hr). reflexivity.
Qed.

Lemma split_on_app c x r : contains_char c x = false ->
  split_on c (x ++ String c r) = x :: split_on c r.
Proof.
  induction x as [|a x IH]; simpl; intros H.
  - rewrite Ascii.eqb_refl. reflexivity.
  - apply orb_false_iff in H as [Ha Hx]. rewrite Ha, (IH Hx). reflexivity.
Qed.

(* Split (Join l) = l when no element contains the separator and l is non-empty *)
Lemma split_join c l : l <> [] -> forallb (fun x => negb (contains_char c x)) l = true ->
  split_on c (join_with c l) = l.
Proof.
  induction l as [|x r IH]; [congruence|]. intros _ H.
  simpl in H. apply andb_true_iff in H as [Hx Hr]. apply negb_true_iff in Hx.
  destruct r as [|y r'].
  - simpl. apply split_on_nochar; exact Hx.
  - change (join_with c (x :: y :: r')) with (x ++ String c (join_with c (y :: r'))).
    rewrite split_on_app by exact Hx. f_equal. apply IH; [discriminate|exact Hr].
Qed.

(* ASCII white space as strings.TrimSpace sees it (ASCII subset only) *)
Definition is_space (a : ascii) : bool :=
  match N_of_ascii a with
  | 9%N | 10%N | 11%N | 12%N | 13%N | 32%N => true
  | _ => false
  end.

Fixpoint trim_left (s : string) : string :=
  match s with
  | EmptyString => EmptyString
  | String a r => if is_space a then trim_left r else s
  end.

Definition trim_space (s : string) : string :=
  rev_s (trim_left (rev_s (trim_left s) "")) "".

(* numbered helpers *)
Fixpoint idxs_from {A} (n : N) (l : list A) : list (N * A) :=
  match l with [] => [] | x :: r => (n, x) :: idxs_from (N.succ n) r end.

Fixpoint list_eqb {A} (e : A -> A -> bool) (a b : list A) : bool :=
  match a, b with
  | [], [] => true
  | x :: a', y :: b' => e x y && list_eqb e a' b'
  | _, _ => false
  end.

Lemma list_eqb_eq {A} (e : A -> A -> bool) (He : forall x y, e x y = true <-> x = y) a b :
  list_eqb e a b = true <-> a = b.
Proof.
  revert b; induction a as [|x a IH]; intros [|y b]; simpl; try (split; congruence).
  rewrite andb_true_iff, He, IH. split; [intros [-> ->]; auto|intros H; injection H; auto].
Qed.

(* generic mismatch collector used by every cases file: returns the indices on which the
   model output differs from the observed output *)
Fixpoint mismatches_from {C} (ok : C -> bool) (n : N) (l : list C) : list N :=
  match l with
  | [] => []
  | c :: r => if ok c then mismatches_from ok (N.succ n) r else n :: mismatches_from ok (N.succ n) r
  end.
Definition mismatches {C} (ok : C -> bool) (l : list C) : list N := mismatches_from ok 0%N l.
