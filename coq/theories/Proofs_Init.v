From GC Require Import Base Model_Init.

Lemma cli_invalid_is_fatal c : cli_valid c = false -> exists step, run_cli c = Fatal step.
Proof.
  unfold cli_valid, run_cli, cli_steps. destruct c as [a l g s e]; simpl.
  destruct a, l, g, s, e; simpl; intros H; try discriminate; eauto.
Qed.

Lemma cli_valid_runs c : cli_valid c = true -> run_cli c = Ran.
Proof.
  unfold cli_valid, run_cli, cli_steps. destruct c as [a l g s e]; simpl.
  destruct a, l, g, s, e; simpl; intros H; try discriminate; reflexivity.
Qed.

Lemma cli_never_panics c : forall site, run_cli c <> CliPanic site.
Proof.
  intros site. unfold run_cli, cli_steps. destruct c as [a l g s e]; simpl.
  destruct a, l, g, s, e; simpl; discriminate.
Qed.

Lemma cli_prefix_go_version_refuted :
  exists c, cli_valid c = false /\ run_cli_prefix c = CliPanic "SetGoVersion".
Proof.
  exists {| args_parse_ok := true; load_ok := true; go_version_ok := false; selection_nonempty := true; first_ctor_error := false |}.
  split; reflexivity.
Qed.

(* ---- analyzer ---- *)
(* Invariant: once the latch is set, every later pass is skipped, whatever the flags become. *)
Lemma latched_passes_skipped g h : latch g = true ->
  run_passes run_pass g h = map (fun _ => PassSkipped) h.
Proof.
  revert g; induction h as [|f r IH]; intros g Hl; [reflexivity|].
  simpl. unfold run_pass, prepare. rewrite Hl. simpl. f_equal. apply IH. exact Hl.
Qed.

(* an invalid -go from the start: the first pass reports the init error, all later passes are
   skipped; never a panic, never diagnostics — for any number of packages and whatever the flags
   are changed to afterwards *)
Lemma analyzer_invalid_go_clean f h : an_go_ok f = false ->
  run_passes run_pass g0 (f :: h) = PassInitError :: map (fun _ => PassSkipped) h.
Proof.
  intros Hf. simpl. unfold run_pass at 1, prepare. simpl. rewrite Hf. simpl.
  f_equal. apply latched_passes_skipped. reflexivity.
Qed.

(* with a cached configuration, every pass behaves identically *)
Lemma cached_passes_uniform c h :
  run_passes run_pass {| cached := Some c; latch := false |} h =
  map (fun _ => if an_ctor_ok c then PassDiags else PassCtorError) h.
Proof.
  induction h as [|f r IH]; [reflexivity|]. simpl. unfold run_pass at 1, prepare. simpl.
  f_equal. exact IH.
Qed.

Lemma analyzer_valid_uniform f h : an_go_ok f = true ->
  run_passes run_pass g0 (f :: h) =
  map (fun _ => if an_ctor_ok f then PassDiags else PassCtorError) (f :: h).
Proof.
  intros Hf. simpl. unfold run_pass at 1, prepare. simpl. rewrite Hf. simpl.
  f_equal. apply cached_passes_uniform.
Qed.

(* general safety over every history: no pass ever panics, and no pass analyses with a
   configuration whose initialisation failed *)
Lemma run_pass_no_panic g f : snd (run_pass g f) <> PassPanic.
Proof.
  unfold run_pass, prepare. destruct (latch g); simpl; [discriminate|].
  destruct (cached g) as [c|]; simpl.
  - destruct (an_ctor_ok c); discriminate.
  - destruct (an_go_ok f); simpl; [destruct (an_ctor_ok f)|]; discriminate.
Qed.

Lemma run_passes_no_panic g h : ~ In PassPanic (run_passes run_pass g h).
Proof.
  revert g; induction h as [|f r IH]; intros g; simpl; [tauto|].
  destruct (run_pass g f) as [g' o] eqn:E. simpl. intros [H|H].
  - pose proof (run_pass_no_panic g f) as Hn. rewrite E in Hn. simpl in Hn. congruence.
  - exact (IH g' H).
Qed.

Definition cache_ok (g : gstate) : Prop :=
  match cached g with Some c => an_go_ok c = true | None => True end.

Lemma run_pass_cache_ok g f : cache_ok g -> cache_ok (fst (run_pass g f)).
Proof.
  unfold run_pass, prepare, cache_ok. destruct (latch g); simpl; [auto|].
  destruct (cached g) as [c|] eqn:Ec; simpl; [rewrite Ec; auto|].
  destruct (an_go_ok f) eqn:Ef; simpl; auto.
Qed.

(* diagnostics are only ever produced from a configuration whose initialisation succeeded *)
Lemma diags_only_from_good_config g f : cache_ok g ->
  snd (run_pass g f) = PassDiags ->
  exists c, cached (fst (run_pass g f)) = Some c /\ an_go_ok c = true /\ an_ctor_ok c = true.
Proof.
  unfold run_pass, prepare, cache_ok. destruct (latch g); simpl; [discriminate|].
  destruct (cached g) as [c|] eqn:Ec; simpl.
  - intros Hc. destruct (an_ctor_ok c) eqn:E; [|discriminate]. intros _. exists c. rewrite Ec. auto.
  - intros _. destruct (an_go_ok f) eqn:Ef; simpl; [|discriminate].
    destruct (an_ctor_ok f) eqn:E; [|discriminate]. intros _. exists f. auto.
Qed.

Lemma analyzer_prefix_second_pass_refuted :
  exists f h, an_go_ok f = false /\ In PassPanic (run_passes run_pass_prefix g0 (f :: h)).
Proof.
  exists {| an_go_ok := false; an_ctor_ok := true |}, [{| an_go_ok := false; an_ctor_ok := true |}].
  split; [reflexivity|]. vm_compute. auto.
Qed.
