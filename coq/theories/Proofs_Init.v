From GC Require Import Base Model_Init.

Lemma cli_invalid_is_fatal c : cli_valid c = false -> exists step, run_cli c = Fatal step.
Proof.
  unfold cli_valid, run_cli, cli_steps. destruct c as [a l g s e]; simpl.
  destruct a, l, g, s, e; simpl; intros H; try discriminate; eauto.
Qed.

Lemma cli_valid_runs c : cli_valid c = true -> run_cli c = Ran.
Proof.
  unfold cli_valid, run_cli, cli_steps. destruct c as [a l g s e]; simpl.
  destruct a, l, g, s, e; simpl; intros H; try discriminate; reflexivity.
Qed.

Lemma cli_never_panics c : forall site, run_cli c <> CliPanic site.
Proof.
  intros site. unfold run_cli, cli_steps. destruct c as [a l g s e]; simpl.
  destruct a, l, g, s, e; simpl; discriminate.
Qed.

Lemma cli_prefix_go_version_refuted :
  exists c, cli_valid c = false /\ run_cli_prefix c = CliPanic "SetGoVersion".
Proof.
  exists {| args_parse_ok := true; load_ok := true; go_version_ok := false; selection_nonempty := true; first_ctor_error := false |}.
  split; reflexivity.
Qed.

(* ---- analyzer ---- *)
(* Invariant: once the latch is set, every later pass is skipped, whatever the flags become. *)
Lemma latched_passes_skipped g h : latch g = true ->
  run_passes run_pass g h = map (fun _ => PassSkipped) h.
Proof.
  revert g; induction h as [|f r IH]; intros g Hl; [reflexivity|].
  simpl. unfold run_pass, prepare. rewrite Hl. simpl. f_equal. apply IH. exact Hl.
Qed.

(* an invalid -go from the start: the first pass reports the init error, all later passes are
   skipped; never a panic, never diagnostics — for any number of packages and whatever the flags
   are changed to afterwards *)
Lemma analyzer_invalid_go_clean f h : an_go_ok f = false ->
  run_passes run_pass g0 (f :: h) = PassInitError :: map (fun _ => PassSkipped) h.
Proof.
  intros Hf. simpl. unfold run_pass at 1, prepare. simpl. rewrite Hf. simpl.
  f_equal. apply latched_passes_skipped. reflexivity.
Qed.

(* with a cached configuration, every pass behaves identically *)
Lemma cached_passes_uniform c h :
  run_passes run_pass {| cached := Some c; latch := false |} h =
  map (fun _ => if an_ctor_ok c then PassDiags else PassCtorError) h.
Proof.
  induction h as [|f r IH]; [reflexivity|]. simpl. unfold run_pass at 1, prepare. simpl.
  f_equal. exact IH.
Qed.

Lemma analyzer_valid_uniform f h : an_go_ok f = true ->
  run_passes run_pass g0 (f :: h) =
  map (fun _ => if an_ctor_ok f then PassDiags else PassCtorError) (f :: h).
Proof.
  intros Hf. simpl. unfold run_pass at 1, prepare. simpl. rewrite Hf. simpl.
  f_equal. apply cached_passes_uniform.
Qed.

(* general safety over every history: no pass ever panics, and no pass analyses with a
   configuration whose initialisation failed *)
Lemma run_pass_no_panic g f : snd (run_pass g f) <> PassPanic.
Proof.
  unfold run_pass, prepare. destruct (latch g); simpl; [discriminate|].
  destruct (cached g) as [c|]; simpl.
  - destruct (an_ctor_ok c); discriminate.
  - destruct (an_go_ok f); simpl; [destruct (an_ctor_ok f)|]; discriminate.
Qed.

Lemma run_passes_no_panic g h : ~ In PassPanic (run_passes run_pass g h).
Proof.
  revert g; induction h as [|f r IH]; intros g; simpl; [tauto|].
  destruct (run_pass g f) as [g' o] eqn:E. simpl. intros [H|H].
  - pose proof (run_pass_no_panic g f) as Hn. rewrite E in Hn. simpl in Hn. congruence.
  - exact (IH g' H).
Qed.

Definition cache_ok (g : gstate) : Prop :=
  match cached g with Some c => an_go_ok c = true | None => True end.

Lemma run_pass_cache_ok g f : cache_ok g -> cache_ok (fst (run_pass g f)).
Proof.
  unfold run_pass, prepare, cache_ok. destruct (latch g); simpl; [auto|].
  destruct (cached g) as [c|] eqn:Ec; simpl; [rewrite Ec; auto|].
  destruct (an_go_ok f) eqn:Ef; simpl; auto.
Qed.

(* diagnostics are only ever produced from a configuration whose initialisation succeeded *)
Lemma diags_only_from_good_config g f : cache_ok g ->
  snd (run_pass g f) = PassDiags ->
  exists c, cached (fst (run_pass g f)) = Some c /\ an_go_ok c = true /\ an_ctor_ok c = true.
Proof.
  unfold run_pass, prepare, cache_ok. destruct (latch g); simpl; [discriminate|].
  destruct (cached g) as [c|] eqn:Ec; simpl.
  - intros Hc. destruct (an_ctor_ok c) eqn:E; [|discriminate]. intros _. exists c. rewrite Ec. auto.
  - intros _. destruct (an_go_ok f) eqn:Ef; simpl; [|discriminate].
    destruct (an_ctor_ok f) eqn:E; [|discriminate]. intros _. exists f. auto.
Qed.

Lemma analyzer_prefix_second_pass_refuted :
  exists f h, an_go_ok f = false /\ In PassPanic (run_passes run_pass_prefix g0 (f :: h)).
Proof.
  exists {| an_go_ok := false; an_ctor_ok := true |}, [{| an_go_ok := false; an_ctor_ok := true |}].
  split; [reflexivity|]. vm_compute. auto.
Qed.

(* the cached configuration, once set, is never replaced (single initialisation): prepare calls are
   atomic under the mutex, so any interleaving of concurrent passes is one of these sequences *)
Lemma cached_stable g f c : cached g = Some c -> cached (fst (run_pass g f)) = Some c.
Proof.
  intros H. unfold run_pass, prepare. destruct (latch g); simpl; [exact H|]. rewrite H. simpl. exact H.
Qed.

Lemma cached_stable_history h : forall g c, cached g = Some c -> latch g = false ->
  run_passes run_pass g h = map (fun _ => if an_ctor_ok c then PassDiags else PassCtorError) h.
Proof.
  induction h as [|f r IH]; intros g c Hc Hl; [reflexivity|].
  simpl. unfold run_pass at 1, prepare. rewrite Hl, Hc. simpl. f_equal.
  apply IH; [exact Hc|exact Hl].
Qed.

(* ---------------- round 5: targets ---------------- *)
Lemma targets_invalid_fatal c : target_config_valid c = false -> exists step, run_cli_targets c = Fatal step.
Proof.
  unfold target_config_valid, cli_valid, run_cli_targets, target_steps. destruct c as [[p l g s e] y]; simpl.
  destruct p, l, y, g, e, s; simpl; intros H; try discriminate; eexists; reflexivity.
Qed.

Lemma targets_valid_runs c : target_config_valid c = true -> run_cli_targets c = Ran.
Proof.
  unfold target_config_valid, cli_valid, run_cli_targets, target_steps. destruct c as [[p l g s e] y]; simpl.
  destruct p, l, y, g, e, s; simpl; intros H; try discriminate; reflexivity.
Qed.

Lemma missing_target_is_load_error c :
  args_parse_ok (tc_base c) = true -> load_ok (tc_base c) = true -> tc_all_targets_yield c = false ->
  run_cli_targets c = Fatal "load program".
Proof.
  unfold run_cli_targets, target_steps. intros Hp Hl Hy. rewrite Hp, Hl, Hy. reflexivity.
Qed.

Lemma missing_target_prefix_refuted :
  exists c, target_config_valid c = false /\ run_cli_targets_prefix c = Ran.
Proof.
  exists {| tc_base := {| args_parse_ok := true; load_ok := true; go_version_ok := true; selection_nonempty := true; first_ctor_error := false |};
            tc_all_targets_yield := false |}.
  vm_compute. auto.
Qed.

(* ---------------- round 5: dispatcher ---------------- *)
Lemma dispatch_cases argv :
  (exists a, argv = "check" :: a /\ dispatch argv = DCheck a)
  \/ (exists a, argv = "doc" :: a /\ dispatch argv = DDoc a)
  \/ (exists a, argv = "help" :: a /\ dispatch argv = DHelp)
  \/ (exists a, argv = "version" :: a /\ dispatch argv = DVersion)
  \/ ((argv = [] \/ exists c r, argv = c :: r /\ ~ In c subcommands) /\ exists m, dispatch argv = DError m).
Proof.
  destruct argv as [|c r].
  - right; right; right; right. split; [left; reflexivity|eexists; reflexivity].
  - unfold dispatch.
    destruct (String.eqb c "") eqn:E0.
    { apply String.eqb_eq in E0; subst. right; right; right; right. split; [|eexists; reflexivity].
      right. exists "", r. split; [reflexivity|]. simpl. intros [H|[H|[H|[H|[]]]]]; discriminate. }
    destruct (String.eqb c "check") eqn:E1; [apply String.eqb_eq in E1; subst; left; eexists; split; reflexivity|].
    destruct (String.eqb c "doc") eqn:E2; [apply String.eqb_eq in E2; subst; right; left; eexists; split; reflexivity|].
    destruct (String.eqb c "help") eqn:E3; [apply String.eqb_eq in E3; subst; right; right; left; eexists; split; reflexivity|].
    destruct (String.eqb c "version") eqn:E4; [apply String.eqb_eq in E4; subst; right; right; right; left; eexists; split; reflexivity|].
    right; right; right; right. split; [|eexists; reflexivity].
    right. exists c, r. split; [reflexivity|].
    apply String.eqb_neq in E1, E2, E3, E4. simpl. intros [H|[H|[H|[H|[]]]]]; congruence.
Qed.

Lemma unknown_subcommand_fails known cs argv :
  (argv = [] \/ exists c r, argv = c :: r /\ ~ In c subcommands) -> main_status known cs argv = 1%Z.
Proof.
  intros [->|[c [r [-> Hn]]]]; [reflexivity|].
  unfold main_status, dispatch.
  destruct (String.eqb c "") eqn:E0; [reflexivity|].
  destruct (String.eqb c "check") eqn:E1; [apply String.eqb_eq in E1; subst; exfalso; apply Hn; simpl; auto|].
  destruct (String.eqb c "doc") eqn:E2; [apply String.eqb_eq in E2; subst; exfalso; apply Hn; simpl; auto|].
  destruct (String.eqb c "help") eqn:E3; [apply String.eqb_eq in E3; subst; exfalso; apply Hn; simpl; auto|].
  destruct (String.eqb c "version") eqn:E4; [apply String.eqb_eq in E4; subst; exfalso; apply Hn; simpl; auto 6|].
  reflexivity.
Qed.

(* the runner alone ran check for the empty word *)
Lemma empty_word_prefix_runs_check known cs r : main_status_empty_word_prefix known cs ("" :: r) = cs r.
Proof. reflexivity. Qed.
Lemma empty_word_prefix_refuted :
  exists known cs argv, (exists c r, argv = c :: r /\ ~ In c subcommands) /\ main_status_empty_word_prefix known cs argv = 0%Z.
Proof.
  exists (fun _ => true), (fun _ => 0%Z), [""]. split; [|reflexivity].
  exists "", []. split; [reflexivity|]. simpl. intros [H|[H|[H|[H|[]]]]]; discriminate.
Qed.

Lemma status_zero_known_subcommand known cs argv :
  main_status known cs argv = 0%Z -> exists c r, argv = c :: r /\ In c subcommands.
Proof.
  intros H. destruct (dispatch_cases argv) as [[a [-> _]]|[[a [-> _]]|[[a [-> _]]|[[a [-> _]]|[Hu _]]]]].
  - eexists _, _; split; [reflexivity|simpl; auto].
  - eexists _, _; split; [reflexivity|simpl; auto].
  - eexists _, _; split; [reflexivity|simpl; auto].
  - eexists _, _; split; [reflexivity|simpl; auto 6].
  - rewrite (unknown_subcommand_fails known cs argv Hu) in H. discriminate.
Qed.

Lemma doc_unknown_checker_fails known cs n :
  known n = false -> has_prefix "-" n = false -> main_status known cs ["doc"; n] = 1%Z.
Proof.
  intros Hk Hp. unfold main_status. change (dispatch ["doc"; n]) with (DDoc [n]). unfold doc_status, doc_parse.
  destruct (String.eqb n "--") eqn:E; [apply String.eqb_eq in E; subst; discriminate|].
  rewrite Hp. cbn. rewrite Hk. reflexivity.
Qed.

Lemma doc_status_zero known args :
  doc_status known args = 0%Z ->
  exists pos, doc_parse args = Some pos /\ (pos = [] \/ exists n, pos = [n] /\ known n = true).
Proof.
  unfold doc_status. destruct (doc_parse args) as [[|n [|m r]]|]; intros H; try discriminate.
  - exists []. auto.
  - exists [n]. split; [reflexivity|]. right. exists n. split; [reflexivity|]. destruct (known n); [reflexivity|discriminate].
Qed.

Lemma main_status_prefix_refuted :
  exists known cs argv, (exists c r, argv = c :: r /\ ~ In c subcommands) /\ main_status_prefix known cs argv = 0%Z.
Proof.
  exists (fun _ => true), (fun _ => 1%Z), ["chek"; "./p"]. split; [|reflexivity].
  exists "chek", ["./p"]. split; [reflexivity|]. simpl. intros [H|[H|[H|[H|[]]]]]; discriminate.
Qed.
