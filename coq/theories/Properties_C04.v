(* Properties_C04.v — property C04: results do not depend on scheduling; concurrent use is race-free
   (as far as the scheduling logic and the footprints of the model go — see DESIGN.md: actual memory
   accesses of the compiled program are covered by the race-detector oracle only). *)
From GC Require Import Base Model_Sched Proofs_Sched Model_Init Proofs_Init.

(* For every -concurrency value and EVERY complete interleaving of the checker goroutines, what is
   printed for a file equals the output of the fully sequential run, in checker order. *)
Theorem C04_sched_confluent : forall R n cap (run : nat -> list R) sch s',
  exec (list R) n cap run (init (list R)) sch = Some s' -> terminal (list R) n s' ->
  printed (slots (list R) s') n = sequential run n.
Proof. intros R n cap run sch s'. exact (sched_confluent n cap run sch s'). Qed.
Print Assumptions C04_sched_confluent.

(* Every capacity >= 1 is deadlock-free: a non-terminal reachable state always has an enabled step. *)
Theorem C04_sched_progress : forall R n cap (run : nat -> R) sch s,
  exec R n cap run (init R) sch = Some s -> 1 <= cap -> ~ terminal R n s ->
  exists l, enabled R n cap s l = true.
Proof.
  intros R n cap run sch s He. apply (progress R n cap run).
  eapply inv_exec; [apply inv_init|exact He].
Qed.
Print Assumptions C04_sched_progress.

(* -concurrency=0 (outside the property's range 1..GOMAXPROCS) blocks forever on the first spawn. *)
Theorem C04_zero_capacity_deadlocks : forall R n cap, cap = 0 -> 0 < n -> forall l, enabled R n cap (init R) l = false.
Proof. exact zero_capacity_deadlocks. Qed.
Print Assumptions C04_zero_capacity_deadlocks.

(* At most -concurrency workers run at any time. *)
Theorem C04_bounded_concurrency : forall R n cap (run : nat -> R) sch s',
  exec R n cap run (init R) sch = Some s' -> tokens R n s' <= cap.
Proof. exact bounded_concurrency. Qed.
Print Assumptions C04_bounded_concurrency.

(* Two distinct steps never write a cell the other reads or writes: workers write only their own
   checker context and result slot; the shared file, type information and context are read-only. *)
Theorem C04_no_conflicting_access : forall l1 l2, l1 <> l2 -> conflict l1 l2 = false.
Proof. exact no_conflicting_access. Qed.
Print Assumptions C04_no_conflicting_access.

(* Analyzer: passes running in parallel serialise on the mutex; once a configuration is cached every
   pass, in any order, uses that same configuration (single initialisation). *)
Theorem C04_analyzer_cache_single_init : forall g f c, cached g = Some c -> cached (fst (run_pass g f)) = Some c.
Proof. exact cached_stable. Qed.
Print Assumptions C04_analyzer_cache_single_init.
Theorem C04_analyzer_passes_order_irrelevant : forall h g c, cached g = Some c -> latch g = false ->
  run_passes run_pass g h = map (fun _ => if an_ctor_ok c then PassDiags else PassCtorError) h.
Proof. exact cached_stable_history. Qed.
Print Assumptions C04_analyzer_passes_order_irrelevant.

Example C04_example_schedule :
  let run := fun k => [k] in
  match exec (list nat) 3 2 run (init (list nat)) [LSpawn; LSpawn; LWork 1; LFinish 1; LSpawn; LWork 2; LWork 0; LFinish 0; LFinish 2] with
  | Some s => printed (slots (list nat) s) 3 = [0; 1; 2]
  | None => False
  end.
Proof. vm_compute. reflexivity. Qed.
