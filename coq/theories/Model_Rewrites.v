(* Model_Rewrites.v — the embedded rewrite rules that promise an equivalent replacement.
   (1) [shipped_rules]: the model's copy of the rule source (pattern strings, Where filter text,
       Suggest / Report templates) of the covered groups of checkers/rules/rules.go; the harness
       re-extracts the same table from the current source on every run and Coq compares them, so a
       changed pattern, a dropped filter or a swapped template breaks the tie.
   (2) the rules over Model_Expr as (pattern, filter, template): [rw_lhs σ], [rw_filter σ], [rw_rhs σ].
   No proofs here. *)
From GC Require Import Base Model_Expr.
Open Scope string_scope.

Record rule := { r_group : string; r_patterns : list string; r_where : string; r_suggest : string; r_report : string }.

Definition rule_eqb (a b : rule) : bool :=
  String.eqb (r_group a) (r_group b) && list_eqb String.eqb (r_patterns a) (r_patterns b) &&
  String.eqb (r_where a) (r_where b) && String.eqb (r_suggest a) (r_suggest b) && String.eqb (r_report a) (r_report b).

Fixpoint zip_rules (a b : list rule) : list (rule * rule) :=
  match a, b with
  | x :: a', y :: b' => (x, y) :: zip_rules a' b'
  | _, _ => []
  end.

Definition shipped_rules : list rule := [
{| r_group := "sloppyLen"; r_patterns := ["len($_) >= 0"]; r_where := ""; r_suggest := ""; r_report := "$$ is always true" |};
{| r_group := "sloppyLen"; r_patterns := ["len($_) < 0"]; r_where := ""; r_suggest := ""; r_report := "$$ is always false" |};
{| r_group := "sloppyLen"; r_patterns := ["len($x) <= 0"]; r_where := ""; r_suggest := ""; r_report := "$$ can be len($x) == 0" |};
{| r_group := "valSwap"; r_patterns := ["$tmp := $y; $y = $x; $x = $tmp"]; r_where := "m[""x""].Pure && m[""y""].Pure"; r_suggest := ""; r_report := "can re-write as `$y, $x = $x, $y`" |};
{| r_group := "switchTrue"; r_patterns := ["switch true { $*_ }"]; r_where := ""; r_suggest := ""; r_report := "replace 'switch true {}' with 'switch {}'" |};
{| r_group := "switchTrue"; r_patterns := ["switch $x; true { $*_ }"]; r_where := ""; r_suggest := ""; r_report := "replace 'switch $x; true {}' with 'switch $x; {}'" |};
{| r_group := "emptyStringTest"; r_patterns := ["len($s) != 0"]; r_where := "m[""s""].Type.Is(`string`)"; r_suggest := ""; r_report := "replace `$$` with `$s != """"`" |};
{| r_group := "emptyStringTest"; r_patterns := ["len($s) > 0"]; r_where := "m[""s""].Type.Is(`string`)"; r_suggest := ""; r_report := "replace `$$` with `$s != """"`" |};
{| r_group := "emptyStringTest"; r_patterns := ["len($s) == 0"]; r_where := "m[""s""].Type.Is(`string`)"; r_suggest := ""; r_report := "replace `$$` with `$s == """"`" |};
{| r_group := "emptyStringTest"; r_patterns := ["len($s) <= 0"]; r_where := "m[""s""].Type.Is(`string`)"; r_suggest := ""; r_report := "replace `$$` with `$s == """"`" |};
{| r_group := "stringXbytes"; r_patterns := ["copy($_, []byte($s))"]; r_where := ""; r_suggest := ""; r_report := "can simplify `[]byte($s)` to `$s`" |};
{| r_group := "stringXbytes"; r_patterns := ["string($b) == """""]; r_where := "m[""b""].Type.Is(`[]byte`)"; r_suggest := "len($b) == 0"; r_report := "" |};
{| r_group := "stringXbytes"; r_patterns := ["string($b) != """""]; r_where := "m[""b""].Type.Is(`[]byte`)"; r_suggest := "len($b) != 0"; r_report := "" |};
{| r_group := "stringXbytes"; r_patterns := ["len(string($b))"]; r_where := "m[""b""].Type.Is(`[]byte`)"; r_suggest := "len($b)"; r_report := "" |};
{| r_group := "stringXbytes"; r_patterns := ["string($x) == string($y)"]; r_where := "m[""x""].Type.Is(`[]byte`) && m[""y""].Type.Is(`[]byte`)"; r_suggest := "bytes.Equal($x, $y)"; r_report := "" |};
{| r_group := "stringXbytes"; r_patterns := ["string($x) != string($y)"]; r_where := "m[""x""].Type.Is(`[]byte`) && m[""y""].Type.Is(`[]byte`)"; r_suggest := "!bytes.Equal($x, $y)"; r_report := "" |};
{| r_group := "stringXbytes"; r_patterns := ["$re.Match([]byte($s))"]; r_where := "m[""re""].Type.Is(`*regexp.Regexp`) && m[""s""].Type.Is(`string`)"; r_suggest := "$re.MatchString($s)"; r_report := "" |};
{| r_group := "stringXbytes"; r_patterns := ["$re.FindIndex([]byte($s))"]; r_where := "m[""re""].Type.Is(`*regexp.Regexp`) && m[""s""].Type.Is(`string`)"; r_suggest := "$re.FindStringIndex($s)"; r_report := "" |};
{| r_group := "stringXbytes"; r_patterns := ["$re.FindAllIndex([]byte($s), $n)"]; r_where := "m[""re""].Type.Is(`*regexp.Regexp`) && m[""s""].Type.Is(`string`)"; r_suggest := "$re.FindAllStringIndex($s, $n)"; r_report := "" |};
{| r_group := "wrapperFunc"; r_patterns := ["$wg.Add(-1)"]; r_where := "m[""wg""].Type.Is(`sync.WaitGroup`)"; r_suggest := ""; r_report := "use WaitGroup.Done method in `$$`" |};
{| r_group := "wrapperFunc"; r_patterns := ["$buf.Truncate(0)"]; r_where := "m[""buf""].Type.Is(`bytes.Buffer`)"; r_suggest := ""; r_report := "use Buffer.Reset method in `$$`" |};
{| r_group := "wrapperFunc"; r_patterns := ["http.HandlerFunc(http.NotFound)"]; r_where := ""; r_suggest := ""; r_report := "use http.NotFoundHandler method in `$$`" |};
{| r_group := "wrapperFunc"; r_patterns := ["strings.SplitN($_, $_, -1)"]; r_where := ""; r_suggest := ""; r_report := "use strings.Split method in `$$`" |};
{| r_group := "wrapperFunc"; r_patterns := ["strings.Replace($_, $_, $_, -1)"]; r_where := ""; r_suggest := ""; r_report := "use strings.ReplaceAll method in `$$`" |};
{| r_group := "wrapperFunc"; r_patterns := ["strings.Map(unicode.ToTitle, $_)"]; r_where := ""; r_suggest := ""; r_report := "use strings.ToTitle method in `$$`" |};
{| r_group := "wrapperFunc"; r_patterns := ["strings.Index($s1, $s2) >= 0"; "strings.Index($s1, $s2) != -1"]; r_where := ""; r_suggest := "strings.Contains($s1, $s2)"; r_report := "" |};
{| r_group := "wrapperFunc"; r_patterns := ["strings.IndexAny($s1, $s2) >= 0"; "strings.IndexAny($s1, $s2) != -1"]; r_where := ""; r_suggest := "strings.ContainsAny($s1, $s2)"; r_report := "" |};
{| r_group := "wrapperFunc"; r_patterns := ["strings.IndexRune($s1, $s2) >= 0"; "strings.IndexRune($s1, $s2) != -1"]; r_where := ""; r_suggest := "strings.ContainsRune($s1, $s2)"; r_report := "" |};
{| r_group := "wrapperFunc"; r_patterns := ["$i := strings.Index($s, $sep); $*_; $x, $y = $s[:$i], $s[$i+1:]"; "$i := strings.Index($s, $sep); $*_; $x = $s[:$i]; $*_; $y = $s[$i+1:]"]; r_where := "m.GoVersion().GreaterEqThan(""1.18"")"; r_suggest := "$x, $y, _ = strings.Cut($s, $sep)"; r_report := "" |};
{| r_group := "wrapperFunc"; r_patterns := ["if $i := strings.Index($s, $sep); $i != -1 { $*_; $x, $y = $s[:$i], $s[$i+1:]; $*_ }"; "if $i := strings.Index($s, $sep); $i != -1 { $*_; $x = $s[:$i]; $*_; $y = $s[$i+1:]; $*_ }"; "if $i := strings.Index($s, $sep); $i >= 0 { $*_; $x, $y = $s[:$i], $s[$i+1:]; $*_ }"; "if $i := strings.Index($s, $sep); $i >= 0 { $*_; $x = $s[:$i]; $*_; $y = $s[$i+1:]; $*_ }"]; r_where := "m.GoVersion().GreaterEqThan(""1.18"")"; r_suggest := "if $x, $y, ok = strings.Cut($s, $sep); ok { ... }"; r_report := "" |};
{| r_group := "wrapperFunc"; r_patterns := ["bytes.SplitN(b, []byte("".""), -1)"]; r_where := ""; r_suggest := ""; r_report := "use bytes.Split method in `$$`" |};
{| r_group := "wrapperFunc"; r_patterns := ["bytes.Replace($_, $_, $_, -1)"]; r_where := ""; r_suggest := ""; r_report := "use bytes.ReplaceAll method in `$$`" |};
{| r_group := "wrapperFunc"; r_patterns := ["bytes.Map(unicode.ToUpper, $_)"]; r_where := ""; r_suggest := ""; r_report := "use bytes.ToUpper method in `$$`" |};
{| r_group := "wrapperFunc"; r_patterns := ["bytes.Map(unicode.ToLower, $_)"]; r_where := ""; r_suggest := ""; r_report := "use bytes.ToLower method in `$$`" |};
{| r_group := "wrapperFunc"; r_patterns := ["bytes.Map(unicode.ToTitle, $_)"]; r_where := ""; r_suggest := ""; r_report := "use bytes.ToTitle method in `$$`" |};
{| r_group := "wrapperFunc"; r_patterns := ["bytes.Index($b1, $b2) >= 0"; "bytes.Index($b1, $b2) != -1"]; r_where := ""; r_suggest := "bytes.Contains($b1, $b2)"; r_report := "" |};
{| r_group := "wrapperFunc"; r_patterns := ["bytes.IndexAny($b1, $b2) >= 0"; "bytes.IndexAny($b1, $b2) != -1"]; r_where := ""; r_suggest := "bytes.ContainsAny($b1, $b2)"; r_report := "" |};
{| r_group := "wrapperFunc"; r_patterns := ["bytes.IndexRune($b1, $b2) >= 0"; "bytes.IndexRune($b1, $b2) != -1"]; r_where := ""; r_suggest := "bytes.ContainsRune($b1, $b2)"; r_report := "" |};
{| r_group := "wrapperFunc"; r_patterns := ["draw.DrawMask($_, $_, $_, $_, nil, image.Point{}, $_)"]; r_where := ""; r_suggest := ""; r_report := "use draw.Draw method in `$$`" |};
{| r_group := "assignOp"; r_patterns := ["$x = $x + 1"]; r_where := "m[""x""].Pure"; r_suggest := ""; r_report := "replace `$$` with `$x++`" |};
{| r_group := "assignOp"; r_patterns := ["$x = $x - 1"]; r_where := "m[""x""].Pure"; r_suggest := ""; r_report := "replace `$$` with `$x--`" |};
{| r_group := "assignOp"; r_patterns := ["$x = $x + $y"]; r_where := "m[""x""].Pure"; r_suggest := ""; r_report := "replace `$$` with `$x += $y`" |};
{| r_group := "assignOp"; r_patterns := ["$x = $x - $y"]; r_where := "m[""x""].Pure"; r_suggest := ""; r_report := "replace `$$` with `$x -= $y`" |};
{| r_group := "assignOp"; r_patterns := ["$x = $x * $y"]; r_where := "m[""x""].Pure"; r_suggest := ""; r_report := "replace `$$` with `$x *= $y`" |};
{| r_group := "assignOp"; r_patterns := ["$x = $x / $y"]; r_where := "m[""x""].Pure"; r_suggest := ""; r_report := "replace `$$` with `$x /= $y`" |};
{| r_group := "assignOp"; r_patterns := ["$x = $x % $y"]; r_where := "m[""x""].Pure"; r_suggest := ""; r_report := "replace `$$` with `$x %= $y`" |};
{| r_group := "assignOp"; r_patterns := ["$x = $x & $y"]; r_where := "m[""x""].Pure"; r_suggest := ""; r_report := "replace `$$` with `$x &= $y`" |};
{| r_group := "assignOp"; r_patterns := ["$x = $x | $y"]; r_where := "m[""x""].Pure"; r_suggest := ""; r_report := "replace `$$` with `$x |= $y`" |};
{| r_group := "assignOp"; r_patterns := ["$x = $x ^ $y"]; r_where := "m[""x""].Pure"; r_suggest := ""; r_report := "replace `$$` with `$x ^= $y`" |};
{| r_group := "assignOp"; r_patterns := ["$x = $x << $y"]; r_where := "m[""x""].Pure"; r_suggest := ""; r_report := "replace `$$` with `$x <<= $y`" |};
{| r_group := "assignOp"; r_patterns := ["$x = $x >> $y"]; r_where := "m[""x""].Pure"; r_suggest := ""; r_report := "replace `$$` with `$x >>= $y`" |};
{| r_group := "assignOp"; r_patterns := ["$x = $x &^ $y"]; r_where := "m[""x""].Pure"; r_suggest := ""; r_report := "replace `$$` with `$x &^= $y`" |};
{| r_group := "offBy1"; r_patterns := ["$x[len($x)]"]; r_where := "m[""x""].Pure && m[""x""].Type.Is(`[]$_`)"; r_suggest := "$x[len($x)-1]"; r_report := "index expr always panics; maybe you wanted $x[len($x)-1]?" |};
{| r_group := "offBy1"; r_patterns := ["$i := strings.Index($s, $_); $_ := $slicing[$i:]"; "$i := strings.Index($s, $_); $_ = $slicing[$i:]"; "$i := bytes.Index($s, $_); $_ := $slicing[$i:]"; "$i := bytes.Index($s, $_); $_ = $slicing[$i:]"]; r_where := "m[""s""].Text == m[""slicing""].Text @At(m[""slicing""])"; r_suggest := ""; r_report := "Index() can return -1; maybe you wanted to do $s[$i+1:]" |};
{| r_group := "offBy1"; r_patterns := ["$i := strings.Index($s, $_); $_ := $slicing[:$i]"; "$i := strings.Index($s, $_); $_ = $slicing[:$i]"; "$i := bytes.Index($s, $_); $_ := $slicing[:$i]"; "$i := bytes.Index($s, $_); $_ = $slicing[:$i]"]; r_where := "m[""s""].Text == m[""slicing""].Text @At(m[""slicing""])"; r_suggest := ""; r_report := "Index() can return -1; maybe you wanted to do $s[:$i+1]" |};
{| r_group := "offBy1"; r_patterns := ["$s[strings.Index($s, $_):]"; "$s[:strings.Index($s, $_)]"; "$s[bytes.Index($s, $_):]"; "$s[:bytes.Index($s, $_)]"]; r_where := ""; r_suggest := ""; r_report := "Index() can return -1; maybe you wanted to do Index()+1" |};
{| r_group := "unslice"; r_patterns := ["$s[:]"]; r_where := "m[""s""].Type.Is(`string`) || m[""s""].Type.Is(`[]$_`)"; r_suggest := "$s"; r_report := "could simplify $$ to $s" |};
{| r_group := "yodaStyleExpr"; r_patterns := ["$constval != $x"]; r_where := "m[""constval""].Node.Is(`BasicLit`) && !m[""x""].Node.Is(`BasicLit`)"; r_suggest := ""; r_report := "consider to change order in expression to $x != $constval" |};
{| r_group := "yodaStyleExpr"; r_patterns := ["$constval == $x"]; r_where := "m[""constval""].Node.Is(`BasicLit`) && !m[""x""].Node.Is(`BasicLit`)"; r_suggest := ""; r_report := "consider to change order in expression to $x == $constval" |};
{| r_group := "yodaStyleExpr"; r_patterns := ["nil != $x"]; r_where := "!m[""x""].Node.Is(`BasicLit`)"; r_suggest := ""; r_report := "consider to change order in expression to $x != nil" |};
{| r_group := "yodaStyleExpr"; r_patterns := ["nil == $x"]; r_where := "!m[""x""].Node.Is(`BasicLit`)"; r_suggest := ""; r_report := "consider to change order in expression to $x == nil" |};
{| r_group := "equalFold"; r_patterns := ["strings.ToLower($x) == $y"; "strings.ToLower($x) == strings.ToLower($y)"; "$x == strings.ToLower($y)"; "strings.ToUpper($x) == $y"; "strings.ToUpper($x) == strings.ToUpper($y)"; "$x == strings.ToUpper($y)"]; r_where := "m[""x""].Pure && m[""y""].Pure && m[""x""].Text != m[""y""].Text"; r_suggest := "strings.EqualFold($x, $y)"; r_report := "consider replacing with strings.EqualFold($x, $y)" |};
{| r_group := "equalFold"; r_patterns := ["strings.ToLower($x) != $y"; "strings.ToLower($x) != strings.ToLower($y)"; "$x != strings.ToLower($y)"; "strings.ToUpper($x) != $y"; "strings.ToUpper($x) != strings.ToUpper($y)"; "$x != strings.ToUpper($y)"]; r_where := "m[""x""].Pure && m[""y""].Pure && m[""x""].Text != m[""y""].Text"; r_suggest := "!strings.EqualFold($x, $y)"; r_report := "consider replacing with !strings.EqualFold($x, $y)" |};
{| r_group := "equalFold"; r_patterns := ["bytes.Equal(bytes.ToLower($x), $y)"; "bytes.Equal(bytes.ToLower($x), bytes.ToLower($y))"; "bytes.Equal($x, bytes.ToLower($y))"; "bytes.Equal(bytes.ToUpper($x), $y)"; "bytes.Equal(bytes.ToUpper($x), bytes.ToUpper($y))"; "bytes.Equal($x, bytes.ToUpper($y))"]; r_where := "m[""x""].Pure && m[""y""].Pure && m[""x""].Text != m[""y""].Text"; r_suggest := "bytes.EqualFold($x, $y)"; r_report := "consider replacing with bytes.EqualFold($x, $y)" |};
{| r_group := "stringConcatSimplify"; r_patterns := ["strings.Join([]string{$x, $y}, """")"]; r_where := ""; r_suggest := "$x + $y"; r_report := "" |};
{| r_group := "stringConcatSimplify"; r_patterns := ["strings.Join([]string{$x, $y, $z}, """")"]; r_where := ""; r_suggest := "$x + $y + $z"; r_report := "" |};
{| r_group := "stringConcatSimplify"; r_patterns := ["strings.Join([]string{$x, $y}, $glue)"]; r_where := "m[""glue""].Pure"; r_suggest := "$x + $glue + $y"; r_report := "" |};
{| r_group := "timeExprSimplify"; r_patterns := ["$t.Unix() / 1000"]; r_where := "m.GoVersion().GreaterEqThan(""1.17"") && isTime(m[""t""])"; r_suggest := "$t.UnixMilli()"; r_report := "use $t.UnixMilli() instead of $$" |};
{| r_group := "timeExprSimplify"; r_patterns := ["$t.UnixNano() * 1000"]; r_where := "m.GoVersion().GreaterEqThan(""1.17"") && isTime(m[""t""])"; r_suggest := "$t.UnixMicro()"; r_report := "use $t.UnixMicro() instead of $$" |};
{| r_group := "stringsCompare"; r_patterns := ["strings.Compare($s1, $s2) == 0"]; r_where := ""; r_suggest := "$s1 == $s2"; r_report := "" |};
{| r_group := "stringsCompare"; r_patterns := ["strings.Compare($s1, $s2) == -1"; "strings.Compare($s1, $s2) < 0"]; r_where := ""; r_suggest := "$s1 < $s2"; r_report := "" |};
{| r_group := "stringsCompare"; r_patterns := ["strings.Compare($s1, $s2) == 1"; "strings.Compare($s1, $s2) > 0"]; r_where := ""; r_suggest := "$s1 > $s2"; r_report := "" |}
].

(* ---------- the expression-level rules as (pattern, filter, template) over Model_Expr ---------- *)
Definition lit0 : expr := ELit LInt "0" TInt.
Definition litm1 : expr := EUnary UNeg (ELit LInt "1" TInt).
Definition lit1 : expr := ELit LInt "1" TInt.
Definition lit1000 : expr := ELit LInt "1000" TInt.
Definition empty_str : expr := ELit LString """""" TString.
Definition call1 (p : prim) (x : expr) : expr := ECall (FPrim p) [x].
Definition call2 (p : prim) (x y : expr) : expr := ECall (FPrim p) [x; y].

Record rewrite := { rw_name : string; rw_lhs : expr; rw_rhs : expr }.

(* sloppyLen: len($x) <= 0  =>  len($x) == 0 *)
Definition rw_sloppy_len (x : expr) := {| rw_name := "sloppyLen"; rw_lhs := EBinary OLe (call1 PLen x) lit0; rw_rhs := EBinary OEq (call1 PLen x) lit0 |}.
(* emptyStringTest (filter: $s has type string) *)
Definition rw_empty_ne (s : expr) := {| rw_name := "emptyStringTest"; rw_lhs := EBinary ONe (call1 PLen s) lit0; rw_rhs := EBinary ONe s empty_str |}.
Definition rw_empty_gt (s : expr) := {| rw_name := "emptyStringTest"; rw_lhs := EBinary OGt (call1 PLen s) lit0; rw_rhs := EBinary ONe s empty_str |}.
Definition rw_empty_eq (s : expr) := {| rw_name := "emptyStringTest"; rw_lhs := EBinary OEq (call1 PLen s) lit0; rw_rhs := EBinary OEq s empty_str |}.
Definition rw_empty_le (s : expr) := {| rw_name := "emptyStringTest"; rw_lhs := EBinary OLe (call1 PLen s) lit0; rw_rhs := EBinary OEq s empty_str |}.
(* stringXbytes (filter: $b, $x, $y have type []byte) *)
Definition rw_xbytes_eq_empty (b : expr) := {| rw_name := "stringXbytes"; rw_lhs := EBinary OEq (call1 PStringOfBytes b) empty_str; rw_rhs := EBinary OEq (call1 PLen b) lit0 |}.
Definition rw_xbytes_ne_empty (b : expr) := {| rw_name := "stringXbytes"; rw_lhs := EBinary ONe (call1 PStringOfBytes b) empty_str; rw_rhs := EBinary ONe (call1 PLen b) lit0 |}.
Definition rw_xbytes_len (b : expr) := {| rw_name := "stringXbytes"; rw_lhs := call1 PLen (call1 PStringOfBytes b); rw_rhs := call1 PLen b |}.
Definition rw_xbytes_equal (x y : expr) := {| rw_name := "stringXbytes"; rw_lhs := EBinary OEq (call1 PStringOfBytes x) (call1 PStringOfBytes y); rw_rhs := call2 PBytesEqual x y |}.
Definition rw_xbytes_nequal (x y : expr) := {| rw_name := "stringXbytes"; rw_lhs := EBinary ONe (call1 PStringOfBytes x) (call1 PStringOfBytes y); rw_rhs := EUnary UNot (call2 PBytesEqual x y) |}.
(* wrapperFunc: strings.Index($s1, $s2) >= 0 | != -1  =>  strings.Contains($s1, $s2) *)
Definition rw_index_ge (s1 s2 : expr) := {| rw_name := "wrapperFunc"; rw_lhs := EBinary OGe (call2 PStrIndex s1 s2) lit0; rw_rhs := call2 PStrContains s1 s2 |}.
Definition rw_index_ne (s1 s2 : expr) := {| rw_name := "wrapperFunc"; rw_lhs := EBinary ONe (call2 PStrIndex s1 s2) litm1; rw_rhs := call2 PStrContains s1 s2 |}.
(* stringsCompare *)
Definition rw_compare (o : binop) (k : expr) (o' : binop) (s1 s2 : expr) :=
  {| rw_name := "stringsCompare"; rw_lhs := EBinary o (call2 PStrCompare s1 s2) k; rw_rhs := EBinary o' s1 s2 |}.
(* unslice: $s[:] => $s  (filter: string or slice type) *)
Definition rw_unslice (s : expr) := {| rw_name := "unslice"; rw_lhs := ESliceAll s; rw_rhs := s |}.
(* stringConcatSimplify: strings.Join([]string{$x, $y}, $glue) => $x + $glue + $y   (filter m["glue"].Pure since the fix; rw_join_glue below is the unfiltered pre-fix triple) *)
Definition rw_join_glue (x y g : expr) := {| rw_name := "stringConcatSimplify"; rw_lhs := ECall (FPrim PJoin2) [x; y; g]; rw_rhs := EBinary OAdd (EBinary OAdd x g) y |}.
(* timeExprSimplify (filter: $t is time.Time) *)
Definition rw_unix_milli (t : expr) := {| rw_name := "timeExprSimplify"; rw_lhs := EBinary OQuo (call1 PUnix t) lit1000; rw_rhs := call1 PUnixMilli t |}.
Definition rw_unix_micro (t : expr) := {| rw_name := "timeExprSimplify"; rw_lhs := EBinary OMul (call1 PUnixNano t) lit1000; rw_rhs := call1 PUnixMicro t |}.
(* offBy1's suggestion (not an equivalence claim: "maybe you wanted"): $x[len($x)] => $x[len($x)-1] *)
Definition rw_off_by1 (x : expr) := {| rw_name := "offBy1"; rw_lhs := EIndex x (call1 PLen x); rw_rhs := EIndex x (EBinary OSub (call1 PLen x) lit1) |}.

(* ---------- round 5: more rules whose semantics the fragment expresses ---------- *)
Definition call3 (p : prim) (x y z : expr) : expr := ECall (FPrim p) [x; y; z].
(* wrapperFunc: bytes.Index($b1, $b2) >= 0 | != -1  =>  bytes.Contains($b1, $b2) *)
Definition rw_bytes_index_ge (b1 b2 : expr) := {| rw_name := "wrapperFunc"; rw_lhs := EBinary OGe (call2 PBytesIndex b1 b2) lit0; rw_rhs := call2 PBytesContains b1 b2 |}.
Definition rw_bytes_index_ne (b1 b2 : expr) := {| rw_name := "wrapperFunc"; rw_lhs := EBinary ONe (call2 PBytesIndex b1 b2) litm1; rw_rhs := call2 PBytesContains b1 b2 |}.
(* wrapperFunc: strings.IndexAny($s1, $s2) >= 0 | != -1  =>  strings.ContainsAny($s1, $s2) *)
Definition rw_index_any_ge (s1 s2 : expr) := {| rw_name := "wrapperFunc"; rw_lhs := EBinary OGe (call2 PStrIndexAny s1 s2) lit0; rw_rhs := call2 PStrContainsAny s1 s2 |}.
Definition rw_index_any_ne (s1 s2 : expr) := {| rw_name := "wrapperFunc"; rw_lhs := EBinary ONe (call2 PStrIndexAny s1 s2) litm1; rw_rhs := call2 PStrContainsAny s1 s2 |}.
(* wrapperFunc (Report only): strings.Replace($_, $_, $_, -1) => strings.ReplaceAll; bytes.Replace likewise *)
Definition rw_replace_all (s o n : expr) := {| rw_name := "wrapperFunc"; rw_lhs := ECall (FPrim PStrReplace) [s; o; n; litm1]; rw_rhs := call3 PStrReplaceAll s o n |}.
Definition rw_bytes_replace_all (s o n : expr) := {| rw_name := "wrapperFunc"; rw_lhs := ECall (FPrim PBytesReplace) [s; o; n; litm1]; rw_rhs := call3 PBytesReplaceAll s o n |}.
(* stringConcatSimplify: strings.Join([]string{$x, $y}, "") => $x + $y;  three elements => $x + $y + $z *)
Definition rw_join2_empty (x y : expr) := {| rw_name := "stringConcatSimplify"; rw_lhs := ECall (FPrim PJoin2) [x; y; empty_str]; rw_rhs := EBinary OAdd x y |}.
Definition rw_join3_empty (x y z : expr) := {| rw_name := "stringConcatSimplify"; rw_lhs := ECall (FPrim PJoin3) [x; y; z; empty_str]; rw_rhs := EBinary OAdd (EBinary OAdd x y) z |}.
(* equalFold: strings.ToLower($x) == strings.ToLower($y) => strings.EqualFold($x, $y); and the one-sided pattern *)
Definition rw_equal_fold_both (x y : expr) := {| rw_name := "equalFold"; rw_lhs := EBinary OEq (call1 PStrToLower x) (call1 PStrToLower y); rw_rhs := call2 PStrEqualFold x y |}.
Definition rw_equal_fold_left (x y : expr) := {| rw_name := "equalFold"; rw_lhs := EBinary OEq (call1 PStrToLower x) y; rw_rhs := call2 PStrEqualFold x y |}.
(* the filter of the equalFold rules: both operands Pure, different source text *)
Definition equal_fold_filter (x y : expr) : bool := rg_pure x && rg_pure y && negb (expr_eqb x y).

(* yodaStyleExpr: $constval op $x => $x op $constval   (op is == or !=; filter: $constval is a BasicLit) *)
Definition rw_yoda (o : binop) (c x : expr) := {| rw_name := "yodaStyleExpr"; rw_lhs := EBinary o c x; rw_rhs := EBinary o x c |}.

(* ---------- newDeref (newDeref_checker.go + lintutil.ZeroValueOf): `*new(T)` => the zero value of T ----------
   The type enters as data: its source text, the arm of ZeroValueOf's type switch it falls into, and
   isDefaultLiteralType (bool, int, float64, string: the bare literal already has type T). *)
Inductive zclass := ZInt | ZFloat | ZString | ZBool | ZOtherBasic | ZNilable | ZComposite | ZOther.

(* [star]: the type expression is a pointer type *T, which go/printer parenthesises in call position *)
Definition zero_value_text_star (star : bool) (type_text : string) (c : zclass) (default_lit : bool) : option string :=
  let ft := if star then "(" ++ type_text ++ ")" else type_text in
  match c with
  | ZNilable => Some (ft ++ "(nil)")
  | _ => None
  end.

Definition zero_value_text (type_text : string) (c : zclass) (default_lit : bool) : option string :=
  let wrap zv := if default_lit then zv else type_text ++ "(" ++ zv ++ ")" in
  match c with
  | ZInt => Some (wrap "0")
  | ZFloat => Some (wrap "0.0")
  | ZString => Some (wrap """""")
  | ZBool => Some (wrap "false")
  | ZOtherBasic => None                       (* complex, unsafe.Pointer: no suggestion *)
  | ZNilable => Some (type_text ++ "(nil)")   (* slice, map, pointer, interface *)
  | ZComposite => Some (type_text ++ "{}")    (* array, struct *)
  | ZOther => None
  end.

Definition new_deref_msgs (cause_type_text type_text : string) (star : bool) (c : zclass) (default_lit : bool) : list string :=
  match (match c with ZNilable => zero_value_text_star star type_text c default_lit | _ => zero_value_text type_text c default_lit end) with
  | Some zv => ["replace `*new(" ++ cause_type_text ++ ")` with `" ++ zv ++ "`"]
  | None => []
  end.

(* the suggested literal for the default literal types of the fragment *)
Definition zero_lit (t : ty) : option expr :=
  match t with
  | TInt => Some (ELit LInt "0" TInt)
  | TFloat => Some (ELit LFloat "0.0" TFloat)
  | TString => Some (ELit LString """""" TString)
  | _ => None
  end.

(* ---------- unlambda (unlambda_checker.go): `func(x T) R { return C(x) }` => `C` ----------
   The function literal evaluates the callee expression C each time it is CALLED; the replacement evaluates
   it once, where the function value is DEFINED.  The callee forms and what evaluating them reads: *)
Inductive callee :=
| CPkgFunc (name : string)                          (* hi, strings.ToUpper: a declared function *)
| CFuncVar (x : string)                             (* a func-typed local or package variable *)
| CFuncField (o : string) (ptr : bool) (f : string) (* o.f with f a func-typed field; ptr: o is a pointer variable *)
| CMethod (r : string) (ptr : bool) (m : string).   (* method value r.m; ptr: r is a pointer variable *)

(* the part of the program state a callee expression can read *)
Record lstore := {
  fvar : string -> string;              (* the function a func-typed variable holds *)
  ffield : string -> string -> string;  (* variable, field -> the function the field holds *)
  rstate : string -> Z;                 (* the value of a struct variable *)
  rptr : string -> N                    (* the object a pointer variable points to *)
}.

(* a function value: the code, and what a method value binds (a COPY of a struct receiver, or the pointee) *)
Inductive fvalue := FPlain (fn : string) | FBoundCopy (m : string) (recv : Z) | FBoundPtr (m : string) (obj : N).

Definition callee_eval (st : lstore) (c : callee) : fvalue :=
  match c with
  | CPkgFunc n => FPlain n
  | CFuncVar x => FPlain (fvar st x)
  | CFuncField o _ f => FPlain (ffield st o f)
  | CMethod r false m => FBoundCopy m (rstate st r)
  | CMethod r true m => FBoundPtr m (rptr st r)
  end.

(* the rewrite is behaviour-preserving iff the callee denotes the same function value whenever it is evaluated *)
Definition callee_stable (c : callee) : Prop := forall st1 st2, callee_eval st1 c = callee_eval st2 c.

(* unlambdaChecker's hasVars test: an identifier inside result.Fun that is a *types.Var whose type is not a
   struct blocks the report (a func-typed field identifier is such a Var; a method name is not a Var) *)
Definition unlambda_flags (c : callee) : bool :=
  match c with
  | CPkgFunc _ => true
  | CFuncVar _ => false
  | CFuncField _ _ _ => false
  | CMethod _ ptr _ => negb ptr
  end.

(* The same table as the precompiled IR spells it (what the binary executes): identical except that the
   precompiler records the filter source with rules.go's local helper functions inlined; [ir_view] maps a
   source-level entry to its IR spelling. *)
Definition ir_where_of (w : string) : string := w.
Definition ir_view (r : rule) : rule :=
  {| r_group := r_group r; r_patterns := r_patterns r; r_where := ir_where_of (r_where r); r_suggest := r_suggest r;
     (* a rule with Suggest and no Report gets the report template "suggestion: <suggest>" *)
     r_report := match r_report r with EmptyString => "suggestion: " ++ r_suggest r | t => t end |}.

(* ---------- redundantSprint: fmt.Sprint($x) / Sprintf("%s"|"%v", $x) => $x.String() for a fmt.Stringer ----------
   What fmt prints for %v / %s (fmt/print.go handleMethods): a Formatter formats itself; otherwise an error
   prints Error(); otherwise a Stringer prints String(); otherwise the raw value.  An operand is described by
   the results of the methods it has. *)
Record fmt_operand := { fo_raw : string; fo_format : option string; fo_error : option string; fo_string : option string }.
Definition fmt_sprint (o : fmt_operand) : string :=
  match fo_format o with
  | Some f => f
  | None => match fo_error o with
            | Some e => e
            | None => match fo_string o with Some s => s | None => fo_raw o end
            end
  end.

(* deferUnlambda (rules.go): `defer func() { $f($*args) }()` => `defer $f($args)` with $f any identifier (or
   pkg.f) and constant arguments: the deferred literal evaluates $f when it RUNS, `defer $f()` when the defer
   statement is executed — the same callee question as for unlambda *)
Definition defer_unlambda_flags (c : callee) : bool :=
  match c with
  | CPkgFunc _ => true
  | CFuncVar _ => true       (* m["f"].Node.Is(`Ident`): a func-typed variable is an identifier too *)
  | _ => false
  end.

(* ---------- underef (underef_checker.go): dereference-then-index => `p[i]` for a pointer to an array ---------- *)
Definition rw_underef_index (p i : expr) := {| rw_name := "underef"; rw_lhs := EIndex (EParen (EDeref p)) i; rw_rhs := EIndex p i |}.
