(* Model_Stmt.v — a small statement fragment over Model_Expr for the statement-level rewrite rules of
   C10 (assignOp, switchTrue, valSwap): assignments to variables and to elements of []int variables,
   op-assignment, ++/--, parallel assignment of two operands, short variable declaration, sequencing
   and expression switches.  Go's assignment semantics: first the index operands on the left and the
   expressions on the right are evaluated in the usual order, then the assignments are carried out left
   to right.  `x op= y` is `x = x op (y)` with x's operands evaluated once.  No proofs here. *)
From GC Require Import Base Model_Expr Model_BoolSimp.
From Coq Require Import QArith.
Close Scope Q_scope.
Open Scope string_scope.

Inductive lval :=
| LVar (x : string) (t : ty)
| LIdx (x : string) (i : expr)             (* x[i], x a variable of type []int *)
(* round 5: the left operands the statement rules are applied to in real code *)
| LVarK (x : string) (k : vkind) (t : ty)  (* a variable of a defined type *)
| LIdxK (x : string) (k : vkind) (i : expr) (* x[i], x a variable of a defined []int type or of an array type *)
| LSel (x f : string) (k : vkind) (t : ty). (* x.f, x a pointer-to-struct variable *)

Definition lval_expr (l : lval) : expr :=
  match l with
  | LVar x t => EIdent x t
  | LIdx x i => EIndex (EIdent x TInts) i
  | LVarK x k t => EVarK x k t
  | LIdxK x k i => EIndex (EVarK x k TInts) i
  | LSel x f k t => ESel x f k t
  end.

Inductive stmt :=
| SAssign (l : lval) (e : expr)
| SAssignOp (l : lval) (o : binop) (e : expr)
| SIncDec (l : lval) (inc : bool)
| SAssign2 (l1 l2 : lval) (e1 e2 : expr)
| SDefine (x : string) (t : ty) (e : expr)
| SSeq (a b : stmt)
| SSwitch (tag : option expr) (cases : list (expr * stmt)) (dflt : stmt)
| SSkip.

Definition upd_var (en : env) (x : string) (t : ty) (v : value) : env :=
  {| vars := fun y u => if String.eqb y x && ty_eqb u t then v else vars en y u; funs := funs en; nilp := nilp en |}.

(* a left operand with its index evaluated *)
Inductive loc := LocVar (x : string) (t : ty) | LocIdx (x : string) (k : Z).

Definition eval_lval (en : env) (l : lval) (h : hist) : option (res loc * hist) :=
  match l with
  | LVar x t => Some (RVal (LocVar x t), h)
  | LIdx x i =>
      match evalS en i h with
      | Some (RVal (VInt k), h1) => Some (RVal (LocIdx x k), h1)
      | Some (RVal _, _) => None
      | Some (RPanic, h1) => Some (RPanic, h1)
      | None => None
      end
  | LVarK x _ t => Some (RVal (LocVar x t), h)
  | LIdxK x _ i =>
      match evalS en i h with
      | Some (RVal (VInt k), h1) => Some (RVal (LocIdx x k), h1)
      | Some (RVal _, _) => None
      | Some (RPanic, h1) => Some (RPanic, h1)
      | None => None
      end
  (* the implicit pointer indirection of the selector is an operand of the left side (phase one) *)
  | LSel x f _ t => if nilp en x then Some (RPanic, h) else Some (RVal (LocVar (x ++ "." ++ f) t), h)
  end.

Fixpoint set_nth (l : list Z) (i : nat) (v : Z) : option (list Z) :=
  match l, i with
  | [], _ => None
  | _ :: r, O => Some (v :: r)
  | a :: r, S i' => match set_nth r i' v with Some r' => Some (a :: r') | None => None end
  end.

Definition read_loc (en : env) (c : loc) : option (res value) :=
  match c with
  | LocVar x t => Some (RVal (vars en x t))
  | LocIdx x k =>
      match vars en x TInts with
      | VInts l => Some (if (k <? 0)%Z then RPanic else match nth_Z l (Z.to_nat k) with Some z => RVal (VInt z) | None => RPanic end)
      | _ => None
      end
  end.

Definition store_loc (en : env) (c : loc) (v : value) : option (res env) :=
  match c with
  | LocVar x t => if ty_eqb (vty v) t then Some (RVal (upd_var en x t v)) else None
  | LocIdx x k =>
      match vars en x TInts, v with
      | VInts l, VInt z =>
          Some (if (k <? 0)%Z then RPanic
                else match set_nth l (Z.to_nat k) z with
                     | Some l' => RVal (upd_var en x TInts (VInts l'))
                     | None => RPanic
                     end)
      | _, _ => None
      end
  end.

Definition SR := option (res env * hist).

Definition one_lit (t : ty) : expr := ELit LInt "1" t.

Fixpoint exec (en : env) (s : stmt) (h : hist) {struct s} : SR :=
  match s with
  | SSkip => Some (RVal en, h)
  | SSeq a b =>
      match exec en a h with
      | Some (RVal en1, h1) => exec en1 b h1
      | r => r
      end
  | SDefine x t e =>
      match evalS en e h with
      | Some (RVal v, h1) => if ty_eqb (vty v) t then Some (RVal (upd_var en x t v), h1) else None
      | Some (RPanic, h1) => Some (RPanic, h1)
      | None => None
      end
  | SAssign l e =>
      match eval_lval en l h with
      | Some (RVal c, h1) =>
          match evalS en e h1 with
          | Some (RVal v, h2) => match store_loc en c v with Some r => Some (r, h2) | None => None end
          | Some (RPanic, h2) => Some (RPanic, h2)
          | None => None
          end
      | Some (RPanic, h1) => Some (RPanic, h1)
      | None => None
      end
  | SAssignOp l o e =>
      match eval_lval en l h with
      | Some (RVal c, h1) =>
          match read_loc en c with
          | Some (RVal v0) =>
              match evalS en e h1 with
              | Some (RVal v, h2) =>
                  match binop_apply o v0 v with
                  | Some (RVal w) => match store_loc en c w with Some r => Some (r, h2) | None => None end
                  | Some RPanic => Some (RPanic, h2)
                  | None => None
                  end
              | Some (RPanic, h2) => Some (RPanic, h2)
              | None => None
              end
          | Some RPanic => Some (RPanic, h1)
          | None => None
          end
      | Some (RPanic, h1) => Some (RPanic, h1)
      | None => None
      end
  | SIncDec l inc =>
      (* x++ is x += 1 (the untyped constant takes x's type) *)
      match eval_lval en l h with
      | Some (RVal c, h1) =>
          match read_loc en c with
          | Some (RVal v0) =>
              match binop_apply (if inc then OAdd else OSub) v0 (match v0 with VFloat _ => VFloat (FFin (inject_Z 1)) | _ => VInt 1 end) with
              | Some (RVal w) => match store_loc en c w with Some r => Some (r, h1) | None => None end
              | Some RPanic => Some (RPanic, h1)
              | None => None
              end
          | Some RPanic => Some (RPanic, h1)
          | None => None
          end
      | Some (RPanic, h1) => Some (RPanic, h1)
      | None => None
      end
  | SAssign2 l1 l2 e1 e2 =>
      match eval_lval en l1 h with
      | Some (RVal c1, h1) =>
          match eval_lval en l2 h1 with
          | Some (RVal c2, h2) =>
              match evalS en e1 h2 with
              | Some (RVal v1, h3) =>
                  match evalS en e2 h3 with
                  | Some (RVal v2, h4) =>
                      match store_loc en c1 v1 with
                      | Some (RVal en1) => match store_loc en1 c2 v2 with Some r => Some (r, h4) | None => None end
                      | Some RPanic => Some (RPanic, h4)
                      | None => None
                      end
                  | Some (RPanic, h4) => Some (RPanic, h4)
                  | None => None
                  end
              | Some (RPanic, h3) => Some (RPanic, h3)
              | None => None
              end
          | Some (RPanic, h2) => Some (RPanic, h2)
          | None => None
          end
      | Some (RPanic, h1) => Some (RPanic, h1)
      | None => None
      end
  | SSwitch tag cases dflt =>
      let run_tagless :=
        (fix go (cs : list (expr * stmt)) (h0 : hist) {struct cs} : SR :=
           match cs with
           | [] => exec en dflt h0
           | (c, body) :: r =>
               match evalS en c h0 with
               | Some (RVal (VBool true), h1) => exec en body h1
               | Some (RVal (VBool false), h1) => go r h1
               | Some (RVal _, _) => None
               | Some (RPanic, h1) => Some (RPanic, h1)
               | None => None
               end
           end) in
      match tag with
      | None => run_tagless cases h
      | Some t =>
          match evalS en t h with
          | Some (RVal vt, h0) =>
              (fix go (cs : list (expr * stmt)) (h0 : hist) {struct cs} : SR :=
                 match cs with
                 | [] => exec en dflt h0
                 | (c, body) :: r =>
                     match evalS en c h0 with
                     | Some (RVal vc, h1) =>
                         match cmp_val OEq vt vc with
                         | Some true => exec en body h1
                         | Some false => go r h1
                         | None => None
                         end
                     | Some (RPanic, h1) => Some (RPanic, h1)
                     | None => None
                     end
                 end) cases h0
          | Some (RPanic, h0) => Some (RPanic, h0)
          | None => None
          end
      end
  end.

(* ---- the statement-level rules as (pattern, template) ---- *)
(* assignOp: $x = $x op $y  =>  $x op= $y   (filter: $x is Pure);  $x = $x + 1 => $x++ *)
Definition assign_op_lhs (l : lval) (o : binop) (e : expr) : stmt := SAssign l (EBinary o (lval_expr l) e).
Definition assign_op_rhs (l : lval) (o : binop) (e : expr) : stmt := SAssignOp l o e.
(* switchTrue: switch true { cases } => switch { cases } *)
Definition switch_true_lhs (t : expr) cases dflt : stmt := SSwitch (Some t) cases dflt.
Definition switch_true_rhs cases dflt : stmt := SSwitch None cases dflt.
(* valSwap: $tmp := $y; $y = $x; $x = $tmp  =>  $y, $x = $x, $y *)
Definition val_swap_lhs (tmp : string) (t : ty) (x y : lval) : stmt :=
  SSeq (SDefine tmp t (lval_expr y)) (SSeq (SAssign y (lval_expr x)) (SAssign x (EIdent tmp t))).
Definition val_swap_rhs (x y : lval) : stmt := SAssign2 y x (lval_expr x) (lval_expr y).

(* ================= the statement rules as the checkers decide them (round 5) =================
   assignOp (rules.go): the group's rules in source order, the first applicable one reports.  Patterns are
   matched syntactically ($x twice: astequal), the literal `1` by value; filter m["x"].Pure.  The message shows
   the source text of $$, $x, $y (compared modulo blanks with go/printer's rendering). *)
Definition assign_op_ops : list binop := [OAdd; OSub; OMul; OQuo; ORem; OAnd; OOr; OXor; OShl; OShr; OAndNot].
Definition is_one_lit (e : expr) : bool :=
  match e with
  | ELit LInt s _ => match go_int_lit s with Some 1%Z => true | _ => false end
  | _ => false
  end.
Definition assign_op_rewrite (s : stmt) : option stmt :=
  match s with
  | SAssign l (EBinary o x y) =>
      if expr_eqb (lval_expr l) x && rg_pure x && existsb (binop_eqb o) assign_op_ops then
        if is_one_lit y && binop_eqb o OAdd then Some (SIncDec l true)
        else if is_one_lit y && binop_eqb o OSub then Some (SIncDec l false)
        else Some (SAssignOp l o y)
      else None
  | _ => None
  end.
Definition print_stmt1 (s : stmt) : string :=
  match s with
  | SAssign l e => print_expr (lval_expr l) ++ " = " ++ print_expr e
  | SAssignOp l o e => print_expr (lval_expr l) ++ " " ++ binop_str o ++ "= " ++ print_expr e
  | SIncDec l inc => print_expr (lval_expr l) ++ (if inc then "++" else "--")
  | SAssign2 l1 l2 e1 e2 => print_expr (lval_expr l1) ++ ", " ++ print_expr (lval_expr l2) ++ " = " ++ print_expr e1 ++ ", " ++ print_expr e2
  | SDefine x _ e => x ++ " := " ++ print_expr e
  | _ => ""
  end.
Definition assign_op_msgs (s : stmt) : list string :=
  match assign_op_rewrite s with
  | Some s' => ["replace `" ++ print_stmt1 s ++ "` with `" ++ print_stmt1 s' ++ "`"]
  | None => []
  end.

(* valSwap: `$tmp := $y; $y = $x; $x = $tmp` anywhere in a statement list; filter m["x"].Pure && m["y"].Pure *)
Definition val_swap_rewrite (s1 s2 s3 : stmt) : option stmt :=
  match s1, s2, s3 with
  | SDefine tmp _ ey, SAssign ly ex, SAssign lx (EIdent tmp' _) =>
      if String.eqb tmp tmp' && expr_eqb ey (lval_expr ly) && expr_eqb ex (lval_expr lx) && rg_pure ex && rg_pure ey
      then Some (SAssign2 ly lx ex ey) else None
  | _, _, _ => None
  end.
Fixpoint val_swap_msgs (l : list stmt) : list string :=
  match l with
  | s1 :: ((s2 :: s3 :: _) as r) =>
      let here := match val_swap_rewrite s1 s2 s3 with
                  | Some s' => ["can re-write as `" ++ print_stmt1 s' ++ "`"]
                  | None => []
                  end in
      (here ++ val_swap_msgs r)%list
  | _ => []
  end.

(* switchTrue: `switch true { ... }` — the tag is an identifier SPELLED true *)
Definition spelled_true (e : expr) : bool :=
  match e with
  | EConst x _ | EIdent x _ | EVarK x _ _ => String.eqb x "true"
  | _ => false
  end.
Definition switch_true_rewrite (s : stmt) : option stmt :=
  match s with
  | SSwitch (Some t) cases dflt => if spelled_true t then Some (SSwitch None cases dflt) else None
  | _ => None
  end.
Definition switch_true_msgs (s : stmt) : list string :=
  match switch_true_rewrite s with Some _ => ["replace 'switch true {}' with 'switch {}'"] | None => [] end.
