(* Model_Select.v — transliteration of the three checker-selection routines.
   cmd/go-critic/check.go:187-263,337-350,384-385 (and its byte-identical twin cmd/gocritic),
   checkers/analyzer/run.go:138-223, docs/templates/checker_tr.partial.tmpl.
   No proofs here: the model must stay runnable when a proof breaks. *)
From GC Require Export Base.

Record checker := { cname : string; ctags : list string }.

Definition comma : ascii := ","%char.

(* parseKeys: "#tag" keys go to the tag set (without '#'), the others to the name set *)
Definition is_tag_key (k : string) : bool := has_prefix "#" k.
Definition keys_names (keys : list string) : list string :=
  filter (fun k => negb (is_tag_key k)) keys.
Definition keys_tags (keys : list string) : list string :=
  map (drop 1) (filter is_tag_key keys).

(* enabledByTag / disabledByTag closures *)
Definition enabled_by_tag (tagset : list string) (c : checker) : bool :=
  existsb (fun t => mem t tagset) (ctags c).
Fixpoint disabled_by_tag_aux (tagset : list string) (tags : list string) : string :=
  match tags with
  | [] => ""
  | t :: r => if mem t tagset then t else disabled_by_tag_aux tagset r
  end.
Definition disabled_by_tag (tagset : list string) (c : checker) : string :=
  disabled_by_tag_aux tagset (ctags c).

(* the switch of initCheckers / filterCheckersList, on already split key lists *)
Definition filter_selected (all : bool) (en dis : list string) (c : checker) : bool :=
  let enabled := all || mem (cname c) (keys_names en) || enabled_by_tag (keys_tags en) c in
  if negb enabled then false
  else if mem (cname c) (keys_names dis) then false
  else if negb (String.eqb (disabled_by_tag (keys_tags dis) c) "") then false
  else true.

(* ---- CLI (go-critic and gocritic) ---- *)
Definition optin_tags : list string := ["experimental"; "opinionated"; "performance"; "security"].
Definition no_optin (c : checker) : bool := negb (existsb (fun t => mem t optin_tags) (ctags c)).

(* bindDefaultEnabledList *)
Definition cli_default_enable (reg : list checker) : list string :=
  map cname (filter no_optin reg).

Record cli_flags := { cf_all : bool; cf_enable : option string; cf_disable : option string }.

(* strings.Split + strings.TrimSpace on every element: the CLIs' splitKeys and the analyzer's splitValues *)
Definition split_values (s : string) : list string := map trim_space (split_on comma s).

(* parseArgs: defaults, then splitKeys *)
Definition cli_enable_keys (reg : list checker) (f : cli_flags) : list string :=
  split_values (match cf_enable f with Some s => s | None => join_with comma (cli_default_enable reg) end).
Definition cli_disable_keys (f : cli_flags) : list string :=
  split_values (match cf_disable f with Some s => s | None => "" end).

Definition cli_selected (reg : list checker) (f : cli_flags) (c : checker) : bool :=
  filter_selected (cf_all f) (cli_enable_keys reg f) (cli_disable_keys f) c.

(* before the repair parseArgs used strings.Split only: blanks around an element were part of the key *)
Definition cli_enable_keys_prefix (reg : list checker) (f : cli_flags) : list string :=
  split_on comma (match cf_enable f with Some s => s | None => join_with comma (cli_default_enable reg) end).
Definition cli_disable_keys_prefix (f : cli_flags) : list string :=
  split_on comma (match cf_disable f with Some s => s | None => "" end).
Definition cli_selected_prefix (reg : list checker) (f : cli_flags) (c : checker) : bool :=
  filter_selected (cf_all f) (cli_enable_keys_prefix reg f) (cli_disable_keys_prefix f) c.

Inductive init_result :=
| InitOk (constructed : list checker)
| InitErrEmpty
| InitErrCtor (constructed : list checker) (failed : checker).

(* initCheckers: constructors are called in registry order for selected checkers only;
   the first constructor error aborts; an empty result is an error *)
Fixpoint cli_init_loop (ctor_ok : checker -> bool) (sel : checker -> bool)
         (reg : list checker) (acc : list checker) : init_result :=
  match reg with
  | [] => match acc with [] => InitErrEmpty | _ => InitOk (rev acc) end
  | c :: r =>
      if sel c then
        if ctor_ok c then cli_init_loop ctor_ok sel r (c :: acc)
        else InitErrCtor (rev acc) c
      else cli_init_loop ctor_ok sel r acc
  end.
Definition cli_init (ctor_ok : checker -> bool) (reg : list checker) (f : cli_flags) : init_result :=
  cli_init_loop ctor_ok (cli_selected reg f) reg [].

(* ---- analyzer ---- *)
Record an_flags := { af_all : bool; af_enable : option string; af_disable : option string }.
Definition an_default_enable : string := "#diagnostic,#style,#security".
Definition an_default_disable : string := "<default>".
Definition an_disable_arg (f : an_flags) : string :=
  let d := match af_disable f with Some s => s | None => an_default_disable end in
  if String.eqb d "<default>" then
    (if af_all f then "" else "#experimental,#opinionated,#performance")
  else d.
Definition an_selected (f : an_flags) (c : checker) : bool :=
  filter_selected (af_all f)
    (split_values (match af_enable f with Some s => s | None => an_default_enable end))
    (split_values (an_disable_arg f)) c.
Definition an_filter (f : an_flags) (reg : list checker) : list checker := filter (an_selected f) reg.

(* ---- documentation check-mark (checker_tr template) ---- *)
Definition docs_mark (c : checker) : bool :=
  negb (mem "experimental" (ctags c) || mem "opinionated" (ctags c) || mem "performance" (ctags c)).

(* ---- the property's sentence ---- *)
Definition spec_selected (all : bool) (en dis : list string) (c : checker) : bool :=
  (all || mem (cname c) en || existsb (fun t => mem ("#" ++ t) en) (ctags c))
  && negb (mem (cname c) dis)
  && negb (existsb (fun t => mem ("#" ++ t) dis) (ctags c)).

(* what registration guarantees (linter/helpers.go validIdentRE: ^\w+$ for names and tags) *)
Definition valid_ident (s : string) : bool :=
  negb (String.eqb s "") && negb (has_prefix "#" s) && negb (contains_char comma s)
  && String.eqb (trim_space s) s.
Definition valid_checker (c : checker) : bool :=
  valid_ident (cname c) && forallb valid_ident (ctags c).

(* tag discipline enforced by the suite's TestTags on the real registry *)
Definition has_category (c : checker) : bool :=
  mem "diagnostic" (ctags c) || mem "style" (ctags c) || mem "performance" (ctags c).
Definition suite_tags_ok (c : checker) : bool :=
  has_category c && negb (mem "security" (ctags c)).

(* observable used by the correspondence: indices (registry order) of selected checkers *)
Definition selected_idxs (sel : checker -> bool) (reg : list checker) : list N :=
  map fst (filter (fun p => sel (snd p)) (idxs_from 0%N reg)).
