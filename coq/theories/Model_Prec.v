(* Model_Prec.v — textual substitution of Suggest templates and operator precedence (property C09).
   ruleguard renders a Suggest template by replacing every $x with the SOURCE TEXT of the node $x matched
   and replaces the source text of the whole match by the result (checkers/ruleguard_checker.go:290-296).
   Whether the new text parses to the tree the rule author meant is a question of precedence only:
   this file models expression trees with placeholders, their token-level printing, Go's stratified
   expression grammar (binary levels 1..5, unary 6, primary 7) and the decidable condition
   "every child sits in a position that accepts its level".  No proofs here. *)
From GC Require Import Base.
Local Open Scope list_scope.

Inductive ex : Type :=
| EAtom (s : string)                              (* identifier, literal, opaque closed text: primary *)
| EHole (x : string)                              (* placeholder $x *)
| EParen (e : ex)
| EUn (op : string) (e : ex)                      (* -x !x ^x *x &x <-x *)
| EBin (p : nat) (op : string) (l r : ex)         (* p = Go's precedence 1..5 of op *)
| ESel (e : ex) (f : string)                      (* e.f *)
| EApp (h : ex) (opn cls : string) (kids : list ex) (* h(k,..)  h[k]  h[k:k]  h{k,..}  h.(k) : h primary, kids free *)
| ESeq (kids : list ex).                          (* statements, key:value pairs, anything whose parts sit in free positions *)

Inductive tok : Type := T (s : string) | H (x : string).

Fixpoint pp (e : ex) : list tok :=
  match e with
  | EAtom s => [T s]
  | EHole x => [H x]
  | EParen e => T "(" :: pp e ++ [T ")"]
  | EUn op e => T op :: pp e
  | EBin _ op l r => pp l ++ T op :: pp r
  | ESel e f => pp e ++ [T "."; T f]
  | EApp h o c ks =>
      pp h ++ T o :: (fix commas (ks : list ex) : list tok :=
                        match ks with
                        | [] => []
                        | k :: ks' => pp k ++ match ks' with [] => [] | _ => T "," :: commas ks' end
                        end) ks ++ [T c]
  | ESeq ks => (fix semis (ks : list ex) : list tok :=
                  match ks with [] => [] | k :: ks' => pp k ++ T ";" :: semis ks' end) ks
  end.

(* the same two list printers, named (used in statements) *)
Fixpoint commas (ks : list ex) : list tok :=
  match ks with
  | [] => []
  | k :: ks' => pp k ++ match ks' with [] => [] | _ => T "," :: commas ks' end
  end.
Fixpoint semis (ks : list ex) : list tok :=
  match ks with [] => [] | k :: ks' => pp k ++ T ";" :: semis ks' end.

(* assumed level of what a placeholder is bound to *)
Definition hl := string -> nat.

Definition level (g : hl) (e : ex) : nat :=
  match e with
  | EAtom _ | EParen _ | ESel _ _ | EApp _ _ _ _ => 7
  | EHole x => g x
  | EUn _ _ => 6
  | EBin p _ _ _ => p
  | ESeq _ => 0
  end.

(* well-precedenced: every child sits where the grammar accepts an expression of its level *)
Fixpoint wp (g : hl) (e : ex) : bool :=
  match e with
  | EAtom _ | EHole _ => true
  | EParen e => wp g e
  | EUn _ e => wp g e && (Nat.leb (6) (level g e))
  | EBin p _ l r => (Nat.leb (1) (p)) && (Nat.leb (p) (5)) && wp g l && wp g r && (Nat.leb (p) (level g l)) && (Nat.leb (S p) (level g r))
  | ESel e _ => wp g e && (Nat.leb (7) (level g e))
  | EApp h _ _ ks => wp g h && (Nat.leb (7) (level g h)) && forallb (wp g) ks
  | ESeq ks => forallb (wp g) ks
  end.

(* tree-level and token-level substitution *)
Definition sub := string -> option ex.

Fixpoint subst (s : sub) (e : ex) : ex :=
  match e with
  | EAtom a => EAtom a
  | EHole x => match s x with Some e' => e' | None => EHole x end
  | EParen e => EParen (subst s e)
  | EUn op e => EUn op (subst s e)
  | EBin p op l r => EBin p op (subst s l) (subst s r)
  | ESel e f => ESel (subst s e) f
  | EApp h o c ks => EApp (subst s h) o c (map (subst s) ks)
  | ESeq ks => ESeq (map (subst s) ks)
  end.

Definition tsubst1 (s : sub) (t : tok) : list tok :=
  match t with
  | T a => [T a]
  | H x => match s x with Some e => pp e | None => [H x] end
  end.
Definition tsubst (s : sub) (w : list tok) : list tok := flat_map (tsubst1 s) w.

(* Go's expression grammar for this fragment, stratified by level; [G g n w e]: the token list w can be
   read as the tree e where an expression of level >= n is expected. Placeholders stand for text of level g x. *)
Inductive G (g : hl) : nat -> list tok -> ex -> Prop :=
| G_atom a : G g 7 [T a] (EAtom a)
| G_hole x : G g (g x) [H x] (EHole x)
| G_paren w e : G g 0 w e -> G g 7 (T "(" :: w ++ [T ")"]) (EParen e)
| G_un op w e : G g 6 w e -> G g 6 (T op :: w) (EUn op e)
| G_bin p op wl l wr r : 1 <= p -> p <= 5 -> G g p wl l -> G g (S p) wr r -> G g p (wl ++ T op :: wr) (EBin p op l r)
| G_sel w e f : G g 7 w e -> G g 7 (w ++ [T "."; T f]) (ESel e f)
| G_app wh h o c wk ks : G g 7 wh h -> GC g wk ks -> G g 7 (wh ++ T o :: wk ++ [T c]) (EApp h o c ks)
| G_seq wk ks : GS g wk ks -> G g 0 wk (ESeq ks)
| G_weaken n m w e : G g n w e -> m <= n -> G g m w e
with GC (g : hl) : list tok -> list ex -> Prop :=
| GC_nil : GC g [] []
| GC_one w k : G g 0 w k -> GC g w [k]
| GC_cons w k w' k' ks : G g 0 w k -> GC g w' (k' :: ks) -> GC g (w ++ T "," :: w') (k :: k' :: ks)
with GS (g : hl) : list tok -> list ex -> Prop :=
| GS_nil : GS g [] []
| GS_cons w k w' ks : G g 0 w k -> GS g w' ks -> GS g (w ++ T ";" :: w') (k :: ks).

(* ---- the table of (pattern, template) pairs regenerated from the executed rule IR ---- *)

(* positions at which a placeholder occurs, with the level each position demands *)
Fixpoint needs (n : nat) (e : ex) : list (string * nat) :=
  match e with
  | EAtom _ => []
  | EHole x => [(x, n)]
  | EParen e => needs 0 e
  | EUn _ e => needs 6 e
  | EBin p _ l r => needs p l ++ needs (S p) r
  | ESel e _ => needs 7 e
  | EApp h _ _ ks => needs 7 h ++ flat_map (needs 0) ks
  | ESeq ks => flat_map (needs 0) ks
  end.

Fixpoint max_need (x : string) (l : list (string * nat)) : nat :=
  match l with
  | [] => 0
  | (y, n) :: r => if String.eqb x y then Nat.max n (max_need x r) else max_need x r
  end.

Fixpoint floor_of (x : string) (l : list (string * nat)) : nat :=
  match l with
  | [] => 0
  | (y, n) :: r => if String.eqb x y then n else floor_of x r
  end.

Record prec_entry := {
  pe_group : string; pe_line : Z;
  pe_pattern : string; pe_template : string;   (* the rule's own text, for identification *)
  pe_pat : ex;                        (* the rule's syntax pattern *)
  pe_tpl : ex;                        (* its Suggest template *)
  pe_floor : list (string * nat)      (* 4 for placeholders whose type is known not to be boolean: an expression of
                                         non-boolean type has no comparison or logical operator at its root *)
}.

(* what the match guarantees about the text bound to x: it was parsed at every position of x in the pattern *)
Definition guar (e : prec_entry) : hl :=
  fun x => Nat.max (max_need x (needs 0 (pe_pat e))) (floor_of x (pe_floor e)).

(* the fix is precedence-safe: the template accepts what the pattern guarantees, and the template as a whole is
   no looser than the pattern it replaces (so every context that accepted the match accepts the replacement) *)
Definition entry_ok (e : prec_entry) : bool :=
  wp (guar e) (pe_tpl e) && Nat.leb (level (guar e) (pe_pat e)) (level (guar e) (pe_tpl e)).

Definition holes_ok (e : prec_entry) : bool := wp (guar e) (pe_tpl e).
Definition context_ok (e : prec_entry) : bool := Nat.leb (level (guar e) (pe_pat e)) (level (guar e) (pe_tpl e)).
